import CircBuf.Word
import CircBuf.Generated.AddMod
import CircBuf.Lemmas.AddModSpec
