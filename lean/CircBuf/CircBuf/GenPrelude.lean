import CircBuf.Mem
/-!
  Prelude of the generated core (`Generated/Core.lean`, written by `/verif/translate/t3_core.py`):
  the slice algebra of Rust on views (offset, length) of the `items` array, with Rust's bounds checks.
-/
namespace CircBuf

/-- `&self.items[..]`: the whole backing array -/
@[reducible] def View.all (cap : Nat) : View := ⟨0, cap⟩

/-- `&v[a..b]`: panics unless `a ≤ b ≤ v.len()` -/
def View.sub (v : View) (a b : Nat) : Except Panic View :=
  if a ≤ b ∧ b ≤ v.len then .ok ⟨v.off + a, b - a⟩ else .error .oob

/-- `v.split_at(k)` / `v.split_at_mut(k)`: panics unless `k ≤ v.len()` -/
def View.splitAt (v : View) (k : Nat) : Except Panic (View × View) :=
  if k ≤ v.len then .ok (⟨v.off, k⟩, ⟨v.off + k, v.len - k⟩) else .error .oob

/-- `slice_take(&mut v, ..n)` of `iter.rs`: `None`, and `v` untouched, when `n > v.len()`; otherwise
the first `n` elements are returned and `v` keeps the rest.  (second component = `v` afterwards) -/
def View.takeTo (v : View) (n : Nat) : Option View × View :=
  if n > v.len then (none, v) else (some ⟨v.off, n⟩, ⟨v.off + n, v.len - n⟩)

/-- `slice_take(&mut v, n..)`: the elements from `n` on are returned and `v` keeps the first `n` -/
def View.takeFrom (v : View) (n : Nat) : Option View × View :=
  if n > v.len then (none, v) else (some ⟨v.off + n, v.len - n⟩, ⟨v.off, n⟩)

/-- `slice_take_first(&mut v)` of `iter.rs` (`split_first`): `None`, and `v` untouched, when `v` is empty;
otherwise the slot of the first element, and `v` keeps the rest.  (second component = `v` afterwards) -/
def View.takeFirst (v : View) : Option Nat × View :=
  if v.len > 0 then (some v.off, ⟨v.off + 1, v.len - 1⟩) else (none, v)

/-- `slice_take_last(&mut v)` (`split_last`) -/
def View.takeLast (v : View) : Option Nat × View :=
  if v.len > 0 then (some (v.off + v.len - 1), ⟨v.off, v.len - 1⟩) else (none, v)

end CircBuf
