import CircBuf.Mem
/-!
  Prelude of the generated core (`Generated/Core.lean`, written by `/verif/translate/t3_core.py`):
  the slice algebra of Rust on views (offset, length) of the `items` array, with Rust's bounds checks.
-/
namespace CircBuf

/-- `&self.items[..]`: the whole backing array -/
@[reducible] def View.all (cap : Nat) : View := ⟨0, cap⟩

/-- `&v[a..b]`: panics unless `a ≤ b ≤ v.len()` -/
def View.sub (v : View) (a b : Nat) : Except Panic View :=
  if a ≤ b ∧ b ≤ v.len then .ok ⟨v.off + a, b - a⟩ else .error .oob

/-- `v.split_at(k)` / `v.split_at_mut(k)`: panics unless `k ≤ v.len()` -/
def View.splitAt (v : View) (k : Nat) : Except Panic (View × View) :=
  if k ≤ v.len then .ok (⟨v.off, k⟩, ⟨v.off + k, v.len - k⟩) else .error .oob

end CircBuf
