import CircBuf.Model
/-!
  Line-protocol driver: one operation per input line, one trace line per operation
  (`ret|events|start size|window|allocs|ok`).  See /verif/PROTOCOL.md.
-/
namespace CircBuf.Driver
open CircBuf

def showElem (e : Elem) : String := s!"{e.id}:{e.val}"
def showOwned : Option Elem → String
  | none => "N"
  | some e => s!"S({showElem e})"

def showSlot (b : CB) (i : Nat) : String :=
  match b.items i with
  | some e => s!"{i}:{e.id}:{e.val}"
  | none => s!"{i}:U"

def showRef (b : CB) : Option Nat → String
  | none => "N"
  | some i => match b.items i with
    | some e => s!"S@{i}({showElem e})"
    | none => s!"S@{i}(U)"

def showView (b : CB) (v : View) : String :=
  "[" ++ " ".intercalate (v.slots.map (showSlot b)) ++ "]"

def showElems (l : List Elem) : String := "[" ++ " ".intercalate (l.map showElem) ++ "]"

def showPanic : Panic → String
  | .overflow => "P:overflow"
  | .divZero => "P:divzero"
  | .oob => "P:oob"
  | .ub => "P:ub"
  | .assert _ => "P:assert"
  | .user k => s!"P:{k}"
  | .doc k => s!"P:{k}"
  | .abort => "P:abort"

def showEvent : Event → String
  | .given i => s!"G{i}"
  | .cloned i s => s!"C{i}<{s}"
  | .dropped i => s!"D{i}"
  | .cmp a b => s!"Q{a}={b}"
  | .hashed i => s!"H{i}"
  | .fmt i => s!"F{i}"
  | .alloc => "A"

def windowOf (b : CB) : String :=
  if b.cap = 0 then "" else
  let slot := fun i => showSlot b ((b.start + i) % b.cap)
  if b.size ≤ 2048 then " ".intercalate ((List.range b.size).map slot)
  else " ".intercalate ((List.range 4).map slot ++ ["..."] ++
    (List.range 4).map (fun k => slot (b.size - 4 + k)))

def parseNat (s : String) : Option Nat := s.toNat?

def parseBound (s : String) : Option Bound :=
  if s = "u" then some .unb
  else if s.startsWith "i" then (s.drop 1).toNat?.map .incl
  else if s.startsWith "x" then (s.drop 1).toNat?.map .excl
  else none

/-- a brand-new element handed in by the caller -/
def newGiven (val : Nat) : M Elem := do
  let id ← fresh
  emit (.given id)
  let s ← getSys
  pure ⟨id, if s.kind = .zst then 0 else val⟩

/-- source elements of a slice / other buffer: ids are consumed, no event -/
def newSilent (val : Nat) : M Elem := do
  let id ← fresh
  let s ← getSys
  pure ⟨id, if s.kind = .zst then 0 else val⟩

def newSilentList : List Nat → M (List Elem)
  | [] => pure []
  | v :: vs => do
    let e ← newSilent v
    let es ← newSilentList vs
    pure (e :: es)

/-- build another buffer of capacity `cap` whose front position is `rot % cap` holding `vals`
(the harness builds it with `rot` push/pop pairs followed by pushes; ids are consumed alike) -/
def buildOther (cap rot : Nat) (vals : List Nat) : M CB := do
  let _ ← newSilentList (List.replicate rot 0)
  let es ← newSilentList vals
  let kept := es.drop (es.length - min es.length cap)
  let start := if cap = 0 then 0 else (rot + (es.length - kept.length)) % cap
  pure { cap := cap, size := kept.length, start := start,
         items := fun j => if cap = 0 then none else
           let k := (j + cap - start) % cap
           if k < kept.length then kept[k]? else none }

/-- write `val + 1000` through a mutable reference to slot `i` -/
def bump (i : Nat) : M Unit := do
  let b ← getBuf
  let s ← getSys
  match b.items i with
  | some e =>
    let v := match s.kind with
      | .tracked => e.val + 1000
      | .plain => e.val + 1000
      | .byte => (e.val + 1000) % 256
      | .zst => e.val
    setItems (setCell b.items i (some { e with val := v }))
  | none => pure ()

def bumpAll : List Nat → M Unit
  | [] => pure ()
  | i :: r => do bump i; bumpAll r

def fmtString (xs : List Elem) : String :=
  "[" ++ ",".intercalate (xs.map fun e => s!"T{e.id}:{e.val}") ++ "]"

/-- the element-level core of the crate, as the driver calls it: either the hand-written model
(`modelOps`, the definitions the theorems of `Props/` are about) or the definitions translated from
the Rust source on this run (`srcOps` in `DriverSrc.lean`, from `Generated/Core.lean`) -/
structure CoreOps where
  pushBack : Elem → M (Option Elem) := CircBuf.pushBack
  pushFront : Elem → M (Option Elem) := CircBuf.pushFront
  tryPushBack : Elem → M (Except Elem Unit) := CircBuf.tryPushBack
  tryPushFront : Elem → M (Except Elem Unit) := CircBuf.tryPushFront
  popBack : M (Option Elem) := CircBuf.popBack
  popFront : M (Option Elem) := CircBuf.popFront
  swap : Nat → Nat → M Unit := CircBuf.swap
  swapRemoveBack : Nat → M (Option Elem) := CircBuf.swapRemoveBack
  swapRemoveFront : Nat → M (Option Elem) := CircBuf.swapRemoveFront
  truncateBack : Nat → M Unit := CircBuf.truncateBack
  truncateFront : Nat → M Unit := CircBuf.truncateFront
  clear : M Unit := CircBuf.clear
  get : Nat → M (Option Nat) := CircBuf.get?
  nthBack : Nat → M (Option Nat) := CircBuf.nthBack?
  front : M (Option Nat) := CircBuf.front?
  back : M (Option Nat) := CircBuf.back?
  asSlices : M (View × View) := CircBuf.asSlices
  remove : Nat → M (Option Elem) := CircBuf.remove
  makeContiguous : M View := CircBuf.makeContiguous
  iterNew : M Iter := CircBuf.Iter.new
  iterOverRange : Bound → Bound → M Iter := CircBuf.Iter.overRange
  iterNext : Iter → M (Option Nat × Iter) := fun it => pure it.next
  iterNextBack : Iter → M (Option Nat × Iter) := fun it => pure it.nextBack
  iterLen : Iter → M Nat := CircBuf.Iter.len
  iterMutNew : M Iter := CircBuf.Iter.new
  iterMutOverRange : Bound → Bound → M Iter := CircBuf.Iter.overRange
  iterMutNext : Iter → M (Option Nat × Iter) := fun it => pure it.next
  iterMutNextBack : Iter → M (Option Nat × Iter) := fun it => pure it.nextBack
  iterMutLen : Iter → M Nat := CircBuf.Iter.len
  fillSpareWith : M Unit := CircBuf.fillSpareWith
  fillWith : M Unit := CircBuf.fillWith
  drainNew : Bound → Bound → M Drain := CircBuf.Drain.new
  drainNext : Drain → M (Option Elem × Drain) := CircBuf.Drain.next
  drainNextBack : Drain → M (Option Elem × Drain) := CircBuf.Drain.nextBack
  drainLen : Drain → M Nat := fun d => pure d.len
  drainAsSlices : Drain → M (View × View) := CircBuf.Drain.asSlices
  drainDrop : Drain → M Unit := CircBuf.Drain.drop

def modelOps : CoreOps := {}

/-- iterator scripts over `Iter` / `IterMut` -/
def runIterScript (o : CoreOps) (isMut : Bool) : List Char → Iter → List String → M (List String)
  | [], _, acc => pure acc.reverse
  | c :: cs, it, acc => do
    let b ← getBuf
    match c with
    | 'F' =>
      let (r, it') ← (if isMut then o.iterMutNext it else o.iterNext it)
      let tok := match r with
        | none => "F-"
        | some i => "F" ++ (showRef b (some i)).drop 1
      if isMut then (match r with | some i => bump i | none => pure ())
      runIterScript o isMut cs it' (tok :: acc)
    | 'B' =>
      let (r, it') ← (if isMut then o.iterMutNextBack it else o.iterNextBack it)
      let tok := match r with
        | none => "B-"
        | some i => "B" ++ (showRef b (some i)).drop 1
      if isMut then (match r with | some i => bump i | none => pure ())
      runIterScript o isMut cs it' (tok :: acc)
    | 'L' => do
      let n ← (if isMut then o.iterMutLen it else o.iterLen it)
      runIterScript o isMut cs it (s!"L{n}" :: acc)
    | 'C' =>
      let tok := "C[" ++ " ".intercalate (it.remaining.map (showSlot b)) ++ "]"
      runIterScript o isMut cs it (tok :: acc)
    | 'D' => do
      let xs ← readAll it.remaining
      xs.forM (fun e => emit (.fmt e.id))
      runIterScript o isMut cs it (("D" ++ fmtString xs) :: acc)
    | _ => runIterScript o isMut cs it ("?" :: acc)


def runDrainScript (o : CoreOps) : List Char → Drain → List String → M (Drain × List String)
  | [], d, acc => pure (d, acc.reverse)
  | c :: cs, d, acc => do
    match c with
    | 'F' =>
      let (r, d') ← o.drainNext d
      let tok := match r with | none => "F-" | some e => s!"F({showElem e})"
      runDrainScript o cs d' (tok :: acc)
    | 'B' =>
      let (r, d') ← o.drainNextBack d
      let tok := match r with | none => "B-" | some e => s!"B({showElem e})"
      runDrainScript o cs d' (tok :: acc)
    | 'L' => do
      let n ← o.drainLen d
      runDrainScript o cs d (s!"L{n}" :: acc)
    | 'D' => do
      let (r, l) ← o.drainAsSlices d
      let xs ← readAll (r.slots ++ l.slots)
      xs.forM (fun e => emit (.fmt e.id))
      runDrainScript o cs d (("D" ++ fmtString xs) :: acc)
    | _ => runDrainScript o cs d ("?" :: acc)

def runIntoIterScript : List Char → List String → M (List String)
  | [], acc => pure acc.reverse
  | c :: cs, acc => do
    match c with
    | 'F' =>
      let r ← popFront
      let tok := match r with | none => "F-" | some e => s!"F({showElem e})"
      runIntoIterScript cs (tok :: acc)
    | 'B' =>
      let r ← popBack
      let tok := match r with | none => "B-" | some e => s!"B({showElem e})"
      runIntoIterScript cs (tok :: acc)
    | 'L' => do
      let b ← getBuf
      runIntoIterScript cs (s!"L{b.size}" :: acc)
    | 'D' => do
      let xs ← fmtItems
      runIntoIterScript cs (("D" ++ fmtString xs) :: acc)
    | _ => runIntoIterScript cs ("?" :: acc)

def scriptOf (s : String) : List Char := if s = "-" then [] else s.toList

def junkFill : M Unit := do
  let b ← getBuf
  if b.cap = 0 then pure () else
  setItems (fun j =>
    if j < b.cap ∧ ¬ ((j + b.cap - b.start) % b.cap < b.size) then some ⟨900000 + j, 7⟩
    else b.items j)

def natList (l : List String) : Option (List Nat) := l.mapM parseNat

def showBool (b : Bool) : String := if b then "true" else "false"

def bad : M String := pure "bad-op"


/-- execute one operation (tokens without fault suffixes); returns the `ret` field -/
def runOp (o : CoreOps) (toks : List String) : M String := do
  match toks with
  | ["push_back", v] => match parseNat v with
    | some v => do let e ← newGiven v; let r ← o.pushBack e; pure (showOwned r)
    | none => bad
  | ["push_front", v] => match parseNat v with
    | some v => do let e ← newGiven v; let r ← o.pushFront e; pure (showOwned r)
    | none => bad
  | ["try_push_back", v] => match parseNat v with
    | some v => do
      let e ← newGiven v
      match ← o.tryPushBack e with
      | .ok _ => pure "Ok"
      | .error x => pure s!"Err({showElem x})"
    | none => bad
  | ["try_push_front", v] => match parseNat v with
    | some v => do
      let e ← newGiven v
      match ← o.tryPushFront e with
      | .ok _ => pure "Ok"
      | .error x => pure s!"Err({showElem x})"
    | none => bad
  | ["pop_back"] => do let r ← o.popBack; pure (showOwned r)
  | ["pop_front"] => do let r ← o.popFront; pure (showOwned r)
  | ["remove", i] => match parseNat i with
    | some i => do let r ← o.remove i; pure (showOwned r)
    | none => bad
  | ["swap", i, j] => match parseNat i, parseNat j with
    | some i, some j => do o.swap i j; pure "-"
    | _, _ => bad
  | ["swap_remove_back", i] => match parseNat i with
    | some i => do let r ← o.swapRemoveBack i; pure (showOwned r)
    | none => bad
  | ["swap_remove_front", i] => match parseNat i with
    | some i => do let r ← o.swapRemoveFront i; pure (showOwned r)
    | none => bad
  | ["truncate_back", n] => match parseNat n with
    | some n => do o.truncateBack n; pure "-"
    | none => bad
  | ["truncate_front", n] => match parseNat n with
    | some n => do o.truncateFront n; pure "-"
    | none => bad
  | ["clear"] => do o.clear; pure "-"
  | ["fill", v] => match parseNat v with
    | some v => do let e ← newGiven v; fill e; pure "-"
    | none => bad
  | ["fill_spare", v] => match parseNat v with
    | some v => do let e ← newGiven v; fillSpare e; pure "-"
    | none => bad
  | ["fill_with"] => do o.fillWith; pure "-"
  | ["fill_spare_with"] => do o.fillSpareWith; pure "-"
  | ["extend", m] => match parseNat m with
    | some m => do extendIter m; pure "-"
    | none => bad
  | ["extend_from_slice", m] => match parseNat m with
    | some m => do
      let src ← newSilentList ((List.range m).map (· + 70))
      extendFromSlice src; pure "-"
    | none => bad
  | ["make_contiguous"] => do
    let v ← o.makeContiguous
    let b ← getBuf
    pure (showView b v)
  | ["get", i] => match parseNat i with
    | some i => do let r ← o.get i; pure (showRef (← getBuf) r)
    | none => bad
  | ["nth_front", i] => match parseNat i with
    | some i => do let r ← nthFront? i; pure (showRef (← getBuf) r)
    | none => bad
  | ["nth_back", i] => match parseNat i with
    | some i => do let r ← o.nthBack i; pure (showRef (← getBuf) r)
    | none => bad
  | ["front"] => do let r ← o.front; pure (showRef (← getBuf) r)
  | ["back"] => do let r ← o.back; pure (showRef (← getBuf) r)
  | ["index", i] => match parseNat i with
    | some i => do let r ← index i; pure (showRef (← getBuf) (some r))
    | none => bad
  | ["get_mut", i] => match parseNat i with
    | some i => do
      let r ← o.get i; let s := showRef (← getBuf) r
      (match r with | some k => bump k | none => pure ()); pure s
    | none => bad
  | ["nth_front_mut", i] => match parseNat i with
    | some i => do
      let r ← nthFront? i; let s := showRef (← getBuf) r
      (match r with | some k => bump k | none => pure ()); pure s
    | none => bad
  | ["nth_back_mut", i] => match parseNat i with
    | some i => do
      let r ← o.nthBack i; let s := showRef (← getBuf) r
      (match r with | some k => bump k | none => pure ()); pure s
    | none => bad
  | ["front_mut"] => do
    let r ← o.front; let s := showRef (← getBuf) r
    (match r with | some k => bump k | none => pure ()); pure s
  | ["back_mut"] => do
    let r ← o.back; let s := showRef (← getBuf) r
    (match r with | some k => bump k | none => pure ()); pure s
  | ["index_mut", i] => match parseNat i with
    | some i => do
      let r ← index i; let s := showRef (← getBuf) (some r)
      bump r; pure s
    | none => bad
  | ["as_slices"] => do
    let (f, k) ← o.asSlices
    let b ← getBuf
    pure (showView b f ++ "/" ++ showView b k)
  | ["as_mut_slices"] => do
    let (f, k) ← o.asSlices
    let b ← getBuf
    let s := showView b f ++ "/" ++ showView b k
    bumpAll (f.slots ++ k.slots)
    pure s
  | ["iter", sc] => do
    let it ← o.iterNew
    let r ← runIterScript o false (scriptOf sc) it []
    pure (";".intercalate r)
  | ["iter_mut", sc] => do
    let it ← o.iterMutNew
    let r ← runIterScript o true (scriptOf sc) it []
    pure (";".intercalate r)
  | ["range", sb, eb, sc] => match parseBound sb, parseBound eb with
    | some sb, some eb => do
      let it ← o.iterOverRange sb eb
      let r ← runIterScript o false (scriptOf sc) it []
      pure (";".intercalate r)
    | _, _ => bad
  | ["range_mut", sb, eb, sc] => match parseBound sb, parseBound eb with
    | some sb, some eb => do
      let it ← o.iterMutOverRange sb eb
      let r ← runIterScript o true (scriptOf sc) it []
      pure (";".intercalate r)
    | _, _ => bad
  | ["iter_default"] => do
    let r ← runIterScript o false ['L', 'F', 'B'] Iter.empty []
    pure (";".intercalate r)
  | ["drain", sb, eb, sc, fin] => match parseBound sb, parseBound eb with
    | some sb, some eb => do
      let d ← o.drainNew sb eb
      let (d, r) ← runDrainScript o (scriptOf sc) d []
      if fin = "drop" then o.drainDrop d else pure ()
      pure (";".intercalate r)
    | _, _ => bad
  | ["into_iter", sc] => do
    let r ← attempt (runIntoIterScript (scriptOf sc) [])
    -- the owning iterator is dropped: the remaining elements are destroyed
    let b ← getBuf
    match r with
    | .ok toks => do
      tryFinally dropBuffer (setBuf (CB.new b.cap))
      pure (";".intercalate toks)
    | .error p => do
      let _ ← attempt dropBuffer
      setBuf (CB.new b.cap)
      raise p
  | ["clone"] => do
    let nb ← cloneBuf
    let s := s!"{nb.start} {nb.size} [{windowOf nb}]"
    -- drop the clone
    let old ← swapIn nb
    let r ← attempt dropBuffer
    let _ ← swapIn old
    match r with
    | .ok _ => pure s
    | .error p => raise p
  | "clone_from" :: rot :: vals => match parseNat rot, natList vals with
    | some rot, some vals => do
      let b ← getBuf
      let other ← buildOther b.cap rot vals
      let xs ← contentsOf other
      cloneFrom xs
      pure "-"
    | _, _ => bad
  | ["to_vec"] => do
    let v ← toVec
    let s := showElems v
    dropElems v
    pure s
  | "from_array" :: vals => match natList vals with
    | some vals => do
      let es ← vals.mapM newGiven
      let b ← getBuf
      onPanic (fromArray es) (setBuf (CB.new b.cap))
      pure "-"
    | none => bad
  | ["from_iter", m] => match parseNat m with
    | some m => do
      let b ← getBuf
      -- a panic unwinds through `from_iter`: the partially built buffer is destroyed and the
      -- caller keeps its `new()` buffer
      onPanic (fromIter m) (setBuf (CB.new b.cap))
      pure "-"
    | none => bad
  | "eq" :: cap :: rot :: vals => match parseNat cap, parseNat rot, natList vals with
    | some cap, some rot, some vals => do
      let other ← buildOther cap rot vals
      let r ← eqBuf other
      pure (showBool r)
    | _, _, _ => bad
  | "cmp" :: cap :: rot :: vals => match parseNat cap, parseNat rot, natList vals with
    | some cap, some rot, some vals => do
      let other ← buildOther cap rot vals
      let r ← cmpBuf other
      pure (if r < 0 then "L" else if r > 0 then "G" else "E")
    | _, _, _ => bad
  | "eq_slice" :: vals => match natList vals with
    | some vals => do
      let es ← newSilentList vals
      let r ← eqSlice es
      pure (showBool r)
    | none => bad
  | ["hash"] => do
    let w ← hashWords
    pure ("[" ++ " ".intercalate (w.map toString) ++ "]")
  | ["debug"] => do
    let xs ← fmtItems
    pure (fmtString xs)
  | ["write", m, v0] => match parseNat m, parseNat v0 with
    | some m, some v0 => do
      let src := (List.range m).map fun i => (⟨0, (v0 + i) % 256⟩ : Elem)
      let n ← ioWrite src
      pure (toString n)
    | _, _ => bad
  | ["read", k] => match parseNat k with
    | some k => do
      let (n, bytes) ← ioRead k
      pure (s!"{n}:[" ++ " ".intercalate (bytes.map fun e => toString e.val) ++ "]")
    | none => bad
  | ["fill_buf"] => do
    let v ← ioFillBuf
    pure (showView (← getBuf) v)
  | ["consume", k] => match parseNat k with
    | some k => do ioConsume k; pure "-"
    | none => bad
  | ["flush"] => pure "-"
  | ["extend_ref", m, v0] => match parseNat m, parseNat v0 with
    | some m, some v0 => do
      -- `Extend<&T> for T: Copy`: `push_back(*item)` for each item
      for i in List.range m do
        let r ← o.pushBack (⟨0, (v0 + i) % 256⟩ : Elem)
        dropOpt r
      pure "-"
    | _, _ => bad
  | ["default"] => do
    let b ← getBuf
    pure s!"0 0 true {b.cap}"
  | ["boxed"] => do
    let b ← getBuf
    let old ← swapIn (CB.new b.cap)
    boxed
    let nb ← swapIn old
    pure s!"{nb.start} {nb.size}"
  | ["add_mod", x, y, m] => match parseNat x, parseNat y, parseNat m with
    | some x, some y, some m => do let r ← liftE (addMod x y m); pure (toString r)
    | _, _, _ => bad
  | ["sub_mod", x, y, m] => match parseNat x, parseNat y, parseNat m with
    | some x, some y, some m => do let r ← liftE (subMod x y m); pure (toString r)
    | _, _, _ => bad
  | ["junk", _] => do junkFill; pure "-"
  | ["fill_all"] => do
    let b ← getBuf
    setBuf { cap := b.cap, size := b.cap, start := 0, items := fun _ => some ⟨0, 0⟩ }
    pure "-"
  | ["drop"] => do
    let b ← getBuf
    tryFinally dropBuffer (setBuf (CB.new b.cap))
    pure "-"
  | ["len"] => do
    let b ← getBuf
    pure s!"{b.size} {showBool (b.size == 0)} {showBool (b.size == b.cap)} {b.cap}"
  | _ => bad

def parseFault (f : Faults) (tok : String) : Option Faults :=
  match tok.splitOn "=" with
  | ["!drop", k] => k.toNat?.map fun k => { f with drop := k }
  | ["!clone", k] => k.toNat?.map fun k => { f with clone := k }
  | ["!call", k] => k.toNat?.map fun k => { f with call := k }
  | ["!next", k] => k.toNat?.map fun k => { f with next := k }
  | ["!eq", k] => k.toNat?.map fun k => { f with eq := k }
  | _ => none

def parseKind : String → Option Kind
  | "t" => some .tracked
  | "b" => some .byte
  | "z" => some .zst
  | "p" => some .plain
  | "u" => some .byte
  | _ => none

/-- one protocol step: new state and the output line -/
def stepLine (o : CoreOps) (s : Sys) (line : String) : Sys × String :=
  let toks := (line.trimAscii.toString.splitOn " ").filter (· ≠ "")
  match toks with
  | ["case", n, k] =>
    match n.toNat?, parseKind k with
    | some n, some k =>
      let s' : Sys := { buf := CB.new n, kind := k }
      (s', s!"-||0 0||0|ok")
    | _, _ => (s, "bad-op")
  | _ =>
    let opToks := toks.filter (fun t => !t.startsWith "!")
    let fToks := toks.filter (fun t => t.startsWith "!")
    match fToks.foldlM parseFault ({} : Faults) with
    | none => (s, "bad-op")
    | some faults =>
      let s0 : Sys := { s with log := [], faults := faults }
      let (r, s1) := runOp o opToks s0
      let ret := match r with
        | .ok str => str
        | .error p => showPanic p
      let evs := s1.log.reverse
      let nalloc := (evs.filter (· == .alloc)).length
      let evstr := " ".intercalate ((evs.filter (· != .alloc)).map showEvent)
      let b := s1.buf
      let s2 : Sys := { s1 with log := [], faults := {} }
      (s2, s!"{ret}|{evstr}|{b.start} {b.size}|{windowOf b}|{nalloc}|ok")

partial def loop (o : CoreOps) (h : IO.FS.Stream) (out : IO.FS.Stream) (s : Sys) : IO Unit := do
  let line ← h.getLine
  if line.isEmpty then return ()
  if line.trimAscii.toString.isEmpty then
    loop o h out s
  else
    let (s', ln) := stepLine o s line
    out.putStrLn ln
    loop o h out s'

end CircBuf.Driver
