import CircBuf.Mem
/-!
  The executable model: every function of `src/lib.rs`, `src/iter.rs`, `src/drain.rs`, `src/io.rs`
  transliterated into `M`, in source order, including the `N == 0` early returns, every
  `debug_assert!`, the order of field updates relative to user-code calls and the unwinding paths of
  the `Dropper` / `Guard` objects.  (`src/embedded_io.rs` has the same bodies as `src/io.rs`.)
-/
namespace CircBuf

/-- `CircularBuffer::new()` -/
def CB.new (cap : Nat) : CB := { cap := cap, size := 0, start := 0, items := fun _ => none }

/-! ## private helpers of `lib.rs` -/

/-- `as_slices` / `as_mut_slices` on an explicit buffer: `(front, back)` -/
def asSlicesOf (b : CB) : Except Panic (View × View) :=
  if b.cap = 0 ∨ b.size = 0 then .ok (View.empty, View.empty) else do
    dassertE (decide (b.start < b.cap)) "start out-of-bounds"
    dassertE (decide (b.size ≤ b.cap)) "size out-of-bounds"
    let start := b.start
    let «end» ← addMod b.start b.size b.cap
    if start < «end» then
      -- `&self.items[start..end]`
      if «end» ≤ b.cap then .ok (⟨start, «end» - start⟩, View.empty) else .error .oob
    else
      -- `self.items.split_at(start)`; `&back[..end]`
      if start ≤ b.cap ∧ «end» ≤ start then .ok (⟨start, b.cap - start⟩, ⟨0, «end»⟩) else .error .oob

def asSlices : M (View × View) := do
  let b ← getBuf
  liftE (asSlicesOf b)

/-- `slices_uninit_mut`: the free space as `(right, left)` -/
def slicesUninitMut : M (View × View) := do
  let b ← getBuf
  if b.cap = 0 then pure (View.empty, View.empty) else do
    dassert (decide (b.start < b.cap)) "start out-of-bounds"
    dassert (decide (b.size ≤ b.cap)) "size out-of-bounds"
    let start := b.start
    let «end» ← amod start b.size b.cap
    if «end» < start then
      checkRange «end» start b.cap
      pure (⟨«end», start - «end»⟩, View.empty)
    else
      -- `split_at_mut(end)`; `&mut left[..start]`
      checkRange start «end» b.cap
      pure (⟨«end», b.cap - «end»⟩, ⟨0, start⟩)

def incStart : M Unit := do
  let b ← getBuf
  dassert (decide (b.start < b.cap)) "start out-of-bounds"
  let s ← amod b.start 1 b.cap
  setStart s

def decStart : M Unit := do
  let b ← getBuf
  dassert (decide (b.start < b.cap)) "start out-of-bounds"
  let s ← smod b.start 1 b.cap
  setStart s

def incSize : M Unit := do
  let b ← getBuf
  dassert (decide (b.size ≤ b.cap)) "size out-of-bounds"
  dassert (decide (b.size < b.cap)) "size at capacity limit"
  let n ← liftE (uadd b.size 1)
  setSize n

def decSize : M Unit := do
  let b ← getBuf
  dassert (decide (b.size > 0)) "size is 0"
  let n ← liftE (usub b.size 1)
  setSize n

/-- slot of the front element (`front_maybe_uninit(_mut)`) -/
def frontSlot : M Nat := do
  let b ← getBuf
  dassert (decide (b.size > 0)) "empty buffer"
  dassert (decide (b.start < b.cap)) "start out-of-bounds"
  checkIdx b.start
  pure b.start

/-- slot of the back element (`back_maybe_uninit(_mut)`) -/
def backSlot : M Nat := do
  let b ← getBuf
  dassert (decide (b.size > 0)) "empty buffer"
  dassert (decide (b.size ≤ b.cap)) "size out-of-bounds"
  dassert (decide (b.start < b.cap)) "start out-of-bounds"
  let t ← liftE (usub b.size 1)
  let back ← amod b.start t b.cap
  checkIdx back
  pure back

/-- slot of the element at `index` (`get_maybe_uninit(_mut)`) -/
def getSlot (index : Nat) : M Nat := do
  let b ← getBuf
  dassert (decide (b.size > 0)) "empty buffer"
  dassert (decide (index < b.cap)) "index out-of-bounds"
  dassert (decide (b.start < b.cap)) "start out-of-bounds"
  let i ← amod b.start index b.cap
  checkIdx i
  pure i

/-- drop an `Option<T>` that a statement discards -/
def dropOpt : Option Elem → M Unit
  | none => pure ()
  | some e => dropElem e

/-- drop owned elements the way `drop_in_place` of a slice / `Vec` does -/
def dropElems : List Elem → M Unit
  | [] => pure ()
  | e :: rest => tryFinally (dropElem e) (dropElems rest)

/-- the two `Dropper` guards at the end of `drop_range`: the slots `[from, to)`, or — when that run
wraps — `[from, cap)` followed by `[0, to)`.  `_left` is declared first and `_right` second, so
`_right` is dropped first and `_left` runs even if a destructor in `_right` panics. -/
def dropSegments (dropFrom dropTo cap : Nat) : M Unit :=
  if dropFrom < dropTo then do
    checkRange dropFrom dropTo cap
    tryFinally (dropInPlace (List.range' dropFrom (dropTo - dropFrom))) (pure ())
  else do
    -- `split_at_mut(drop_from)`; `&mut left[..drop_to]`
    checkRange dropTo dropFrom cap
    tryFinally (dropInPlace (List.range' dropFrom (cap - dropFrom)))
      (dropInPlace (List.range' 0 dropTo))

/-- `drop_range(range)`: destroys the elements at logical positions `rs..re` (which must touch one
end of the buffer) **after** shrinking the buffer accordingly. -/
def dropRange (rs re : Nat) : M Unit := do
  if re ≤ rs then pure () else do
    let b ← getBuf
    dassert (decide (b.start < b.cap)) "start out-of-bounds"
    dassert (decide (b.size ≤ b.cap)) "size out-of-bounds"
    dassert (decide (rs < b.size)) "start of range out-of-bounds"
    dassert (decide (re ≤ b.size)) "end of range out-of-bounds"
    dassert (decide (rs < re)) "start of range is past its end"
    dassert (decide (rs = 0 ∨ re = b.size)) "range does not include boundary of the buffer"
    let dropFrom ← amod b.start rs b.cap
    let dropTo ← amod b.start re b.cap
    -- shrink first
    if re = b.size then
      setSize rs
    else do
      setStart dropTo
      let n ← liftE (usub b.size re)
      setSize n
    dropSegments dropFrom dropTo b.cap

/-! ## element access -/

/-- a shared or exclusive reference into the buffer: the slot it points at -/
def back? : M (Option Nat) := do
  let b ← getBuf
  if b.cap = 0 ∨ b.size = 0 then pure none else do
    let i ← backSlot
    let _ ← readInit i
    pure (some i)

def front? : M (Option Nat) := do
  let b ← getBuf
  if b.cap = 0 ∨ b.size = 0 then pure none else do
    let i ← frontSlot
    let _ ← readInit i
    pure (some i)

def get? (index : Nat) : M (Option Nat) := do
  let b ← getBuf
  if b.cap = 0 ∨ index ≥ b.size then pure none else do
    let i ← getSlot index
    let _ ← readInit i
    pure (some i)

def nthFront? (index : Nat) : M (Option Nat) := get? index

def nthBack? (index : Nat) : M (Option Nat) := do
  let b ← getBuf
  match checkedSub b.size index with
  | none => pure none
  | some t =>
    match checkedSub t 1 with
    | none => pure none
    | some i => get? i

/-- `Index::index` / `IndexMut::index_mut` -/
def index (i : Nat) : M Nat := do
  match ← get? i with
  | some s => pure s
  | none => raise (.doc "index")

/-! ## push / pop -/

def pushBack (item : Elem) : M (Option Elem) := do
  let b ← getBuf
  if b.cap = 0 then pure (some item)
  else if b.size ≥ b.cap then do
    let i ← frontSlot
    let old ← readInit i
    writeCell i item
    incStart
    pure (some old)
  else do
    incSize
    let i ← backSlot
    writeCell i item
    pure none

def tryPushBack (item : Elem) : M (Except Elem Unit) := do
  let b ← getBuf
  if b.cap = 0 then pure (.error item)
  else if b.size ≥ b.cap then pure (.error item)
  else do
    incSize
    let i ← backSlot
    writeCell i item
    pure (.ok ())

def pushFront (item : Elem) : M (Option Elem) := do
  let b ← getBuf
  if b.cap = 0 then pure (some item)
  else if b.size ≥ b.cap then do
    let i ← backSlot
    let old ← readInit i
    writeCell i item
    decStart
    pure (some old)
  else do
    incSize
    decStart
    let i ← frontSlot
    writeCell i item
    pure none

def tryPushFront (item : Elem) : M (Except Elem Unit) := do
  let b ← getBuf
  if b.cap = 0 then pure (.error item)
  else if b.size ≥ b.cap then pure (.error item)
  else do
    incSize
    decStart
    let i ← frontSlot
    writeCell i item
    pure (.ok ())

def popBack : M (Option Elem) := do
  let b ← getBuf
  if b.cap = 0 ∨ b.size = 0 then pure none else do
    let i ← backSlot
    let e ← readInit i
    decSize
    pure (some e)

def popFront : M (Option Elem) := do
  let b ← getBuf
  if b.cap = 0 ∨ b.size = 0 then pure none else do
    let i ← frontSlot
    let e ← readInit i
    decSize
    incStart
    pure (some e)

/-! ## remove / swap -/

def remove (index : Nat) : M (Option Elem) := do
  let b ← getBuf
  if b.cap = 0 ∨ index ≥ b.size then pure none else do
    let idx ← amod b.start index b.cap
    let t ← liftE (usub b.size 1)
    let backIdx ← amod b.start t b.cap
    let item ← readInit idx
    if backIdx ≥ idx then do
      let n ← liftE (usub backIdx idx)
      setItems (copy b.items (idx + 1) idx n)
    else do
      let n0 ← liftE (usub b.cap idx)
      let n1 ← liftE (usub n0 1)
      let last ← liftE (usub b.cap 1)
      let f1 := copy b.items (idx + 1) idx n1
      let f2 := copy f1 0 last 1
      let f3 := copy f2 1 0 backIdx
      setItems f3
    decSize
    pure (some item)

def swap (i j : Nat) : M Unit := do
  let b ← getBuf
  if i < b.size then pure () else raise (.doc "swap_i")
  if j < b.size then pure () else raise (.doc "swap_j")
  if i ≠ j then do
    let pi ← amod b.start i b.cap
    let pj ← amod b.start j b.cap
    checkIdx pi
    checkIdx pj
    setItems (swapCells b.items pi pj)
  else pure ()

def swapRemoveBack (index : Nat) : M (Option Elem) := do
  let b ← getBuf
  if index ≥ b.size then pure none else do
    let t ← liftE (usub b.size 1)
    swap index t
    popBack

def swapRemoveFront (index : Nat) : M (Option Elem) := do
  let b ← getBuf
  if index ≥ b.size then pure none else do
    swap index 0
    popFront

/-! ## truncate / clear -/

def truncateBack (len : Nat) : M Unit := do
  let b ← getBuf
  if b.cap = 0 ∨ len ≥ b.size then pure () else do
    dropRange len b.size
    let b' ← getBuf
    dassert (decide (b'.size = len))

def truncateFront (len : Nat) : M Unit := do
  let b ← getBuf
  if b.cap = 0 ∨ len ≥ b.size then pure () else do
    let dropLen ← liftE (usub b.size len)
    dropRange 0 dropLen
    let b' ← getBuf
    dassert (decide (b'.size = len))

def clear : M Unit := truncateBack 0

/-- `Drop for CircularBuffer` -/
def dropBuffer : M Unit := clear

/-! ## fill family -/

def fillSpareLoop : Nat → Elem → M Unit
  | 0, _ => do
    let b ← getBuf
    let n1 ← liftE (usub b.cap 1)
    if b.size < n1 then raise (.assert "fill_spare: fuel exhausted") else pure ()
  | fuel + 1, value => do
    let b ← getBuf
    let n1 ← liftE (usub b.cap 1)
    if b.size < n1 then do
      let c ← cloneElem value
      let r ← pushBack c
      dropOpt r
      fillSpareLoop fuel value
    else pure ()

/-- `fill_spare(value)`: `value` is owned by the callee, so it is destroyed on the early return and
when a `clone` panics. -/
def fillSpare (value : Elem) : M Unit := do
  let b ← getBuf
  if b.cap = 0 ∨ b.size = b.cap then dropElem value else do
    onPanic (fillSpareLoop (b.cap - b.size) value) (dropElem value)
    let r ← pushBack value
    dropOpt r

def fillSpareWithLoop : Nat → M Unit
  | 0 => do
    let b ← getBuf
    if b.size < b.cap then raise (.assert "fill_spare_with: fuel exhausted") else pure ()
  | fuel + 1 => do
    let b ← getBuf
    if b.size < b.cap then do
      let e ← produceElem "call"
      let r ← pushBack e
      dropOpt r
      fillSpareWithLoop fuel
    else pure ()

def fillSpareWith : M Unit := do
  let b ← getBuf
  if b.cap = 0 then pure () else fillSpareWithLoop (b.cap - b.size)

def fill (value : Elem) : M Unit := do
  onPanic clear (dropElem value)
  fillSpare value

def fillWith : M Unit := do
  clear
  fillSpareWith

/-! ## extend / extend_from_slice -/

/-- `write_uninit_slice_cloned` with its `Guard` (the `unstable` build calls
`write_clone_of_slice`, which has the same guard). -/
def writeClonedLoop (dst : View) : Nat → List Elem → M Unit
  | _, [] => pure ()
  | i, src :: rest => do
    let c ← onPanic (cloneElem src) (dropInPlace (List.range' dst.off i))
    if i < dst.len then pure () else raise .oob
    writeCell (dst.off + i) c
    writeClonedLoop dst (i + 1) rest

def writeCloned (dst : View) (src : List Elem) : M Unit := do
  dassert (decide (dst.len = src.length))
  writeClonedLoop dst 0 src

/-- the cloning part of `extend_from_slice`: clone `other` into the free space behind the
contents — first into the free segment that starts right behind the back element, then (if the
free space wraps around the array end) into the one at the start of the array.  The length is
committed after each segment, so that a panicking `clone` leaks nothing. -/
def cloneIntoFree (other : List Elem) : M Unit := do
  let (right, _) ← slicesUninitMut
  let writeLen := min right.len other.length
  writeCloned ⟨right.off, writeLen⟩ (other.take writeLen)
  let b1 ← getBuf
  let n1 ← liftE (uadd b1.size writeLen)
  setSize n1
  let other' := other.drop writeLen
  if other'.length ≠ 0 then do
    let (left, _) ← slicesUninitMut
    dassert (decide (left.len ≥ other'.length))
    writeCloned ⟨left.off, other'.length⟩ other'
    let b2 ← getBuf
    let n2 ← liftE (uadd b2.size other'.length)
    setSize n2
  else pure ()

def extendFromSlice (other : List Elem) : M Unit := do
  let b ← getBuf
  if b.cap = 0 then pure () else do
    dassert (decide (b.start < b.cap)) "start out-of-bounds"
    dassert (decide (b.size ≤ b.cap)) "size out-of-bounds"
    if other.length < b.cap then do
      let freeSize ← liftE (usub b.cap b.size)
      let finalSize ←
        if other.length < freeSize then liftE (uadd b.size other.length)
        else do
          let keep ← liftE (usub b.cap other.length)
          truncateFront keep
          pure b.cap
      cloneIntoFree other
      let b3 ← getBuf
      dassert (decide (b3.size = finalSize))
    else do
      clear
      setStart 0
      let other' := other.drop (other.length - b.cap)
      dassert (decide (b.cap = other'.length))
      writeCloned ⟨0, b.cap⟩ other'
      setSize b.cap

/-- `Extend<T>::extend(iter)` with an iterator that yields `m` brand-new elements and then `None`
(the `m+1`-th `next` call is user code too). -/
def extendIter : Nat → M Unit
  | 0 => fun s =>
    let (k, boom) := tick s.faults.next
    let s1 := { s with faults := { s.faults with next := k } }
    if boom then (.error (.user "next"), s1) else (.ok (), s1)
  | m + 1 => do
    let e ← produceElem "next"
    let r ← pushBack e
    dropOpt r
    extendIter m

/-- run `a` and reify its outcome -/
@[inline] def attempt (a : M α) : M (Except Panic α) := fun s =>
  match a s with
  | (.ok x, s') => (.ok (.ok x), s')
  | (.error p, s') => (.ok (.error p), s')

/-- exchange the buffer under the cursor (used to run buffer methods on a second buffer) -/
@[inline] def swapIn (nb : CB) : M CB := fun s => (.ok s.buf, { s with buf := nb })

/-- `FromIterator::from_iter` for an iterator of `m` new elements; the result replaces the buffer
under the cursor; on a panic the partially built buffer is dropped during unwinding. -/
def fromIter (m : Nat) : M Unit := do
  let b ← getBuf
  setBuf (CB.new b.cap)
  onPanic (extendIter m) dropBuffer

/-- `From<[T; M]>` -/
def fromArray (arr : List Elem) : M Unit := do
  let b ← getBuf
  let m := arr.length
  let size := if b.cap ≥ m then m else b.cap
  let skip ← liftE (usub m size)
  setBuf { cap := b.cap, size := size, start := 0,
           items := fun i => if i < size then arr[skip + i]? else none }
  onPanic (dropElems (arr.take skip)) dropBuffer

/-- the elements an `Iter` over the whole buffer visits, in order, with their slots -/
def iterSlots : M (List Nat) := do
  let (r, l) ← asSlices
  pure (r.slots ++ l.slots)

def readAll : List Nat → M (List Elem)
  | [] => pure []
  | i :: rest => do
    let e ← readInit i
    let es ← readAll rest
    pure (e :: es)

/-- push clones of `src` (in order) to the back of the buffer under the cursor -/
def extendCloned : List Elem → M Unit
  | [] => pure ()
  | e :: rest => do
    let c ← cloneElem e
    let r ← pushBack c
    dropOpt r
    extendCloned rest

/-- `Clone::clone`: returns the new buffer; the source (under the cursor) is only read -/
def cloneBuf : M CB := do
  let src ← getBuf
  let slots ← iterSlots
  let elems ← readAll slots
  let _ ← swapIn (CB.new src.cap)
  let r ← attempt (onPanic (extendCloned elems) dropBuffer)
  let nb ← swapIn src
  match r with
  | .ok _ => pure nb
  | .error p => raise p

/-- `Clone::clone_from(&mut self, other)`; `other`'s contents are passed as a list -/
def cloneFrom (other : List Elem) : M Unit := do
  clear
  extendCloned other

/-- `to_vec`: the clones, in order -/
def toVecLoop : List Elem → List Elem → M (List Elem)
  | acc, [] => pure acc.reverse
  | acc, e :: rest => do
    let c ← onPanic (cloneElem e) (dropElems acc.reverse)
    toVecLoop (c :: acc) rest

def toVec : M (List Elem) := do
  let b ← getBuf
  if b.size > 0 ∧ (← getSys).kind ≠ .zst then emit .alloc else pure ()
  let slots ← iterSlots
  let elems ← readAll slots
  let v ← toVecLoop [] elems
  dassert (decide (v.length = b.size))
  pure v

/-- `boxed()`: one allocation, an empty buffer -/
def boxed : M Unit := do
  let b ← getBuf
  emit .alloc
  setBuf (CB.new b.cap)

/-! ## make_contiguous -/

def makeContiguous : M View := do
  let b ← getBuf
  if b.cap = 0 ∨ b.size = 0 then pure View.empty else do
    dassert (decide (b.start < b.cap)) "start out-of-bounds"
    dassert (decide (b.size ≤ b.cap)) "size out-of-bounds"
    let start := b.start
    let room ← liftE (usub b.cap start)
    if b.size ≤ room then do
      let e ← liftE (uadd start b.size)
      checkRange start e b.cap
      pure ⟨start, b.size⟩
    else do
      setStart 0
      if start ≤ b.cap then pure () else raise .oob   -- `rotate_left` asserts `mid <= len`
      setItems (rotl b.items b.cap start)
      checkRange 0 b.size b.cap
      pure ⟨0, b.size⟩

/-! ## iterators (`iter.rs`) -/

inductive Bound where
  | incl (x : Nat)
  | excl (x : Nat)
  | unb
  deriving DecidableEq, Repr

/-- the start bound as an index (`Excluded(x)` = `x.checked_add(1).expect(..)`) -/
def Bound.startE : Bound → Except Panic Nat
  | .incl x => .ok x
  | .excl x => (match checkedAdd x 1 with
      | some v => .ok v
      | none => .error (.doc "range_start_overflow"))
  | .unb => .ok 0

/-- the end bound as an index (`Included(x)` = `x.checked_add(1).expect(..)`) -/
def Bound.endE (len : Nat) : Bound → Except Panic Nat
  | .incl x => (match checkedAdd x 1 with
      | some v => .ok v
      | none => .error (.doc "range_end_overflow"))
  | .excl x => .ok x
  | .unb => .ok len

def translateRange (sb eb : Bound) : M (Nat × Nat) := do
  let b ← getBuf
  let start ← liftE sb.startE
  let «end» ← liftE (eb.endE b.size)
  if «end» ≤ b.size then pure () else raise (.doc "range_end")
  if start ≤ «end» then pure () else raise (.doc "range_order")
  pure (start, «end»)

/-- `Iter` / `IterMut`: two sub-slices of the storage -/
structure Iter where
  right : View
  left : View
  deriving DecidableEq, Repr

def Iter.empty : Iter := ⟨View.empty, View.empty⟩

def Iter.new : M Iter := do
  let (r, l) ← asSlices
  pure ⟨r, l⟩

def Iter.advanceFrontBy (it : Iter) (count : Nat) : M Iter :=
  if it.right.len > count then
    -- `slice_take(&mut self.right, ..count)`
    pure { it with right := ⟨it.right.off + count, it.right.len - count⟩ }
  else do
    let takeLeft ← liftE (usub count it.right.len)
    dassert (decide (takeLeft ≤ it.left.len)) "attempted to advance past the back of the buffer"
    -- `slice_take(&mut self.left, ..take_left)` leaves the slice alone when out of range
    let left := if takeLeft > it.left.len then it.left
                else ⟨it.left.off + takeLeft, it.left.len - takeLeft⟩
    pure { right := View.empty, left := left }

def Iter.advanceBackBy (it : Iter) (count : Nat) : M Iter :=
  if it.left.len > count then do
    let takeLeft ← liftE (usub it.left.len count)
    -- `slice_take(&mut self.left, take_left..)`
    pure { it with left := ⟨it.left.off, takeLeft⟩ }
  else do
    let t ← liftE (usub count it.left.len)
    let takeRight ← liftE (usub it.right.len t)
    dassert (decide (takeRight ≤ it.right.len)) "attempted to advance past the front of the buffer"
    pure { right := ⟨it.right.off, takeRight⟩, left := View.empty }

def Iter.overRange (sb eb : Bound) : M Iter := do
  let (start, «end») ← translateRange sb eb
  if start ≥ «end» then pure Iter.empty else do
    let b ← getBuf
    let len := b.size
    let it ← Iter.new
    let it ← it.advanceFrontBy start
    let back ← liftE (usub len «end»)
    it.advanceBackBy back

/-- `next`: the slot of the yielded element -/
def Iter.next (it : Iter) : Option Nat × Iter :=
  if it.right.len > 0 then
    (some it.right.off, { it with right := ⟨it.right.off + 1, it.right.len - 1⟩ })
  else if it.left.len > 0 then
    (some it.left.off, { it with left := ⟨it.left.off + 1, it.left.len - 1⟩ })
  else (none, it)

def Iter.nextBack (it : Iter) : Option Nat × Iter :=
  if it.left.len > 0 then
    (some (it.left.off + it.left.len - 1), { it with left := ⟨it.left.off, it.left.len - 1⟩ })
  else if it.right.len > 0 then
    (some (it.right.off + it.right.len - 1), { it with right := ⟨it.right.off, it.right.len - 1⟩ })
  else (none, it)

def Iter.len (it : Iter) : M Nat := liftE (uadd it.right.len it.left.len)

/-- the slots an iterator has still to produce, front to back -/
def Iter.remaining (it : Iter) : List Nat := it.right.slots ++ it.left.slots

/-! ## drain (`drain.rs`) -/

structure Drain where
  bufSize : Nat
  rs : Nat
  re : Nat
  is : Nat
  ie : Nat
  deriving DecidableEq, Repr

/-- `self.iter.next()` (`Range<usize>::next` on the field `iter`): the index produced, if any, and the
drain afterwards.  A primitive of the translated code (`Generated/Core.lean`). -/
def Drain.stepFront (d : Drain) : Option Nat × Drain :=
  if d.is < d.ie then (some d.is, { d with is := d.is + 1 }) else (none, d)

/-- `self.iter.next_back()` -/
def Drain.stepBack (d : Drain) : Option Nat × Drain :=
  if d.is < d.ie then (some (d.ie - 1), { d with ie := d.ie - 1 }) else (none, d)

def Drain.new (sb eb : Bound) : M Drain := do
  let (s, e) ← translateRange sb eb
  let b ← getBuf
  setSize 0
  pure ⟨b.size, s, e, s, e⟩

def Drain.read (d : Drain) (index : Nat) : M Elem := do
  let b ← getBuf
  dassert (decide (index < b.cap ∧ index < d.bufSize)) "index out-of-bounds for buffer"
  dassert (decide (index ≥ d.rs ∧ index < d.re)) "index out-of-bounds for drain range"
  dassert (decide (index < d.is ∨ index ≥ d.ie))
    "attempt to read an item that may be returned by the iterator"
  let i ← amod b.start index b.cap
  readInit i

def Drain.next (d : Drain) : M (Option Elem × Drain) :=
  if d.is < d.ie then do
    let d' := { d with is := d.is + 1 }
    let e ← d'.read d.is
    pure (some e, d')
  else pure (none, d)

def Drain.nextBack (d : Drain) : M (Option Elem × Drain) :=
  if d.is < d.ie then do
    let d' := { d with ie := d.ie - 1 }
    let e ← d'.read (d.ie - 1)
    pure (some e, d')
  else pure (none, d)

def Drain.len (d : Drain) : Nat := d.ie - d.is

/-- `Drain::as_slices` / `as_mut_slices`: the not-yet-yielded part as `(right, left)` -/
def Drain.asSlices (d : Drain) : M (View × View) := do
  let b ← getBuf
  if b.cap = 0 ∨ d.bufSize = 0 ∨ ¬ (d.is < d.ie) then pure (View.empty, View.empty) else do
    dassert (decide (b.start < b.cap)) "start out-of-bounds"
    dassert (decide (d.bufSize ≤ b.cap)) "size out-of-bounds"
    let start ← amod b.start d.is b.cap
    let «end» ← amod b.start d.ie b.cap
    if start < «end» then do
      checkRange start «end» b.cap
      pure (⟨start, «end» - start⟩, View.empty)
    else do
      -- `split_at(end)`; `&right[start - end..]`
      checkRange «end» «end» b.cap
      let off ← liftE (usub start «end»)
      checkRange off (b.cap - «end») (b.cap - «end»)
      pure (⟨start, b.cap - start⟩, ⟨0, «end»⟩)

/-- `CircularSlicePtr` -/
structure CSP where
  sliceLen : Nat
  offset : Nat
  deriving DecidableEq, Repr

def CSP.add (p : CSP) (inc : Nat) : M CSP := do
  dassert (decide (p.offset < p.sliceLen))
  dassert (decide (inc ≤ p.sliceLen))
  let o ← amod p.offset inc p.sliceLen
  pure { p with offset := o }

def CSP.availableLen (p : CSP) : M Nat := do
  dassert (decide (p.offset < p.sliceLen))
  liftE (usub p.sliceLen p.offset)

def CSP.ptr (p : CSP) : M Nat := do
  dassert (decide (p.offset < p.sliceLen))
  pure p.offset

/-- the back-fill loop of `Drain::drop`.  The fuel is `remaining + 1`: every iteration moves at
least one element (`backfill_fuel_suffices`); `backfill_le_three` bounds the iterations by 3. -/
def backfillLoop : Nat → CSP → CSP → Nat → M Unit
  | 0, _, _, remaining =>
    if remaining > 0 then raise (.assert "Drain::drop: fuel exhausted") else pure ()
  | fuel + 1, hole, backfill, remaining =>
    if remaining > 0 then do
      let ah ← hole.availableLen
      let ab ← backfill.availableLen
      let copyLen := min (min ah ab) remaining
      let src ← backfill.ptr
      let dst ← hole.ptr
      let b ← getBuf
      setItems (copy b.items src dst copyLen)
      let hole ← hole.add copyLen
      let backfill ← backfill.add copyLen
      let remaining ← liftE (usub remaining copyLen)
      backfillLoop fuel hole backfill remaining
    else pure ()

/-- one iteration of the back-fill loop on the loop state `(backfill, hole, remaining)` -/
def backfillStep (x : CSP × CSP × Nat) : M (CSP × CSP × Nat) := do
  let ah ← x.2.1.availableLen
  let ab ← x.1.availableLen
  let copyLen := min (min ah ab) x.2.2
  let src ← x.1.ptr
  let dst ← x.2.1.ptr
  let b ← getBuf
  setItems (copy b.items src dst copyLen)
  let hole ← x.2.1.add copyLen
  let backfill ← x.1.add copyLen
  let remaining ← liftE (usub x.2.2 copyLen)
  pure (backfill, hole, remaining)

/-- `Drop for Drain` -/
def Drain.drop (d : Drain) : M Unit := do
  let (right, left) ← d.asSlices
  -- `drop(right); drop(left)`: if `right` panics, `left` is dropped while unwinding
  tryFinally (dropInPlace right.slots) (dropInPlace left.slots)
  let b ← getBuf
  if b.cap = 0 then pure () else do
    let remaining ← liftE (usub d.bufSize d.re)
    let items ← (CSP.mk b.cap 0).add b.start
    let hole ← items.add d.rs
    let backfill ← items.add d.re
    backfillLoop (remaining + 1) hole backfill remaining
    let rangeLen := d.re - d.rs     -- `Range::len` (saturating)
    let n ← liftE (usub d.bufSize rangeLen)
    setSize n

/-! ## comparison, hashing, formatting -/

/-- one element comparison (`PartialEq::eq` of the element type: user code, may panic once) -/
def eqOne (x y : Elem) : M Bool := fun s =>
  let (k, boom) := tick s.faults.eq
  let s1 := { s with faults := { s.faults with eq := k } }
  let s2 := if s.kind = .byte then s1 else { s1 with log := .cmp x.id y.id :: s1.log }
  if boom then (.error (.user "eq"), s2) else (.ok (decide (x.val = y.val)), s2)

/-- `[T] == [U]` element-wise, in order, stopping at the first difference -/
def eqElems : List Elem → List Elem → M Bool
  | [], [] => pure true
  | [], _ :: _ => pure false
  | _ :: _, [] => pure false
  | x :: xs, y :: ys => do
    if ← eqOne x y then eqElems xs ys else pure false

def viewElems (b : CB) (v : View) : List Elem := v.slots.filterMap b.items

/-- `PartialEq<CircularBuffer<M, U>> for CircularBuffer<N, T>` (`self` under the cursor) -/
def eqBuf (other : CB) : M Bool := do
  let a ← getBuf
  if a.size ≠ other.size then pure false else do
    let (al, ar) ← liftE (asSlicesOf a)
    let (bl, br) ← liftE (asSlicesOf other)
    let aL := viewElems a al; let aR := viewElems a ar
    let bL := viewElems other bl; let bR := viewElems other br
    if al.len < bl.len then do
      let x := al.len
      let y ← liftE (usub bl.len x)
      if y ≤ ar.len then pure () else raise .oob
      if !(← eqElems aL (bL.take x)) then pure false
      else if !(← eqElems (aR.take y) (bL.drop x)) then pure false
      else eqElems (aR.drop y) bR
    else if al.len > bl.len then do
      let x := bl.len
      let y ← liftE (usub al.len x)
      if y ≤ br.len then pure () else raise .oob
      if !(← eqElems (aL.take x) bL) then pure false
      else if !(← eqElems (aL.drop x) (bR.take y)) then pure false
      else eqElems aR (bR.drop y)
    else do
      dassert (decide (ar.len = br.len))
      if !(← eqElems aL bL) then pure false else eqElems aR bR

/-- `PartialEq<[U]>` -/
def eqSlice (other : List Elem) : M Bool := do
  let a ← getBuf
  if a.size ≠ other.length then pure false else do
    let (al, ar) ← liftE (asSlicesOf a)
    -- `other.split_at(a_left.len())`
    if al.len ≤ other.length then pure () else raise .oob
    let bL := other.take al.len; let bR := other.drop al.len
    dassert (decide (ar.len = bR.length))
    if !(← eqElems (viewElems a al) bL) then pure false else eqElems (viewElems a ar) bR

/-- `Iterator::partial_cmp` / `cmp` over the elements: -1, 0, 1 -/
def cmpElems : List Elem → List Elem → M Int
  | [], [] => pure 0
  | [], _ :: _ => pure (-1)
  | _ :: _, [] => pure 1
  | x :: xs, y :: ys => do
    emit (.cmp x.id y.id)
    if x.val < y.val then pure (-1)
    else if x.val > y.val then pure 1
    else cmpElems xs ys

def contents : M (List Elem) := do
  let slots ← iterSlots
  readAll slots

def contentsOf (b : CB) : M (List Elem) := do
  let old ← swapIn b
  let r ← attempt contents
  let _ ← swapIn old
  match r with
  | .ok l => pure l
  | .error p => raise p

def cmpBuf (other : CB) : M Int := do
  let xs ← contents
  let ys ← contentsOf other
  cmpElems xs ys

/-- `Hash`: the words fed to the hasher -/
def hashWords : M (List Nat) := do
  let b ← getBuf
  let xs ← contents
  xs.forM (fun e => emit (.hashed e.id))
  pure (b.size :: xs.map (·.val))

/-- `Debug`: the entries of the `debug_list` -/
def fmtItems : M (List Elem) := do
  let xs ← contents
  xs.forM (fun e => emit (.fmt e.id))
  pure xs

/-! ## `std::io` / `embedded-io` on byte buffers -/

def ioWrite (src : List Elem) : M Nat := do
  extendFromSlice src
  pure src.length

/-- `Read::read` into a destination of `dstLen` bytes: `(count, bytes copied)` -/
def ioRead (dstLen : Nat) : M (Nat × List Elem) := do
  let b ← getBuf
  let (front, back) ← asSlices
  -- `<&[u8] as Read>::read`
  let c1 := min dstLen front.len
  let bytes1 := (viewElems b front).take c1
  let count := c1
  -- `&mut dst[count..]`
  if count ≤ dstLen then pure () else raise .oob
  let c2 := min (dstLen - count) back.len
  let bytes2 := (viewElems b back).take c2
  let count ← liftE (uadd count c2)
  let keep ← liftE (usub b.size count)
  truncateFront keep
  pure (count, bytes1 ++ bytes2)

def ioFillBuf : M View := do
  let (front, back) ← asSlices
  if front.len ≠ 0 then pure front else pure back

def ioConsume (amt : Nat) : M Unit := do
  let b ← getBuf
  let amt := min amt b.size
  let d ← Drain.new .unb (.excl amt)
  d.drop

end CircBuf
