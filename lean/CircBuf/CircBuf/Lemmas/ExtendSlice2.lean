import CircBuf.Lemmas.ExtendSlice
set_option linter.unusedSimpArgs false
set_option linter.unusedVariables false
/-! `extend_from_slice`: the three shapes (fits; overwrites part of the front; overwrites everything). -/
namespace CircBuf

theorem checkSize_runs (s : Sys) (n : Nat) (h : Inv s.buf) (hn : (abs s.buf).length = n) :
    Runs (do let b3 ← getBuf; dassert (decide (b3.size = n))) s () (abs s.buf) [] 0 := by
  have := abs_length s.buf h
  refine ⟨s, ?_, ⟨h, rfl, rfl, rfl, rfl, rfl, rfl⟩⟩
  mrun []

/-- the slice fits behind the contents -/
theorem extendFromSlice_fits (s : Sys) (other : List Elem) (h : Inv s.buf) (hc : 0 < s.buf.cap)
    (hcl : s.faults.clone = 0) (hm : other.length < s.buf.cap - s.buf.size) :
    Runs (extendFromSlice other) s () (abs s.buf ++ cloneList s.kind s.next other)
      (cloneLog s.kind s.next other) (cloneCount s.kind other.length) := by
  have hsz := h.size_le
  have hW := h.cap_lt
  have hst := h.start_lt' hc
  have hlen := abs_length s.buf h
  have hne : s.buf.cap ≠ 0 := by omega
  have hlt : other.length < s.buf.cap := by omega
  have e : extendFromSlice other s = (cloneIntoFree other >>= fun _ =>
      (do let b3 ← getBuf; dassert (decide (b3.size = s.buf.size + other.length)))) s := by
    mrun [extendFromSlice, hne, hlt, hm]
  apply Runs.congr e
  have h1 := cloneIntoFree_runs s other h hc hcl (by omega)
  have := Runs.bind h1 (f := fun _ => (do let b3 ← getBuf; dassert (decide (b3.size = s.buf.size + other.length))))
    (r2 := ()) (xs2 := abs s.buf ++ cloneList s.kind s.next other) (e2 := []) (k2 := 0) (by
      intro s1 p1
      have := checkSize_runs s1 (s.buf.size + other.length) p1.inv
        (by rw [p1.abs_eq]; simp [hlen, cloneList_length])
      rw [p1.abs_eq] at this
      exact this)
  exact this.cast rfl (by simp) (by omega)

/-- the slice is shorter than the capacity but needs room: the front is evicted first -/
theorem extendFromSlice_evicts (s : Sys) (other : List Elem) (h : Inv s.buf) (hc : 0 < s.buf.cap)
    (hd : s.faults.drop = 0) (hcl : s.faults.clone = 0) (hlt : other.length < s.buf.cap)
    (hm : ¬ other.length < s.buf.cap - s.buf.size) :
    Runs (extendFromSlice other) s ()
      (Spec.lastN (s.buf.cap - other.length) (abs s.buf) ++ cloneList s.kind s.next other)
      (cloneLog s.kind s.next other ++
        dropEvents s.kind ((abs s.buf).take ((abs s.buf).length - (s.buf.cap - other.length))))
      (cloneCount s.kind other.length) := by
  have hsz := h.size_le
  have hW := h.cap_lt
  have hst := h.start_lt' hc
  have hlen := abs_length s.buf h
  have hne : s.buf.cap ≠ 0 := by omega
  have e : extendFromSlice other s = (truncateFront (s.buf.cap - other.length) >>= fun _ =>
      (cloneIntoFree other >>= fun _ =>
        (do let b3 ← getBuf; dassert (decide (b3.size = s.buf.cap))))) s := by
    mrun [extendFromSlice, hne, hlt, hm]
  apply Runs.congr e
  have h1 := (truncateFront_spec s (s.buf.cap - other.length) h hd).runs
  have := Runs.bind h1
    (f := fun _ => (cloneIntoFree other >>= fun _ =>
        (do let b3 ← getBuf; dassert (decide (b3.size = s.buf.cap)))))
    (r2 := ())
    (xs2 := Spec.lastN (s.buf.cap - other.length) (abs s.buf) ++ cloneList s.kind s.next other)
    (e2 := cloneLog s.kind s.next other) (k2 := cloneCount s.kind other.length) (by
      intro s1 p1
      have hl1 : (abs s1.buf).length = s.buf.cap - other.length := by
        rw [p1.abs_eq, lastN_length, hlen]; omega
      have hs1 : s1.buf.size = s.buf.cap - other.length := by
        rw [← abs_length s1.buf p1.inv, hl1]
      have hc1 : 0 < s1.buf.cap := by rw [p1.cap_eq]; exact hc
      have h2 := cloneIntoFree_runs s1 other p1.inv hc1 (by rw [p1.faults_eq]; exact hcl)
        (by rw [hs1, p1.cap_eq]; omega)
      have := Runs.bind h2
        (f := fun _ => (do let b3 ← getBuf; dassert (decide (b3.size = s.buf.cap))))
        (r2 := ()) (xs2 := abs s1.buf ++ cloneList s1.kind s1.next other) (e2 := []) (k2 := 0) (by
          intro s2 p2
          have := checkSize_runs s2 s.buf.cap p2.inv
            (by rw [p2.abs_eq]; simp [hl1, cloneList_length]; omega)
          rw [p2.abs_eq] at this
          exact this)
      rw [p1.abs_eq, p1.kind_eq, p1.next_eq] at this
      exact this.cast (by simp) (by simp) (by omega))
  exact this.cast rfl rfl (by omega)

/-- the slice is at least as long as the capacity: everything is replaced by clones of its last
`cap` elements -/
theorem extendFromSlice_replaces (s : Sys) (other : List Elem) (h : Inv s.buf) (hc : 0 < s.buf.cap)
    (hd : s.faults.drop = 0) (hcl : s.faults.clone = 0) (hge : s.buf.cap ≤ other.length) :
    Runs (extendFromSlice other) s ()
      (cloneList s.kind s.next (other.drop (other.length - s.buf.cap)))
      (cloneLog s.kind s.next (other.drop (other.length - s.buf.cap)) ++ dropEvents s.kind (abs s.buf))
      (cloneCount s.kind s.buf.cap) := by
  have hsz := h.size_le
  have hW := h.cap_lt
  have hst := h.start_lt' hc
  have hne : s.buf.cap ≠ 0 := by omega
  have hnlt : ¬ other.length < s.buf.cap := by omega
  obtain ⟨src, hsrc⟩ : ∃ src, src = other.drop (other.length - s.buf.cap) := ⟨_, rfl⟩
  have hsl : src.length = s.buf.cap := by rw [hsrc]; simp; omega
  have e : extendFromSlice other s = (clear >>= fun _ => (do
      setStart 0
      dassert (decide (s.buf.cap = src.length))
      writeCloned ⟨0, s.buf.cap⟩ src
      setSize s.buf.cap)) s := by
    mrun [extendFromSlice, hne, hnlt, hsrc]
  apply Runs.congr e
  rw [← hsrc]
  have h1 := (clear_spec s h hd).runs
  have := Runs.bind h1
    (f := fun _ => (do
      setStart 0
      dassert (decide (s.buf.cap = src.length))
      writeCloned ⟨0, s.buf.cap⟩ src
      setSize s.buf.cap))
    (r2 := ()) (xs2 := cloneList s.kind s.next src) (e2 := cloneLog s.kind s.next src)
    (k2 := cloneCount s.kind s.buf.cap) (by
      intro s1 p1
      have hc1 : s1.buf.cap = s.buf.cap := p1.cap_eq
      have hw := writeCloned_run ⟨0, s.buf.cap⟩ src
        { s1 with buf := { s1.buf with start := 0 } } (by simp only; rw [p1.faults_eq]; exact hcl)
        (by simp only [hsl]) (by simp only [hc1]; omega)
      have hpt : ∀ i, (hi : i < (cloneList s1.kind s1.next src).length) →
          writeList s1.buf.items 0 (cloneList s1.kind s1.next src) (phys 0 s.buf.cap i)
            = some (cloneList s1.kind s1.next src)[i] := by
        intro i hi
        have hi' : i < s.buf.cap := by rw [cloneList_length, hsl] at hi; exact hi
        have : phys 0 s.buf.cap i = i := by unfold phys; simp [Nat.mod_eq_of_lt hi']
        rw [this]
        unfold writeList
        rw [if_pos (by omega)]
        simp only [Nat.sub_zero]
        exact List.getElem?_eq_getElem _
      obtain ⟨hI, hA⟩ := inv_abs_of
        ⟨s.buf.cap, s.buf.cap, 0, writeList s1.buf.items 0 (cloneList s1.kind s1.next src)⟩
        (cloneList s1.kind s1.next src) hW (by rw [cloneList_length, hsl]) (Nat.le_refl _)
        (Or.inl hc) hpt
      refine ⟨{ s1 with
          buf := ⟨s.buf.cap, s.buf.cap, 0, writeList s1.buf.items 0 (cloneList s1.kind s1.next src)⟩
          next := s1.next + cloneCount s1.kind src.length
          log := cloneLog s1.kind s1.next src ++ s1.log }, ?_, ⟨hI, ?_, by simp only [hc1], ?_, ?_, rfl, rfl⟩⟩
      · simp only [hc1] at hw
        mrun [setStart_run, hsl, hw, setSize_run, hc1]
      · rw [hA, p1.kind_eq, p1.next_eq]; simp
      · simp only; rw [p1.kind_eq, p1.next_eq]; simp
      · simp only; rw [p1.kind_eq, hsl])
  exact this.cast rfl rfl (by omega)

/-- **`extend_from_slice`**, every capacity, layout and slice length: the buffer ends up with the
last `cap` elements of `contents ++ clones`, where (as the crate documents) only the last `cap`
elements of a longer slice are cloned; the displaced elements are destroyed exactly once. -/
theorem extendFromSlice_runs (s : Sys) (other : List Elem) (h : Inv s.buf)
    (hd : s.faults.drop = 0) (hcl : s.faults.clone = 0) :
    ∃ evs, Runs (extendFromSlice other) s ()
      (Spec.extend s.buf.cap (abs s.buf)
        (cloneList s.kind s.next (other.drop (other.length - s.buf.cap))))
      evs (cloneCount s.kind (other.drop (other.length - s.buf.cap)).length) := by
  have hsz := h.size_le
  have hlen := abs_length s.buf h
  by_cases hc0 : s.buf.cap = 0
  · refine ⟨[], s, by mrun [extendFromSlice, hc0], ⟨h, ?_, rfl, rfl, ?_, rfl, rfl⟩⟩
    · have : abs s.buf = [] := List.eq_nil_of_length_eq_zero (by omega)
      simp [Spec.extend, Spec.lastN, hc0, this, cloneList]
    · simp [hc0, cloneCount]
  have hc : 0 < s.buf.cap := by omega
  by_cases hlt : other.length < s.buf.cap
  · have hz : other.length - s.buf.cap = 0 := by omega
    simp only [hz, List.drop_zero]
    by_cases hm : other.length < s.buf.cap - s.buf.size
    · refine ⟨_, (extendFromSlice_fits s other h hc hcl hm).cast ?_ rfl rfl⟩
      unfold Spec.extend Spec.lastN
      have : (abs s.buf ++ cloneList s.kind s.next other).length - s.buf.cap = 0 := by
        simp [hlen, cloneList_length]; omega
      rw [this, List.drop_zero]
    · refine ⟨_, (extendFromSlice_evicts s other h hc hd hcl hlt hm).cast ?_ rfl rfl⟩
      unfold Spec.extend Spec.lastN
      have e1 : (abs s.buf ++ cloneList s.kind s.next other).length - s.buf.cap
          = (abs s.buf).length - (s.buf.cap - other.length) := by
        simp [hlen, cloneList_length]; omega
      rw [e1, List.drop_append_of_le_length (by omega)]
  · have hge : s.buf.cap ≤ other.length := by omega
    have hl : (other.drop (other.length - s.buf.cap)).length = s.buf.cap := by simp; omega
    refine ⟨_, (extendFromSlice_replaces s other h hc hd hcl hge).cast ?_ rfl (by rw [hl])⟩
    unfold Spec.extend Spec.lastN
    have e1 : (abs s.buf ++ cloneList s.kind s.next (other.drop (other.length - s.buf.cap))).length
        - s.buf.cap = (abs s.buf).length := by
      simp [cloneList_length, hl]
    rw [e1, List.drop_left]

end CircBuf
