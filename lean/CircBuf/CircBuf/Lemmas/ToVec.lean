import CircBuf.Lemmas.Ctor
set_option linter.unusedSimpArgs false
set_option linter.unusedVariables false
/-! `to_vec()` and `boxed()`. -/
namespace CircBuf

theorem toVecLoop_run (l : List Elem) (acc : List Elem) (s : Sys) (hc : s.faults.clone = 0) :
    ∃ s', toVecLoop acc l s = (.ok (acc.reverse ++ cloneList s.kind s.next l), s') ∧ s'.buf = s.buf ∧
      s'.next = s.next + cloneCount s.kind l.length ∧ s'.log = cloneLog s.kind s.next l ++ s.log ∧
      s'.faults = s.faults ∧ s'.kind = s.kind := by
  induction l generalizing acc s with
  | nil => exact ⟨s, by simp [toVecLoop, cloneList], rfl, by simp [cloneCount], by simp [cloneLog], rfl, rfl⟩
  | cons e rest ih =>
    have h1 := cloneElem_run' s e hc
    obtain ⟨c, hcdef⟩ : ∃ c, c = (cloneList s.kind s.next [e])[0]'(by simp [cloneList_length]) := ⟨_, rfl⟩
    rw [← hcdef] at h1
    obtain ⟨s0, hs0⟩ : ∃ s0 : Sys, s0 = { s with
        next := s.next + cloneCount s.kind 1
        log := cloneLog s.kind s.next [e] ++ s.log } := ⟨_, rfl⟩
    rw [← hs0] at h1
    obtain ⟨s', r, hb, hn, hl, hf, hk⟩ := ih (c :: acc) s0 (by rw [hs0]; exact hc)
    have hcl : cloneList s.kind s.next (e :: rest) = c :: cloneList s0.kind s0.next rest := by
      rw [hs0, hcdef]
      by_cases hkd : s.kind = .tracked ∨ s.kind = .plain
      · simp [cloneList, hkd, cloneCount]
      · simp [cloneList, hkd, cloneCount]
    refine ⟨s', ?_, by rw [hb, hs0], ?_, ?_, by rw [hf, hs0], by rw [hk, hs0]⟩
    · simp only [toVecLoop, bind_run, onPanic, h1, r, hcl]
      simp
    · rw [hn, hs0]; simp only [List.length_cons]
      have := cloneCount_add s.kind 1 rest.length
      rw [Nat.add_comm 1 rest.length] at this
      rw [this]; omega
    · rw [hl, hs0]
      have : e :: rest = [e] ++ rest := rfl
      rw [this, cloneLog_append]; simp [List.append_assoc]

/-- `to_vec()`: the clones of the contents, oldest first; the buffer is only read; at most one
allocation (none for an empty buffer) -/
theorem toVec_spec (s : Sys) (h : Inv s.buf) (hc : s.faults.clone = 0) :
    ∃ s', toVec s = (.ok (cloneList s.kind s.next (abs s.buf)), s') ∧ s'.buf = s.buf ∧
      s'.next = s.next + cloneCount s.kind s.buf.size ∧
      s'.log = cloneLog s.kind s.next (abs s.buf) ++
        ((if s.buf.size > 0 ∧ s.kind ≠ .zst then [Event.alloc] else []) ++ s.log) := by
  have hlen := abs_length s.buf h
  have hsl := iterSlots_run s h
  have hall : ∀ t : Sys, t.buf = s.buf → readAll (windowSlots s.buf.start s.buf.cap s.buf.size) t = (.ok (abs s.buf), t) := by
    intro t ht
    have ht' : Inv t.buf := by rw [ht]; exact h
    have hsl' := iterSlots_run t ht'
    have := contents_run t ht'
    simp only [contents, bind_run, hsl'] at this
    rw [ht] at this
    exact this
  by_cases ha : s.buf.size > 0 ∧ s.kind ≠ .zst
  · obtain ⟨s0, hs0⟩ : ∃ s0 : Sys, s0 = { s with log := Event.alloc :: s.log } := ⟨_, rfl⟩
    have hI0 : Inv s0.buf := by rw [hs0]; exact h
    have hsl0 := iterSlots_run s0 hI0
    have hb0 : s0.buf = s.buf := by rw [hs0]
    rw [hb0] at hsl0
    obtain ⟨s', r, hb, hn, hl, hf, hk⟩ := toVecLoop_run (abs s.buf) [] s0 (by rw [hs0]; exact hc)
    have hem : emit .alloc s = (.ok (), s0) := by
      rw [hs0]; simp [emit]
    refine ⟨s', ?_, by rw [hb, hb0], by rw [hn, hs0, hlen], ?_⟩
    · have hk0 : s0.kind = s.kind := by rw [hs0]
      have hn0 : s0.next = s.next := by rw [hs0]
      have hz : s.kind ≠ .zst := ha.2
      have hp : 0 < s.buf.size := ha.1
      simp only [toVec, bind_run, getBuf_run, getSys_run]
      simp only [hp, hz, ne_eq, not_false_eq_true, and_self, if_true, gt_iff_lt, bind_run, hem, hsl0, hall s0 hb0, r,
        pure_run, hk0, hn0, List.reverse_nil, List.nil_append, cloneList_length, hlen, decide_true, dassert_true]
    · rw [hl, hs0]; simp [ha]
  · obtain ⟨s', r, hb, hn, hl, hf, hk⟩ := toVecLoop_run (abs s.buf) [] s hc
    refine ⟨s', ?_, hb, by rw [hn, hlen], ?_⟩
    · simp only [toVec, bind_run, getBuf_run, getSys_run]
      have ha' : ¬ (0 < s.buf.size ∧ s.kind ≠ .zst) := ha
      simp only [gt_iff_lt, ha', if_false, pure_run, bind_run, hsl, hall s rfl, r, List.reverse_nil, List.nil_append,
        cloneList_length, hlen, decide_true, dassert_true]
    · rw [hl]; simp [ha]

/-- `boxed()`: exactly one allocation, an empty valid buffer of the same capacity -/
theorem boxed_spec (s : Sys) (hW : s.buf.cap < W) :
    ∃ s', boxed s = (.ok (), s') ∧ Inv s'.buf ∧ abs s'.buf = [] ∧ s'.buf.cap = s.buf.cap ∧
      s'.log = Event.alloc :: s.log := by
  obtain ⟨hI, hA⟩ := inv_new' s.buf.cap hW
  refine ⟨{ s with buf := CB.new s.buf.cap, log := Event.alloc :: s.log }, ?_, hI, hA, rfl, rfl⟩
  simp [boxed, emit, bind_run, getBuf_run, setBuf_run]

end CircBuf
