import CircBuf.Lemmas.Backfill
import CircBuf.Lemmas.Iter
set_option linter.unusedSimpArgs false
set_option linter.unusedVariables false
/-! `Drain`: creation, consumption from both ends, `Drop` (destroy the rest, close the hole). -/
namespace CircBuf

/-- what is known while a drain over the buffer `b0` is alive: the buffer pretends to be empty, the
storage is untouched, the cursors are ordered -/
structure DrainInv (b0 : CB) (d : Drain) (s : Sys) : Prop where
  inv0 : Inv b0
  buf_eq : s.buf = ⟨b0.cap, 0, b0.start, b0.items⟩
  bs : d.bufSize = b0.size
  h1 : d.rs ≤ d.is
  h2 : d.is ≤ d.ie
  h3 : d.ie ≤ d.re
  h4 : d.re ≤ d.bufSize

theorem Drain.new_spec (sb eb : Bound) (s : Sys) (h : Inv s.buf) (hsb : sb.val < W)
    (heb : eb.val < W) (he : eb.endNat s.buf.size ≤ s.buf.size)
    (hs : sb.startNat ≤ eb.endNat s.buf.size) :
    Drain.new sb eb s =
      (.ok ⟨s.buf.size, sb.startNat, eb.endNat s.buf.size, sb.startNat, eb.endNat s.buf.size⟩,
        { s with buf := ⟨s.buf.cap, 0, s.buf.start, s.buf.items⟩ }) ∧
    DrainInv s.buf ⟨s.buf.size, sb.startNat, eb.endNat s.buf.size, sb.startNat, eb.endNat s.buf.size⟩
      { s with buf := ⟨s.buf.cap, 0, s.buf.start, s.buf.items⟩ } := by
  have hW : s.buf.size < W := by have := h.size_le; have := h.cap_lt; omega
  have htr := translateRange_ok sb eb s hsb heb he hs hW
  refine ⟨?_, ⟨h, rfl, rfl, Nat.le_refl _, hs, Nat.le_refl _, he⟩⟩
  mrun [Drain.new, htr, setSize_run]

/-- an invalid range panics before the buffer is touched -/
theorem Drain.new_panics (sb eb : Bound) (s : Sys) (h : Inv s.buf) (hsb : sb.val < W)
    (heb : eb.val < W)
    (hbad : s.buf.size < eb.endNat s.buf.size ∨ eb.endNat s.buf.size < sb.startNat) :
    ∃ k, Drain.new sb eb s = (.error (.doc k), s) := by
  have hW : s.buf.size < W := by have := h.size_le; have := h.cap_lt; omega
  obtain ⟨k, hk⟩ := translateRange_panics sb eb s hsb heb hW hbad
  exact ⟨k, by mrun [Drain.new, hk]⟩

theorem Drain.read_spec (b0 : CB) (d : Drain) (s : Sys) (hd : DrainInv b0 d s) (i : Nat)
    (hi1 : d.rs ≤ i) (hi2 : i < d.re) (hi3 : i < d.is ∨ d.ie ≤ i) :
    d.read i s = (.ok ((abs b0)[i]'(by
      rw [abs_length b0 hd.inv0]; have := hd.h4; have := hd.bs; omega)), s) := by
  have hget := abs_getElem b0 hd.inv0
  have hlen := abs_length b0 hd.inv0
  have hsz := hd.inv0.size_le
  have hbs := hd.bs
  have h4 := hd.h4
  have hcpos : 0 < b0.cap := by omega
  have hst := hd.inv0.start_lt' hcpos
  have hW := hd.inv0.cap_lt
  have hp := phys_lt b0.start b0.cap i hcpos
  have hb := hd.buf_eq
  have hcell : s.buf.items (phys b0.start b0.cap i) = some ((abs b0)[i]'(by omega)) := by
    rw [hb]; exact hget i (by omega)
  have hc' : s.buf.cap = b0.cap := by rw [hb]
  have hs' : s.buf.start = b0.start := by rw [hb]
  mrun [Drain.read, hc', hs']
  exact readInit_run s _ _ (by rw [hc']; exact hp) hcell

theorem Drain.next_spec (b0 : CB) (d : Drain) (s : Sys) (hd : DrainInv b0 d s) :
    d.next s = (.ok (((abs b0).drop d.is).take (d.ie - d.is) |>.head?, { d with is := d.is + (if d.is < d.ie then 1 else 0) }), s) ∧
    DrainInv b0 { d with is := d.is + (if d.is < d.ie then 1 else 0) } s := by
  have hlen := abs_length b0 hd.inv0
  have := hd.h1; have := hd.h2; have := hd.h3; have := hd.h4; have := hd.bs
  by_cases hlt : d.is < d.ie
  · simp only [hlt, if_true]
    have hd' : DrainInv b0 { d with is := d.is + 1 } s :=
      ⟨hd.inv0, hd.buf_eq, hd.bs, by simp only; omega, by simp only; omega, hd.h3, hd.h4⟩
    refine ⟨?_, hd'⟩
    have hr := Drain.read_spec b0 { d with is := d.is + 1 } s hd' d.is (by simp only; omega)
      (by simp only; omega) (Or.inl (by simp only; omega))
    have hh : (((abs b0).drop d.is).take (d.ie - d.is)).head? = some ((abs b0)[d.is]'(by omega)) := by
      rw [List.head?_eq_getElem?, List.getElem?_take]
      simp only [show 0 < d.ie - d.is by omega, if_true, List.getElem?_drop, Nat.add_zero]
      exact List.getElem?_eq_getElem _
    simp only [Drain.next, hlt, if_true, bind_run, hr, pure_run, hh]
  · simp only [hlt, if_false, Nat.add_zero]
    refine ⟨?_, hd⟩
    have : d.ie - d.is = 0 := by omega
    simp [Drain.next, hlt, this]

theorem Drain.nextBack_spec (b0 : CB) (d : Drain) (s : Sys) (hd : DrainInv b0 d s) :
    d.nextBack s = (.ok (((abs b0).drop d.is).take (d.ie - d.is) |>.getLast?, { d with ie := d.ie - (if d.is < d.ie then 1 else 0) }), s) ∧
    DrainInv b0 { d with ie := d.ie - (if d.is < d.ie then 1 else 0) } s := by
  have hlen := abs_length b0 hd.inv0
  have := hd.h1; have := hd.h2; have := hd.h3; have := hd.h4; have := hd.bs
  by_cases hlt : d.is < d.ie
  · simp only [hlt, if_true]
    have hd' : DrainInv b0 { d with ie := d.ie - 1 } s :=
      ⟨hd.inv0, hd.buf_eq, hd.bs, hd.h1, by simp only; omega, by simp only; omega, hd.h4⟩
    refine ⟨?_, hd'⟩
    have hr := Drain.read_spec b0 { d with ie := d.ie - 1 } s hd' (d.ie - 1) (by simp only; omega)
      (by simp only; omega) (Or.inr (by simp only; omega))
    have hl2 : (((abs b0).drop d.is).take (d.ie - d.is)).length = d.ie - d.is := by
      simp [hlen]; omega
    have hh : (((abs b0).drop d.is).take (d.ie - d.is)).getLast?
        = some ((abs b0)[d.ie - 1]'(by omega)) := by
      rw [getLast?_eq_of_length _ _ hl2 (by omega)]
      simp only [List.getElem_take, List.getElem_drop]
      congr 2; omega
    simp only [Drain.nextBack, hlt, if_true, bind_run, hr, pure_run, hh]
  · simp only [hlt, if_false, Nat.sub_zero]
    refine ⟨?_, hd⟩
    have : d.ie - d.is = 0 := by omega
    simp [Drain.nextBack, hlt, this]

theorem Drain.asSlices_spec (b0 : CB) (d : Drain) (s : Sys) (hd : DrainInv b0 d s) :
    ∃ r l, d.asSlices s = (.ok (r, l), s) ∧
      r.slots ++ l.slots = windowSlots (phys b0.start b0.cap d.is) b0.cap (d.ie - d.is) := by
  have hsz := hd.inv0.size_le
  have hW := hd.inv0.cap_lt
  have := hd.h1; have := hd.h2; have := hd.h3; have := hd.h4; have hbs := hd.bs
  have hc' : s.buf.cap = b0.cap := by rw [hd.buf_eq]
  have hs' : s.buf.start = b0.start := by rw [hd.buf_eq]
  by_cases hz : b0.cap = 0 ∨ d.bufSize = 0 ∨ ¬ (d.is < d.ie)
  · refine ⟨View.empty, View.empty, ?_, ?_⟩
    · mrun [Drain.asSlices, hc', hz]
    · have : d.ie - d.is = 0 := by omega
      simp [View.empty, View.slots, windowSlots, this]
  have hcpos : 0 < b0.cap := by omega
  have hst := hd.inv0.start_lt' hcpos
  have hn : 0 < d.ie - d.is := by omega
  have hpi := phys_lt b0.start b0.cap d.is hcpos
  have hpe := phys_lt b0.start b0.cap d.ie hcpos
  have hsplit := split_slots (phys b0.start b0.cap d.is) b0.cap (d.ie - d.is) hpi hn (by omega)
  have hpp : phys (phys b0.start b0.cap d.is) b0.cap (d.ie - d.is) = phys b0.start b0.cap d.ie := by
    rw [phys_phys]; congr 1; omega
  rw [hpp] at hsplit
  by_cases hlt : phys b0.start b0.cap d.is < phys b0.start b0.cap d.ie
  · refine ⟨⟨phys b0.start b0.cap d.is, phys b0.start b0.cap d.ie - phys b0.start b0.cap d.is⟩,
      View.empty, ?_, ?_⟩
    · mrun [Drain.asSlices, hc', hs', hz, hlt]
    · simp only [hlt, if_true] at hsplit
      simp [View.slots, View.empty, hsplit]
  · refine ⟨⟨phys b0.start b0.cap d.is, b0.cap - phys b0.start b0.cap d.is⟩,
      ⟨0, phys b0.start b0.cap d.ie⟩, ?_, ?_⟩
    · mrun [Drain.asSlices, hc', hs', hz, hlt]
    · simp only [hlt, if_false] at hsplit
      simp [View.slots, hsplit]

theorem phys_zero_left (c x : Nat) (h : x < c) : phys 0 c x = x := by
  unfold phys; simp [Nat.mod_eq_of_lt h]

/-- `Drop for Drain`: the elements not yet yielded are destroyed (once each, in order), the tail is
moved into the hole and the length is restored: the buffer holds what was before the range followed
by what was after it. -/
theorem Drain.drop_spec (b0 : CB) (d : Drain) (s : Sys) (hd : DrainInv b0 d s)
    (hf : s.faults.drop = 0) :
    ∃ b', d.drop s = (.ok (), { s with
        buf := b'
        log := dropEvents s.kind (((abs b0).drop d.is).take (d.ie - d.is)) ++ s.log }) ∧
      Inv b' ∧ abs b' = (abs b0).take d.rs ++ (abs b0).drop d.re ∧ b'.cap = b0.cap ∧
      b'.start = b0.start ∧
      (∀ i, i < d.rs → b'.items (phys b0.start b0.cap i) = b0.items (phys b0.start b0.cap i)) := by
  have hI := hd.inv0
  have hlen := abs_length b0 hI
  have hget := abs_getElem b0 hI
  have hsz := hI.size_le
  have hW := hI.cap_lt
  have h1 := hd.h1; have h2 := hd.h2; have h3 := hd.h3; have h4 := hd.h4; have hbs := hd.bs
  have hb := hd.buf_eq
  have hc' : s.buf.cap = b0.cap := by rw [hb]
  have hs' : s.buf.start = b0.start := by rw [hb]
  have hi' : s.buf.items = b0.items := by rw [hb]
  obtain ⟨r, l, hsl, hslots⟩ := Drain.asSlices_spec b0 d s hd
  -- phase 1: destroy what the iterator has not yielded
  have hmem : ∀ i ∈ r.slots ++ l.slots, i < s.buf.cap ∧ (s.buf.items i).isSome = true := by
    intro i hi
    rw [hslots] at hi
    by_cases hc0 : b0.cap = 0
    · have : d.ie - d.is = 0 := by omega
      simp [windowSlots, this] at hi
    · rw [hc', hi']
      exact ⟨windowSlots_lt _ _ _ (by omega) i hi,
        windowSlots_live b0 hI d.is (d.ie - d.is) (by omega) i hi⟩
  have hr1 := dropInPlace_run r.slots s hf (fun i hi => hmem i (List.mem_append_left _ hi))
  have hr2 := dropInPlace_run l.slots
    { s with log := dropEvents s.kind (r.slots.filterMap s.buf.items) ++ s.log } hf
    (fun i hi => hmem i (List.mem_append_right _ hi))
  have hdrop := tryFinally_ok hr1 hr2
  have hfm : dropEvents s.kind (l.slots.filterMap s.buf.items) ++
      (dropEvents s.kind (r.slots.filterMap s.buf.items) ++ s.log)
      = dropEvents s.kind (((abs b0).drop d.is).take (d.ie - d.is)) ++ s.log := by
    rw [← List.append_assoc, ← dropEvents_append, ← List.filterMap_append, hslots, hi',
      filterMap_window b0 hI d.is (d.ie - d.is) (by omega)]
  simp only [hfm] at hdrop
  by_cases hc0 : b0.cap = 0
  · -- zero capacity: nothing was drained, nothing to move
    have hnil : abs b0 = [] := List.eq_nil_of_length_eq_zero (by omega)
    refine ⟨s.buf, ?_, ?_, ?_, hc', hs', fun i hi => by rw [hi']⟩
    · simp only [Drain.drop, bind_run, hsl, hdrop, getBuf_run, hc', hc0, if_true, pure_run]
    · rw [hb]; exact ⟨by simp only; omega, Or.inr ⟨hc0, by
        rcases hI.start_lt with h | ⟨_, h⟩ <;> simp only <;> omega⟩, hW, by intro i hi; simp only at hi; omega⟩
    · rw [hnil, hb]; simp [abs]
  · have hcpos : 0 < b0.cap := by omega
    have hst := hI.start_lt' hcpos
    -- phase 2: close the hole
    obtain ⟨f', hloop, hmv, hun⟩ := backfillLoop_spec (d.bufSize - d.re + 1)
      { s with log := dropEvents s.kind (((abs b0).drop d.is).take (d.ie - d.is)) ++ s.log }
      d.rs d.re (d.bufSize - d.re) 0 (by rw [hc']; exact hcpos) (by rw [hc']; exact hW)
      (by rw [hc', hs']; exact hst) (by omega) (by rw [hc']; omega) (Nat.zero_le _) (by omega)
    simp only [Nat.add_zero, Nat.sub_zero, hc', hs', hi'] at hloop hmv hun
    refine ⟨⟨b0.cap, d.bufSize - (d.re - d.rs), b0.start, f'⟩, ?_, ?_⟩
    · have hp1 := phys_lt b0.start b0.cap d.rs hcpos
      have hp2 := phys_lt b0.start b0.cap d.re hcpos
      simp only [Drain.drop, bind_run, hsl, hdrop, getBuf_run, hc', hc0, if_false, hs']
      mrun [CSP.add_run, phys_zero_left _ _ hst, hloop, setSize_run]
    · have hpt : ∀ i, (hi : i < ((abs b0).take d.rs ++ (abs b0).drop d.re).length) →
          f' (phys b0.start b0.cap i) = some ((abs b0).take d.rs ++ (abs b0).drop d.re)[i] := by
        intro i hi
        simp only [List.length_append, List.length_take, List.length_drop, hlen] at hi
        by_cases hlo : i < d.rs
        · rw [hun _ (fun j _ hj => phys_ne _ _ _ _ hst (by omega) (by omega) (by omega))]
          rw [List.getElem_append_left (by simp [hlen]; omega), List.getElem_take]
          exact hget i (by omega)
        · have hj := hmv (i - d.rs) (Nat.zero_le _) (by omega)
          have e1 : d.rs + (i - d.rs) = i := by omega
          rw [e1] at hj
          rw [hj, List.getElem_append_right (by simp [hlen]; omega), List.getElem_drop]
          rw [hget (d.re + (i - d.rs)) (by omega)]
          congr 2
          simp [hlen]; omega
      obtain ⟨hInv, hAbs⟩ := inv_abs_of ⟨b0.cap, d.bufSize - (d.re - d.rs), b0.start, f'⟩ _ hW
        (by simp [hlen]; omega) (by simp only; omega) (Or.inl hst) hpt
      refine ⟨hInv, hAbs, rfl, rfl, ?_⟩
      intro i hi
      exact hun _ (fun j _ hj => phys_ne _ _ _ _ hst (by omega) (by omega) (by omega))

end CircBuf
