import CircBuf.Lemmas.TieTac
set_option linter.unusedSimpArgs false
set_option linter.unusedVariables false
set_option maxHeartbeats 1000000
/-! Tie theorems (pushpop group) — see `CircBuf/Lemmas/CoreTie.lean` for what they are. -/
namespace CircBuf

/-! ### push / pop -/
theorem tie_push_back (x : Elem) (s : Sys) (h : Inv s.buf) :
    Gen.push_back x s = pushBack x s := by
  tie2 h [Gen.push_back, pushBack, Gen.front_maybe_uninit_mut, frontSlot, Gen.back_maybe_uninit_mut, backSlot, Gen.inc_start, incStart, Gen.inc_size, incSize]
theorem tie_push_front (x : Elem) (s : Sys) (h : Inv s.buf) :
    Gen.push_front x s = pushFront x s := by
  tie2 h [Gen.push_front, pushFront, Gen.front_maybe_uninit_mut, frontSlot, Gen.back_maybe_uninit_mut, backSlot, Gen.dec_start, decStart, Gen.inc_size, incSize]
theorem tie_try_push_back (x : Elem) (s : Sys) (h : Inv s.buf) :
    Gen.try_push_back x s = tryPushBack x s := by
  tie2 h [Gen.try_push_back, tryPushBack, Gen.back_maybe_uninit_mut, backSlot, Gen.inc_size, incSize]
theorem tie_try_push_front (x : Elem) (s : Sys) (h : Inv s.buf) :
    Gen.try_push_front x s = tryPushFront x s := by
  tie2 h [Gen.try_push_front, tryPushFront, Gen.front_maybe_uninit_mut, frontSlot, Gen.dec_start, decStart, Gen.inc_size, incSize]
theorem tie_pop_back (s : Sys) (h : Inv s.buf) :
    Gen.pop_back s = popBack s := by
  tie2 h [Gen.pop_back, popBack, Gen.back_maybe_uninit, backSlot, Gen.dec_size, decSize]
theorem tie_pop_front (s : Sys) (h : Inv s.buf) :
    Gen.pop_front s = popFront s := by
  tie2 h [Gen.pop_front, popFront, Gen.front_maybe_uninit, frontSlot, Gen.dec_size, decSize, Gen.inc_start, incStart]

end CircBuf
