import CircBuf.Lemmas.TieTac
set_option linter.unusedSimpArgs false
set_option linter.unusedVariables false
set_option maxHeartbeats 1000000
/-! Tie theorems (push / pop group) — see `CircBuf/Lemmas/CoreTie.lean` for what they are. -/
namespace CircBuf

/-! ### push / pop -/
maybe theorem tie_push_back (x : Elem) (s : Sys) (h : Inv s.buf)
    (hnd : NonDefect (pushBack x s).1) :
    Gen.push_back x s = pushBack x s := by
  tie3 h hnd [Gen.push_back, pushBack]
maybe theorem tie_push_front (x : Elem) (s : Sys) (h : Inv s.buf)
    (hnd : NonDefect (pushFront x s).1) :
    Gen.push_front x s = pushFront x s := by
  tie3 h hnd [Gen.push_front, pushFront]
maybe theorem tie_try_push_back (x : Elem) (s : Sys) (h : Inv s.buf)
    (hnd : NonDefect (tryPushBack x s).1) :
    Gen.try_push_back x s = tryPushBack x s := by
  tie3 h hnd [Gen.try_push_back, tryPushBack]
maybe theorem tie_try_push_front (x : Elem) (s : Sys) (h : Inv s.buf)
    (hnd : NonDefect (tryPushFront x s).1) :
    Gen.try_push_front x s = tryPushFront x s := by
  tie3 h hnd [Gen.try_push_front, tryPushFront]
maybe theorem tie_pop_back (s : Sys) (h : Inv s.buf)
    (hnd : NonDefect (popBack s).1) :
    Gen.pop_back s = popBack s := by
  tie3 h hnd [Gen.pop_back, popBack]
maybe theorem tie_pop_front (s : Sys) (h : Inv s.buf)
    (hnd : NonDefect (popFront s).1) :
    Gen.pop_front s = popFront s := by
  tie3 h hnd [Gen.pop_front, popFront]

end CircBuf
