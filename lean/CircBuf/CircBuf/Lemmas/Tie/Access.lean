import CircBuf.Lemmas.TieTac
set_option linter.unusedSimpArgs false
set_option linter.unusedVariables false
set_option maxHeartbeats 1000000
/-! Tie theorems (access group) — see `CircBuf/Lemmas/CoreTie.lean` for what they are. -/
namespace CircBuf

/-! ### element access (the result is the slot the reference points at) -/
theorem tie_front (s : Sys) (h : Inv s.buf) :
    Gen.front s = front? s := by
  tie2 h [Gen.front, front?, Gen.front_maybe_uninit, frontSlot]
theorem tie_front_mut (s : Sys) (h : Inv s.buf) :
    Gen.front_mut s = front? s := by
  tie2 h [Gen.front_mut, front?, Gen.front_maybe_uninit_mut, frontSlot]
theorem tie_back (s : Sys) (h : Inv s.buf) :
    Gen.back s = back? s := by
  tie2 h [Gen.back, back?, Gen.back_maybe_uninit, backSlot]
theorem tie_back_mut (s : Sys) (h : Inv s.buf) :
    Gen.back_mut s = back? s := by
  tie2 h [Gen.back_mut, back?, Gen.back_maybe_uninit_mut, backSlot]
theorem tie_get (i : Nat) (s : Sys) (h : Inv s.buf) :
    Gen.get i s = get? i s := by
  tie2 h [Gen.get, get?, Gen.get_maybe_uninit, getSlot]
theorem tie_get_mut (i : Nat) (s : Sys) (h : Inv s.buf) :
    Gen.get_mut i s = get? i s := by
  tie2 h [Gen.get_mut, get?, Gen.get_maybe_uninit_mut, getSlot]
theorem tie_nth_front (i : Nat) (s : Sys) (h : Inv s.buf) :
    Gen.nth_front i s = nthFront? i s := by
  tie2 h [Gen.nth_front, nthFront?, Gen.get, get?, Gen.get_maybe_uninit, getSlot]
theorem tie_nth_back (i : Nat) (s : Sys) (h : Inv s.buf) :
    Gen.nth_back i s = nthBack? i s := by
  simp only [Gen.nth_back, nthBack?, getBuf_bind]
  cases checkedSub s.buf.size i with
  | none => rfl
  | some q =>
    simp only []
    cases checkedSub q 1 with
    | none => rfl
    | some j =>
      simp only [bind_run, pure_run, tie_get j s h]

end CircBuf
