import CircBuf.Lemmas.TieTac
import CircBuf.Lemmas.NonDefect
set_option linter.unusedSimpArgs false
set_option linter.unusedVariables false
set_option maxHeartbeats 1000000
/-! Tie theorems (element access group) — see `CircBuf/Lemmas/CoreTie.lean` for what they are. -/
namespace CircBuf

/-! ### element access (the result is the slot the reference points at) -/
maybe theorem tie_front (s : Sys) (h : Inv s.buf)
    (hnd : NonDefect (front? s).1) :
    Gen.front s = front? s := by
  tie3 h hnd [Gen.front, front?]
maybe theorem tie_front_mut (s : Sys) (h : Inv s.buf)
    (hnd : NonDefect (front? s).1) :
    Gen.front_mut s = front? s := by
  tie3 h hnd [Gen.front_mut, front?]
maybe theorem tie_back (s : Sys) (h : Inv s.buf)
    (hnd : NonDefect (back? s).1) :
    Gen.back s = back? s := by
  tie3 h hnd [Gen.back, back?]
maybe theorem tie_back_mut (s : Sys) (h : Inv s.buf)
    (hnd : NonDefect (back? s).1) :
    Gen.back_mut s = back? s := by
  tie3 h hnd [Gen.back_mut, back?]
maybe theorem tie_get (i : Nat) (s : Sys) (h : Inv s.buf)
    (hnd : NonDefect (get? i s).1) :
    Gen.get i s = get? i s := by
  tie3 h hnd [Gen.get, get?]
maybe theorem tie_get_mut (i : Nat) (s : Sys) (h : Inv s.buf)
    (hnd : NonDefect (get? i s).1) :
    Gen.get_mut i s = get? i s := by
  tie3 h hnd [Gen.get_mut, get?]
maybe theorem tie_nth_front (i : Nat) (s : Sys) (h : Inv s.buf)
    (hnd : NonDefect (nthFront? i s).1) :
    Gen.nth_front i s = nthFront? i s := by
  first
  | (have hsz := h.size_le
     have hW := h.cap_lt
     have hg : ∀ j, Gen.get j s = get? j s := fun j => tie_get j s h (nd_get j s h)
     callEval [Gen.nth_front, nthFront?, checkedSub, hg]
     done)
  | (tie3 h hnd [Gen.nth_front, nthFront?]; done)
maybe theorem tie_nth_back (i : Nat) (s : Sys) (h : Inv s.buf)
    (hnd : NonDefect (nthBack? i s).1) :
    Gen.nth_back i s = nthBack? i s := by
  first
  | (have hsz := h.size_le
     have hW := h.cap_lt
     have hg : ∀ j, Gen.get j s = get? j s := fun j => tie_get j s h (nd_get j s h)
     callEval [Gen.nth_back, nthBack?, checkedSub, hg]
     done)
  | (tie3 h hnd [Gen.nth_back, nthBack?]; done)

end CircBuf
