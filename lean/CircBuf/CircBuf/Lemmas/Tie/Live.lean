import CircBuf.Lemmas.LiveEq
import CircBuf.Lemmas.Tie.PushPop
import CircBuf.Lemmas.Tie.Swap
import CircBuf.Lemmas.Tie.Remove
set_option linter.unusedSimpArgs false
set_option linter.unusedVariables false
set_option maxHeartbeats 1000000
/-!
The ties of the element-level mutators in their weak form (`LiveEq`: equal up to the contents of the dead
slots — see `Lemmas/LiveEq.lean`).  Each follows from the strong tie of `Lemmas/Tie/*.lean` when that one
checks; when it does not (the body was rewritten and now leaves other stale bytes behind), the weak
statement is proved directly from the two bodies (`tieLive`).
-/
namespace CircBuf
syntax "tieLive3" ident ident : tactic
macro_rules
  | `(tactic| tieLive3 $h $hnd) => `(tactic| (tieLive $h $hnd [Gen.len, Gen.is_empty, Gen.is_full, Gen.inc_start, Gen.dec_start, Gen.inc_size, Gen.dec_size, Gen.front_maybe_uninit_mut, Gen.front_maybe_uninit, Gen.back_maybe_uninit, Gen.back_maybe_uninit_mut, Gen.get_maybe_uninit, Gen.get_maybe_uninit_mut, Gen.slices_uninit_mut, Gen.as_slices, Gen.as_mut_slices, Gen.front, Gen.back, Gen.get, Gen.front_mut, Gen.back_mut, Gen.get_mut, Gen.nth_front, Gen.nth_back, Gen.push_back, Gen.push_front, Gen.try_push_back, Gen.try_push_front, Gen.pop_back, Gen.pop_front, Gen.swap, Gen.swap_remove_back, Gen.swap_remove_front, Gen.drop_range, Gen.truncate_back, Gen.truncate_front, Gen.clear, Gen.remove, Gen.make_contiguous, incStart, decStart, incSize, decSize, frontSlot, backSlot, getSlot, slicesUninitMut, asSlices, asSlicesOf, dassertE, front?, back?, get?, nthFront?, nthBack?, pushBack, pushFront, tryPushBack, tryPushFront, popBack, popFront, swap, swapRemoveBack, swapRemoveFront, dropRange, dropSegments, truncateBack, truncateFront, clear, remove, makeContiguous]; done))

maybe theorem ltie_push_back (x : Elem) (s : Sys) (h : Inv s.buf) (hnd : NonDefect (pushBack x s).1) :
    LiveEq (Gen.push_back x s) (pushBack x s) := by
  first
  | exact LiveEq.of_eq (tie_push_back x s h hnd)
  | tieLive3 h hnd

maybe theorem ltie_push_front (x : Elem) (s : Sys) (h : Inv s.buf) (hnd : NonDefect (pushFront x s).1) :
    LiveEq (Gen.push_front x s) (pushFront x s) := by
  first
  | exact LiveEq.of_eq (tie_push_front x s h hnd)
  | tieLive3 h hnd

maybe theorem ltie_try_push_back (x : Elem) (s : Sys) (h : Inv s.buf) (hnd : NonDefect (tryPushBack x s).1) :
    LiveEq (Gen.try_push_back x s) (tryPushBack x s) := by
  first
  | exact LiveEq.of_eq (tie_try_push_back x s h hnd)
  | tieLive3 h hnd

maybe theorem ltie_try_push_front (x : Elem) (s : Sys) (h : Inv s.buf) (hnd : NonDefect (tryPushFront x s).1) :
    LiveEq (Gen.try_push_front x s) (tryPushFront x s) := by
  first
  | exact LiveEq.of_eq (tie_try_push_front x s h hnd)
  | tieLive3 h hnd

maybe theorem ltie_pop_back (s : Sys) (h : Inv s.buf) (hnd : NonDefect (popBack s).1) :
    LiveEq (Gen.pop_back s) (popBack s) := by
  first
  | exact LiveEq.of_eq (tie_pop_back s h hnd)
  | tieLive3 h hnd

maybe theorem ltie_pop_front (s : Sys) (h : Inv s.buf) (hnd : NonDefect (popFront s).1) :
    LiveEq (Gen.pop_front s) (popFront s) := by
  first
  | exact LiveEq.of_eq (tie_pop_front s h hnd)
  | tieLive3 h hnd

maybe theorem ltie_swap (i j : Nat) (s : Sys) (h : Inv s.buf) (hnd : NonDefect (swap i j s).1) :
    LiveEq (Gen.swap i j s) (swap i j s) := by
  first
  | exact LiveEq.of_eq (tie_swap i j s h hnd)
  | tieLive3 h hnd

maybe theorem ltie_swap_remove_back (i : Nat) (s : Sys) (h : Inv s.buf) (hnd : NonDefect (swapRemoveBack i s).1) :
    LiveEq (Gen.swap_remove_back i s) (swapRemoveBack i s) := by
  first
  | exact LiveEq.of_eq (tie_swap_remove_back i s h hnd)
  | tieLive3 h hnd

maybe theorem ltie_swap_remove_front (i : Nat) (s : Sys) (h : Inv s.buf) (hnd : NonDefect (swapRemoveFront i s).1) :
    LiveEq (Gen.swap_remove_front i s) (swapRemoveFront i s) := by
  first
  | exact LiveEq.of_eq (tie_swap_remove_front i s h hnd)
  | tieLive3 h hnd

maybe theorem ltie_remove (i : Nat) (s : Sys) (h : Inv s.buf) (hnd : NonDefect (remove i s).1) :
    LiveEq (Gen.remove i s) (remove i s) := by
  first
  | exact LiveEq.of_eq (tie_remove i s h hnd)
  | tieLive3 h hnd

end CircBuf
