import CircBuf.Lemmas.TieTac
set_option linter.unusedSimpArgs false
set_option linter.unusedVariables false
set_option maxHeartbeats 1000000
/-! Tie theorems (remove / make_contiguous) — see `CircBuf/Lemmas/CoreTie.lean` for what they are. -/
namespace CircBuf

maybe theorem tie_remove (i : Nat) (s : Sys) (h : Inv s.buf)
    (hnd : NonDefect (remove i s).1) :
    Gen.remove i s = remove i s := by
  tie3 h hnd [Gen.remove, remove]
maybe theorem tie_make_contiguous (s : Sys) (h : Inv s.buf)
    (hnd : NonDefect (makeContiguous s).1) :
    Gen.make_contiguous s = makeContiguous s := by
  tie3 h hnd [Gen.make_contiguous, makeContiguous]

end CircBuf
