import CircBuf.Lemmas.TieTac
import CircBuf.Lemmas.Run
set_option linter.unusedSimpArgs false
set_option linter.unusedVariables false
set_option maxHeartbeats 1000000
/-! Tie theorems (remove / make_contiguous) — see `CircBuf/Lemmas/CoreTie.lean` for what they are. -/
namespace CircBuf

/-- `ptr::copy` of zero elements -/
theorem copy_len_zero (f : Nat → Cell) (src dst : Nat) : copy f src dst 0 = f := by
  funext j
  simp only [copy]
  split
  · exfalso; omega
  · rfl

/-- a fact about the hand-written model only: removing the last element is `pop_back` (nothing moves).
A body of `remove` may treat this case separately; the tie then compares that branch with `popBack`
instead of pushing the index `size - 1` through the general three-`copy` case analysis. -/
theorem remove_last_eq_popBack (s : Sys) (h : Inv s.buf) (hpos : 1 ≤ s.buf.size) :
    remove (s.buf.size - 1) s = popBack s := by
  have hsz := h.size_le; have hst := h.start_lt; have hcw := h.cap_lt
  have hcap : 0 < s.buf.cap := by omega
  have hp : phys s.buf.start s.buf.cap (s.buf.size - 1) < s.buf.cap := phys_lt _ _ _ hcap
  have hc0 : ¬ (s.buf.cap = 0 ∨ s.buf.size - 1 ≥ s.buf.size) := by omega
  have hc1 : ¬ (s.buf.cap = 0 ∨ s.buf.size = 0) := by omega
  unfold remove popBack backSlot decSize readInit
  mrun [hc0, hc1, checkIdx_run s _ hp, Nat.le_refl, Nat.sub_self, copy_len_zero, setItems, setSize]
  cases hcell : s.buf.items (phys s.buf.start s.buf.cap (s.buf.size - 1)) with
  | none => mrun [hcell]
  | some v => mrun [hcell, checkIdx_run, Nat.le_refl, Nat.sub_self, copy_len_zero, setItems, setSize]

/-! The last element (`i = size - 1`), two ways.  (b) pushes that index through whatever the body does in
general — fine for the pinned body, too large a case analysis for a body that handles this case on its own
and then goes on with the facts `i ≠ size - 1`.  (a) compares with `popBack` (`remove_last_eq_popBack`) —
fine for such a body.  A time-out is not an error `first` can catch, hence two declarations with a reduced
budget: (a) is attempted only when (b) does not exist. -/
set_option maxHeartbeats 400000 in
maybe theorem tie_remove_last_b (s : Sys) (h : Inv s.buf) (hpos : 1 ≤ s.buf.size)
    (hnd : NonDefect (remove (s.buf.size - 1) s).1) :
    Gen.remove (s.buf.size - 1) s = remove (s.buf.size - 1) s := by
  first
  | rfl
  | tie3 h hnd [Gen.remove, remove]

maybe theorem tie_remove_last (s : Sys) (h : Inv s.buf) (hpos : 1 ≤ s.buf.size)
    (hnd : NonDefect (remove (s.buf.size - 1) s).1) :
    Gen.remove (s.buf.size - 1) s = remove (s.buf.size - 1) s := by
  first
  | exact tie_remove_last_b s h hpos hnd
  | (rw [remove_last_eq_popBack s h hpos] at hnd ⊢
     tie3 h hnd [Gen.remove, popBack])

maybe theorem tie_remove (i : Nat) (s : Sys) (h : Inv s.buf)
    (hnd : NonDefect (remove i s).1) :
    Gen.remove i s = remove i s := by
  first
  | rfl
  | (by_cases hl : i + 1 = s.buf.size
     · have hl' : i = s.buf.size - 1 := by omega
       have hpos : 1 ≤ s.buf.size := by omega
       subst hl'
       exact tie_remove_last s h hpos hnd
     · tie3 h hnd [Gen.remove, remove])
maybe theorem tie_make_contiguous (s : Sys) (h : Inv s.buf)
    (hnd : NonDefect (makeContiguous s).1) :
    Gen.make_contiguous s = makeContiguous s := by
  tie3 h hnd [Gen.make_contiguous, makeContiguous]

end CircBuf
