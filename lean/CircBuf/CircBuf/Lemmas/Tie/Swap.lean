import CircBuf.Lemmas.TieTac
import CircBuf.Lemmas.Tie.PushPop
import CircBuf.Lemmas.NonDefect
set_option linter.unusedSimpArgs false
set_option linter.unusedVariables false
set_option maxHeartbeats 1000000
/-! Tie theorems (swap group) — see `CircBuf/Lemmas/CoreTie.lean` for what they are. -/
namespace CircBuf

/-! ### swap / swap_remove -/
maybe theorem tie_swap (i j : Nat) (s : Sys) (h : Inv s.buf)
    (hnd : NonDefect (swap i j s).1) :
    Gen.swap i j s = swap i j s := by
  tie3 h hnd [Gen.swap, swap]

maybe /-- the documented panics of `swap`, evaluated directly on the translated body (no invariant needed) -/
theorem gen_swap_panics_i (s : Sys) (i j : Nat) (hi : ¬ i < s.buf.size) :
    Gen.swap i j s = (.error (.doc "swap_i"), s) := by
  first | (tie [Gen.swap]; done) | exact swap_panics_i s i j hi
maybe theorem gen_swap_panics_j (s : Sys) (i j : Nat) (hi : i < s.buf.size) (hj : ¬ j < s.buf.size) :
    Gen.swap i j s = (.error (.doc "swap_j"), s) := by
  first | (tie [Gen.swap]; done) | exact swap_panics_j s i j hi hj

maybe /-- `swap_remove_back`: by unfolding the whole fragment; if the body still is `swap` followed by
`pop_back`, through the ties of those two -/
theorem tie_swap_remove_back (i : Nat) (s : Sys) (h : Inv s.buf)
    (hnd : NonDefect (swapRemoveBack i s).1) :
    Gen.swap_remove_back i s = swapRemoveBack i s := by
  first
  | (simp only [Gen.swap_remove_back, swapRemoveBack, getBuf_bind, bind_assoc_run, ite_run, pure_run, liftE_bind]
     split
     · rfl
     · rename_i hlt
       have hi : i < s.buf.size := by omega
       have hu : usub s.buf.size 1 = .ok (s.buf.size - 1) := by simp [usub]; omega
       simp only [hu, bind_run, tie_swap i (s.buf.size - 1) s h (nd_swap _ _ s h)]
       obtain ⟨b', e, hI', _⟩ := swap_spec s i (s.buf.size - 1) h hi (by omega)
       simp only [e, tie_pop_back { s with buf := b' } hI' (nd_popBack _ hI'), pure_run]
       done)
  | (tie3 h hnd [Gen.swap_remove_back, swapRemoveBack]; done)
maybe theorem tie_swap_remove_front (i : Nat) (s : Sys) (h : Inv s.buf)
    (hnd : NonDefect (swapRemoveFront i s).1) :
    Gen.swap_remove_front i s = swapRemoveFront i s := by
  first
  | (simp only [Gen.swap_remove_front, swapRemoveFront, getBuf_bind, bind_assoc_run, ite_run, pure_run]
     split
     · rfl
     · rename_i hlt
       have hi : i < s.buf.size := by omega
       simp only [bind_run, tie_swap i 0 s h (nd_swap _ _ s h)]
       obtain ⟨b', e, hI', _⟩ := swap_spec s i 0 h hi (by omega)
       simp only [e, tie_pop_front { s with buf := b' } hI' (nd_popFront _ hI'), pure_run]
       done)
  | (tie3 h hnd [Gen.swap_remove_front, swapRemoveFront]; done)

end CircBuf
