import CircBuf.Lemmas.TieTac
set_option linter.unusedSimpArgs false
set_option linter.unusedVariables false
/-! Tie theorems (swap group) — see `CircBuf/Lemmas/CoreTie.lean` for what they are. -/
namespace CircBuf

/-! ### swap / swap_remove -/
theorem tie_swap (i j : Nat) (s : Sys) (h : Inv s.buf) :
    Gen.swap i j s = swap i j s := by
  tie2 h [Gen.swap, swap]
/-- on all states (used where no invariant is assumed: the documented panics) -/
theorem tie_swap_all : Gen.swap = swap := by
  funext i j s; tie [Gen.swap, swap]
theorem tie_swap_remove_back (i : Nat) (s : Sys) (h : Inv s.buf) :
    Gen.swap_remove_back i s = swapRemoveBack i s := by
  tie2 h [Gen.swap_remove_back, swapRemoveBack, Gen.swap, swap, Gen.pop_back, popBack, Gen.back_maybe_uninit, backSlot, Gen.dec_size, decSize]
theorem tie_swap_remove_front (i : Nat) (s : Sys) (h : Inv s.buf) :
    Gen.swap_remove_front i s = swapRemoveFront i s := by
  tie2 h [Gen.swap_remove_front, swapRemoveFront, Gen.swap, swap, Gen.pop_front, popFront, Gen.front_maybe_uninit, frontSlot, Gen.dec_size, decSize, Gen.inc_start, incStart]

end CircBuf
