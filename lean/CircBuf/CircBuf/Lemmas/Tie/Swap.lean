import CircBuf.Lemmas.TieTac
set_option linter.unusedSimpArgs false
set_option linter.unusedVariables false
set_option maxHeartbeats 1000000
/-! Tie theorems (swap group) — see `CircBuf/Lemmas/CoreTie.lean` for what they are. -/
namespace CircBuf

/-! ### swap / swap_remove -/
theorem tie_swap (i j : Nat) (s : Sys) (h : Inv s.buf) :
    Gen.swap i j s = swap i j s := by
  tie2 h [Gen.swap, swap]
/-- on all states (used where no invariant is assumed: the documented panics) -/
theorem tie_swap_all : Gen.swap = swap := by
  funext i j s; tie [Gen.swap, swap]
/-- `swap` changes neither `size` nor `cap`, whatever it returns -/
theorem swap_keeps_size_cap (i j : Nat) (s : Sys) :
    (swap i j s).2.buf.size = s.buf.size ∧ (swap i j s).2.buf.cap = s.buf.cap := by
  tieS [swap]
/-- `pop_back` / `pop_front` as translated, on every state with `size ≤ cap` (what survives a `swap`) -/
theorem tie_pop_back_le (s : Sys) (h : s.buf.size ≤ s.buf.cap) : Gen.pop_back s = popBack s := by
  first
  | tie [Gen.pop_back, popBack, Gen.back_maybe_uninit, backSlot, Gen.dec_size, decSize]
theorem tie_pop_front_le (s : Sys) (h : s.buf.size ≤ s.buf.cap) : Gen.pop_front s = popFront s := by
  tie [Gen.pop_front, popFront, Gen.front_maybe_uninit, frontSlot, Gen.dec_size, decSize, Gen.inc_start, incStart]
theorem tie_swap_remove_back (i : Nat) (s : Sys) (h : Inv s.buf) :
    Gen.swap_remove_back i s = swapRemoveBack i s := by
  simp only [Gen.swap_remove_back, swapRemoveBack, getBuf_bind, bind_assoc_run, ite_run, pure_run, liftE_bind]
  split
  · rfl
  · cases usub s.buf.size 1 with
    | error p => rfl
    | ok t =>
      simp only [bind_run, tie_swap i t s h]
      cases hsw : swap i t s with
      | mk r s1 => cases r with
        | error p => rfl
        | ok u =>
          have hsz : s1.buf.size ≤ s1.buf.cap := by
            have := swap_keeps_size_cap i t s
            rw [hsw] at this
            simp only [] at this
            have := h.size_le
            omega
          simp only [tie_pop_back_le s1 hsz, pure_run]
theorem tie_swap_remove_front (i : Nat) (s : Sys) (h : Inv s.buf) :
    Gen.swap_remove_front i s = swapRemoveFront i s := by
  simp only [Gen.swap_remove_front, swapRemoveFront, getBuf_bind, bind_assoc_run, ite_run, pure_run]
  split
  · rfl
  · simp only [bind_run, tie_swap i 0 s h]
    cases hsw : swap i 0 s with
    | mk r s1 => cases r with
      | error p => rfl
      | ok u =>
        have hsz : s1.buf.size ≤ s1.buf.cap := by
          have := swap_keeps_size_cap i 0 s
          rw [hsw] at this
          simp only [] at this
          have := h.size_le
          omega
        simp only [tie_pop_front_le s1 hsz, pure_run]

end CircBuf
