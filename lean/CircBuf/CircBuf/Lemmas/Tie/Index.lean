import CircBuf.Lemmas.TieTac
set_option linter.unusedSimpArgs false
set_option linter.unusedVariables false
set_option maxHeartbeats 1000000
/-! Tie theorems (index group) — see `CircBuf/Lemmas/CoreTie.lean` for what they are. -/
namespace CircBuf

/-! ### index layer -/
maybe theorem tie_inc_start (s : Sys) (h : Inv s.buf) :
    Gen.inc_start s = incStart s := by
  tie2 h [Gen.inc_start, incStart]
maybe theorem tie_dec_start (s : Sys) (h : Inv s.buf) :
    Gen.dec_start s = decStart s := by
  tie2 h [Gen.dec_start, decStart]
maybe theorem tie_inc_size (s : Sys) (h : Inv s.buf) :
    Gen.inc_size s = incSize s := by
  tie2 h [Gen.inc_size, incSize]
maybe theorem tie_dec_size (s : Sys) (h : Inv s.buf) :
    Gen.dec_size s = decSize s := by
  tie2 h [Gen.dec_size, decSize]
maybe theorem tie_front_slot_mut (s : Sys) (h : Inv s.buf) :
    Gen.front_maybe_uninit_mut s = frontSlot s := by
  tie2 h [Gen.front_maybe_uninit_mut, frontSlot]
maybe theorem tie_front_slot (s : Sys) (h : Inv s.buf) :
    Gen.front_maybe_uninit s = frontSlot s := by
  tie2 h [Gen.front_maybe_uninit, frontSlot]
maybe theorem tie_back_slot (s : Sys) (h : Inv s.buf) :
    Gen.back_maybe_uninit s = backSlot s := by
  tie2 h [Gen.back_maybe_uninit, backSlot]
maybe theorem tie_back_slot_mut (s : Sys) (h : Inv s.buf) :
    Gen.back_maybe_uninit_mut s = backSlot s := by
  tie2 h [Gen.back_maybe_uninit_mut, backSlot]
maybe theorem tie_get_slot (i : Nat) (s : Sys) (h : Inv s.buf) :
    Gen.get_maybe_uninit i s = getSlot i s := by
  tie2 h [Gen.get_maybe_uninit, getSlot]
maybe theorem tie_get_slot_mut (i : Nat) (s : Sys) (h : Inv s.buf) :
    Gen.get_maybe_uninit_mut i s = getSlot i s := by
  tie2 h [Gen.get_maybe_uninit_mut, getSlot]
maybe theorem tie_slices_uninit_mut (s : Sys) (h : Inv s.buf) :
    Gen.slices_uninit_mut s = slicesUninitMut s := by
  tie2 h [Gen.slices_uninit_mut, slicesUninitMut]
maybe theorem tie_as_slices (s : Sys) (h : Inv s.buf) :
    Gen.as_slices s = asSlices s := by
  tie2 h [Gen.as_slices, asSlices, asSlicesOf, dassertE]
maybe theorem tie_as_mut_slices (s : Sys) (h : Inv s.buf) :
    Gen.as_mut_slices s = asSlices s := by
  tie2 h [Gen.as_mut_slices, asSlices, asSlicesOf, dassertE]

/-! ### queries -/
maybe theorem tie_len (s : Sys) : Gen.len s = (.ok s.buf.size, s) := rfl
maybe theorem tie_is_empty (s : Sys) : Gen.is_empty s = (.ok (decide (s.buf.size = 0)), s) := rfl
maybe theorem tie_is_full (s : Sys) : Gen.is_full s = (.ok (decide (s.buf.size = s.buf.cap)), s) := rfl

end CircBuf
