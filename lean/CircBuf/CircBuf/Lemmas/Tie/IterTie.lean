import CircBuf.Lemmas.TieTac
set_option linter.unusedSimpArgs false
set_option linter.unusedVariables false
set_option maxHeartbeats 1000000
/-! Tie theorems (iterator layer of `iter.rs`: `translate_range_bounds`, `Iter::{empty, new,
advance_front_by, advance_back_by, over_range, len}`) — see `CircBuf/Lemmas/CoreTie.lean` for what
they are.  These hold on every state (the iterator layer only reads the buffer). -/
namespace CircBuf

maybe theorem tie_translate_range_bounds (sb eb : Bound) (s : Sys) :
    Gen.translate_range_bounds sb eb s = translateRange sb eb s := by
  cases sb <;> cases eb <;>
    tie [Gen.translate_range_bounds, translateRange, Bound.startE, Bound.endE, checkedAdd]

/-- `translate_range_bounds` only reads the buffer -/
theorem translateRange_state (sb eb : Bound) (s : Sys) : (translateRange sb eb s).2 = s := by
  cases sb <;> cases eb <;>
    tieS [translateRange, Bound.startE, Bound.endE, checkedAdd]

/-- a range that `translate_range_bounds` accepts lies inside the buffer -/
theorem translateRange_inside (sb eb : Bound) (s s1 : Sys) (st en : Nat)
    (htr : translateRange sb eb s = (.ok (st, en), s1)) : en ≤ s.buf.size ∧ st ≤ en := by
  simp only [translateRange, bind_run, getBuf_run, liftE_run, ite_run, pure_run, raise_run] at htr
  cases hs : sb.startE with
  | error p => simp only [hs] at htr; cases htr
  | ok a =>
    cases he : eb.endE s.buf.size with
    | error p => simp only [hs, he] at htr; cases htr
    | ok b =>
      by_cases h1 : b ≤ s.buf.size
      · by_cases h2 : a ≤ b
        · simp only [hs, he, h1, h2, if_true, ite_true] at htr
          have e0 := Except.ok.inj (Prod.mk.inj htr).1
          have e1 : a = st := (Prod.mk.inj e0).1
          have e2 : b = en := (Prod.mk.inj e0).2
          omega
        · simp only [hs, he, h1, h2, if_true, if_false, ite_true, ite_false] at htr
          cases htr
      · simp only [hs, he, h1, if_false, ite_false] at htr
        cases htr

maybe theorem tie_iter_empty (s : Sys) : Gen.Iter_empty s = (.ok Iter.empty, s) := rfl

maybe theorem tie_iter_advance_front_by (it : Iter) (count : Nat) (s : Sys) :
    Gen.Iter_advance_front_by it count s = Iter.advanceFrontBy it count s := by
  tie [Gen.Iter_advance_front_by, Iter.advanceFrontBy, View.takeTo]

maybe theorem tie_iter_advance_back_by (it : Iter) (count : Nat) (s : Sys) :
    Gen.Iter_advance_back_by it count s = Iter.advanceBackBy it count s := by
  tie [Gen.Iter_advance_back_by, Iter.advanceBackBy, View.takeFrom]

maybe theorem tie_iter_len (it : Iter) (s : Sys) : Gen.Iter_len it s = Iter.len it s := by
  tie [Gen.Iter_len, Iter.len]

maybe theorem tie_iter_next (it : Iter) (s : Sys) : Gen.Iter_next it s = (.ok (Iter.next it), s) := by
  first
  | rfl
  | (obtain ⟨⟨ro, rl⟩, ⟨lo, ll⟩⟩ := it
     simp only [Gen.Iter_next, Iter.next, View.takeFirst, View.takeLast, pure_run, bind_run, ite_run]
     repeat' (first | rfl | ifsplit1 | split)
     all_goals (first | rfl | (exfalso; omega) | (simp_all; done)))

maybe theorem tie_iter_next_back (it : Iter) (s : Sys) : Gen.Iter_next_back it s = (.ok (Iter.nextBack it), s) := by
  first
  | rfl
  | (obtain ⟨⟨ro, rl⟩, ⟨lo, ll⟩⟩ := it
     simp only [Gen.Iter_next_back, Iter.nextBack, View.takeFirst, View.takeLast, pure_run, bind_run, ite_run]
     repeat' (first | rfl | ifsplit1 | split)
     all_goals (first | rfl | (exfalso; omega) | (simp_all; done)))

maybe theorem tie_iter_new (s : Sys) (h : Inv s.buf) : Gen.Iter_new s = Iter.new s := by
  tie2 h [Gen.Iter_new, Iter.new]

maybe theorem tie_iter_over_range (sb eb : Bound) (s : Sys) (h : Inv s.buf) :
    Gen.Iter_over_range sb eb s = Iter.overRange sb eb s := by
  first
  | rfl      -- (a body outside the subset is *defined* as the model's function)
  | (
     simp only [Gen.Iter_over_range, Iter.overRange, bind_run, tie_translate_range_bounds sb eb s]
     cases htr : translateRange sb eb s with
     | mk r s1 => cases r with
       | error p => rfl
       | ok se =>
         obtain ⟨st, en⟩ := se
         have hb := translateRange_inside sb eb s s1 st en htr
         have hs1 : s1 = s := by
           have := translateRange_state sb eb s
           rw [htr] at this
           exact this
         subst hs1
         -- the range lies inside the buffer: `len - end` cannot fail, so it does not matter when it is computed
         have hu : usub s1.buf.size en = .ok (s1.buf.size - en) := by simp [usub]; omega
         simp only [getBuf_bind, getBuf_run, ite_run, ite_bind, bind_run, pure_run, tie_iter_empty, tie_iter_new s1 h,
           tie_iter_advance_front_by, tie_iter_advance_back_by, liftE_bind, liftE_run, hu, bind_assoc_run, pure_bind_run]
         repeat' (first | rfl | ifsplit1 | split)
         all_goals (first | rfl | (exfalso; omega)))

/-! ### `IterMut`: its own copy of the same code, tied to the same model functions -/

maybe theorem tie_itermut_empty (s : Sys) : Gen.IterMut_empty s = (.ok Iter.empty, s) := rfl

maybe theorem tie_itermut_advance_front_by (it : Iter) (count : Nat) (s : Sys) :
    Gen.IterMut_advance_front_by it count s = Iter.advanceFrontBy it count s := by
  tie [Gen.IterMut_advance_front_by, Iter.advanceFrontBy, View.takeTo]

maybe theorem tie_itermut_advance_back_by (it : Iter) (count : Nat) (s : Sys) :
    Gen.IterMut_advance_back_by it count s = Iter.advanceBackBy it count s := by
  tie [Gen.IterMut_advance_back_by, Iter.advanceBackBy, View.takeFrom]

maybe theorem tie_itermut_len (it : Iter) (s : Sys) : Gen.IterMut_len it s = Iter.len it s := by
  tie [Gen.IterMut_len, Iter.len]

maybe theorem tie_itermut_next (it : Iter) (s : Sys) : Gen.IterMut_next it s = (.ok (Iter.next it), s) := by
  first
  | rfl
  | (obtain ⟨⟨ro, rl⟩, ⟨lo, ll⟩⟩ := it
     simp only [Gen.IterMut_next, Iter.next, View.takeFirst, View.takeLast, pure_run, bind_run, ite_run]
     repeat' (first | rfl | ifsplit1 | split)
     all_goals (first | rfl | (exfalso; omega) | (simp_all; done)))

maybe theorem tie_itermut_next_back (it : Iter) (s : Sys) : Gen.IterMut_next_back it s = (.ok (Iter.nextBack it), s) := by
  first
  | rfl
  | (obtain ⟨⟨ro, rl⟩, ⟨lo, ll⟩⟩ := it
     simp only [Gen.IterMut_next_back, Iter.nextBack, View.takeFirst, View.takeLast, pure_run, bind_run, ite_run]
     repeat' (first | rfl | ifsplit1 | split)
     all_goals (first | rfl | (exfalso; omega) | (simp_all; done)))

maybe theorem tie_itermut_new (s : Sys) (h : Inv s.buf) : Gen.IterMut_new s = Iter.new s := by
  tie2 h [Gen.IterMut_new, Iter.new]

maybe theorem tie_itermut_over_range (sb eb : Bound) (s : Sys) (h : Inv s.buf) :
    Gen.IterMut_over_range sb eb s = Iter.overRange sb eb s := by
  first
  | rfl      -- (a body outside the subset is *defined* as the model's function)
  | (
     simp only [Gen.IterMut_over_range, Iter.overRange, bind_run, tie_translate_range_bounds sb eb s]
     cases htr : translateRange sb eb s with
     | mk r s1 => cases r with
       | error p => rfl
       | ok se =>
         obtain ⟨st, en⟩ := se
         have hb := translateRange_inside sb eb s s1 st en htr
         have hs1 : s1 = s := by
           have := translateRange_state sb eb s
           rw [htr] at this
           exact this
         subst hs1
         -- the range lies inside the buffer: `len - end` cannot fail, so it does not matter when it is computed
         have hu : usub s1.buf.size en = .ok (s1.buf.size - en) := by simp [usub]; omega
         simp only [getBuf_bind, getBuf_run, ite_run, ite_bind, bind_run, pure_run, tie_itermut_empty, tie_itermut_new s1 h,
           tie_itermut_advance_front_by, tie_itermut_advance_back_by, liftE_bind, liftE_run, hu, bind_assoc_run, pure_bind_run]
         repeat' (first | rfl | ifsplit1 | split)
         all_goals (first | rfl | (exfalso; omega)))

end CircBuf
