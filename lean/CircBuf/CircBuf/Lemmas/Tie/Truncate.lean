import CircBuf.Lemmas.TieTac
set_option linter.unusedSimpArgs false
set_option linter.unusedVariables false
set_option maxHeartbeats 1000000
/-! Tie theorems (truncate group) — see `CircBuf/Lemmas/CoreTie.lean` for what they are. -/
namespace CircBuf

/-! ### drop_range / truncate / clear -/
/-- a run of `drop_range` on a non-empty range that does not end in a defect passed all its assertions -/
theorem dropRange_nd_facts (rs re : Nat) (s : Sys) (hlt : ¬ re ≤ rs) (hnd : NonDefect (dropRange rs re s).1) :
    s.buf.start < s.buf.cap ∧ s.buf.size ≤ s.buf.cap ∧ rs < s.buf.size ∧ re ≤ s.buf.size ∧
      (rs = 0 ∨ re = s.buf.size) := by
  simp only [dropRange, getBuf_bind, dassert_bind, ite_run, hlt, if_false, ite_false, decide_eq_true_eq] at hnd
  by_cases h1 : s.buf.start < s.buf.cap
  · by_cases h2 : s.buf.size ≤ s.buf.cap
    · by_cases h3 : rs < s.buf.size
      · by_cases h4 : re ≤ s.buf.size
        · by_cases h6 : rs = 0 ∨ re = s.buf.size
          · exact ⟨h1, h2, h3, h4, h6⟩
          · have h5 : rs < re := by omega
            simp [h1, h2, h3, h4, h5, h6, NonDefect, Panic.defect] at hnd
        · simp [h1, h2, h3, h4, NonDefect, Panic.defect] at hnd
      · simp [h1, h2, h3, NonDefect, Panic.defect] at hnd
    · simp [h1, h2, NonDefect, Panic.defect] at hnd
  · simp [h1, NonDefect, Panic.defect] at hnd

theorem dip_range'_zero (a n : Nat) (h : n = 0) : dropInPlace (List.range' a n) = pure () := by
  subst h; simp [dropInPlace_nil]

maybe /-- `drop_range`: the facts its assertions establish (from the non-defect run of the model) are put into the
context, both bodies are evaluated under them (no assertion, no index computation can fail there), the
conditions are split and the two pairs of segments compared up to arithmetic — however they are computed -/
theorem tie_drop_range (rs re : Nat) (s : Sys) (h : Inv s.buf) (hnd : NonDefect (dropRange rs re s).1) :
    Gen.drop_range (rs, re) s = dropRange rs re s := by
  first
  | rfl      -- (a body outside the subset is *defined* as the model's function)
  | (
     have hW := h.cap_lt
     by_cases hlt : re ≤ rs
     · have hm : dropRange rs re s = (.ok (), s) := by simp only [dropRange, hlt, if_true, ite_true, pure_run]
       rw [hm]
       simp only [Gen.drop_range, getBuf_bind, getBuf_run, ite_run, ite_bind, bind_assoc_run, pure_run, pure_bind_run, bind_run,
         decide_eq_true_eq]
       repeat' (first | rfl | ifsplit1)
       all_goals (first | rfl | (exfalso; omega))
     · obtain ⟨f1, f2, f3, f4, f6⟩ := dropRange_nd_facts rs re s hlt hnd
       have f5 : rs < re := by omega
       have hcpos : 0 < s.buf.cap := by omega
       simp only [Gen.drop_range, dropRange, dropSegments, getBuf_bind, getBuf_run, setBuf_bind, setBuf_run,
         ite_run, ite_bind, bind_assoc_run, pure_run, pure_bind_run, bind_run, liftE_bind, liftE_run, dassert_bind, dassert_run,
         decide_eq_true_eq, amod, smod, setStart, setSize, checkRange, View.sub,
         View.splitAt, View.all, View.empty, View.slots, liftE_ite, liftE_ok_eq, liftE_pure_eq, liftE_error_eq, liftE_bind_dist, raise_bind, raise_run, uadd, usub]
       simp only [f1, f2, f3, f4, f5, f6, hlt, if_true, if_false, ite_true, ite_false, not_true_eq_false, not_false_eq_true,
         bind_run, pure_run, getBuf_bind, getBuf_run, setBuf_bind, setBuf_run, ite_run, ite_bind, bind_assoc_run, pure_bind_run, liftE_bind, liftE_run]
       try simp (disch := omega) only [addMod_ite, subMod_ite, if_pos, if_neg]
       repeat' (first
         | rfl
         | (simp (disch := omega) only [getBuf_bind, getBuf_run, setBuf_bind, setBuf_run, ite_run, ite_bind, bind_assoc_run,
              pure_run, pure_bind_run, bind_run, liftE_bind, liftE_run, raise_bind, raise_run, addMod_ite, if_pos, if_neg])
         | ifsplit1
         | esplit1
         | split)
       all_goals (try subst_vars)
       all_goals (try (simp (disch := omega) only [Nat.zero_add, Nat.add_zero, Nat.sub_zero, range'_zero_len, dropInPlace_nil,
         dip_range'_zero]))
       all_goals (first | rfl | (exfalso; omega) | (congr 1 <;> first | rfl | omega | (congr 1 <;> first | rfl | omega | (congr 1 <;> first | rfl | omega | (congr 1 <;> first | rfl | omega)))) | skip))

/-- evaluation of the translated body of `truncate_*`: its conditions are split (innermost first; the
combinations the arithmetic facts exclude are pruned), calls of `drop_range` are replaced by the model's
(`htie`), what remains is compared -/
syntax "truncEval" "[" Lean.Parser.Tactic.simpLemma,* "]" : tactic
macro_rules
  | `(tactic| truncEval [$ls,*]) => `(tactic| (
      simp only [$ls,*, getBuf_bind, getBuf_run, ite_run, ite_bind, bind_assoc_run, pure_run, pure_bind_run, liftE_bind,
        liftE_run, dassert_bind, bind_run, uadd, usub, decide_eq_true_eq, Nat.sub_zero, Nat.zero_add, Nat.add_zero]
      repeat' (first
        | rfl
        | ifsplit1
        | (simp only [$ls,*, getBuf_bind, getBuf_run, ite_run, ite_bind, bind_assoc_run, pure_run, pure_bind_run,
             liftE_bind, liftE_run, dassert_bind, dassert_run, bind_run])
        | split)))

maybe theorem tie_truncate_back (n : Nat) (s : Sys) (h : Inv s.buf) (hnd : NonDefect (truncateBack n s).1) :
    Gen.truncate_back n s = truncateBack n s := by
  first
  | rfl      -- (a body outside the subset is *defined* as the model's function)
  | (
     have hsz := h.size_le
     have hW := h.cap_lt
     by_cases hz : s.buf.cap = 0 ∨ n ≥ s.buf.size
     · -- nothing to do: the model returns at once; so must the source, whatever the order of its tests
       have hm : truncateBack n s = (.ok (), s) := by
         simp only [truncateBack, getBuf_bind, ite_run, hz, if_true, pure_run]
       rw [hm]
       truncEval [Gen.truncate_back]
       all_goals (first | rfl | (exfalso; omega))
     · have hn : n < s.buf.size := by omega
       have hm : truncateBack n s = (dropRange n s.buf.size >>= fun _ => do
           let b' ← getBuf
           dassert (decide (b'.size = n))) s := by
         simp only [truncateBack, getBuf_bind, ite_run, hz, if_false]
       rw [hm] at hnd ⊢
       have hnd' := nd_of_bind _ _ s hnd
       have htie := tie_drop_range n s.buf.size s h hnd'
       truncEval [Gen.truncate_back, htie]
       all_goals (first | rfl | (exfalso; omega) |
         (cases dropRange n s.buf.size s with
          | mk r s1 => cases r with
            | error p => rfl
            | ok u =>
              simp only [getBuf_run, dassert_run, pure_run, getBuf_bind, dassert_bind]
              by_cases hc : s1.buf.size = n <;>
                simp only [hc, decide_true, decide_false, if_true, if_false, ite_true, ite_false, Bool.false_eq_true] <;> rfl)))
maybe theorem tie_truncate_front (n : Nat) (s : Sys) (h : Inv s.buf) (hnd : NonDefect (truncateFront n s).1) :
    Gen.truncate_front n s = truncateFront n s := by
  first
  | rfl      -- (a body outside the subset is *defined* as the model's function)
  | (
     have hsz := h.size_le
     have hW := h.cap_lt
     by_cases hz : s.buf.cap = 0 ∨ n ≥ s.buf.size
     · have hm : truncateFront n s = (.ok (), s) := by
         simp only [truncateFront, getBuf_bind, ite_run, hz, if_true, pure_run]
       rw [hm]
       truncEval [Gen.truncate_front]
       all_goals (first | rfl | (exfalso; omega))
     · have hn : n ≤ s.buf.size := by omega
       have hu : usub s.buf.size n = .ok (s.buf.size - n) := by simp [usub]; omega
       have hm : truncateFront n s = (dropRange 0 (s.buf.size - n) >>= fun _ => do
           let b' ← getBuf
           dassert (decide (b'.size = n))) s := by
         simp only [truncateFront, getBuf_bind, ite_run, hz, if_false, liftE_bind, hu, bind_assoc_run]
       rw [hm] at hnd ⊢
       have hnd' := nd_of_bind _ _ s hnd
       have htie := tie_drop_range 0 (s.buf.size - n) s h hnd'
       truncEval [Gen.truncate_front, htie]
       all_goals (first | rfl | (exfalso; omega) |
         (cases dropRange 0 (s.buf.size - n) s with
          | mk r s1 => cases r with
            | error p => rfl
            | ok u =>
              simp only [getBuf_run, dassert_run, pure_run, getBuf_bind, dassert_bind]
              by_cases hc : s1.buf.size = n <;>
                simp only [hc, decide_true, decide_false, if_true, if_false, ite_true, ite_false, Bool.false_eq_true] <;> rfl)))
maybe theorem tie_clear (s : Sys) (h : Inv s.buf) (hnd : NonDefect (clear s).1) : Gen.clear s = clear s := by
  first
  | rfl      -- (a body outside the subset is *defined* as the model's function)
  | (-- `clear` as `truncate_back(0)`
     have hnd' : NonDefect (truncateBack 0 s).1 := hnd
     simp only [Gen.clear, clear, bind_run, pure_run, tie_truncate_back 0 s h hnd']
     cases truncateBack 0 s with
     | mk r s1 => cases r <;> rfl)
  | (-- `truncate_back(0)` behind a guard of its own (`if self.size == 0 { return; }`)
     have hnd' : NonDefect (truncateBack 0 s).1 := hnd
     have hsz := h.size_le
     simp only [Gen.clear, clear, bind_run, pure_run, getBuf_bind, getBuf_run, ite_run, ite_bind,
       tie_truncate_back 0 s h hnd']
     repeat' (first | rfl | ifsplit1)
     all_goals (first
       | rfl
       | (cases truncateBack 0 s with
          | mk r s1 => cases r <;> rfl)
       | (have hm : truncateBack 0 s = (.ok (), s) := by
            simp only [truncateBack, getBuf_bind, ite_run, pure_run]
            rw [if_pos (by omega)]
          rw [hm])))
  | (-- any other body: evaluated, against `truncate_back(0)` brought into its two forms
     have hsz := h.size_le
     have hW := h.cap_lt
     have hcl : clear s = truncateBack 0 s := rfl
     rw [hcl] at hnd ⊢
     by_cases hz : s.buf.cap = 0 ∨ 0 ≥ s.buf.size
     · have hm : truncateBack 0 s = (.ok (), s) := by
         simp only [truncateBack, getBuf_bind, ite_run, hz, if_true, pure_run]
       rw [hm]
       truncEval [Gen.clear]
       all_goals (first | rfl | (exfalso; omega))
     · have hm : truncateBack 0 s = (dropRange 0 s.buf.size >>= fun _ => do
           let b' ← getBuf
           dassert (decide (b'.size = 0))) s := by
         simp only [truncateBack, getBuf_bind, ite_run, hz, if_false]
       have hnd0 := hnd
       rw [hm] at hnd ⊢
       have hnd' := nd_of_bind _ _ s hnd
       have htie := tie_drop_range 0 s.buf.size s h hnd'
       -- a body that still calls `truncate_back(0)` behind a guard of its own: that call by its tie
       first
       | (have htb : Gen.truncate_back 0 s = (dropRange 0 s.buf.size >>= fun _ => do
              let b' ← getBuf
              dassert (decide (b'.size = 0))) s := by rw [tie_truncate_back 0 s h hnd0, hm]
          truncEval [Gen.clear, htb, htie])
       | truncEval [Gen.clear, htie]
       all_goals (first | rfl | (exfalso; omega) |
         (cases dropRange 0 s.buf.size s with
          | mk r s1 => cases r with
            | error p => rfl
            | ok u =>
              simp only [getBuf_run, dassert_run, pure_run, getBuf_bind, dassert_bind]
              by_cases hc : s1.buf.size = 0 <;>
                simp only [hc, decide_true, decide_false, if_true, if_false, ite_true, ite_false, Bool.false_eq_true] <;> rfl)))

end CircBuf
