import CircBuf.Lemmas.TieTac
set_option linter.unusedSimpArgs false
set_option linter.unusedVariables false
set_option maxHeartbeats 1000000
/-! Tie theorems (truncate group) — see `CircBuf/Lemmas/CoreTie.lean` for what they are. -/
namespace CircBuf

/-! ### drop_range / truncate / clear -/
maybe theorem tie_drop_range (rs re : Nat) (s : Sys) (h : Inv s.buf) (hnd : NonDefect (dropRange rs re s).1) :
    Gen.drop_range (rs, re) s = dropRange rs re s := by
  tie3 h hnd [Gen.drop_range, dropRange, dropSegments]
/-- evaluation of the translated body of `truncate_*`: its conditions are split (innermost first; the
combinations the arithmetic facts exclude are pruned), calls of `drop_range` are replaced by the model's
(`htie`), what remains is compared -/
syntax "truncEval" "[" Lean.Parser.Tactic.simpLemma,* "]" : tactic
macro_rules
  | `(tactic| truncEval [$ls,*]) => `(tactic| (
      simp only [$ls,*, getBuf_bind, getBuf_run, ite_run, ite_bind, bind_assoc_run, pure_run, pure_bind_run, liftE_bind,
        liftE_run, dassert_bind, bind_run, uadd, usub, decide_eq_true_eq, Nat.sub_zero, Nat.zero_add, Nat.add_zero]
      repeat' (first
        | rfl
        | ifsplit1
        | (simp only [$ls,*, getBuf_bind, getBuf_run, ite_run, ite_bind, bind_assoc_run, pure_run, pure_bind_run,
             liftE_bind, liftE_run, dassert_bind, dassert_run, bind_run])
        | split)))

maybe theorem tie_truncate_back (n : Nat) (s : Sys) (h : Inv s.buf) (hnd : NonDefect (truncateBack n s).1) :
    Gen.truncate_back n s = truncateBack n s := by
  first
  | rfl      -- (a body outside the subset is *defined* as the model's function)
  | (
     have hsz := h.size_le
     have hW := h.cap_lt
     by_cases hz : s.buf.cap = 0 ∨ n ≥ s.buf.size
     · -- nothing to do: the model returns at once; so must the source, whatever the order of its tests
       have hm : truncateBack n s = (.ok (), s) := by
         simp only [truncateBack, getBuf_bind, ite_run, hz, if_true, pure_run]
       rw [hm]
       truncEval [Gen.truncate_back]
       all_goals (first | rfl | (exfalso; omega))
     · have hn : n < s.buf.size := by omega
       have hm : truncateBack n s = (dropRange n s.buf.size >>= fun _ => do
           let b' ← getBuf
           dassert (decide (b'.size = n))) s := by
         simp only [truncateBack, getBuf_bind, ite_run, hz, if_false]
       rw [hm] at hnd ⊢
       have hnd' := nd_of_bind _ _ s hnd
       have htie := tie_drop_range n s.buf.size s h hnd'
       truncEval [Gen.truncate_back, htie]
       all_goals (first | rfl | (exfalso; omega) |
         (cases dropRange n s.buf.size s with
          | mk r s1 => cases r with
            | error p => rfl
            | ok u =>
              simp only [getBuf_run, dassert_run, pure_run, getBuf_bind, dassert_bind]
              by_cases hc : s1.buf.size = n <;>
                simp only [hc, decide_true, decide_false, if_true, if_false, ite_true, ite_false, Bool.false_eq_true] <;> rfl)))
maybe theorem tie_truncate_front (n : Nat) (s : Sys) (h : Inv s.buf) (hnd : NonDefect (truncateFront n s).1) :
    Gen.truncate_front n s = truncateFront n s := by
  first
  | rfl      -- (a body outside the subset is *defined* as the model's function)
  | (
     have hsz := h.size_le
     have hW := h.cap_lt
     by_cases hz : s.buf.cap = 0 ∨ n ≥ s.buf.size
     · have hm : truncateFront n s = (.ok (), s) := by
         simp only [truncateFront, getBuf_bind, ite_run, hz, if_true, pure_run]
       rw [hm]
       truncEval [Gen.truncate_front]
       all_goals (first | rfl | (exfalso; omega))
     · have hn : n ≤ s.buf.size := by omega
       have hu : usub s.buf.size n = .ok (s.buf.size - n) := by simp [usub]; omega
       have hm : truncateFront n s = (dropRange 0 (s.buf.size - n) >>= fun _ => do
           let b' ← getBuf
           dassert (decide (b'.size = n))) s := by
         simp only [truncateFront, getBuf_bind, ite_run, hz, if_false, liftE_bind, hu, bind_assoc_run]
       rw [hm] at hnd ⊢
       have hnd' := nd_of_bind _ _ s hnd
       have htie := tie_drop_range 0 (s.buf.size - n) s h hnd'
       truncEval [Gen.truncate_front, htie]
       all_goals (first | rfl | (exfalso; omega) |
         (cases dropRange 0 (s.buf.size - n) s with
          | mk r s1 => cases r with
            | error p => rfl
            | ok u =>
              simp only [getBuf_run, dassert_run, pure_run, getBuf_bind, dassert_bind]
              by_cases hc : s1.buf.size = n <;>
                simp only [hc, decide_true, decide_false, if_true, if_false, ite_true, ite_false, Bool.false_eq_true] <;> rfl)))
maybe theorem tie_clear (s : Sys) (h : Inv s.buf) (hnd : NonDefect (clear s).1) : Gen.clear s = clear s := by
  first
  | rfl      -- (a body outside the subset is *defined* as the model's function)
  | (
     have hnd' : NonDefect (truncateBack 0 s).1 := hnd
     simp only [Gen.clear, clear, bind_run, pure_run, tie_truncate_back 0 s h hnd']
     cases truncateBack 0 s with
     | mk r s1 => cases r <;> rfl)

end CircBuf
