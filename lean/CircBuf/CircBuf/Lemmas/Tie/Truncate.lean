import CircBuf.Lemmas.TieTac
set_option linter.unusedSimpArgs false
set_option linter.unusedVariables false
set_option maxHeartbeats 1000000
/-! Tie theorems (truncate group) — see `CircBuf/Lemmas/CoreTie.lean` for what they are. -/
namespace CircBuf

/-! ### drop_range / truncate / clear -/
theorem tie_drop_range (rs re : Nat) (s : Sys) (h : Inv s.buf) :
    Gen.drop_range (rs, re) s = dropRange rs re s := by
  tie2 h [Gen.drop_range, dropRange, dropSegments]
theorem tie_truncate_back (n : Nat) (s : Sys) (h : Inv s.buf) : Gen.truncate_back n s = truncateBack n s := by
  simp only [Gen.truncate_back, truncateBack, getBuf_bind, ite_run, bind_assoc_run, pure_run, pure_bind_run]
  split
  · rfl
  · rename_i hz
    have hn : n < s.buf.size := by omega
    -- a body that guards the call with `!range.is_empty()` (always true here) is the same body
    try simp only [hn, not_true_eq_false, not_false_eq_true, Classical.not_not, if_true, ite_true, ite_run, ite_bind,
      bind_assoc_run, pure_bind_run]
    simp only [bind_run, tie_drop_range n s.buf.size s h]
    cases dropRange n s.buf.size s with
    | mk r s1 => cases r with
      | error p => rfl
      | ok u =>
        simp only [getBuf_run, dassert_run, pure_run]
        by_cases hc : decide (s1.buf.size = n) = true <;> simp only [hc, if_true, if_false, ite_true, ite_false] <;> rfl
theorem tie_truncate_front (n : Nat) (s : Sys) (h : Inv s.buf) : Gen.truncate_front n s = truncateFront n s := by
  simp only [Gen.truncate_front, truncateFront, getBuf_bind, ite_run, bind_assoc_run, pure_run, pure_bind_run,
    liftE_bind]
  split
  · rfl
  · cases usub s.buf.size n with
    | error p => rfl
    | ok t =>
      simp only [bind_run, tie_drop_range 0 t s h]
      cases dropRange 0 t s with
      | mk r s1 => cases r with
        | error p => rfl
        | ok u =>
          simp only [getBuf_run, dassert_run, pure_run]
          by_cases hc : decide (s1.buf.size = n) = true <;> simp only [hc, if_true, if_false, ite_true, ite_false] <;> rfl
theorem tie_clear (s : Sys) (h : Inv s.buf) : Gen.clear s = clear s := by
  simp only [Gen.clear, clear, bind_run, pure_run, tie_truncate_back 0 s h]
  cases truncateBack 0 s with
  | mk r s1 => cases r <;> rfl

end CircBuf
