import CircBuf.Lemmas.TieTac
set_option linter.unusedSimpArgs false
set_option linter.unusedVariables false
set_option maxHeartbeats 1000000
/-! Tie theorems (truncate group) — see `CircBuf/Lemmas/CoreTie.lean` for what they are. -/
namespace CircBuf

/-! ### drop_range / truncate / clear -/
maybe theorem tie_drop_range (rs re : Nat) (s : Sys) (h : Inv s.buf) (hnd : NonDefect (dropRange rs re s).1) :
    Gen.drop_range (rs, re) s = dropRange rs re s := by
  tie3 h hnd [Gen.drop_range, dropRange, dropSegments]
maybe theorem tie_truncate_back (n : Nat) (s : Sys) (h : Inv s.buf) (hnd : NonDefect (truncateBack n s).1) :
    Gen.truncate_back n s = truncateBack n s := by
  first
  | rfl      -- (a body outside the subset is *defined* as the model's function)
  | (
     by_cases hz : s.buf.cap = 0 ∨ n ≥ s.buf.size
     · simp only [Gen.truncate_back, truncateBack, getBuf_bind, ite_run, hz, if_true]
     · have hn : n < s.buf.size := by omega
       have hm : truncateBack n s = (dropRange n s.buf.size >>= fun _ => do
           let b' ← getBuf
           dassert (decide (b'.size = n))) s := by
         simp only [truncateBack, getBuf_bind, ite_run, hz, if_false]
       rw [hm] at hnd
       have hnd' := nd_of_bind _ _ s hnd
       simp only [Gen.truncate_back, truncateBack, getBuf_bind, ite_run, bind_assoc_run, pure_run, pure_bind_run, hz,
         if_false]
       -- a body that guards the call with `!range.is_empty()` (always true here) is the same body
       try simp only [hn, not_true_eq_false, not_false_eq_true, Classical.not_not, if_true, ite_true, ite_run, ite_bind,
         bind_assoc_run, pure_bind_run]
       simp only [bind_run, tie_drop_range n s.buf.size s h hnd']
       cases dropRange n s.buf.size s with
       | mk r s1 => cases r with
         | error p => rfl
         | ok u =>
           simp only [getBuf_run, dassert_run, pure_run]
           by_cases hc : decide (s1.buf.size = n) = true <;> simp only [hc, if_true, if_false, ite_true, ite_false] <;> rfl)
maybe theorem tie_truncate_front (n : Nat) (s : Sys) (h : Inv s.buf) (hnd : NonDefect (truncateFront n s).1) :
    Gen.truncate_front n s = truncateFront n s := by
  first
  | rfl      -- (a body outside the subset is *defined* as the model's function)
  | (
     by_cases hz : s.buf.cap = 0 ∨ n ≥ s.buf.size
     · simp only [Gen.truncate_front, truncateFront, getBuf_bind, ite_run, hz, if_true]
     · have hn : n ≤ s.buf.size := by omega
       have hu : usub s.buf.size n = .ok (s.buf.size - n) := by simp [usub]; omega
       have hm : truncateFront n s = (dropRange 0 (s.buf.size - n) >>= fun _ => do
           let b' ← getBuf
           dassert (decide (b'.size = n))) s := by
         simp only [truncateFront, getBuf_bind, ite_run, hz, if_false, liftE_bind, hu, bind_assoc_run]
       rw [hm] at hnd
       have hnd' := nd_of_bind _ _ s hnd
       simp only [Gen.truncate_front, truncateFront, getBuf_bind, ite_run, bind_assoc_run, pure_run, pure_bind_run,
         liftE_bind, hz, if_false, hu]
       simp only [bind_run, tie_drop_range 0 (s.buf.size - n) s h hnd']
       cases dropRange 0 (s.buf.size - n) s with
       | mk r s1 => cases r with
         | error p => rfl
         | ok u =>
           simp only [getBuf_run, dassert_run, pure_run]
           by_cases hc : decide (s1.buf.size = n) = true <;> simp only [hc, if_true, if_false, ite_true, ite_false] <;> rfl)
maybe theorem tie_clear (s : Sys) (h : Inv s.buf) (hnd : NonDefect (clear s).1) : Gen.clear s = clear s := by
  first
  | rfl      -- (a body outside the subset is *defined* as the model's function)
  | (
     have hnd' : NonDefect (truncateBack 0 s).1 := hnd
     simp only [Gen.clear, clear, bind_run, pure_run, tie_truncate_back 0 s h hnd']
     cases truncateBack 0 s with
     | mk r s1 => cases r <;> rfl)

end CircBuf
