import CircBuf.Lemmas.TieTac
import CircBuf.Lemmas.Tie.PushPop
import CircBuf.Lemmas.Tie.Truncate
import CircBuf.Lemmas.NonDefect
import CircBuf.Lemmas.While
set_option linter.unusedSimpArgs false
set_option linter.unusedVariables false
set_option maxHeartbeats 1000000
/-! Tie theorems (`fill_spare_with`, `fill_with`: the closure-calling operations) — see
`CircBuf/Lemmas/CoreTie.lean` for what they are.  The `while self.size < N` loop is the fuelled loop `whileM`
(`Mem.lean`) over the translated body; `whileM_congr` reduces its tie to the tie of one iteration on the
states satisfying the invariant, which the model's iteration preserves. -/
namespace CircBuf

/-- congruence of the fuelled state loop in its body, under an invariant of the state -/
theorem whileM_congr (msg : String) (c : M Bool) (f g : M Unit) (I : Sys → Prop)
    (hc : ∀ s, (c s).2 = s)
    (hstep : ∀ s, I s → f s = g s)
    (hpres : ∀ s s', I s → g s = (.ok (), s') → I s') :
    ∀ (fuel : Nat) (s : Sys), I s → whileM msg c f fuel s = whileM msg c g fuel s := by
  intro fuel
  induction fuel with
  | zero => intro s _; simp only [whileM]
  | succ n ih =>
    intro s hI
    simp only [whileM, bind_run]
    have h0 := hc s
    cases hcs : c s with
    | mk r s0 =>
      rw [hcs] at h0
      simp only at h0
      subst h0
      cases r with
      | error p => rfl
      | ok b =>
        cases b with
        | false => rfl
        | true =>
          simp only [if_true, ite_true, bind_run, hstep s0 hI]
          cases hg : g s0 with
          | mk r2 s2 => cases r2 with
            | error p => rfl
            | ok u => exact ih s2 (hpres s0 s2 hI hg)

/-- one iteration of the model's `fill_spare_with` loop -/
def fillWithBody : M Unit := do
  let e ← produceElem "call"
  let r ← pushBack e
  dropOpt r

theorem fillSpareWithLoop_eq_whileM (fuel : Nat) :
    fillSpareWithLoop fuel =
      whileM "fill_spare_with: fuel exhausted" (do pure (decide ((← getBuf).size < (← getBuf).cap))) fillWithBody fuel := by
  induction fuel with
  | zero =>
    funext s
    simp only [fillSpareWithLoop, whileM, bind_run, getBuf_run, pure_run]
    by_cases h : s.buf.size < s.buf.cap <;>
      simp only [h, decide_true, decide_false, if_true, if_false, ite_true, ite_false, Bool.false_eq_true] <;> rfl
  | succ n ih =>
    funext s
    simp only [fillSpareWithLoop, whileM, ih, fillWithBody, bind_run, getBuf_run, pure_run]
    by_cases h : s.buf.size < s.buf.cap <;>
      simp only [h, decide_true, decide_false, if_true, if_false, ite_true, ite_false, Bool.false_eq_true, bind_run] <;>
      (try rfl)
    all_goals (
      cases produceElem "call" s with
      | mk r1 s1 =>
        cases r1 <;> first
          | rfl
          | (simp only []; done)
          | (simp only []
             cases pushBack _ s1 with
             | mk r2 s2 =>
               cases r2 <;> first
                 | rfl
                 | (simp only []; done)
                 | (simp only []
                    cases dropOpt _ s2 with
                    | mk r3 s3 => cases r3 <;> rfl)))

theorem produceElem_buf (w : String) (s : Sys) : (produceElem w s).2.buf = s.buf := by
  unfold produceElem
  dsimp only
  repeat' split
  all_goals rfl

theorem dropOpt_buf (o : Option Elem) (s : Sys) : (dropOpt o s).2.buf = s.buf := by
  cases o with
  | none => rfl
  | some e => exact dropElem_buf e s

/-- the model's iteration preserves the invariant -/
theorem fillWithBody_inv (s s' : Sys) (h : Inv s.buf) (hg : fillWithBody s = (.ok (), s')) : Inv s'.buf := by
  simp only [fillWithBody, bind_run] at hg
  have hb1 := produceElem_buf "call" s
  cases hp : produceElem "call" s with
  | mk r1 s1 =>
    rw [hp] at hg hb1
    cases r1 with
    | error p => cases hg
    | ok e =>
      simp only at hg hb1
      have h1 : Inv s1.buf := by rw [hb1]; exact h
      obtain ⟨b', e2, hI', _⟩ := pushBack_spec s1 e h1
      rw [e2] at hg
      simp only at hg
      have hb3 := dropOpt_buf (Spec.pushBack s1.buf.cap (abs s1.buf) e).2 { s1 with buf := b' }
      cases hd : dropOpt (Spec.pushBack s1.buf.cap (abs s1.buf) e).2 { s1 with buf := b' } with
      | mk r3 s3 =>
        rw [hd] at hg hb3
        cases r3 with
        | error p => cases hg
        | ok u =>
          have hs : s3 = s' := (Prod.mk.inj hg).2
          subst hs
          simp only at hb3
          rw [hb3]; exact hI'

/-- the loop with any body that agrees with the model's iteration on the states satisfying the invariant -/
theorem whileM_fill_congr (B : M Unit) (hB : ∀ s, Inv s.buf → B s = fillWithBody s) (fuel : Nat) (s : Sys)
    (h : Inv s.buf) :
    whileM "fill_spare_with: fuel exhausted" (do pure (decide ((← getBuf).size < (← getBuf).cap))) B fuel s =
      whileM "fill_spare_with: fuel exhausted" (do pure (decide ((← getBuf).size < (← getBuf).cap))) fillWithBody fuel s :=
  whileM_congr _ _ B fillWithBody (fun s => Inv s.buf) (fun s => rfl) hB
    (fun s s' hI hg => fillWithBody_inv s s' hI hg) fuel s h

/-- one translated iteration against the model's, on a state satisfying the invariant: the closure call and
the destruction of the unused result are the same primitives; `push_back` by its tie -/
macro "fillBodyTie" : tactic => `(tactic| (
  intro s0 h0
  simp only [fillWithBody, bind_run, pure_run]
  have hb1 := produceElem_buf "call" s0
  cases hp : produceElem "call" s0 with
  | mk r1 s1 =>
    rw [hp] at hb1
    cases r1 with
    | error p => rfl
    | ok e =>
      simp only at hb1
      have h1 : Inv s1.buf := by rw [hb1]; exact h0
      simp only [tie_push_back e s1 h1 (nd_pushBack _ s1 h1)]
      cases pushBack e s1 with
      | mk r2 s2 => cases r2 with
        | error p => rfl
        | ok o => simp only []; cases dropOpt o s2 with
          | mk r3 s3 => cases r3 <;> rfl))

maybe theorem tie_fill_spare_with (s : Sys) (h : Inv s.buf) : Gen.fill_spare_with s = fillSpareWith s := by
  first
  | rfl
  | (simp only [Gen.fill_spare_with, fillSpareWith, bind_run, getBuf_run, ite_run, pure_run, fillSpareWithLoop_eq_whileM]
     by_cases hc : s.buf.cap = 0
     · first | (simp only [hc, if_true, ite_true]; done) | (simp only [hc, if_true, ite_true]; rfl)
     · simp only [hc, if_false, ite_false]
       rw [whileM_fill_congr _ ?_ _ s h]
       · cases whileM "fill_spare_with: fuel exhausted" (do pure (decide ((← getBuf).size < (← getBuf).cap)))
             fillWithBody (s.buf.cap - s.buf.size) s with
         | mk r s' => cases r <;> rfl
       · fillBodyTie)

maybe /-- `fill_with`: `clear` (by its tie), then — on the state it leaves, which satisfies the invariant and has
the same capacity — the loop, wherever the body puts the capacity test and whether it calls
`fill_spare_with` or runs the loop itself -/
theorem tie_fill_with (s : Sys) (h : Inv s.buf) (hnd : NonDefect (clear s).1)
    (hI : ∀ s1, clear s = (.ok (), s1) → Inv s1.buf ∧ s1.buf.cap = s.buf.cap) : Gen.fill_with s = fillWith s := by
  first
  | rfl
  | (have hcl := tie_clear s h hnd
     by_cases hc : s.buf.cap = 0
     · -- nothing to clear, nothing to fill
       have hm : fillWith s = (.ok (), s) := by
         simp only [fillWith, fillSpareWith, clear, truncateBack, bind_run, getBuf_bind, getBuf_run, ite_run, pure_run, hc,
           true_or, if_true, ite_true]
       rw [hm]
       simp only [Gen.fill_with, Gen.fill_spare_with, fillSpareWith, hcl, clear, truncateBack, bind_run, getBuf_bind, getBuf_run,
         ite_run, pure_run, hc, true_or, if_true, ite_true]
       all_goals (first | rfl | (simp only [hc, if_true, ite_true, true_or]; done))
     · simp only [Gen.fill_with, Gen.fill_spare_with, fillWith, bind_run, getBuf_run, ite_run, pure_run, hc, if_false,
         ite_false, hcl]
       cases hcs : clear s with
       | mk r s1 => cases r with
         | error p => rfl
         | ok u =>
           cases u
           obtain ⟨hI1, hcap1⟩ := hI s1 hcs
           have hc1 : ¬ s1.buf.cap = 0 := by rw [hcap1]; exact hc
           try simp only []
           first
           | rfl
           | (cases fillSpareWith s1 with
              | mk r2 s2 => cases r2 <;> rfl)      -- (`fill_spare_with` itself is the model's function on this run)
           | (simp only [fillSpareWith, fillSpareWithLoop_eq_whileM, bind_run, getBuf_run, ite_run, hc1, if_false, ite_false,
                pure_run]
              first
              | rfl
              | (rw [whileM_fill_congr _ ?_ _ s1 hI1]
                 · cases whileM "fill_spare_with: fuel exhausted" (do pure (decide ((← getBuf).size < (← getBuf).cap)))
                       fillWithBody (s1.buf.cap - s1.buf.size) s1 with
                   | mk r s' => cases r <;> rfl
                 · fillBodyTie)))

end CircBuf
