import CircBuf.Lemmas.Tie.IterTie
import CircBuf.Lemmas.Iter
set_option linter.unusedSimpArgs false
set_option linter.unusedVariables false
set_option maxHeartbeats 1000000
/-!
  A second route from the translated iterator layer (`Gen.Iter_*`, `Gen.IterMut_*`) to the theorems of C08,
  for bodies that compute the same *selection* as the pinned source but not the same `Iter` value.

  The ties of `IterTie.lean` are equalities of functions `Iter → … → M Iter`, and an `Iter` is two views
  `(offset, length)`.  An *empty* view has no elements, whatever its offset — but two bodies may leave an
  exhausted half at different offsets (the pinned `advance_front_by` stores the literal `&[]`; a body that
  returns early for `count == 0` keeps the empty sub-slice it had).  No operation of the crate observes
  the address of an empty slice, and no property speaks about it: what C08 states is which slots an
  iterator still has to produce (`Iter.remaining`).  The theorems below therefore state what the
  *callers* of the two stepping helpers need — the helper succeeds, leaves the state alone and drops /
  takes the right number of remaining slots — and prove it either from the tie (when that one checks) or
  directly from the translated body.  `Props/Src/C08.lean` uses them when `tie_iter_over_range` is missing.
-/
namespace CircBuf

/-- two ranges, the first `c` slots dropped: stated on offsets and lengths, with the offset of an empty
range left free -/
theorem drop_views (r l r' l' : View) (c : Nat)
    (h : (c < r.len ∧ r'.len = r.len - c ∧ r'.off = r.off + c ∧ l'.len = l.len ∧ (l.len = 0 ∨ l'.off = l.off)) ∨
         (r.len ≤ c ∧ r'.len = 0 ∧ l'.len = l.len - (c - r.len) ∧ (l'.len = 0 ∨ l'.off = l.off + (c - r.len)))) :
    r'.slots ++ l'.slots = (r.slots ++ l.slots).drop c := by
  obtain ⟨ro, rl⟩ := r; obtain ⟨lo, ll⟩ := l; obtain ⟨ro', rl'⟩ := r'; obtain ⟨lo', ll'⟩ := l'
  simp only [View.slots] at *
  rw [List.drop_append, List.length_range', range'_drop, range'_drop]
  rcases h with ⟨h1, h2, h3, h4, h5⟩ | ⟨h1, h2, h3, h5⟩
  · have e : c - rl = 0 := by omega
    rw [e, h2, h3, h4, Nat.add_zero, Nat.sub_zero]
    rcases h5 with h5 | h5
    · rw [h5]; simp
    · rw [h5]
  · have e : rl - c = 0 := by omega
    rw [e, h2, h3]
    rcases h5 with h5 | h5
    · have e3 : ll - (c - rl) = 0 := by omega
      rw [e3]; simp
    · rw [h5]; simp

/-- two ranges, the last `c` slots dropped -/
theorem take_views (r l r' l' : View) (c : Nat) (hc : c ≤ r.len + l.len)
    (h : (c < l.len ∧ l'.len = l.len - c ∧ l'.off = l.off ∧ r'.len = r.len ∧ (r.len = 0 ∨ r'.off = r.off)) ∨
         (l.len ≤ c ∧ l'.len = 0 ∧ r'.len = r.len - (c - l.len) ∧ (r'.len = 0 ∨ r'.off = r.off))) :
    r'.slots ++ l'.slots = (r.slots ++ l.slots).take (r.len + l.len - c) := by
  obtain ⟨ro, rl⟩ := r; obtain ⟨lo, ll⟩ := l; obtain ⟨ro', rl'⟩ := r'; obtain ⟨lo', ll'⟩ := l'
  simp only [View.slots] at *
  rw [List.take_append, List.length_range', range'_take, range'_take]
  rcases h with ⟨h1, h2, h3, h4, h5⟩ | ⟨h1, h2, h3, h5⟩
  · have e1 : min (rl + ll - c) rl = rl' := by omega
    have e2 : min (rl + ll - c - rl) ll = ll' := by omega
    rw [e1, e2, h3]
    rcases h5 with h5 | h5
    · have : rl' = 0 := by omega
      rw [this]; simp
    · rw [h5]
  · have e1 : min (rl + ll - c) rl = rl' := by omega
    have e2 : min (rl + ll - c - rl) ll = 0 := by omega
    rw [e1, e2, h2]
    rcases h5 with h5 | h5
    · rw [h5]; simp
    · rw [h5]; simp

@[simp] theorem View.length_slots (v : View) : v.slots.length = v.len := by simp [View.slots]

/-- what the callers of `advance_front_by` rely on -/
def AdvFrontOK (f : Iter → Nat → M Iter) : Prop :=
  ∀ (it : Iter) (count : Nat) (s : Sys), count ≤ it.remaining.length →
    ∃ it', f it count s = (.ok it', s) ∧ it'.remaining = it.remaining.drop count

/-- what the callers of `advance_back_by` rely on -/
def AdvBackOK (f : Iter → Nat → M Iter) : Prop :=
  ∀ (it : Iter) (count : Nat) (s : Sys), count ≤ it.remaining.length →
    ∃ it', f it count s = (.ok it', s) ∧
      it'.remaining = it.remaining.take (it.remaining.length - count)

theorem AdvFrontOK.model : AdvFrontOK Iter.advanceFrontBy := Iter.advanceFrontBy_spec
theorem AdvBackOK.model : AdvBackOK Iter.advanceBackBy := Iter.advanceBackBy_spec

/-- linear arithmetic under `∧` / `∨` in the goal (projections of structure literals reduced first) -/
syntax "disjOmega" : tactic
macro_rules
  | `(tactic| disjOmega) =>
  `(tactic| first
     | omega
     | (simp only []; done)
     | (simp only []; omega)
     | (refine ⟨?_, ?_⟩ <;> disjOmega)
     | (left; disjOmega)
     | (right; disjOmega))

/-- evaluate a translated stepping helper on an arbitrary iterator and state, case by case; at each
leaf the remaining slots are compared up to the offsets of empty views -/
syntax "advEval" ident "[" Lean.Parser.Tactic.simpLemma,* "]" : tactic
macro_rules
  | `(tactic| advEval $lem [$ls,*]) =>
  `(tactic| (
     intro it count s hc
     obtain ⟨⟨ro, rl⟩, ⟨lo, ll⟩⟩ := it
     simp only [Iter.remaining, View.slots, List.length_append, List.length_range'] at hc
     simp only [$ls,*, View.takeTo, View.takeFrom, View.empty, View.sub, View.splitAt, bind_assoc_run, dassert_bind,
       pure_bind_run, raise_bind, ite_bind, ite_run, dassert_run, pure_run, raise_run, liftE_bind, liftE_run,
       uadd, usub, umul, checkedSub, liftE_ite, liftE_ok_eq, liftE_pure_eq, liftE_error_eq, liftE_bind_dist,
       decide_eq_true_eq, Nat.not_lt, Nat.not_le, gt_iff_lt, ge_iff_le]
     repeat' (first | (exfalso; omega) | ifsplit1 | split)
     all_goals (first
       | (exfalso; omega)
       | (refine ⟨_, rfl, ?_⟩
          simp only [Iter.remaining, List.length_append, View.length_slots]
          first
          | (refine $lem ⟨ro, rl⟩ ⟨lo, ll⟩ _ _ count ?_ <;> disjOmega)
          | (refine $lem ⟨ro, rl⟩ ⟨lo, ll⟩ _ _ count (show count ≤ rl + ll by omega) ?_ <;> disjOmega)))))

maybe theorem spec_iter_advance_front_by : AdvFrontOK Gen.Iter_advance_front_by := by
  first
  | (intro it count s hc; rw [tie_iter_advance_front_by]; exact Iter.advanceFrontBy_spec it count s hc)
  | advEval drop_views [Gen.Iter_advance_front_by]

maybe theorem spec_iter_advance_back_by : AdvBackOK Gen.Iter_advance_back_by := by
  first
  | (intro it count s hc; rw [tie_iter_advance_back_by]; exact Iter.advanceBackBy_spec it count s hc)
  | advEval take_views [Gen.Iter_advance_back_by]

maybe theorem spec_itermut_advance_front_by : AdvFrontOK Gen.IterMut_advance_front_by := by
  first
  | (intro it count s hc; rw [tie_itermut_advance_front_by]; exact Iter.advanceFrontBy_spec it count s hc)
  | advEval drop_views [Gen.IterMut_advance_front_by]

maybe theorem spec_itermut_advance_back_by : AdvBackOK Gen.IterMut_advance_back_by := by
  first
  | (intro it count s hc; rw [tie_itermut_advance_back_by]; exact Iter.advanceBackBy_spec it count s hc)
  | advEval take_views [Gen.IterMut_advance_back_by]

/-! the direct proofs, checked on the pinned source too (so that the route itself is exercised on every
run, not only when a tie is missing) -/
maybe theorem spec_iter_advance_front_by_direct : AdvFrontOK Gen.Iter_advance_front_by := by
  first
  | (exact fun it count s hc => rfl ▸ Iter.advanceFrontBy_spec it count s hc)   -- (fallback: `Gen.f := model f`)
  | advEval drop_views [Gen.Iter_advance_front_by]

maybe theorem spec_iter_advance_back_by_direct : AdvBackOK Gen.Iter_advance_back_by := by
  first
  | (exact fun it count s hc => rfl ▸ Iter.advanceBackBy_spec it count s hc)
  | advEval take_views [Gen.Iter_advance_back_by]

/-- `over_range`, from the specifications of its callees: the body may compute `len - end`, build the
whole-buffer iterator and test for the empty range in any order.  (Refers to the names `sb eb s h hsb heb
he hs` of the statement of `C08_over_range_src`.) -/
syntax "overRangeEval" ident ident ident ident ident : tactic
set_option hygiene false in
macro_rules
  | `(tactic| overRangeEval $f $tnew $sfront $sback $tempty) =>
  `(tactic| (
     have hW : s.buf.size < W := by have := h.size_le; have := h.cap_lt; omega
     have htr := translateRange_ok sb eb s hsb heb he hs hW
     rw [← tie_translate_range_bounds] at htr
     obtain ⟨it0, hn, hr0⟩ := Iter.new_spec s h
     rw [← $tnew s h] at hn
     have hl0 : it0.remaining.length = s.buf.size := by rw [hr0, windowSlots_length]
     obtain ⟨it1, h1, hr1⟩ := $sfront it0 sb.startNat s (by omega)
     have hl1 : it1.remaining.length = s.buf.size - sb.startNat := by rw [hr1]; simp [hl0]
     obtain ⟨it2, h2, hr2⟩ := $sback it1 (s.buf.size - eb.endNat s.buf.size) s (by omega)
     have hu : usub s.buf.size (eb.endNat s.buf.size) = .ok (s.buf.size - eb.endNat s.buf.size) := by
       simp [usub]; omega
     by_cases hlt : sb.startNat < eb.endNat s.buf.size
     · refine ⟨it2, ?_, ?_⟩
       · have hnge : ¬ (eb.endNat s.buf.size ≤ sb.startNat) := by omega
         have hnge' : ¬ (sb.startNat ≥ eb.endNat s.buf.size) := by omega
         simp only [$f:ident, bind_run, bind_assoc_run, pure_bind_run, getBuf_bind, getBuf_run, liftE_bind, liftE_run,
           ite_bind, ite_run, pure_run, htr, hn, h1, h2, hu, hnge, hnge', hlt, if_false, if_true, ite_false, ite_true,
           Nat.not_le, Nat.not_lt, ge_iff_le, gt_iff_lt]
       · rw [hr2, hl1, hr1, hr0]
         rw [← windowSlots_slice _ _ s.buf.size _ _ (by omega) he]
         congr 1; omega
     · have heq : sb.startNat = eb.endNat s.buf.size := by omega
       refine ⟨Iter.empty, ?_, ?_⟩
       · have hge : eb.endNat s.buf.size ≤ sb.startNat := by omega
         have hge' : sb.startNat ≥ eb.endNat s.buf.size := hge
         have hnlt : ¬ (sb.startNat < eb.endNat s.buf.size) := hlt
         simp only [$f:ident, bind_run, bind_assoc_run, pure_bind_run, getBuf_bind, getBuf_run, liftE_bind, liftE_run,
           ite_bind, ite_run, pure_run, htr, hn, h1, h2, hu, hge, hge', hnlt, $tempty:ident, if_false, if_true, ite_false, ite_true,
           Nat.not_le, Nat.not_lt, ge_iff_le, gt_iff_lt]
       · simp [Iter.empty, Iter.remaining, View.empty, View.slots, rangeSlots, heq]))

end CircBuf
