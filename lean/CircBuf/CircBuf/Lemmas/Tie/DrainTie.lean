import CircBuf.Lemmas.TieTac
import CircBuf.Lemmas.Tie.IterTie
set_option linter.unusedSimpArgs false
set_option linter.unusedVariables false
set_option maxHeartbeats 1000000
/-! Tie theorems (the draining iterator of `drain.rs`: `Drain::{over_range, read}`, `Iterator::next`,
`DoubleEndedIterator::next_back`, `ExactSizeIterator::len`) — see `CircBuf/Lemmas/CoreTie.lean` for what
they are.  These hold on every state.  (`Drop for Drain` is outside the translated subset.) -/
namespace CircBuf

maybe theorem tie_drain_over_range (sb eb : Bound) (s : Sys) :
    Gen.Drain_over_range sb eb s = Drain.new sb eb s := by
  first
  | rfl           -- (a body outside the subset is *defined* as the model's function)
  | (simp only [Gen.Drain_over_range, Drain.new, bind_run, tie_translate_range_bounds sb eb s]
     all_goals (cases translateRange sb eb s with
       | mk r s1 => cases r <;> first | rfl | (tie [setSize]; done)))

maybe theorem tie_drain_read (d : Drain) (index : Nat) (s : Sys) :
    Gen.Drain_read d index s = Drain.read d index s := by
  first | rfl | (tie [Gen.Drain_read, Drain.read]; done)

maybe theorem tie_drain_next (d : Drain) (s : Sys) : Gen.Drain_next d s = Drain.next d s := by
  first
  | rfl
  | (simp only [Gen.Drain_next, Drain.next, Drain.stepFront]
     by_cases hlt : d.is < d.ie
     · simp only [hlt, if_true, ite_true, bind_run, pure_run, tie_drain_read]
       all_goals (cases Drain.read { d with is := d.is + 1 } d.is s with
         | mk r s1 => cases r <;> rfl)
     · simp only [hlt, if_false, ite_false, bind_run, pure_run]
       all_goals rfl)

maybe theorem tie_drain_next_back (d : Drain) (s : Sys) : Gen.Drain_next_back d s = Drain.nextBack d s := by
  first
  | rfl
  | (simp only [Gen.Drain_next_back, Drain.nextBack, Drain.stepBack]
     by_cases hlt : d.is < d.ie
     · simp only [hlt, if_true, ite_true, bind_run, pure_run, tie_drain_read]
       all_goals (cases Drain.read { d with ie := d.ie - 1 } (d.ie - 1) s with
         | mk r s1 => cases r <;> rfl)
     · simp only [hlt, if_false, ite_false, bind_run, pure_run]
       all_goals rfl)

maybe theorem tie_drain_len (d : Drain) (s : Sys) : Gen.Drain_len d s = (.ok d.len, s) := by
  first | rfl | tie [Gen.Drain_len, Drain.len]

end CircBuf
