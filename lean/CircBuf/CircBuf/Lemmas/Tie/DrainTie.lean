import CircBuf.Lemmas.TieTac
import CircBuf.Lemmas.Tie.IterTie
import CircBuf.Lemmas.While
import CircBuf.Lemmas.LiveEq
set_option linter.unusedSimpArgs false
set_option linter.unusedVariables false
set_option maxHeartbeats 1000000
/-! Tie theorems (the draining iterator of `drain.rs`: `Drain::{over_range, read}`, `Iterator::next`,
`DoubleEndedIterator::next_back`, `ExactSizeIterator::len`) — see `CircBuf/Lemmas/CoreTie.lean` for what
they are.  These hold on every state.  (`Drop for Drain` is outside the translated subset.) -/
namespace CircBuf

maybe theorem tie_drain_over_range (sb eb : Bound) (s : Sys) :
    Gen.Drain_over_range sb eb s = Drain.new sb eb s := by
  first
  | rfl           -- (a body outside the subset is *defined* as the model's function)
  | (simp only [Gen.Drain_over_range, Drain.new, bind_run, tie_translate_range_bounds sb eb s]
     all_goals (cases translateRange sb eb s with
       | mk r s1 => cases r <;> first | rfl | (tie [setSize]; done)))

maybe theorem tie_drain_read (d : Drain) (index : Nat) (s : Sys) :
    Gen.Drain_read d index s = Drain.read d index s := by
  first | rfl | (tie [Gen.Drain_read, Drain.read]; done)

maybe theorem tie_drain_next (d : Drain) (s : Sys) : Gen.Drain_next d s = Drain.next d s := by
  first
  | rfl
  | (simp only [Gen.Drain_next, Drain.next, Drain.stepFront]
     by_cases hlt : d.is < d.ie
     · simp only [hlt, if_true, ite_true, bind_run, pure_run, tie_drain_read]
       all_goals (cases Drain.read { d with is := d.is + 1 } d.is s with
         | mk r s1 => cases r <;> rfl)
     · simp only [hlt, if_false, ite_false, bind_run, pure_run]
       all_goals rfl)

maybe theorem tie_drain_next_back (d : Drain) (s : Sys) : Gen.Drain_next_back d s = Drain.nextBack d s := by
  first
  | rfl
  | (simp only [Gen.Drain_next_back, Drain.nextBack, Drain.stepBack]
     by_cases hlt : d.is < d.ie
     · simp only [hlt, if_true, ite_true, bind_run, pure_run, tie_drain_read]
       all_goals (cases Drain.read { d with ie := d.ie - 1 } (d.ie - 1) s with
         | mk r s1 => cases r <;> rfl)
     · simp only [hlt, if_false, ite_false, bind_run, pure_run]
       all_goals rfl)

maybe /-- the not-yet-yielded part as two slices (`Drain::as_slices` / `as_mut_slices`), on the states
satisfying the invariant (during a drain the buffer has `size = 0`: `DrainInv` gives it) -/
theorem tie_drain_as_slices (d : Drain) (s : Sys) (h : Inv s.buf) :
    Gen.Drain_as_slices d s = Drain.asSlices d s := by
  first | rfl | (tie2 h [Gen.Drain_as_slices, Drain.asSlices]; done)
maybe theorem tie_drain_as_mut_slices (d : Drain) (s : Sys) (h : Inv s.buf) :
    Gen.Drain_as_mut_slices d s = Drain.asSlices d s := by
  first | rfl | (tie2 h [Gen.Drain_as_mut_slices, Drain.asSlices]; done)

/-! ### `CircularSlicePtr` -/
maybe theorem tie_csp_as_ptr : Gen.CSP_as_ptr = CSP.ptr := by
  first | rfl | (funext p s; tie [Gen.CSP_as_ptr, CSP.ptr]; done)
maybe theorem tie_csp_as_mut_ptr : Gen.CSP_as_mut_ptr = CSP.ptr := by
  first | rfl | (funext p s; tie [Gen.CSP_as_mut_ptr, CSP.ptr]; done)
maybe theorem tie_csp_available_len : Gen.CSP_available_len = CSP.availableLen := by
  first | rfl | (funext p s; tie [Gen.CSP_available_len, CSP.availableLen]; done)
maybe theorem tie_csp_add : Gen.CSP_add = CSP.add := by
  first | rfl | (funext p inc s; tie [Gen.CSP_add, CSP.add]; done)

/-- `Drain::as_slices` only reads -/
theorem Drain.asSlices_state (d : Drain) (s : Sys) : (Drain.asSlices d s).2 = s := by
  tieS [Drain.asSlices]

maybe /-- one iteration of the back-fill loop of `Drop for Drain`, on a well-formed loop state: the checked
arithmetic is evaluated (no branch can fail there), so the order in which the body advances its three
variables, or nests its `min`s, does not matter -/
theorem tie_drain_drop_step (d : Drain) (x : CSP × CSP × Nat) (s : Sys) (hI : LoopOK x) :
    Gen.Drain_drop_step d x s = backfillStep x s := by
  first
  | rfl
  | (rw [backfillStep_run x s hI]
     obtain ⟨h1, h2, h3, h4⟩ := hI
     obtain ⟨⟨bl, bo⟩, ⟨hl, ho⟩, rem⟩ := x
     simp only [backfillChunk] at *
     simp only [Gen.Drain_drop_step, tie_csp_as_ptr, tie_csp_as_mut_ptr, tie_csp_available_len, tie_csp_add,
       CSP.availableLen, CSP.ptr, CSP.add, bind_assoc_run, dassert_bind, getBuf_bind,
       setBuf_bind, pure_bind_run, raise_bind, ite_bind, ite_run, dassert_run, getBuf_run, setBuf_run, liftE_bind,
       pure_run, raise_run, amod, smod, setItems, decide_eq_true_eq]
     repeat' (first
       | rfl
       | minUnify
       | (simp (disch := omega) only [if_pos, addMod_ite, usub_ok', phys_ite, liftE_bind, liftE_run, pure_run,
           bind_assoc_run, pure_bind_run, setBuf_bind, getBuf_bind])
       | ifsplit1)
     done)

maybe /-- the whole loop, for every amount of fuel: the congruence of `whileFuel` under the invariant `LoopOK` -/
theorem tie_drain_drop_loop (d : Drain) (fuel : Nat) (x : CSP × CSP × Nat) (s : Sys) (hI : LoopOK x) :
    whileFuel (fun x : CSP × CSP × Nat => decide (x.2.2 > 0)) (Gen.Drain_drop_step d) fuel x s =
      backfillLoop fuel x.2.1 x.1 x.2.2 s := by
  rw [backfillLoop_eq_while]
  exact whileFuel_congr _ _ _ LoopOK (fun x s hI _ => tie_drain_drop_step d x s hI)
    (fun x s x' s' hI _ hg => backfillStep_pres x s x' s' hI hg) fuel x s hI

/-- discharger of the side conditions met while evaluating the set-up of the loop -/
macro "drainSide" : tactic => `(tactic| first
  | omega
  | (dsimp only; omega)
  | (dsimp only; exact phys_lt _ _ _ (by omega))
  | (unfold LoopOK; refine ⟨?_, ?_, ?_, ?_⟩ <;> dsimp only <;> first | omega | (exact phys_lt _ _ _ (by omega))))

maybe /-- `Drop for Drain`.  Zero capacity: nothing is dropped and nothing moves on either side.  Otherwise: the
two guards (the same prefix on both sides), then — on the state they leave, whose buffer they did not touch
(`tryFinally_buf`) — the set-up of the circular pointers and of the counters is *evaluated* on both sides
(everything is in range because the drained range lies inside the buffer), the loop is replaced by the
model's (`tie_drain_drop_loop`), and the two results are compared.  The order of the set-up statements,
where the capacity test sits and when the restored size is computed therefore do not matter. -/
theorem tie_drain_drop (d : Drain) (s : Sys) (h : Inv s.buf) (hrs : d.rs ≤ s.buf.cap) (hre : d.re ≤ s.buf.cap)
    (hbs : d.re ≤ d.bufSize) :
    Gen.Drain_drop d s = Drain.drop d s := by
  first
  | rfl
  | (
     have hW := h.cap_lt
     have hst := h.start_lt
     by_cases hc : s.buf.cap = 0
     · -- zero capacity: nothing is dropped, nothing moves
       simp only [Gen.Drain_drop, Drain.drop, Gen.Drain_as_mut_slices, Drain.asSlices, bind_run, getBuf_bind, getBuf_run, ite_run, hc,
         true_or, if_true, ite_true, pure_run, View.slots, View.empty, range'_zero_len, dropInPlace_nil, tryFinally, bind_assoc_run, pure_bind_run]
       all_goals (first | rfl | (simp; done))
     · have hcpos : 0 < s.buf.cap := by omega
       have hstlt : s.buf.start < s.buf.cap := by omega
       simp only [Gen.Drain_drop, Drain.drop, bind_run, getBuf_bind, getBuf_run, ite_run, hc, if_false, ite_false,
         bind_assoc_run, tie_drain_as_mut_slices d s h]
       have hs0 := Drain.asSlices_state d s
       cases hsl : Drain.asSlices d s with
       | mk r s0 =>
         rw [hsl] at hs0
         simp only at hs0
         subst hs0
         cases r with
         | error p => rfl
         | ok rl =>
           obtain ⟨right, left⟩ := rl
           simp only []
           have hb := tryFinally_buf _ _ (dropInPlace_buf right.slots) (dropInPlace_buf left.slots) s0
           cases htf : tryFinally (dropInPlace right.slots) (dropInPlace left.slots) s0 with
           | mk r1 s1 =>
             rw [htf] at hb
             simp only at hb
             cases r1 with
             | error p => rfl
             | ok u =>
               simp (disch := drainSide) only [tie_csp_add, getBuf_bind, getBuf_run, ite_run, bind_assoc_run, liftE_bind, liftE_run, hb, hc,
                 if_false, ite_false, bind_run, usub_ok', CSP.add_run, tie_drain_drop_loop, setSize, setBuf_run, pure_run, pure_bind_run]
               all_goals (first | rfl | (generalize backfillLoop _ _ _ _ s1 = z; obtain ⟨r2, s2⟩ := z; cases r2 <;> rfl)))

maybe theorem tie_drain_len (d : Drain) (s : Sys) : Gen.Drain_len d s = (.ok d.len, s) := by
  first | rfl | tie [Gen.Drain_len, Drain.len]

end CircBuf
