import CircBuf.Lemmas.Views
set_option linter.unusedSimpArgs false
set_option linter.unusedVariables false
/-! Destroying elements: `drop_in_place`, `drop_range`, `truncate_back`, `truncate_front`, `clear`
(no destructor panics here; the faulted runs are in `Faults.lean`). -/
namespace CircBuf

/-- like `Refines`, for operations that also emit ledger events (`evs`, newest first) -/
def RefinesL (op : M α) (s : Sys) (r : α) (xs' : List Elem) (evs : List Event) : Prop :=
  ∃ b', op s = (.ok r, { s with buf := b', log := evs ++ s.log }) ∧ Inv b' ∧ abs b' = xs' ∧
    b'.cap = s.buf.cap

/-- the ledger entries (newest first) of destroying `es` in order -/
def dropEvents (k : Kind) (es : List Elem) : List Event :=
  if k = .byte ∨ k = .plain then [] else (es.map fun e => Event.dropped e.id).reverse

theorem dropEvents_nil (k : Kind) : dropEvents k [] = [] := by simp [dropEvents]

theorem dropEvents_append (k : Kind) (xs ys : List Elem) :
    dropEvents k (xs ++ ys) = dropEvents k ys ++ dropEvents k xs := by
  unfold dropEvents; split <;> simp

theorem dropElem_run (s : Sys) (e : Elem) (hf : s.faults.drop = 0) :
    dropElem e s = (.ok (), { s with log := dropEvents s.kind [e] ++ s.log }) := by
  obtain ⟨b, l, n, f, k⟩ := s
  obtain ⟨d, c, ca, nx, eq⟩ := f
  simp only at hf; subst hf
  unfold dropElem dropEvents tick
  by_cases hk : k = .byte ∨ k = .plain
  · simp [hk]
  · simp [hk]

theorem tryFinally_ok {a : M α} {fin : M Unit} {s s1 s2 : Sys} {x : α}
    (ha : a s = (.ok x, s1)) (hf : fin s1 = (.ok (), s2)) : tryFinally a fin s = (.ok x, s2) := by
  simp [tryFinally, ha, hf]

/-- `drop_in_place` over slots that all hold live elements: every element is destroyed, in order,
nothing else changes -/
theorem dropInPlace_run (sl : List Nat) (s : Sys) (hf : s.faults.drop = 0)
    (hsl : ∀ i ∈ sl, i < s.buf.cap ∧ (s.buf.items i).isSome = true) :
    dropInPlace sl s =
      (.ok (), { s with log := dropEvents s.kind (sl.filterMap s.buf.items) ++ s.log }) := by
  induction sl generalizing s with
  | nil => simp [dropInPlace, dropEvents_nil]
  | cons i rest ih =>
    obtain ⟨hi, hsome⟩ := hsl i (by simp)
    obtain ⟨e, he⟩ := Option.isSome_iff_exists.mp hsome
    have h1 := dropElem_run s e hf
    have h2 := ih { s with log := dropEvents s.kind [e] ++ s.log } hf
      (fun j hj => hsl j (by simp [hj]))
    simp only [dropInPlace, bind_run, readInit_run s i e hi he]
    rw [tryFinally_ok h1 h2]
    simp only [List.filterMap_cons, he]
    have : e :: List.filterMap s.buf.items rest = [e] ++ List.filterMap s.buf.items rest := rfl
    rw [this, dropEvents_append, List.append_assoc]

/-- the elements at logical positions `a .. a+n` -/
theorem filterMap_window (b : CB) (h : Inv b) (a n : Nat) (hle : a + n ≤ b.size) :
    (windowSlots (phys b.start b.cap a) b.cap n).filterMap b.items = ((abs b).drop a).take n := by
  have hlen := abs_length b h
  have hget := abs_getElem b h
  unfold windowSlots
  rw [List.filterMap_map]
  apply filterMap_range_eq
  · simp [hlen]; omega
  · intro i hi
    simp only [List.length_take, List.length_drop, hlen] at hi
    simp only [Function.comp, phys_phys, List.getElem_take, List.getElem_drop]
    exact hget (a + i) (by omega)

/-- the slots a two-piece split `[from..to)` / `[from..cap) ++ [0..to)` covers -/
theorem split_slots (st cap n : Nat) (hst : st < cap) (hn : 0 < n) (hnc : n ≤ cap) :
    (if st < phys st cap n then List.range' st (phys st cap n - st)
     else List.range' st (cap - st) ++ List.range' 0 (phys st cap n)) = windowSlots st cap n := by
  rw [windowSlots_eq _ _ _ hst hnc]
  rcases phys_cases st cap n hst hnc with ⟨a1, a2⟩ | ⟨a1, a2⟩ <;> rw [a2]
  · have h1 : st < st + n := by omega
    have h2 : st + n ≤ cap := by omega
    simp only [h1, h2, if_true]; congr 1; omega
  · have h1 : ¬ st < st + n - cap := by omega
    simp only [h1, if_false]
    by_cases he : st + n = cap
    · simp [he]; omega
    · have : ¬ st + n ≤ cap := by omega
      simp only [this, if_false]

theorem windowSlots_lt (st cap n : Nat) (hc : 0 < cap) : ∀ i ∈ windowSlots st cap n, i < cap := by
  intro i hi
  simp only [windowSlots, List.mem_map, List.mem_range] at hi
  obtain ⟨j, _, rfl⟩ := hi
  exact phys_lt _ _ _ hc

theorem windowSlots_live (b : CB) (h : Inv b) (a n : Nat) (hle : a + n ≤ b.size) :
    ∀ i ∈ windowSlots (phys b.start b.cap a) b.cap n, (b.items i).isSome = true := by
  intro i hi
  simp only [windowSlots, List.mem_map, List.mem_range] at hi
  obtain ⟨j, hj, rfl⟩ := hi
  rw [phys_phys]
  exact h.live (a + j) (by omega)

theorem dropSegments_run (S : Sys) (st n : Nat) (hst : st < S.buf.cap) (hn : 0 < n)
    (hnc : n ≤ S.buf.cap) (hf : S.faults.drop = 0)
    (hlive : ∀ i ∈ windowSlots st S.buf.cap n, (S.buf.items i).isSome = true) :
    dropSegments st (phys st S.buf.cap n) S.buf.cap S =
      (.ok (),
        { S with
          log := dropEvents S.kind ((windowSlots st S.buf.cap n).filterMap S.buf.items) ++ S.log }) := by
  have hcpos : 0 < S.buf.cap := by omega
  have hlt := windowSlots_lt st S.buf.cap n hcpos
  have hsplit := split_slots st S.buf.cap n hst hn hnc
  have hp := phys_lt st S.buf.cap n hcpos
  unfold dropSegments
  by_cases hc : st < phys st S.buf.cap n
  · simp only [hc, if_true] at hsplit ⊢
    have h1 := dropInPlace_run (List.range' st (phys st S.buf.cap n - st)) S hf
      (fun i hi => ⟨hlt i (hsplit ▸ hi), hlive i (hsplit ▸ hi)⟩)
    mrun []
    rw [tryFinally_ok h1 (pure_run () _), hsplit]
  · simp only [hc, if_false] at hsplit ⊢
    have h1 := dropInPlace_run (List.range' st (S.buf.cap - st)) S hf
      (fun i hi => ⟨hlt i (hsplit ▸ List.mem_append_left _ hi),
        hlive i (hsplit ▸ List.mem_append_left _ hi)⟩)
    have h2 := dropInPlace_run (List.range' 0 (phys st S.buf.cap n))
      { S with
        log := dropEvents S.kind ((List.range' st (S.buf.cap - st)).filterMap S.buf.items) ++ S.log }
      hf
      (fun i hi => ⟨hlt i (hsplit ▸ List.mem_append_right _ hi),
        hlive i (hsplit ▸ List.mem_append_right _ hi)⟩)
    mrun []
    rw [tryFinally_ok h1 h2, ← hsplit, List.filterMap_append, dropEvents_append,
      List.append_assoc]

/-- the buffer after `drop_range(rs..re)` shrank it -/
def shrink (b : CB) (rs re : Nat) : CB :=
  if re = b.size then ⟨b.cap, rs, b.start, b.items⟩
  else ⟨b.cap, b.size - re, phys b.start b.cap re, b.items⟩

theorem dropRange_run (s : Sys) (rs re : Nat) (h : Inv s.buf) (hf : s.faults.drop = 0)
    (h1 : rs < re) (h2 : re ≤ s.buf.size) (h3 : rs = 0 ∨ re = s.buf.size) :
    dropRange rs re s = (.ok (),
      { s with
        buf := shrink s.buf rs re
        log := dropEvents s.kind (((abs s.buf).drop rs).take (re - rs)) ++ s.log }) := by
  have hsz := h.size_le
  have hcpos : 0 < s.buf.cap := by omega
  have hst := h.start_lt' hcpos
  have hW := h.cap_lt
  have hnle : ¬ re ≤ rs := by omega
  have hpp : phys s.buf.start s.buf.cap re
      = phys (phys s.buf.start s.buf.cap rs) s.buf.cap (re - rs) := by
    rw [phys_phys]; congr 1; omega
  have hfm := filterMap_window s.buf h rs (re - rs) (by omega)
  have hlv := windowSlots_live s.buf h rs (re - rs) (by omega)
  have hpl := phys_lt s.buf.start s.buf.cap rs hcpos
  unfold shrink
  by_cases hre : re = s.buf.size
  · subst hre
    have hd := dropSegments_run
      { s with buf := ⟨s.buf.cap, rs, s.buf.start, s.buf.items⟩ }
      (phys s.buf.start s.buf.cap rs) (s.buf.size - rs) hpl (by omega) (by simp only; omega) hf hlv
    simp only [← hpp, hfm] at hd
    mrun [dropRange, hnle, h3, setSize_run, hd]
  · have hd := dropSegments_run
      { s with buf := ⟨s.buf.cap, s.buf.size - re, phys s.buf.start s.buf.cap re, s.buf.items⟩ }
      (phys s.buf.start s.buf.cap rs) (re - rs) hpl (by omega) (by simp only; omega) hf hlv
    simp only [← hpp, hfm] at hd
    mrun [dropRange, hnle, h3, hre, setSize_run, setStart_run, hd]

end CircBuf
