import CircBuf.Lemmas.Truncate
import CircBuf.Lemmas.Drain
set_option linter.unusedSimpArgs false
set_option linter.unusedVariables false
/-! Destructor panics: whichever destructor call panics (the `k`-th, for any `k`), every element of
the slice is still destroyed exactly once, the buffer was shrunk beforehand, and the only trace of
the panic is the result value. -/
namespace CircBuf

/-- the outcome of destroying `n` elements when the `k`-th destructor call (counted from now;
`k = 0`: none) panics -/
def dropOutcome (k n : Nat) : Except Panic Unit :=
  if 1 ≤ k ∧ k ≤ n then .error (.user "drop") else .ok ()

theorem dropElem_fault (s : Sys) (e : Elem) (hk : ¬ (s.kind = .byte ∨ s.kind = .plain)) :
    dropElem e s = (dropOutcome s.faults.drop 1,
      { s with log := dropEvents s.kind [e] ++ s.log, faults := { s.faults with drop := s.faults.drop - 1 } }) := by
  obtain ⟨b, l, n, f, k⟩ := s
  obtain ⟨d, c, ca, nx, eq⟩ := f
  simp only at hk
  unfold dropElem dropEvents tick dropOutcome
  simp only [hk, if_false]
  by_cases h0 : d = 0
  · subst h0; simp
  · by_cases h1 : d = 1
    · subst h1; simp
    · have h2 : ¬ (1 ≤ d ∧ d ≤ 1) := by omega
      simp [h0, h1, h2]

theorem dropOutcome_zero (n : Nat) : dropOutcome 0 n = .ok () := by simp [dropOutcome]
theorem dropOutcome_one (n : Nat) : dropOutcome 1 (n + 1) = .error (.user "drop") := by
  simp [dropOutcome]
theorem dropOutcome_succ (k n : Nat) : dropOutcome (k + 1 + 1) (n + 1) = dropOutcome (k + 1) n := by
  unfold dropOutcome
  by_cases h : 1 ≤ k + 1 ∧ k + 1 ≤ n
  · have : 1 ≤ k + 1 + 1 ∧ k + 1 + 1 ≤ n + 1 := by omega
    simp [h, this]
  · have : ¬ (1 ≤ k + 1 + 1 ∧ k + 1 + 1 ≤ n + 1) := by omega
    simp [h, this]
theorem dropOutcome_any_zero (k : Nat) : dropOutcome k 0 = .ok () := by
  unfold dropOutcome
  have : ¬ (1 ≤ k ∧ k ≤ 0) := by omega
  simp only [this, if_false]
theorem dropOutcome_one_one : dropOutcome 1 1 = .error (.user "drop") := by simp [dropOutcome]
theorem dropOutcome_big_one (k : Nat) : dropOutcome (k + 1 + 1) 1 = .ok () := by
  simp [dropOutcome]

theorem dropInPlace_fault (sl : List Nat) (s : Sys) (hk : ¬ (s.kind = .byte ∨ s.kind = .plain))
    (hsl : ∀ i ∈ sl, i < s.buf.cap ∧ (s.buf.items i).isSome = true) :
    dropInPlace sl s = (dropOutcome s.faults.drop sl.length,
      { s with log := dropEvents s.kind (sl.filterMap s.buf.items) ++ s.log,
               faults := { s.faults with drop := s.faults.drop - sl.length } }) := by
  induction sl generalizing s with
  | nil =>
    have : ¬ (1 ≤ s.faults.drop ∧ s.faults.drop ≤ 0) := by omega
    simp only [dropInPlace, pure_run, dropOutcome, List.length_nil, List.filterMap_nil,
      dropEvents_nil, List.nil_append, Nat.sub_zero, this, if_false]
  | cons i rest ih =>
    obtain ⟨hi, hsome⟩ := hsl i (by simp)
    obtain ⟨e, he⟩ := Option.isSome_iff_exists.mp hsome
    have h1 := dropElem_fault s e hk
    have h2 := ih { s with log := dropEvents s.kind [e] ++ s.log,
                           faults := { s.faults with drop := s.faults.drop - 1 } }
      (by simp only; exact hk) (fun j hj => hsl j (by simp [hj]))
    have hev : dropEvents s.kind (e :: List.filterMap s.buf.items rest)
        = dropEvents s.kind (List.filterMap s.buf.items rest) ++ dropEvents s.kind [e] := by
      have : e :: List.filterMap s.buf.items rest = [e] ++ List.filterMap s.buf.items rest := rfl
      rw [this, dropEvents_append]
    have hsub : s.faults.drop - 1 - rest.length = s.faults.drop - (rest.length + 1) := by omega
    simp only at h2
    simp only [dropInPlace, bind_run, readInit_run s i e hi he, tryFinally, List.filterMap_cons, he,
      List.length_cons, hev, List.append_assoc]
    rw [h1]
    rcases hd : s.faults.drop with _ | _ | k
    · rw [hd] at h2
      simp only [dropOutcome_zero, Nat.zero_sub] at h2 ⊢
      rw [h2]
    · rw [hd] at h2
      simp only [Nat.zero_add, dropOutcome_one_one, Nat.sub_self, dropOutcome_zero, dropOutcome_one, Nat.zero_sub] at h2 ⊢
      rw [h2]
      simp
    · rw [hd] at h2
      simp only [dropOutcome_big_one, Nat.add_sub_cancel, dropOutcome_succ, dropOutcome_any_zero] at h2 ⊢
      rw [h2]
      have e : k + 1 - rest.length = k + 1 + 1 - (rest.length + 1) := by omega
      rw [e]
      cases dropOutcome (k + 1) rest.length <;> rfl

theorem dropOutcome_add (k n1 n2 : Nat) :
    (match dropOutcome k n1 with
      | .ok _ => dropOutcome (k - n1) n2
      | .error p => (match dropOutcome (k - n1) n2 with
          | .ok _ => .error p
          | .error _ => .error .abort)) = dropOutcome k (n1 + n2) := by
  unfold dropOutcome
  by_cases h1 : 1 ≤ k ∧ k ≤ n1
  · have h2 : ¬ (1 ≤ k - n1 ∧ k - n1 ≤ n2) := by omega
    have h3 : 1 ≤ k ∧ k ≤ n1 + n2 := by omega
    simp only [if_pos h1, if_neg h2, if_pos h3]
  · by_cases h2 : 1 ≤ k - n1 ∧ k - n1 ≤ n2
    · have h3 : 1 ≤ k ∧ k ≤ n1 + n2 := by omega
      simp only [if_neg h1, if_pos h2, if_pos h3]
    · have h3 : ¬ (1 ≤ k ∧ k ≤ n1 + n2) := by omega
      simp only [if_neg h1, if_neg h2, if_neg h3]

/-- two guards in a row (`_right` then `_left`): together they behave like one slice -/
theorem dropTwo_fault (a b : List Nat) (s : Sys) (hk : ¬ (s.kind = .byte ∨ s.kind = .plain))
    (ha : ∀ i ∈ a, i < s.buf.cap ∧ (s.buf.items i).isSome = true)
    (hb : ∀ i ∈ b, i < s.buf.cap ∧ (s.buf.items i).isSome = true) :
    tryFinally (dropInPlace a) (dropInPlace b) s = (dropOutcome s.faults.drop (a.length + b.length),
      { s with log := dropEvents s.kind ((a ++ b).filterMap s.buf.items) ++ s.log,
               faults := { s.faults with drop := s.faults.drop - (a.length + b.length) } }) := by
  have h1 := dropInPlace_fault a s hk ha
  have h2 := dropInPlace_fault b
    { s with log := dropEvents s.kind (a.filterMap s.buf.items) ++ s.log,
             faults := { s.faults with drop := s.faults.drop - a.length } }
    (by simp only; exact hk) (by simp only; exact hb)
  simp only at h2
  have hsub : s.faults.drop - a.length - b.length = s.faults.drop - (a.length + b.length) := by omega
  have hadd := dropOutcome_add s.faults.drop a.length b.length
  simp only [tryFinally, h1]
  rw [List.filterMap_append, dropEvents_append, List.append_assoc, ← hadd]
  cases hd1 : dropOutcome s.faults.drop a.length with
  | ok u =>
    simp only [h2, hsub]
    cases dropOutcome (s.faults.drop - a.length) b.length <;> rfl
  | error p =>
    simp only [h2, hsub]
    cases dropOutcome (s.faults.drop - a.length) b.length <;> rfl

theorem dropSegments_fault (S : Sys) (st n : Nat) (hst : st < S.buf.cap) (hn : 0 < n)
    (hnc : n ≤ S.buf.cap) (hk : ¬ (S.kind = .byte ∨ S.kind = .plain))
    (hlive : ∀ i ∈ windowSlots st S.buf.cap n, (S.buf.items i).isSome = true) :
    dropSegments st (phys st S.buf.cap n) S.buf.cap S =
      (dropOutcome S.faults.drop n,
        { S with
          log := dropEvents S.kind ((windowSlots st S.buf.cap n).filterMap S.buf.items) ++ S.log
          faults := { S.faults with drop := S.faults.drop - n } }) := by
  have hcpos : 0 < S.buf.cap := by omega
  have hlt := windowSlots_lt st S.buf.cap n hcpos
  have hsplit := split_slots st S.buf.cap n hst hn hnc
  have hp := phys_lt st S.buf.cap n hcpos
  have hwl := windowSlots_length st S.buf.cap n
  unfold dropSegments
  by_cases hc : st < phys st S.buf.cap n
  · simp only [hc, if_true] at hsplit ⊢
    have h1 := dropTwo_fault (List.range' st (phys st S.buf.cap n - st)) [] S hk
      (fun i hi => ⟨hlt i (hsplit ▸ hi), hlive i (hsplit ▸ hi)⟩) (by simp)
    have hl : (List.range' st (phys st S.buf.cap n - st)).length = n := by rw [hsplit, hwl]
    simp only [dropInPlace, List.append_nil, List.length_nil, Nat.add_zero, hl] at h1
    mrun []
    rw [h1, hsplit]
  · simp only [hc, if_false] at hsplit ⊢
    have h1 := dropTwo_fault (List.range' st (S.buf.cap - st)) (List.range' 0 (phys st S.buf.cap n)) S hk
      (fun i hi => ⟨hlt i (hsplit ▸ List.mem_append_left _ hi),
        hlive i (hsplit ▸ List.mem_append_left _ hi)⟩)
      (fun i hi => ⟨hlt i (hsplit ▸ List.mem_append_right _ hi),
        hlive i (hsplit ▸ List.mem_append_right _ hi)⟩)
    have hl : (List.range' st (S.buf.cap - st)).length + (List.range' 0 (phys st S.buf.cap n)).length = n := by
      rw [← List.length_append, hsplit, hwl]
    rw [hl, hsplit] at h1
    mrun []
    rw [h1]

/-- `drop_range` under any destructor fault: the buffer is shrunk, every element of the range is
destroyed exactly once; only the result tells whether a destructor panicked -/
theorem dropRange_fault (s : Sys) (rs re : Nat) (h : Inv s.buf)
    (hk : ¬ (s.kind = .byte ∨ s.kind = .plain))
    (h1 : rs < re) (h2 : re ≤ s.buf.size) (h3 : rs = 0 ∨ re = s.buf.size) :
    dropRange rs re s = (dropOutcome s.faults.drop (re - rs),
      { s with
        buf := shrink s.buf rs re
        log := dropEvents s.kind (((abs s.buf).drop rs).take (re - rs)) ++ s.log
        faults := { s.faults with drop := s.faults.drop - (re - rs) } }) := by
  have hsz := h.size_le
  have hcpos : 0 < s.buf.cap := by omega
  have hst := h.start_lt' hcpos
  have hW := h.cap_lt
  have hnle : ¬ re ≤ rs := by omega
  have hpp : phys s.buf.start s.buf.cap re
      = phys (phys s.buf.start s.buf.cap rs) s.buf.cap (re - rs) := by
    rw [phys_phys]; congr 1; omega
  have hfm := filterMap_window s.buf h rs (re - rs) (by omega)
  have hlv := windowSlots_live s.buf h rs (re - rs) (by omega)
  have hpl := phys_lt s.buf.start s.buf.cap rs hcpos
  unfold shrink
  by_cases hre : re = s.buf.size
  · subst hre
    have hd := dropSegments_fault
      { s with buf := ⟨s.buf.cap, rs, s.buf.start, s.buf.items⟩ }
      (phys s.buf.start s.buf.cap rs) (s.buf.size - rs) hpl (by omega) (by simp only; omega) hk hlv
    simp only [← hpp, hfm] at hd
    mrun [dropRange, hnle, h3, setSize_run]
    rw [hd]
  · have hd := dropSegments_fault
      { s with buf := ⟨s.buf.cap, s.buf.size - re, phys s.buf.start s.buf.cap re, s.buf.items⟩ }
      (phys s.buf.start s.buf.cap rs) (re - rs) hpl (by omega) (by simp only; omega) hk hlv
    simp only [← hpp, hfm] at hd
    mrun [dropRange, hnle, h3, hre, setSize_run, setStart_run]
    rw [hd]

/-- what a destroying call leaves behind, whatever destructor call panicked -/
structure PostDrop (s s' : Sys) (xs' dropped : List Elem) : Prop where
  inv : Inv s'.buf
  abs_eq : abs s'.buf = xs'
  cap_eq : s'.buf.cap = s.buf.cap
  log_eq : s'.log = dropEvents s.kind dropped ++ s.log
  next_eq : s'.next = s.next
  kind_eq : s'.kind = s.kind

theorem truncateBack_any (s : Sys) (n : Nat) (h : Inv s.buf)
    (hk : ¬ (s.kind = .byte ∨ s.kind = .plain)) :
    ∃ s', truncateBack n s = (dropOutcome s.faults.drop (s.buf.size - n), s') ∧
      PostDrop s s' ((abs s.buf).take n) ((abs s.buf).drop n) := by
  have hlen := abs_length s.buf h
  have hget := abs_getElem s.buf h
  have hsz := h.size_le
  by_cases hz : s.buf.cap = 0 ∨ s.buf.size ≤ n
  · have hle : (abs s.buf).length ≤ n := by omega
    have h0 : s.buf.size - n = 0 := by omega
    refine ⟨s, ?_, ⟨h, ?_, rfl, ?_, rfl, rfl⟩⟩
    · rw [h0, dropOutcome_any_zero]; mrun [truncateBack, hz]
    · rw [List.take_of_length_le hle]
    · rw [List.drop_of_length_le hle, dropEvents_nil]; rfl
  have hcpos : 0 < s.buf.cap := by omega
  have hst := h.start_lt' hcpos
  have hn : n < s.buf.size := by omega
  have hd := dropRange_fault s n s.buf.size h hk hn (Nat.le_refl _) (Or.inr rfl)
  have hsh : shrink s.buf n s.buf.size = ⟨s.buf.cap, n, s.buf.start, s.buf.items⟩ := by
    simp [shrink]
  have htk : ((abs s.buf).drop n).take (s.buf.size - n) = (abs s.buf).drop n := by
    apply List.take_of_length_le; simp [hlen]
  rw [hsh, htk] at hd
  obtain ⟨hI, hA⟩ := inv_abs_of ⟨s.buf.cap, n, s.buf.start, s.buf.items⟩ ((abs s.buf).take n)
    h.cap_lt (by simp [hlen]; omega) (by simp only; omega) (Or.inl hst) (by
      intro i hi
      simp only [List.length_take, hlen] at hi
      simp only [List.getElem_take]
      exact hget i (by omega))
  refine ⟨{ s with
      buf := ⟨s.buf.cap, n, s.buf.start, s.buf.items⟩
      log := dropEvents s.kind ((abs s.buf).drop n) ++ s.log
      faults := { s.faults with drop := s.faults.drop - (s.buf.size - n) } }, ?_,
    ⟨hI, hA, rfl, rfl, rfl, rfl⟩⟩
  simp only [truncateBack, bind_run, getBuf_run, hz, if_false, hd]
  cases dropOutcome s.faults.drop (s.buf.size - n) with
  | ok u => mrun []
  | error p => rfl

theorem truncateFront_any (s : Sys) (n : Nat) (h : Inv s.buf)
    (hk : ¬ (s.kind = .byte ∨ s.kind = .plain)) :
    ∃ s', truncateFront n s = (dropOutcome s.faults.drop (s.buf.size - n), s') ∧
      PostDrop s s' (Spec.lastN n (abs s.buf)) ((abs s.buf).take ((abs s.buf).length - n)) := by
  have hlen := abs_length s.buf h
  have hget := abs_getElem s.buf h
  have hsz := h.size_le
  unfold Spec.lastN
  by_cases hz : s.buf.cap = 0 ∨ s.buf.size ≤ n
  · have hle : (abs s.buf).length - n = 0 := by omega
    have h0 : s.buf.size - n = 0 := by omega
    refine ⟨s, ?_, ⟨h, ?_, rfl, ?_, rfl, rfl⟩⟩
    · rw [h0, dropOutcome_any_zero]; mrun [truncateFront, hz]
    · rw [hle, List.drop_zero]
    · rw [hle, List.take_zero, dropEvents_nil]; rfl
  have hcpos : 0 < s.buf.cap := by omega
  have hst := h.start_lt' hcpos
  have hn : n < s.buf.size := by omega
  have hd := dropRange_fault s 0 (s.buf.size - n) h hk (by omega) (by omega) (Or.inl rfl)
  simp only [List.drop_zero, Nat.sub_zero] at hd
  rw [hlen]
  have hpt : ∀ i, (hi : i < ((abs s.buf).drop (s.buf.size - n)).length) →
      s.buf.items (phys (phys s.buf.start s.buf.cap (s.buf.size - n)) s.buf.cap i)
        = some ((abs s.buf).drop (s.buf.size - n))[i] := by
    intro i hi
    simp only [List.length_drop, hlen] at hi
    simp only [phys_phys, List.getElem_drop]
    exact hget (s.buf.size - n + i) (by omega)
  by_cases hn0 : n = 0
  · subst hn0
    have hsh : shrink s.buf 0 (s.buf.size - 0) = ⟨s.buf.cap, 0, s.buf.start, s.buf.items⟩ := by
      simp [shrink]
    rw [hsh] at hd
    obtain ⟨hI, hA⟩ := inv_abs_of ⟨s.buf.cap, 0, s.buf.start, s.buf.items⟩
      ((abs s.buf).drop (s.buf.size - 0)) h.cap_lt (by simp [hlen]) (by simp only; omega) (Or.inl hst)
      (by intro i hi; simp [hlen] at hi)
    refine ⟨{ s with
        buf := ⟨s.buf.cap, 0, s.buf.start, s.buf.items⟩
        log := dropEvents s.kind ((abs s.buf).take (s.buf.size - 0)) ++ s.log
        faults := { s.faults with drop := s.faults.drop - (s.buf.size - 0) } }, ?_,
      ⟨hI, hA, rfl, rfl, rfl, rfl⟩⟩
    simp only [truncateFront, bind_run, getBuf_run, hz, if_false]
    mrun [hd]
    cases dropOutcome s.faults.drop (s.buf.size - 0) with
    | ok u => mrun []
    | error p => rfl
  · have hne : s.buf.size - n ≠ s.buf.size := by omega
    have hsh : shrink s.buf 0 (s.buf.size - n) =
        ⟨s.buf.cap, s.buf.size - (s.buf.size - n), phys s.buf.start s.buf.cap (s.buf.size - n),
          s.buf.items⟩ := by
      simp [shrink, hne]
    rw [hsh] at hd
    obtain ⟨hI, hA⟩ := inv_abs_of ⟨s.buf.cap, s.buf.size - (s.buf.size - n),
      phys s.buf.start s.buf.cap (s.buf.size - n), s.buf.items⟩
      ((abs s.buf).drop (s.buf.size - n)) h.cap_lt (by simp [hlen]) (by simp only; omega)
      (Or.inl (phys_lt _ _ _ hcpos)) hpt
    refine ⟨{ s with
        buf := ⟨s.buf.cap, s.buf.size - (s.buf.size - n), phys s.buf.start s.buf.cap (s.buf.size - n),
          s.buf.items⟩
        log := dropEvents s.kind ((abs s.buf).take (s.buf.size - n)) ++ s.log
        faults := { s.faults with drop := s.faults.drop - (s.buf.size - n) } }, ?_,
      ⟨hI, hA, rfl, rfl, rfl, rfl⟩⟩
    simp only [truncateFront, bind_run, getBuf_run, hz, if_false]
    mrun [hd]
    have hnn : s.buf.size - (s.buf.size - n) = n := by omega
    cases dropOutcome s.faults.drop (s.buf.size - n) with
    | ok u => mrun [hnn]
    | error p => rfl

/-- `clear()` / `Drop for CircularBuffer`: whichever destructor panics, every element is destroyed
exactly once and the buffer is left empty and valid -/
theorem clear_any (s : Sys) (h : Inv s.buf) (hk : ¬ (s.kind = .byte ∨ s.kind = .plain)) :
    ∃ s', clear s = (dropOutcome s.faults.drop s.buf.size, s') ∧ PostDrop s s' [] (abs s.buf) := by
  have := truncateBack_any s 0 h hk
  simpa [clear] using this

/-- dropping a drain when a destructor panics: all not-yet-yielded elements are still destroyed
exactly once; the buffer stays in its "empty" state (valid; the remaining elements are leaked, not
duplicated) -/
theorem drainDrop_panics (b0 : CB) (d : Drain) (s : Sys) (hd : DrainInv b0 d s)
    (hk : ¬ (s.kind = .byte ∨ s.kind = .plain))
    (hfire : 1 ≤ s.faults.drop ∧ s.faults.drop ≤ d.ie - d.is) :
    ∃ s', d.drop s = (.error (.user "drop"), s') ∧ s'.buf = s.buf ∧
      s'.log = dropEvents s.kind (((abs b0).drop d.is).take (d.ie - d.is)) ++ s.log := by
  have hI := hd.inv0
  have hlen := abs_length b0 hI
  have h1 := hd.h1; have h2 := hd.h2; have h3 := hd.h3; have h4 := hd.h4; have hbs := hd.bs
  have hb := hd.buf_eq
  have hc' : s.buf.cap = b0.cap := by rw [hb]
  have hi' : s.buf.items = b0.items := by rw [hb]
  obtain ⟨r, l, hsl, hslots⟩ := Drain.asSlices_spec b0 d s hd
  have hcpos : 0 < b0.cap := by have := hI.size_le; omega
  have hmem : ∀ i ∈ r.slots ++ l.slots, i < s.buf.cap ∧ (s.buf.items i).isSome = true := by
    intro i hi
    rw [hslots] at hi
    rw [hc', hi']
    exact ⟨windowSlots_lt _ _ _ hcpos i hi,
      windowSlots_live b0 hI d.is (d.ie - d.is) (by omega) i hi⟩
  have hdt := dropTwo_fault r.slots l.slots s hk
    (fun i hi => hmem i (List.mem_append_left _ hi)) (fun i hi => hmem i (List.mem_append_right _ hi))
  have hl : r.slots.length + l.slots.length = d.ie - d.is := by
    rw [← List.length_append, hslots, windowSlots_length]
  rw [hl, hslots, hi', filterMap_window b0 hI d.is (d.ie - d.is) (by omega)] at hdt
  have ho : dropOutcome s.faults.drop (d.ie - d.is) = .error (.user "drop") := by
    unfold dropOutcome; simp only [if_pos hfire]
  rw [ho] at hdt
  refine ⟨{ s with
      log := dropEvents s.kind (((abs b0).drop d.is).take (d.ie - d.is)) ++ s.log
      faults := { s.faults with drop := s.faults.drop - (d.ie - d.is) } }, ?_, rfl, rfl⟩
  simp only [Drain.drop, bind_run, hsl, hdt]

end CircBuf
