import CircBuf.Lemmas.Truncate
import CircBuf.Lemmas.Swap
import CircBuf.Lemmas.Remove
set_option linter.unusedSimpArgs false
set_option linter.unusedVariables false
/-! Frame lemmas: which storage cells an operation may overwrite.  An element whose cell is not
overwritten keeps its address, so these bound the number of relocated elements. -/
namespace CircBuf

/-- `op` run in `s` succeeds, touches only the buffer, and leaves every storage cell outside
`changed` exactly as it was -/
def Frames (op : M α) (s : Sys) (changed : List Nat) : Prop :=
  ∃ r b', op s = (.ok r, { s with buf := b' }) ∧ ∀ q, q ∉ changed → b'.items q = s.buf.items q

theorem pushBack_frame (s : Sys) (x : Elem) (h : Inv s.buf) :
    Frames (pushBack x) s
      [if s.buf.size < s.buf.cap then phys s.buf.start s.buf.cap s.buf.size else s.buf.start] := by
  have hget := abs_getElem s.buf h
  have hlen := abs_length s.buf h
  by_cases hc : s.buf.cap = 0
  · exact ⟨some x, s.buf, by mrun [pushBack, hc], fun _ _ => rfl⟩
  have hcpos : 0 < s.buf.cap := by omega
  have hst := h.start_lt' hcpos
  have hsz := h.size_le
  have hW := h.cap_lt
  by_cases hroom : s.buf.size < s.buf.cap
  · have hp := phys_lt s.buf.start s.buf.cap s.buf.size hcpos
    refine ⟨none, ⟨s.buf.cap, s.buf.size + 1, s.buf.start,
      setCell s.buf.items (phys s.buf.start s.buf.cap s.buf.size) (some x)⟩, ?_, ?_⟩
    · mrun [pushBack, incSize_run, backSlot_run, writeCell_run, Nat.add_sub_cancel]
    · intro q hq; simp only [hroom, if_true, List.mem_singleton] at hq
      exact setCell_ne _ _ _ _ hq
  · have he : s.buf.items s.buf.start = some ((abs s.buf)[0]'(by omega)) := by
      have := hget 0 (by omega); rwa [phys_zero _ _ hst] at this
    refine ⟨some ((abs s.buf)[0]'(by omega)), ⟨s.buf.cap, s.buf.size, phys s.buf.start s.buf.cap 1,
      setCell s.buf.items s.buf.start (some x)⟩, ?_, ?_⟩
    · mrun [pushBack, frontSlot_run, readInit_run _ _ _ _ he, writeCell_run, incStart_run]
    · intro q hq; simp only [hroom, if_false, List.mem_singleton] at hq
      exact setCell_ne _ _ _ _ hq

theorem pushFront_frame (s : Sys) (x : Elem) (h : Inv s.buf) :
    Frames (pushFront x) s [phys s.buf.start s.buf.cap (s.buf.cap - 1)] := by
  have hget := abs_getElem s.buf h
  have hlen := abs_length s.buf h
  by_cases hc : s.buf.cap = 0
  · exact ⟨some x, s.buf, by mrun [pushFront, hc], fun _ _ => rfl⟩
  have hcpos : 0 < s.buf.cap := by omega
  have hst := h.start_lt' hcpos
  have hsz := h.size_le
  have hW := h.cap_lt
  have hp := phys_lt s.buf.start s.buf.cap (s.buf.cap - 1) hcpos
  by_cases hroom : s.buf.size < s.buf.cap
  · refine ⟨none, ⟨s.buf.cap, s.buf.size + 1, phys s.buf.start s.buf.cap (s.buf.cap - 1),
      setCell s.buf.items (phys s.buf.start s.buf.cap (s.buf.cap - 1)) (some x)⟩, ?_, ?_⟩
    · mrun [pushFront, incSize_run, decStart_run, frontSlot_run, writeCell_run]
    · intro q hq; simp only [List.mem_singleton] at hq
      exact setCell_ne _ _ _ _ hq
  · have hfull : s.buf.size = s.buf.cap := by omega
    have he : s.buf.items (phys s.buf.start s.buf.cap (s.buf.size - 1))
        = some ((abs s.buf)[s.buf.size - 1]'(by omega)) := hget _ (by omega)
    have hp' := phys_lt s.buf.start s.buf.cap (s.buf.size - 1) hcpos
    refine ⟨some ((abs s.buf)[s.buf.size - 1]'(by omega)),
      ⟨s.buf.cap, s.buf.size, phys s.buf.start s.buf.cap (s.buf.cap - 1),
      setCell s.buf.items (phys s.buf.start s.buf.cap (s.buf.size - 1)) (some x)⟩, ?_, ?_⟩
    · mrun [pushFront, backSlot_run, readInit_run _ _ _ _ he, writeCell_run, decStart_run]
    · intro q hq; simp only [List.mem_singleton] at hq
      rw [hfull]; exact setCell_ne _ _ _ _ hq

/-- `pop_back`, `pop_front`, `truncate_*`, `clear` overwrite nothing: `Refines`' witness has the
same storage.  Stated through the explicit runs. -/
theorem popBack_frame (s : Sys) (h : Inv s.buf) : Frames popBack s [] := by
  have hget := abs_getElem s.buf h
  have hlen := abs_length s.buf h
  by_cases hz : s.buf.cap = 0 ∨ s.buf.size = 0
  · exact ⟨none, s.buf, by mrun [popBack, hz], fun _ _ => rfl⟩
  have hcpos : 0 < s.buf.cap := by omega
  have hst := h.start_lt' hcpos
  have hsz := h.size_le
  have hW := h.cap_lt
  have he : s.buf.items (phys s.buf.start s.buf.cap (s.buf.size - 1))
      = some ((abs s.buf)[s.buf.size - 1]'(by omega)) := hget _ (by omega)
  have hp' := phys_lt s.buf.start s.buf.cap (s.buf.size - 1) hcpos
  exact ⟨some ((abs s.buf)[s.buf.size - 1]'(by omega)), ⟨s.buf.cap, s.buf.size - 1, s.buf.start, s.buf.items⟩,
    by (mrun [popBack, hz, backSlot_run, readInit_run _ _ _ _ he, decSize_run]), fun _ _ => rfl⟩

theorem popFront_frame (s : Sys) (h : Inv s.buf) : Frames popFront s [] := by
  have hget := abs_getElem s.buf h
  have hlen := abs_length s.buf h
  by_cases hz : s.buf.cap = 0 ∨ s.buf.size = 0
  · exact ⟨none, s.buf, by mrun [popFront, hz], fun _ _ => rfl⟩
  have hcpos : 0 < s.buf.cap := by omega
  have hst := h.start_lt' hcpos
  have hsz := h.size_le
  have hW := h.cap_lt
  have he : s.buf.items s.buf.start = some ((abs s.buf)[0]'(by omega)) := by
    have := hget 0 (by omega); rwa [phys_zero _ _ hst] at this
  exact ⟨some ((abs s.buf)[0]'(by omega)), ⟨s.buf.cap, s.buf.size - 1, phys s.buf.start s.buf.cap 1, s.buf.items⟩,
    by (mrun [popFront, hz, frontSlot_run, readInit_run _ _ _ _ he, decSize_run, incStart_run]),
    fun _ _ => rfl⟩

theorem swap_frame (s : Sys) (i j : Nat) (h : Inv s.buf) (hi : i < s.buf.size) (hj : j < s.buf.size) :
    Frames (swap i j) s [phys s.buf.start s.buf.cap i, phys s.buf.start s.buf.cap j] := by
  have hsz := h.size_le
  have hcpos : 0 < s.buf.cap := by omega
  have hst := h.start_lt' hcpos
  have hW := h.cap_lt
  by_cases hij : i = j
  · exact ⟨(), s.buf, by (subst hij; mrun [swap]), fun _ _ => rfl⟩
  · have hp1 := phys_lt s.buf.start s.buf.cap i hcpos
    have hp2 := phys_lt s.buf.start s.buf.cap j hcpos
    refine ⟨(), ⟨s.buf.cap, s.buf.size, s.buf.start,
      swapCells s.buf.items (phys s.buf.start s.buf.cap i) (phys s.buf.start s.buf.cap j)⟩,
      by (mrun [swap, hij, checkIdx_run, setItems_run, ne_eq, not_false_eq_true]), ?_⟩
    intro q hq
    simp only [List.mem_cons, List.mem_singleton, not_or, List.not_mem_nil, or_false] at hq
    simp [swapCells, hq.1, hq.2]

/-- `remove(i)` leaves the cells of the logical positions before `i` untouched (and does not move
the front), so only the `len - i - 1` elements behind `i` can be relocated -/
theorem remove_frame (s : Sys) (index : Nat) (h : Inv s.buf) (hidx : index < s.buf.size) :
    ∃ r b', remove index s = (.ok r, { s with buf := b' }) ∧ b'.start = s.buf.start ∧
      ∀ i, i < index → b'.items (phys s.buf.start s.buf.cap i) = s.buf.items (phys s.buf.start s.buf.cap i) := by
  have hget := abs_getElem s.buf h
  have hlen := abs_length s.buf h
  have he := hget index (by omega)
  refine ⟨_, _, remove_run s index _ h hidx he, rfl, ?_⟩
  intro i hi
  simp only
  rw [removeItems_get s.buf index i h hidx (by omega)]
  simp [hi]

/-- `truncate_back` / `truncate_front` / `clear` never write to the storage -/
theorem dropRange_frame (s : Sys) (rs re : Nat) (h : Inv s.buf) (hf : s.faults.drop = 0)
    (h1 : rs < re) (h2 : re ≤ s.buf.size) (h3 : rs = 0 ∨ re = s.buf.size) :
    ∃ s', dropRange rs re s = (.ok (), s') ∧ s'.buf.items = s.buf.items := by
  refine ⟨_, dropRange_run s rs re h hf h1 h2 h3, ?_⟩
  simp only [shrink]; split <;> rfl

end CircBuf
