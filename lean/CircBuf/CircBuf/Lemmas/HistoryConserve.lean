import CircBuf.Lemmas.History
import CircBuf.Lemmas.Conserve
set_option linter.unusedSimpArgs false
set_option linter.unusedVariables false
/-! Conservation over whole histories: along any finite operation sequence every element that was
ever in the buffer or handed in is, at the end, in exactly one place — in the buffer, with the
caller, or destroyed (and the model's ledger records exactly those destructions). -/
namespace CircBuf

open List

theorem Spec.swap_perm (xs : List Elem) (i j : Nat) : xs.Perm (Spec.swap xs i j) := by
  unfold Spec.swap
  cases hi : xs[i]? with
  | none => simp
  | some a =>
    cases hj : xs[j]? with
    | none => simp
    | some b =>
      simp only
      have hi' : i < xs.length := by
        rcases Nat.lt_or_ge i xs.length with h | h
        · exact h
        · rw [List.getElem?_eq_none h] at hi; cases hi
      have hj' : j < xs.length := by
        rcases Nat.lt_or_ge j xs.length with h | h
        · exact h
        · rw [List.getElem?_eq_none h] at hj; cases hj
      have ha : xs[i] = a := by rw [List.getElem?_eq_getElem hi'] at hi; exact Option.some.inj hi
      have hb : xs[j] = b := by rw [List.getElem?_eq_getElem hj'] at hj; exact Option.some.inj hj
      apply List.Perm.symm
      apply List.perm_iff_count.mpr
      intro e
      by_cases hij : i = j
      · subst hij
        have : a = b := by rw [← ha, ← hb]
        subst this
        rw [List.set_set, ← ha, List.set_getElem_self]
      · simp only [List.count_set, List.length_set, hi', hj', List.getElem_set, hij, if_false, ha, hb]
        have hpa : 0 < List.count a xs := by rw [← ha]; exact List.count_pos_iff.mpr (List.getElem_mem hi')
        have hpb : 0 < List.count b xs := by rw [← hb]; exact List.count_pos_iff.mpr (List.getElem_mem hj')
        by_cases e1 : a == e <;> by_cases e2 : b == e <;> simp [e1, e2]
        all_goals (first
          | (have h1 := beq_iff_eq.mp e1; subst h1; omega)
          | (have h2 := beq_iff_eq.mp e2; subst h2; omega))

theorem Spec.swapRemoveBack_conserves (xs : List Elem) (i : Nat) :
    xs.Perm ((Spec.swapRemoveBack xs i).1 ++ (Spec.swapRemoveBack xs i).2.toList) := by
  unfold Spec.swapRemoveBack
  by_cases hi : i < xs.length
  · simp only [hi, if_true]
    have hl : (Spec.swap xs i (xs.length - 1)).length = xs.length := swap_length xs i _
    have hp := Spec.popBack_conserves (Spec.swap xs i (xs.length - 1))
    unfold Spec.popBack at hp
    rw [getLast?_eq_of_length _ _ hl (by omega),
      swap_getElem_right xs i (xs.length - 1) hi (by omega)] at hp
    rw [List.getElem?_eq_getElem hi]
    exact (Spec.swap_perm xs i (xs.length - 1)).trans hp
  · simp [hi]

theorem Spec.swapRemoveFront_conserves (xs : List Elem) (i : Nat) :
    xs.Perm ((Spec.swapRemoveFront xs i).1 ++ (Spec.swapRemoveFront xs i).2.toList) := by
  unfold Spec.swapRemoveFront
  by_cases hi : i < xs.length
  · simp only [hi, if_true]
    have hl : (Spec.swap xs i 0).length = xs.length := swap_length xs i _
    have hp := Spec.popFront_conserves (Spec.swap xs i 0)
    unfold Spec.popFront at hp
    rw [List.head?_eq_getElem?, List.getElem?_eq_getElem (by omega),
      swap_getElem_zero xs i hi] at hp
    rw [List.getElem?_eq_getElem hi]
    exact (Spec.swap_perm xs i 0).trans hp
  · simp [hi]

/-- one step of the abstract deque conserves the elements -/
theorem Spec.step_conserves (cap : Nat) (xs : List Elem) (op : Op) :
    (xs ++ op.given).Perm
      ((Spec.step cap xs op).1 ++ (Spec.step cap xs op).2.handed ++ Spec.destroyed xs op) := by
  cases op with
  | pushBack x =>
    have := Spec.pushBack_conserves cap xs x
    cases h : (Spec.pushBack cap xs x).2 <;> simp_all [Spec.step, Op.given, Out.handed, Spec.destroyed]
  | pushFront x =>
    have h1 := Spec.pushFront_conserves cap xs x
    have h0 : (xs ++ [x]).Perm (x :: xs) := perm_append_comm
    have := h0.trans h1
    cases h : (Spec.pushFront cap xs x).2 <;> simp_all [Spec.step, Op.given, Out.handed, Spec.destroyed]
  | tryPushBack x =>
    unfold Spec.step Spec.tryPushBack
    by_cases h : xs.length < cap <;> simp [h, Op.given, Out.handed, Spec.destroyed]
  | tryPushFront x =>
    unfold Spec.step Spec.tryPushFront
    by_cases h : xs.length < cap <;> simp [h, Op.given, Out.handed, Spec.destroyed] <;>
      exact perm_append_comm
  | popBack =>
    have := Spec.popBack_conserves xs
    cases h : (Spec.popBack xs).2 <;> simp_all [Spec.step, Op.given, Out.handed, Spec.destroyed]
  | popFront =>
    have := Spec.popFront_conserves xs
    cases h : (Spec.popFront xs).2 <;> simp_all [Spec.step, Op.given, Out.handed, Spec.destroyed]
  | remove i =>
    have := Spec.remove_conserves xs i
    cases h : (Spec.remove xs i).2 <;> simp_all [Spec.step, Op.given, Out.handed, Spec.destroyed]
  | swapRemoveBack i =>
    have := Spec.swapRemoveBack_conserves xs i
    cases h : (Spec.swapRemoveBack xs i).2 <;> simp_all [Spec.step, Op.given, Out.handed, Spec.destroyed]
  | swapRemoveFront i =>
    have := Spec.swapRemoveFront_conserves xs i
    cases h : (Spec.swapRemoveFront xs i).2 <;> simp_all [Spec.step, Op.given, Out.handed, Spec.destroyed]
  | swap i j =>
    unfold Spec.step
    by_cases hi : i < xs.length
    · by_cases hj : j < xs.length
      · simp [hi, hj, Op.given, Out.handed, Spec.destroyed]; exact Spec.swap_perm xs i j
      · simp [hi, hj, Op.given, Out.handed, Spec.destroyed]
    · simp [hi, Op.given, Out.handed, Spec.destroyed]
  | truncateBack n =>
    simpa [Spec.step, Op.given, Out.handed, Spec.destroyed] using Spec.truncate_conserves xs n
  | truncateFront n =>
    simpa [Spec.step, Op.given, Out.handed, Spec.destroyed] using Spec.truncateFront_conserves xs n
  | clear => simp [Spec.step, Op.given, Out.handed, Spec.destroyed]
  | makeContiguous => simp [Spec.step, Op.given, Out.handed, Spec.destroyed]

/-- everything handed in, handed out and destroyed along a history -/
def Spec.tally (cap : Nat) : List Op → List Elem → List Elem × List Elem × List Elem
  | [], _ => ([], [], [])
  | op :: rest, xs =>
    let t := Spec.tally cap rest (Spec.step cap xs op).1
    (op.given ++ t.1, (Spec.step cap xs op).2.handed ++ t.2.1, Spec.destroyed xs op ++ t.2.2)

/-- **conservation along any finite history**: initial contents plus everything handed in is a
permutation of final contents, everything handed out and everything destroyed -/
theorem Spec.history_conserves (cap : Nat) (ops : List Op) (xs : List Elem) :
    (xs ++ (Spec.tally cap ops xs).1).Perm
      ((Spec.runOps cap ops xs).2 ++ (Spec.tally cap ops xs).2.1 ++ (Spec.tally cap ops xs).2.2) := by
  induction ops generalizing xs with
  | nil => simp [Spec.tally, Spec.runOps]
  | cons op rest ih =>
    have h1 := Spec.step_conserves cap xs op
    have h2 := ih (Spec.step cap xs op).1
    simp only [Spec.tally, Spec.runOps]
    -- xs ++ given ++ G' ~ (xs1 ++ handed ++ destroyed) ++ G' ~ (xs1 ++ G') ++ handed ++ destroyed
    rw [← List.append_assoc]
    refine (Perm.append_right _ h1).trans ?_
    refine Perm.trans ?_ (show ((Spec.step cap xs op).1 ++ (Spec.tally cap rest (Spec.step cap xs op).1).1 ++
        ((Spec.step cap xs op).2.handed ++ Spec.destroyed xs op)).Perm _ from ?_)
    · simp only [List.append_assoc]
      apply Perm.append_left
      apply List.perm_iff_count.mpr
      intro e
      simp only [List.count_append]
      omega
    · refine (Perm.append_right _ h2).trans ?_
      simp only [List.append_assoc]
      apply Perm.append_left
      -- H' ++ D' ++ handed ++ destroyed ~ handed ++ H' ++ destroyed ++ D'
      apply List.perm_iff_count.mpr
      intro e
      simp only [List.count_append]
      omega

end CircBuf
