import CircBuf.Lemmas.FillFault
set_option linter.unusedSimpArgs false
set_option linter.unusedVariables false
/-! Destructor panics in the conversions that destroy elements: `From<[T; M]>` (the surplus of the
array) and `clone_from` (the old contents). -/
namespace CircBuf

/-- dropping a list of owned elements (`drop_in_place` of the array's surplus): whichever destructor
call panics, every element of the list is destroyed exactly once -/
theorem dropElems_fault (es : List Elem) (s : Sys) (hk : ¬ (s.kind = .byte ∨ s.kind = .plain)) :
    dropElems es s = (dropOutcome s.faults.drop es.length,
      { s with log := dropEvents s.kind es ++ s.log,
               faults := { s.faults with drop := s.faults.drop - es.length } }) := by
  induction es generalizing s with
  | nil =>
    have : ¬ (1 ≤ s.faults.drop ∧ s.faults.drop ≤ 0) := by omega
    obtain ⟨b, l, n, f, kd⟩ := s
    obtain ⟨d, c, ca, nx, eq⟩ := f
    simp [dropElems, dropOutcome, dropEvents_nil]
    omega
  | cons e rest ih =>
    have h1 := dropElem_fault s e hk
    have h2 := ih { s with log := dropEvents s.kind [e] ++ s.log,
                           faults := { s.faults with drop := s.faults.drop - 1 } } (by simp only; exact hk)
    have hev : dropEvents s.kind (e :: rest) = dropEvents s.kind rest ++ dropEvents s.kind [e] := by
      have : e :: rest = [e] ++ rest := rfl
      rw [this, dropEvents_append]
    simp only at h2
    simp only [dropElems, tryFinally, List.length_cons, hev, List.append_assoc]
    rw [h1]
    rcases hd : s.faults.drop with _ | _ | k
    · rw [hd] at h2
      simp only [dropOutcome_zero, Nat.zero_sub] at h2 ⊢
      rw [h2]
    · rw [hd] at h2
      simp only [Nat.zero_add, dropOutcome_one_one, Nat.sub_self, dropOutcome_zero, dropOutcome_one, Nat.zero_sub] at h2 ⊢
      rw [h2]
      simp
    · rw [hd] at h2
      simp only [dropOutcome_big_one, Nat.add_sub_cancel, dropOutcome_succ, dropOutcome_any_zero] at h2 ⊢
      rw [h2]
      have e : k + 1 - rest.length = k + 1 + 1 - (rest.length + 1) := by omega
      rw [e]
      cases dropOutcome (k + 1) rest.length <;> rfl

/-- **`clone_from(other)` when the `k`-th destructor call panics while the old contents are cleared**
(`1 ≤ k ≤ len`): the panic propagates before anything is cloned; every old element was destroyed
exactly once and the buffer is left empty and valid -/
theorem cloneFrom_drop_fault (other : List Elem) (s : Sys) (h : Inv s.buf)
    (hk : ¬ (s.kind = .byte ∨ s.kind = .plain))
    (hfire : 1 ≤ s.faults.drop ∧ s.faults.drop ≤ s.buf.size) :
    ∃ s', cloneFrom other s = (.error (.user "drop"), s') ∧ PostDrop s s' [] (abs s.buf) := by
  obtain ⟨s1, r1, p1⟩ := clear_any s h hk
  have hout : dropOutcome s.faults.drop s.buf.size = .error (.user "drop") := by
    simp [dropOutcome, hfire]
  rw [hout] at r1
  exact ⟨s1, by simp only [cloneFrom, bind_run, r1], p1⟩

/-- **`From<[T; M]>` when the `k`-th destructor call panics while the surplus of the array is destroyed**
(`1 ≤ k ≤ M - N`): the panic propagates; every surplus element was destroyed exactly once, and the
buffer under construction is dropped during unwinding, which destroys each kept element exactly
once — all `M` elements of the array are destroyed exactly once, none twice -/
theorem fromArray_drop_fault (s : Sys) (arr : List Elem) (hW : s.buf.cap < W)
    (hk : ¬ (s.kind = .byte ∨ s.kind = .plain))
    (hfire : 1 ≤ s.faults.drop ∧ s.faults.drop ≤ arr.length - s.buf.cap) :
    ∃ s', fromArray arr s = (.error (.user "drop"), s') ∧ Inv s'.buf ∧ abs s'.buf = [] ∧
      s'.buf.cap = s.buf.cap ∧
      s'.log = dropEvents s.kind (Spec.lastN s.buf.cap arr) ++
        (dropEvents s.kind (arr.take (arr.length - s.buf.cap)) ++ s.log) := by
  obtain ⟨sz, hsz⟩ : ∃ sz, sz = (if s.buf.cap ≥ arr.length then arr.length else s.buf.cap) := ⟨_, rfl⟩
  have hsz1 : sz ≤ arr.length := by rw [hsz]; split <;> omega
  have hsz2 : sz ≤ s.buf.cap := by rw [hsz]; split <;> omega
  have hskip : arr.length - sz = arr.length - s.buf.cap := by rw [hsz]; split <;> omega
  obtain ⟨s1, hs1⟩ : ∃ s1 : Sys, s1 = { s with buf := ⟨s.buf.cap, sz, 0,
      fun i => if i < sz then arr[arr.length - sz + i]? else none⟩ } := ⟨_, rfl⟩
  have hk1 : ¬ (s1.kind = .byte ∨ s1.kind = .plain) := by rw [hs1]; exact hk
  have hd := dropElems_fault (arr.take (arr.length - sz)) s1 hk1
  have hlen : (arr.take (arr.length - sz)).length = arr.length - s.buf.cap := by
    simp only [List.length_take]; omega
  have hf1 : s1.faults.drop = s.faults.drop := by rw [hs1]
  have hout : dropOutcome s1.faults.drop (arr.take (arr.length - sz)).length = .error (.user "drop") := by
    rw [hlen, hf1]; simp [dropOutcome, hfire]
  rw [hout] at hd
  have hpt : ∀ i, (hi : i < (Spec.lastN s.buf.cap arr).length) →
      (fun i => if i < sz then arr[arr.length - sz + i]? else none) (phys 0 s.buf.cap i)
        = some (Spec.lastN s.buf.cap arr)[i] := by
    intro i hi
    simp only [Spec.lastN, List.length_drop] at hi
    have hi' : i < sz := by omega
    have hic : i < s.buf.cap := by omega
    have : phys 0 s.buf.cap i = i := by unfold phys; simp [Nat.mod_eq_of_lt hic]
    simp only [this, hi', if_true, Spec.lastN, List.getElem_drop, ← hskip]
    exact List.getElem?_eq_getElem _
  obtain ⟨hI, hA⟩ := inv_abs_of
    ⟨s.buf.cap, sz, 0, fun i => if i < sz then arr[arr.length - sz + i]? else none⟩
    (Spec.lastN s.buf.cap arr) hW (by simp [Spec.lastN]; omega) hsz2
    (by by_cases h0 : s.buf.cap = 0
        · right; exact ⟨h0, rfl⟩
        · left; simp only; omega) hpt
  -- the state after the (panicking) destruction of the surplus
  obtain ⟨s2, hs2⟩ : ∃ s2 : Sys, s2 = { s1 with
      log := dropEvents s1.kind (arr.take (arr.length - sz)) ++ s1.log
      faults := { s1.faults with drop := s1.faults.drop - (arr.take (arr.length - sz)).length } } := ⟨_, rfl⟩
  rw [← hs2] at hd
  have hI2 : Inv s2.buf := by rw [hs2, hs1]; exact hI
  have hA2 : abs s2.buf = Spec.lastN s.buf.cap arr := by rw [hs2, hs1]; exact hA
  have hd2 : s2.faults.drop = 0 := by
    rw [hs2]; simp only; rw [hlen, hf1]; omega
  obtain ⟨s3, r3, p3⟩ := (clear_spec s2 hI2 hd2).runs
  have hdb : dropBuffer s2 = (.ok (), s3) := r3
  refine ⟨s3, ?_, p3.inv, p3.abs_eq, ?_, ?_⟩
  · have hnge : ¬ (s.buf.cap ≥ arr.length) := by omega
    have hszc : sz = s.buf.cap := by rw [hsz]; simp [hnge]
    have e1 : fromArray arr s = onPanic (dropElems (arr.take (arr.length - sz))) dropBuffer s1 := by
      rw [hs1, hszc]
      mrun [fromArray, hnge]
    rw [e1]
    simp only [onPanic, hd, hdb]
  · rw [p3.cap_eq, hs2, hs1]
  · have hk2 : s2.kind = s.kind := by rw [hs2, hs1]
    have hl2 : s2.log = dropEvents s.kind (arr.take (arr.length - s.buf.cap)) ++ s.log := by
      rw [hs2, hs1, hskip]
    rw [p3.log_eq, hA2, hk2, hl2]

end CircBuf
