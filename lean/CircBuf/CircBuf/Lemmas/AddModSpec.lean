import CircBuf.Generated.AddMod
/-!
  Specification of the *translated* `add_mod` / `sub_mod` (T1), for every modulus `0 < m < 2^64`,
  including `m = usize::MAX` and the branch where `x + y` wraps around the machine word.
-/
namespace CircBuf

theorem addMod_spec (x y m : Nat) (hm : 0 < m) (hmW : m < W) (hx : x ≤ m) (hy : y ≤ m) :
    addMod x y m = .ok ((x + y) % m) := by
  have hWpos := W_pos
  have hm0 : m ≠ 0 := by omega
  by_cases hov : x + y < W
  · -- no wrap-around
    have h1 : (x + y) % W = x + y := Nat.mod_eq_of_lt hov
    have h2 : ¬ (W ≤ x + y) := by omega
    have h3 : (W - 1) % m + 1 < W := by
      have := Nat.mod_lt (W - 1) hm; omega
    simp only [addMod, dassertE, overflowingAdd, umod, uadd, umul, AsUsize.asUsize, h1, h2, h3, hm0,
      hm, hx, hy, hov, gt_iff_lt, decide_true, decide_false, if_true, if_false, bind, Except.bind,
      pure, Except.pure, Nat.zero_mul, Nat.add_zero, W_pos, Bool.false_eq_true]
  · -- `x + y ≥ 2^64`: the sum wraps; then `m > 2^63`
    have hge : W ≤ x + y := by omega
    have h1 : (x + y) % W = x + y - W := by
      rw [Nat.mod_eq_sub_mod hge]; exact Nat.mod_eq_of_lt (by omega)
    have hmhalf : W ≤ 2 * m := by omega
    have h2 : (W - 1) % m = W - 1 - m := by
      rw [Nat.mod_eq_sub_mod (by omega)]; exact Nat.mod_eq_of_lt (by omega)
    have h3 : W - 1 - m + 1 < W := by omega
    have h4 : 1 * (W - 1 - m + 1) < W := by omega
    have h5 : x + y - W + 1 * (W - 1 - m + 1) < W := by omega
    have h6 : (x + y - W + 1 * (W - 1 - m + 1)) % m = (x + y) % m := by
      have e : x + y - W + 1 * (W - 1 - m + 1) = x + y - m := by omega
      rw [e]; exact (Nat.mod_eq_sub_mod (by omega)).symm
    simp only [addMod, dassertE, overflowingAdd, umod, uadd, umul, AsUsize.asUsize, h1, h2, h3, h4,
      h5, h6, hm0, hm, hx, hy, hge, gt_iff_lt, decide_true, if_true, if_false, bind, Except.bind,
      pure, Except.pure]

theorem subMod_spec (x y m : Nat) (hm : 0 < m) (hmW : m < W) (hx : x ≤ m) (hy : y ≤ m) :
    subMod x y m = .ok ((x + (m - y)) % m) := by
  have h := addMod_spec x (m - y) m hm hmW hx (by omega)
  simp only [subMod, dassertE, usub, hm, hx, hy, gt_iff_lt, decide_true, if_true, bind,
    Except.bind, h, pure, Except.pure]

/-- Non-vacuity: the wrapping branch is inhabited at `m = usize::MAX`. -/
example : addMod (W - 2) (W - 3) (W - 1) = .ok (((W - 2) + (W - 3)) % (W - 1)) :=
  addMod_spec _ _ _ (by have := W_pos; unfold W at *; omega) (by have := W_pos; omega)
    (by omega) (by omega)

end CircBuf
