import CircBuf.Lemmas.DropRange
set_option linter.unusedSimpArgs false
set_option linter.unusedVariables false
/-! `truncate_back`, `truncate_front`, `clear`, `Drop` (no destructor panics). -/
namespace CircBuf

theorem refinesL_of (op : M α) (s : Sys) (r : α) (xs' : List Elem) (evs : List Event) (b' : CB)
    (hrun : op s = (.ok r, { s with buf := b', log := evs ++ s.log })) (hcap : b'.cap = s.buf.cap)
    (hW : s.buf.cap < W) (hlen : xs'.length = b'.size) (hsz : b'.size ≤ b'.cap)
    (hst : b'.start < b'.cap ∨ (b'.cap = 0 ∧ b'.start = 0))
    (h : ∀ i, (hi : i < xs'.length) → b'.items (phys b'.start b'.cap i) = some xs'[i]) :
    RefinesL op s r xs' evs := by
  obtain ⟨h1, h2⟩ := inv_abs_of b' xs' (hcap ▸ hW) hlen hsz hst h
  exact ⟨b', hrun, h1, h2, hcap⟩

theorem truncateBack_spec (s : Sys) (n : Nat) (h : Inv s.buf) (hf : s.faults.drop = 0) :
    RefinesL (truncateBack n) s () ((abs s.buf).take n)
      (dropEvents s.kind ((abs s.buf).drop n)) := by
  have hlen := abs_length s.buf h
  have hget := abs_getElem s.buf h
  have hsz := h.size_le
  by_cases hz : s.buf.cap = 0 ∨ s.buf.size ≤ n
  · have hle : (abs s.buf).length ≤ n := by omega
    refine ⟨s.buf, ?_, h, ?_, rfl⟩
    · rw [List.drop_of_length_le hle, dropEvents_nil]
      mrun [truncateBack, hz]; rfl
    · rw [List.take_of_length_le hle]
  have hcpos : 0 < s.buf.cap := by omega
  have hst := h.start_lt' hcpos
  have hn : n < s.buf.size := by omega
  have hd := dropRange_run s n s.buf.size h hf hn (Nat.le_refl _) (Or.inr rfl)
  have hsh : shrink s.buf n s.buf.size = ⟨s.buf.cap, n, s.buf.start, s.buf.items⟩ := by
    simp [shrink]
  have htk : ((abs s.buf).drop n).take (s.buf.size - n) = (abs s.buf).drop n := by
    apply List.take_of_length_le; simp [hlen]
  rw [hsh, htk] at hd
  apply refinesL_of _ _ _ _ _ ⟨s.buf.cap, n, s.buf.start, s.buf.items⟩
  · mrun [truncateBack, hz, hd]
  · rfl
  · exact h.cap_lt
  · simp [hlen]; omega
  · simp only; omega
  · exact Or.inl hst
  · intro i hi
    simp only [List.length_take, hlen] at hi
    simp only [List.getElem_take]
    exact hget i (by omega)

theorem truncateFront_spec (s : Sys) (n : Nat) (h : Inv s.buf) (hf : s.faults.drop = 0) :
    RefinesL (truncateFront n) s () (Spec.lastN n (abs s.buf))
      (dropEvents s.kind ((abs s.buf).take ((abs s.buf).length - n))) := by
  have hlen := abs_length s.buf h
  have hget := abs_getElem s.buf h
  have hsz := h.size_le
  unfold Spec.lastN
  by_cases hz : s.buf.cap = 0 ∨ s.buf.size ≤ n
  · have hle : (abs s.buf).length - n = 0 := by omega
    refine ⟨s.buf, ?_, h, ?_, rfl⟩
    · rw [hle, List.take_zero, dropEvents_nil]
      mrun [truncateFront, hz]; rfl
    · rw [hle, List.drop_zero]
  have hcpos : 0 < s.buf.cap := by omega
  have hst := h.start_lt' hcpos
  have hn : n < s.buf.size := by omega
  have hd := dropRange_run s 0 (s.buf.size - n) h hf (by omega) (by omega) (Or.inl rfl)
  simp only [List.drop_zero, Nat.sub_zero] at hd
  rw [hlen]
  by_cases hn0 : n = 0
  · subst hn0
    have hsh : shrink s.buf 0 (s.buf.size - 0) = ⟨s.buf.cap, 0, s.buf.start, s.buf.items⟩ := by
      simp [shrink]
    rw [hsh] at hd
    apply refinesL_of _ _ _ _ _ ⟨s.buf.cap, 0, s.buf.start, s.buf.items⟩
    · mrun [truncateFront, hz, hd]
    · rfl
    · exact h.cap_lt
    · simp [hlen]
    · simp only; omega
    · exact Or.inl hst
    · intro i hi
      simp [hlen] at hi
  · have hne : s.buf.size - n ≠ s.buf.size := by omega
    have hsh : shrink s.buf 0 (s.buf.size - n) =
        ⟨s.buf.cap, s.buf.size - (s.buf.size - n), phys s.buf.start s.buf.cap (s.buf.size - n),
          s.buf.items⟩ := by
      simp [shrink, hne]
    rw [hsh] at hd
    have hnn : s.buf.size - (s.buf.size - n) = n := by omega
    apply refinesL_of _ _ _ _ _ ⟨s.buf.cap, s.buf.size - (s.buf.size - n),
      phys s.buf.start s.buf.cap (s.buf.size - n), s.buf.items⟩
    · mrun [truncateFront, hz, hd, hnn]
    · rfl
    · exact h.cap_lt
    · simp [hlen]
    · simp only; omega
    · exact Or.inl (phys_lt _ _ _ hcpos)
    · intro i hi
      simp only [List.length_drop, hlen] at hi
      simp only [phys_phys, List.getElem_drop]
      exact hget (s.buf.size - n + i) (by omega)

theorem clear_spec (s : Sys) (h : Inv s.buf) (hf : s.faults.drop = 0) :
    RefinesL clear s () [] (dropEvents s.kind (abs s.buf)) := by
  have := truncateBack_spec s 0 h hf
  simpa [clear] using this

end CircBuf
