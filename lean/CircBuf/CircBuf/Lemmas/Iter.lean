import CircBuf.Lemmas.Views
set_option linter.unusedSimpArgs false
set_option linter.unusedVariables false
/-! Borrowing iterators (`Iter`, `IterMut`): an iterator is a refinement of the list of slots it has
still to produce (`remaining`): `next` = head/tail, `next_back` = last/dropLast, `len` = length;
`over_range(a..b)` selects exactly the slots of logical positions `a..b`. -/
namespace CircBuf

theorem range'_drop (s n k : Nat) : (List.range' s n).drop k = List.range' (s + k) (n - k) := by
  apply List.ext_getElem
  · simp
  · intro i h1 h2
    simp only [List.getElem_drop, List.getElem_range']
    omega

theorem range'_take (s n k : Nat) : (List.range' s n).take k = List.range' s (min k n) := by
  apply List.ext_getElem
  · simp
  · intro i h1 h2
    simp only [List.getElem_take, List.getElem_range']

/-! ### consuming -/

theorem Iter.next_spec (it : Iter) :
    (it.next).1 = it.remaining.head? ∧ (it.next).2.remaining = it.remaining.tail := by
  unfold Iter.next Iter.remaining View.slots
  by_cases h1 : it.right.len > 0
  · obtain ⟨n, hn⟩ : ∃ n, it.right.len = n + 1 := ⟨it.right.len - 1, by omega⟩
    simp [h1, hn, List.range'_succ]
  · have h0 : it.right.len = 0 := by omega
    by_cases h2 : it.left.len > 0
    · obtain ⟨n, hn⟩ : ∃ n, it.left.len = n + 1 := ⟨it.left.len - 1, by omega⟩
      simp [h0, hn, List.range'_succ]
    · have h3 : it.left.len = 0 := by omega
      simp [h0, h3]

theorem range'_getLast? (s n : Nat) (hn : 0 < n) : (List.range' s n).getLast? = some (s + n - 1) := by
  rw [getLast?_eq_of_length _ n (by simp) hn]
  simp only [List.getElem_range']; congr 1; try omega

theorem range'_dropLast (s n : Nat) : (List.range' s n).dropLast = List.range' s (n - 1) := by
  rw [List.dropLast_eq_take, range'_take]; simp; try (congr 1; omega)

theorem Iter.nextBack_spec (it : Iter) :
    (it.nextBack).1 = it.remaining.getLast? ∧ (it.nextBack).2.remaining = it.remaining.dropLast := by
  unfold Iter.nextBack Iter.remaining View.slots
  by_cases h1 : it.left.len > 0
  · have hne : List.range' it.left.off it.left.len ≠ [] := by
      intro h; have := congrArg List.length h; simp at this; omega
    simp only [h1, if_true]
    rw [List.getLast?_append, List.dropLast_append_of_ne_nil hne,
      range'_getLast? _ _ h1, range'_dropLast]
    exact ⟨rfl, rfl⟩
  · have h0 : it.left.len = 0 := by omega
    by_cases h2 : it.right.len > 0
    · simp only [h0, h2, if_true, Nat.lt_irrefl, if_false, List.range'_zero, List.append_nil]
      rw [range'_getLast? _ _ h2, range'_dropLast]
      exact ⟨rfl, rfl⟩
    · have h3 : it.right.len = 0 := by omega
      simp [h0, h3]

theorem Iter.len_spec (it : Iter) (s : Sys) (h : it.right.len + it.left.len < W) :
    it.len s = (.ok it.remaining.length, s) := by
  unfold Iter.len Iter.remaining View.slots
  mrun []
  simp

/-! ### selecting a sub-range -/

theorem Iter.advanceFrontBy_spec (it : Iter) (count : Nat) (s : Sys)
    (hc : count ≤ it.remaining.length) :
    ∃ it', it.advanceFrontBy count s = (.ok it', s) ∧ it'.remaining = it.remaining.drop count := by
  unfold Iter.remaining View.slots at hc ⊢
  simp only [List.length_append, List.length_range'] at hc
  unfold Iter.advanceFrontBy
  by_cases h1 : it.right.len > count
  · refine ⟨{ it with right := ⟨it.right.off + count, it.right.len - count⟩ },
      by simp only [h1, if_true]; rfl, ?_⟩
    simp only
    rw [List.drop_append_of_le_length (by simp; omega), range'_drop]
  · have hle : ¬ (count - it.right.len > it.left.len) := by omega
    refine ⟨⟨View.empty, ⟨it.left.off + (count - it.right.len), it.left.len - (count - it.right.len)⟩⟩,
      by mrun [h1, hle], ?_⟩
    simp only [View.empty, List.range'_zero, List.nil_append]
    rw [List.drop_append]
    have : (List.range' it.right.off it.right.len).drop count = [] := by
      apply List.drop_eq_nil_of_le; simp; omega
    rw [this, range'_drop]; simp

theorem Iter.advanceBackBy_spec (it : Iter) (count : Nat) (s : Sys)
    (hc : count ≤ it.remaining.length) :
    ∃ it', it.advanceBackBy count s = (.ok it', s) ∧
      it'.remaining = it.remaining.take (it.remaining.length - count) := by
  unfold Iter.remaining View.slots at hc ⊢
  simp only [List.length_append, List.length_range'] at hc ⊢
  unfold Iter.advanceBackBy
  by_cases h1 : it.left.len > count
  · refine ⟨{ it with left := ⟨it.left.off, it.left.len - count⟩ }, by mrun [h1], ?_⟩
    simp only
    rw [List.take_append]
    have e1 : (List.range' it.right.off it.right.len).take (it.right.len + it.left.len - count)
        = List.range' it.right.off it.right.len := by
      apply List.take_of_length_le; simp; omega
    rw [e1, range'_take]; simp
    congr 2; omega
  · refine ⟨⟨⟨it.right.off, it.right.len - (count - it.left.len)⟩, View.empty⟩, by mrun [h1], ?_⟩
    simp only [View.empty, List.range'_zero, List.append_nil]
    rw [List.take_append]
    have e2 : (List.range' it.left.off it.left.len).take
        (it.right.len + it.left.len - count - (List.range' it.right.off it.right.len).length) = [] := by
      simp; omega
    rw [e2, range'_take]; simp
    congr 1; omega

/-- unbounded-natural reading of a start / end bound -/
def Bound.startNat : Bound → Nat
  | .incl x => x
  | .excl x => x + 1
  | .unb => 0

def Bound.endNat (len : Nat) : Bound → Nat
  | .incl x => x + 1
  | .excl x => x
  | .unb => len

def Bound.val : Bound → Nat
  | .incl x => x
  | .excl x => x
  | .unb => 0

theorem Bound.startE_eq (sb : Bound) (h : sb.val < W) :
    sb.startE = if sb.startNat < W then .ok sb.startNat else .error (.doc "range_start_overflow") := by
  cases sb with
  | incl x => simp only [Bound.val] at h; simp [Bound.startE, Bound.startNat, h]
  | excl x =>
    simp only [Bound.startE, Bound.startNat, checkedAdd]
    by_cases hx : x + 1 < W <;> simp [hx]
  | unb => simp [Bound.startE, Bound.startNat, W_pos]

theorem Bound.endE_eq (eb : Bound) (len : Nat) (h : eb.val < W) (hl : len < W) :
    eb.endE len = if eb.endNat len < W then .ok (eb.endNat len)
      else .error (.doc "range_end_overflow") := by
  cases eb with
  | incl x =>
    simp only [Bound.endE, Bound.endNat, checkedAdd]
    by_cases hx : x + 1 < W <;> simp [hx]
  | excl x => simp only [Bound.val] at h; simp [Bound.endE, Bound.endNat, h]
  | unb => simp [Bound.endE, Bound.endNat, hl]

/-- `translate_range_bounds` succeeds exactly on valid ranges and returns them … -/
theorem translateRange_ok (sb eb : Bound) (s : Sys) (hsb : sb.val < W) (heb : eb.val < W)
    (he : eb.endNat s.buf.size ≤ s.buf.size) (hs : sb.startNat ≤ eb.endNat s.buf.size)
    (hW : s.buf.size < W) :
    translateRange sb eb s = (.ok (sb.startNat, eb.endNat s.buf.size), s) := by
  have h1 : sb.startNat < W := by omega
  have h2 : eb.endNat s.buf.size < W := by omega
  mrun [translateRange, Bound.startE_eq sb hsb, Bound.endE_eq eb _ heb hW, h1, h2]

/-- … and panics with one of the documented messages (leaving the state untouched) on every other
range: the end exceeds the length, or the start exceeds the end (bounds read as unbounded naturals,
so `Excluded(usize::MAX)` as a start and `Included(usize::MAX)` as an end are covered). -/
theorem translateRange_panics (sb eb : Bound) (s : Sys) (hsb : sb.val < W) (heb : eb.val < W)
    (hW : s.buf.size < W)
    (hbad : s.buf.size < eb.endNat s.buf.size ∨ eb.endNat s.buf.size < sb.startNat) :
    ∃ k, translateRange sb eb s = (.error (.doc k), s) := by
  by_cases h1 : sb.startNat < W
  · by_cases h2 : eb.endNat s.buf.size < W
    · by_cases h3 : eb.endNat s.buf.size ≤ s.buf.size
      · have h4 : ¬ sb.startNat ≤ eb.endNat s.buf.size := by omega
        exact ⟨"range_order", by
          mrun [translateRange, Bound.startE_eq sb hsb, Bound.endE_eq eb _ heb hW, h1, h2, h3, h4]⟩
      · exact ⟨"range_end", by
          mrun [translateRange, Bound.startE_eq sb hsb, Bound.endE_eq eb _ heb hW, h1, h2, h3]⟩
    · exact ⟨"range_end_overflow", by
        mrun [translateRange, Bound.startE_eq sb hsb, Bound.endE_eq eb _ heb hW, h1, h2]⟩
  · exact ⟨"range_start_overflow", by
      mrun [translateRange, Bound.startE_eq sb hsb, h1]⟩

theorem Iter.new_spec (s : Sys) (h : Inv s.buf) :
    ∃ it, Iter.new s = (.ok it, s) ∧
      it.remaining = windowSlots s.buf.start s.buf.cap s.buf.size := by
  obtain ⟨f, k, h1, h2, _⟩ := asSlicesOf_spec s.buf h
  refine ⟨⟨f, k⟩, ?_, h2⟩
  simp only [Iter.new, asSlices, bind_run, getBuf_run, h1, liftE_ok, pure_run]

/-- the slots of logical positions `a .. b` -/
def rangeSlots (start cap a b : Nat) : List Nat := (List.range' a (b - a)).map (phys start cap)

theorem windowSlots_slice (start cap size a b : Nat) (hab : a ≤ b) (hb : b ≤ size) :
    ((windowSlots start cap size).drop a).take (b - a) = rangeSlots start cap a b := by
  unfold windowSlots rangeSlots
  rw [List.range_eq_range', ← List.map_drop, ← List.map_take, range'_drop, range'_take]
  congr 2 <;> omega

/-- `range(a..b)` / `range_mut(a..b)` in any `RangeBounds` spelling selects exactly the slots of
the logical positions `a..b`, in order -/
theorem Iter.overRange_spec (sb eb : Bound) (s : Sys) (h : Inv s.buf) (hsb : sb.val < W)
    (heb : eb.val < W) (he : eb.endNat s.buf.size ≤ s.buf.size)
    (hs : sb.startNat ≤ eb.endNat s.buf.size) :
    ∃ it, Iter.overRange sb eb s = (.ok it, s) ∧
      it.remaining = rangeSlots s.buf.start s.buf.cap sb.startNat (eb.endNat s.buf.size) := by
  have hW : s.buf.size < W := by have := h.size_le; have := h.cap_lt; omega
  have htr := translateRange_ok sb eb s hsb heb he hs hW
  by_cases hlt : sb.startNat < eb.endNat s.buf.size
  · obtain ⟨it0, hn, hr0⟩ := Iter.new_spec s h
    have hl0 : it0.remaining.length = s.buf.size := by rw [hr0, windowSlots_length]
    obtain ⟨it1, h1, hr1⟩ := Iter.advanceFrontBy_spec it0 sb.startNat s (by omega)
    have hl1 : it1.remaining.length = s.buf.size - sb.startNat := by rw [hr1]; simp [hl0]
    obtain ⟨it2, h2, hr2⟩ := Iter.advanceBackBy_spec it1 (s.buf.size - eb.endNat s.buf.size) s
      (by omega)
    refine ⟨it2, ?_, ?_⟩
    · have hnge : ¬ (eb.endNat s.buf.size ≤ sb.startNat) := by omega
      mrun [Iter.overRange, htr, hn, h1, h2, hnge]
    · rw [hr2, hl1, hr1, hr0]
      rw [← windowSlots_slice _ _ s.buf.size _ _ (by omega) he]
      congr 1; omega
  · have heq : sb.startNat = eb.endNat s.buf.size := by omega
    refine ⟨Iter.empty, ?_, ?_⟩
    · have hge : eb.endNat s.buf.size ≤ sb.startNat := by omega
      mrun [Iter.overRange, htr, hge]
    · simp [Iter.empty, Iter.remaining, View.empty, View.slots, rangeSlots, heq]

end CircBuf
