import CircBuf.Lemmas.ExtendSlice2
import CircBuf.Lemmas.Contents
set_option linter.unusedSimpArgs false
set_option linter.unusedVariables false
/-! Constructors and conversions: `new`, `From<[T; M]>`, `from_iter`, `clone`, `clone_from`, `to_vec`. -/
namespace CircBuf

theorem inv_new' (cap : Nat) (hc : cap < W) : Inv (CB.new cap) ∧ abs (CB.new cap) = [] := by
  refine ⟨⟨by simp [CB.new], ?_, hc, by intro i hi; simp [CB.new] at hi⟩, by simp [abs, CB.new]⟩
  by_cases h : cap = 0
  · right; simp [CB.new, h]
  · left; simp [CB.new]; omega

theorem dropElems_run (es : List Elem) (s : Sys) (hf : s.faults.drop = 0) :
    dropElems es s = (.ok (), { s with log := dropEvents s.kind es ++ s.log }) := by
  induction es generalizing s with
  | nil => simp [dropElems, dropEvents_nil]
  | cons e rest ih =>
    have h1 := dropElem_run s e hf
    have h2 := ih { s with log := dropEvents s.kind [e] ++ s.log } hf
    simp only [dropElems]
    rw [tryFinally_ok h1 h2]
    have : e :: rest = [e] ++ rest := rfl
    rw [this, dropEvents_append, List.append_assoc]

/-- `From<[T; M]>`: keeps the last `cap` elements (the very same elements), destroys the others once -/
theorem fromArray_spec (s : Sys) (arr : List Elem) (hW : s.buf.cap < W) (hf : s.faults.drop = 0) :
    ∃ b', fromArray arr s = (.ok (), { s with
        buf := b'
        log := dropEvents s.kind (arr.take (arr.length - s.buf.cap)) ++ s.log }) ∧
      Inv b' ∧ abs b' = Spec.lastN s.buf.cap arr ∧ b'.cap = s.buf.cap ∧ b'.start = 0 := by
  obtain ⟨sz, hsz⟩ : ∃ sz, sz = (if s.buf.cap ≥ arr.length then arr.length else s.buf.cap) := ⟨_, rfl⟩
  have hsz1 : sz ≤ arr.length := by rw [hsz]; split <;> omega
  have hsz2 : sz ≤ s.buf.cap := by rw [hsz]; split <;> omega
  have hskip : arr.length - sz = arr.length - s.buf.cap := by rw [hsz]; split <;> omega
  have hd := dropElems_run (arr.take (arr.length - sz))
    { s with buf := ⟨s.buf.cap, sz, 0, fun i => if i < sz then arr[arr.length - sz + i]? else none⟩ }
    (by simp only; exact hf)
  have hpt : ∀ i, (hi : i < (Spec.lastN s.buf.cap arr).length) →
      (fun i => if i < sz then arr[arr.length - sz + i]? else none) (phys 0 s.buf.cap i)
        = some (Spec.lastN s.buf.cap arr)[i] := by
    intro i hi
    simp only [Spec.lastN, List.length_drop] at hi
    have hi' : i < sz := by omega
    have hic : i < s.buf.cap := by omega
    have : phys 0 s.buf.cap i = i := by unfold phys; simp [Nat.mod_eq_of_lt hic]
    simp only [this, hi', if_true, Spec.lastN, List.getElem_drop, ← hskip]
    exact List.getElem?_eq_getElem _
  obtain ⟨hI, hA⟩ := inv_abs_of
    ⟨s.buf.cap, sz, 0, fun i => if i < sz then arr[arr.length - sz + i]? else none⟩
    (Spec.lastN s.buf.cap arr) hW (by simp [Spec.lastN]; omega) hsz2
    (by by_cases h0 : s.buf.cap = 0
        · right; exact ⟨h0, rfl⟩
        · left; simp only; omega) hpt
  refine ⟨_, ?_, hI, hA, rfl, rfl⟩
  simp only [← hskip]
  mrun [fromArray, ← hsz, onPanic, hd]

/-- `FromIterator`: like pushing the items one by one into a fresh buffer -/
theorem fromIter_runs (m : Nat) (s : Sys) (hW : s.buf.cap < W) (hd : s.faults.drop = 0)
    (hn : s.faults.next = 0) (hk : s.kind = .tracked) :
    ∃ s', fromIter m s = (.ok (), s') ∧ Inv s'.buf ∧ s'.buf.cap = s.buf.cap ∧
      abs s'.buf = Spec.lastN s.buf.cap (newElems s.next m) ∧ s'.next = s.next + m := by
  obtain ⟨hI0, hA0⟩ := inv_new' s.buf.cap hW
  obtain ⟨s', hrun, p⟩ := extendIter_runs m { s with buf := CB.new s.buf.cap } hI0 hd hn hk
  have hcap : (CB.new s.buf.cap).cap = s.buf.cap := rfl
  simp only [hA0, hcap] at p hrun
  refine ⟨s', ?_, p.inv, p.cap_eq, ?_, p.next_eq⟩
  · simp only [fromIter, bind_run, getBuf_run, setBuf_run, onPanic, hrun]
  · rw [p.abs_eq, pushMany_contents _ _ _ (by simp)]
    simp [Spec.extend]

/-- push clones of `l`, one at a time -/
theorem extendCloned_runs (l : List Elem) (s : Sys) (h : Inv s.buf) (hd : s.faults.drop = 0)
    (hc : s.faults.clone = 0) :
    ∃ evs, Runs (extendCloned l) s ()
      (Spec.pushMany s.buf.cap (abs s.buf) (cloneList s.kind s.next l)).1 evs
      (cloneCount s.kind l.length) := by
  induction l generalizing s with
  | nil =>
    exact ⟨[], s, rfl, ⟨h, by simp [cloneList, Spec.pushMany], rfl, rfl, by simp [cloneCount], rfl, rfl⟩⟩
  | cons e rest ih =>
    have h1 := cloneElem_run' s e hc
    obtain ⟨c, hcdef⟩ : ∃ c, c = (cloneList s.kind s.next [e])[0]'(by simp [cloneList_length]) := ⟨_, rfl⟩
    rw [← hcdef] at h1
    obtain ⟨s0, hs0⟩ : ∃ s0 : Sys, s0 = { s with
        next := s.next + cloneCount s.kind 1
        log := cloneLog s.kind s.next [e] ++ s.log } := ⟨_, rfl⟩
    rw [← hs0] at h1
    have e1 : extendCloned (e :: rest) s = ((pushBack c >>= dropOpt) >>= fun _ => extendCloned rest) s0 := by
      rw [bind_assoc_run]
      simp only [extendCloned, bind_run, h1]
    have hI0 : Inv s0.buf := by rw [hs0]; exact h
    have hb0 : s0.buf = s.buf := by rw [hs0]
    have hpd := pushDrop_runs s0 c hI0 (by rw [hs0]; exact hd)
    rw [hb0] at hpd
    have hcl : cloneList s.kind s.next (e :: rest) = c :: cloneList s.kind s0.next rest := by
      rw [hs0, hcdef]
      by_cases hk : s.kind = .tracked ∨ s.kind = .plain
      · simp [cloneList, hk, cloneCount]
      · simp [cloneList, hk, cloneCount]
    obtain ⟨s1, r1, p1⟩ := hpd
    obtain ⟨evs2, s2, r2, p2⟩ := ih s1 p1.inv (by rw [p1.faults_eq, hs0]; exact hd)
      (by rw [p1.faults_eq, hs0]; exact hc)
    refine ⟨evs2 ++ dropEvents s0.kind (Spec.pushBack s.buf.cap (abs s.buf) c).2.toList ++
      cloneLog s.kind s.next [e], s2, ?_, ⟨p2.inv, ?_, ?_, ?_, ?_, ?_, ?_⟩⟩
    · have r1' := r1
      simp only [bind_run] at r1'
      rw [e1]; simp only [bind_run, r1', r2]
    · rw [p2.abs_eq, hcl]
      simp only [Spec.pushMany]
      rw [p1.abs_eq, p1.cap_eq, hb0, p1.kind_eq, p1.next_eq]
      simp [hs0]
    · rw [p2.cap_eq, p1.cap_eq, hb0]
    · rw [p2.log_eq, p1.log_eq, hs0]; simp [List.append_assoc]
    · rw [p2.next_eq, p1.next_eq, p1.kind_eq, hs0]
      simp only [List.length_cons]
      have := cloneCount_add s.kind 1 rest.length
      rw [Nat.add_comm 1 rest.length] at this
      rw [this]; omega
    · rw [p2.faults_eq, p1.faults_eq, hs0]
    · rw [p2.kind_eq, p1.kind_eq, hs0]

/-- `clone_from(other)`: the old contents are destroyed, then clones of `other` are pushed -/
theorem cloneFrom_runs (other : List Elem) (s : Sys) (h : Inv s.buf) (hd : s.faults.drop = 0)
    (hc : s.faults.clone = 0) :
    ∃ evs, Runs (cloneFrom other) s () (Spec.lastN s.buf.cap (cloneList s.kind s.next other)) evs
      (cloneCount s.kind other.length) := by
  have h1 := (clear_spec s h hd).runs
  obtain ⟨s1, r1, p1⟩ := h1
  obtain ⟨evs2, s2, r2, p2⟩ := extendCloned_runs other s1 p1.inv (by rw [p1.faults_eq]; exact hd)
    (by rw [p1.faults_eq]; exact hc)
  refine ⟨evs2 ++ dropEvents s.kind (abs s.buf), s2, ?_, ⟨p2.inv, ?_, ?_, ?_, ?_, ?_, ?_⟩⟩
  · simp only [cloneFrom, bind_run, r1, r2]
  · rw [p2.abs_eq, p1.abs_eq, p1.cap_eq, p1.kind_eq, p1.next_eq, Nat.add_zero,
      pushMany_contents _ _ _ (by simp)]
    simp [Spec.extend]
  · rw [p2.cap_eq, p1.cap_eq]
  · rw [p2.log_eq, p1.log_eq]; simp [List.append_assoc]
  · rw [p2.next_eq, p1.next_eq, p1.kind_eq]; omega
  · rw [p2.faults_eq, p1.faults_eq]
  · rw [p2.kind_eq, p1.kind_eq]

/-- `Clone::clone`: a new buffer holding clones of the elements in order (fresh identities for
element types that have one); the source is not touched -/
theorem cloneBuf_spec (s : Sys) (h : Inv s.buf) (hd : s.faults.drop = 0) (hc : s.faults.clone = 0) :
    ∃ nb s', cloneBuf s = (.ok nb, s') ∧ s'.buf = s.buf ∧ Inv nb ∧ nb.cap = s.buf.cap ∧
      abs nb = cloneList s.kind s.next (abs s.buf) ∧
      s'.next = s.next + cloneCount s.kind (abs s.buf).length := by
  have hW := h.cap_lt
  have hlen := abs_length s.buf h
  obtain ⟨hI0, hA0⟩ := inv_new' s.buf.cap hW
  have hcont := contents_run s h
  simp only [contents, bind_run] at hcont
  obtain ⟨evs, s2, r2, p2⟩ := extendCloned_runs (abs s.buf) { s with buf := CB.new s.buf.cap } hI0 hd hc
  have hcap : (CB.new s.buf.cap).cap = s.buf.cap := rfl
  simp only [hA0, hcap] at r2 p2
  refine ⟨s2.buf, { s2 with buf := s.buf }, ?_, rfl, p2.inv, p2.cap_eq, ?_, ?_⟩
  · have hsl := iterSlots_run s h
    have hall : readAll (windowSlots s.buf.start s.buf.cap s.buf.size) s = (.ok (abs s.buf), s) := by
      have := contents_run s h
      simp only [contents, bind_run, hsl] at this
      exact this
    simp only [cloneBuf, bind_run, getBuf_run, hsl, hall, swapIn, attempt, onPanic, r2, pure_run]
  · rw [p2.abs_eq, pushMany_contents _ _ _ (by simp)]
    simp only [Spec.extend, Spec.lastN, List.nil_append]
    have : (cloneList s.kind s.next (abs s.buf)).length - s.buf.cap = 0 := by
      rw [cloneList_length, hlen]; have := h.size_le; omega
    rw [this, List.drop_zero]
  · exact p2.next_eq

end CircBuf
