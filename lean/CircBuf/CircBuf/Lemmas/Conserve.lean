import CircBuf.Lemmas.Loops
import CircBuf.Lemmas.Drain
set_option linter.unusedSimpArgs false
set_option linter.unusedVariables false
/-! Conservation of elements: every operation of the abstract deque only moves elements between
"in the buffer", "handed to the caller" and "destroyed"; nothing is duplicated, nothing is lost. -/
namespace CircBuf

open List

theorem Spec.pushBack_conserves (cap : Nat) (xs : List Elem) (x : Elem) :
    (xs ++ [x]).Perm ((Spec.pushBack cap xs x).1 ++ (Spec.pushBack cap xs x).2.toList) := by
  unfold Spec.pushBack
  by_cases hc : cap = 0
  · simp [hc]
  · by_cases hr : xs.length < cap
    · simp [hc, hr]
    · cases xs with
      | nil => simp [hc, hr]
      | cons h t =>
        simp only [hc, hr, if_false, List.tail_cons, List.head?_cons, Option.toList]
        simp only [List.cons_append]
        have : (h :: (t ++ [x])).Perm (t ++ [x] ++ [h]) := perm_append_comm (l₁ := [h]) (l₂ := t ++ [x])
        exact this

theorem Spec.pushFront_conserves (cap : Nat) (xs : List Elem) (x : Elem) :
    (x :: xs).Perm ((Spec.pushFront cap xs x).1 ++ (Spec.pushFront cap xs x).2.toList) := by
  unfold Spec.pushFront
  by_cases hc : cap = 0
  · simp [hc]
    exact (perm_append_comm (l₁ := [x]) (l₂ := xs))
  · by_cases hr : xs.length < cap
    · simp [hc, hr]
    · by_cases hne : xs = []
      · subst hne; simp [hc, hr]
      · have hl := List.dropLast_concat_getLast hne
        simp only [hc, hr, if_false]
        rw [List.getLast?_eq_some_getLast hne]
        simp only [Option.toList, List.cons_append]
        rw [hl]

theorem Spec.popBack_conserves (xs : List Elem) :
    xs.Perm ((Spec.popBack xs).1 ++ (Spec.popBack xs).2.toList) := by
  unfold Spec.popBack
  by_cases hne : xs = []
  · subst hne; simp
  · simp only [List.getLast?_eq_some_getLast hne, Option.toList]
    rw [List.dropLast_concat_getLast hne]

theorem Spec.popFront_conserves (xs : List Elem) :
    xs.Perm ((Spec.popFront xs).1 ++ (Spec.popFront xs).2.toList) := by
  unfold Spec.popFront
  cases xs with
  | nil => simp
  | cons h t => simp [perm_append_comm (l₁ := t) (l₂ := [h])] ; exact (perm_append_comm (l₁ := [h]) (l₂ := t))

theorem Spec.remove_conserves (xs : List Elem) (i : Nat) :
    xs.Perm ((Spec.remove xs i).1 ++ (Spec.remove xs i).2.toList) := by
  unfold Spec.remove
  by_cases hi : i < xs.length
  · rw [List.getElem?_eq_getElem hi]
    simp only [Option.toList]
    have := List.perm_cons_erase (List.getElem_mem hi)
    rw [List.eraseIdx_eq_take_drop_succ]
    have hsplit : xs = xs.take i ++ xs[i] :: xs.drop (i + 1) := by
      rw [List.getElem_cons_drop]; exact (List.take_append_drop i xs).symm
    conv => lhs; rw [hsplit]
    exact perm_middle.trans (perm_append_comm (l₁ := [xs[i]]) (l₂ := xs.take i ++ xs.drop (i + 1)))
  · have hle : xs.length ≤ i := by omega
    simp [List.getElem?_eq_none hle, List.eraseIdx_of_length_le hle]

theorem Spec.truncate_conserves (xs : List Elem) (n : Nat) :
    xs.Perm (Spec.truncateBack xs n ++ xs.drop n) := by
  simp [Spec.truncateBack]

theorem Spec.truncateFront_conserves (xs : List Elem) (n : Nat) :
    xs.Perm (Spec.truncateFront xs n ++ xs.take (xs.length - n)) := by
  unfold Spec.truncateFront Spec.lastN
  have h1 : xs = xs.take (xs.length - n) ++ xs.drop (xs.length - n) := (List.take_append_drop _ _).symm
  conv => lhs; rw [h1]
  exact perm_append_comm

theorem Spec.drain_conserves (xs : List Elem) (a b : Nat) (hab : a ≤ b) :
    xs.Perm ((Spec.drain xs a b).2 ++ (Spec.drain xs a b).1) := by
  unfold Spec.drain
  simp only
  have h1 : xs = xs.take a ++ ((xs.drop a).take (b - a) ++ xs.drop b) := by
    have : xs.drop b = (xs.drop a).drop (b - a) := by rw [List.drop_drop]; congr 1; omega
    rw [this, List.take_append_drop, List.take_append_drop]
  conv => lhs; rw [h1]
  rw [List.append_assoc]
  exact Perm.append_left _ perm_append_comm

theorem Spec.pushMany_conserves (cap : Nat) (xs ys : List Elem) :
    (xs ++ ys).Perm ((Spec.pushMany cap xs ys).1 ++ (Spec.pushMany cap xs ys).2) := by
  induction ys generalizing xs with
  | nil => simp [Spec.pushMany]
  | cons e rest ih =>
    simp only [Spec.pushMany]
    have h1 := Spec.pushBack_conserves cap xs e
    have h2 := ih (Spec.pushBack cap xs e).1
    have : (xs ++ e :: rest) = (xs ++ [e]) ++ rest := by simp
    rw [this]
    refine (Perm.append_right rest h1).trans ?_
    rw [List.append_assoc]
    refine (Perm.append_left _ perm_append_comm).trans ?_
    rw [← List.append_assoc]
    refine (Perm.append_right _ h2).trans ?_
    rw [List.append_assoc]
    exact Perm.append_left _ perm_append_comm

/-- the book-keeping consequence: if every element was created once and each is in exactly one of
the three places, then nothing is destroyed twice, nothing destroyed is still in the buffer or with
the caller, and the buffer holds no element twice -/
theorem conservation_consequences (created inBuf held dropped : List Nat) (hnd : created.Nodup)
    (hp : created.Perm (inBuf ++ held ++ dropped)) :
    dropped.Nodup ∧ inBuf.Nodup ∧ held.Nodup ∧ (∀ i ∈ dropped, i ∉ inBuf ∧ i ∉ held) ∧
      (∀ i ∈ inBuf, i ∉ held) := by
  have hnd' : (inBuf ++ held ++ dropped).Nodup := hp.nodup_iff.mp hnd
  rw [List.nodup_append] at hnd'
  obtain ⟨h1, h2, h3⟩ := hnd'
  rw [List.nodup_append] at h1
  obtain ⟨h4, h5, h6⟩ := h1
  refine ⟨h2, h4, h5, ?_, ?_⟩
  · intro i hi
    constructor
    · intro hb; exact h3 i (List.mem_append_left _ hb) i hi rfl
    · intro hh; exact h3 i (List.mem_append_right _ hh) i hi rfl
  · intro i hi hh; exact h6 i hi i hh rfl

end CircBuf
