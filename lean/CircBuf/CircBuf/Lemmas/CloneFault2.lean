import CircBuf.Lemmas.FillFault
set_option linter.unusedSimpArgs false
set_option linter.unusedVariables false
/-! A panicking `T::clone` inside `clone_from` and `Clone::clone`. -/
namespace CircBuf

/-- what a panicking `clone` leaves behind when clones of a list are pushed one by one -/
structure PushStop (s s' : Sys) (clones : List Elem) : Prop where
  inv : Inv s'.buf
  abs_eq : abs s'.buf = (Spec.pushMany s.buf.cap (abs s.buf) clones).1
  cap_eq : s'.buf.cap = s.buf.cap
  next_eq : s'.next = s.next + cloneCount s.kind clones.length
  drop_eq : s'.faults.drop = 0
  kind_eq : s'.kind = s.kind

/-- **the `k+1`-th `clone` panics while clones of `l` are pushed** (`extend(iter.cloned())`, the loop of
`clone` / `clone_from`): the buffer is valid and holds what pushing the `k` clones made gives -/
theorem extendCloned_clone_fault (l : List Elem) (s : Sys) (k : Nat) (h : Inv s.buf)
    (hd : s.faults.drop = 0) (hc : s.faults.clone = k + 1) (hk : k < l.length) :
    ∃ s', extendCloned l s = (.error (.user "clone"), s') ∧
      PushStop s s' (cloneList s.kind s.next (l.take k)) := by
  induction l generalizing s k with
  | nil => simp at hk
  | cons e rest ih =>
    cases k with
    | zero =>
      refine ⟨{ s with faults := { s.faults with clone := 0 } }, ?_,
        ⟨h, by simp [cloneList, Spec.pushMany], rfl, by simp [cloneList, cloneCount], hd, rfl⟩⟩
      simp only [extendCloned, bind_run, cloneElem_panics s e (by simpa using hc)]
    | succ k =>
      have h1 := cloneElem_counts s e k (by omega)
      obtain ⟨c, hcdef⟩ : ∃ c, c = (cloneList s.kind s.next [e])[0]'(by simp [cloneList_length]) := ⟨_, rfl⟩
      rw [← hcdef] at h1
      obtain ⟨s0, hs0⟩ : ∃ s0 : Sys, s0 = { s with
          next := s.next + cloneCount s.kind 1
          log := cloneLog s.kind s.next [e] ++ s.log
          faults := { s.faults with clone := k + 1 } } := ⟨_, rfl⟩
      rw [← hs0] at h1
      have e1 : extendCloned (e :: rest) s = ((pushBack c >>= dropOpt) >>= fun _ => extendCloned rest) s0 := by
        rw [bind_assoc_run]
        simp only [extendCloned, bind_run, h1]
      have hI0 : Inv s0.buf := by rw [hs0]; exact h
      have hb0 : s0.buf = s.buf := by rw [hs0]
      have hpd := pushDrop_runs s0 c hI0 (by rw [hs0]; exact hd)
      rw [hb0] at hpd
      have hcl : cloneList s.kind s.next ((e :: rest).take (k + 1)) = c :: cloneList s.kind s0.next (rest.take k) := by
        rw [hs0, hcdef]
        by_cases hkd : s.kind = .tracked ∨ s.kind = .plain
        · simp [cloneList, hkd, cloneCount]
        · simp [cloneList, hkd, cloneCount]
      obtain ⟨s1, r1, p1⟩ := hpd
      obtain ⟨s', r2, p2⟩ := ih s1 k p1.inv (by rw [p1.faults_eq, hs0]; exact hd)
        (by rw [p1.faults_eq, hs0]) (by simp at hk; omega)
      refine ⟨s', ?_, ⟨p2.inv, ?_, ?_, ?_, p2.drop_eq, ?_⟩⟩
      · have r1' := r1
        simp only [bind_run] at r1'
        rw [e1]; simp only [bind_run, r1', r2]
      · rw [p2.abs_eq, hcl]
        simp only [Spec.pushMany]
        rw [p1.abs_eq, p1.cap_eq, hb0, p1.kind_eq, p1.next_eq]
        simp [hs0]
      · rw [p2.cap_eq, p1.cap_eq, hb0]
      · rw [p2.next_eq, p1.next_eq, p1.kind_eq, hs0]
        simp only [cloneList_length, List.length_take, List.length_cons]
        have hmin : min (k + 1) (rest.length + 1) = min k rest.length + 1 := by omega
        rw [hmin]
        have := cloneCount_add s.kind 1 (min k rest.length)
        rw [Nat.add_comm 1 _] at this
        rw [this]; omega
      · rw [p2.kind_eq, p1.kind_eq, hs0]

/-- **`clone_from(other)` with a `clone` that panics at its `k+1`-th call**: the old contents were
destroyed (once each); the buffer is valid and holds the clones made so far (at most the last
`capacity` of them); the source slice is only read -/
theorem cloneFrom_clone_fault (other : List Elem) (s : Sys) (k : Nat) (h : Inv s.buf)
    (hd : s.faults.drop = 0) (hc : s.faults.clone = k + 1) (hk : k < other.length) :
    ∃ s', cloneFrom other s = (.error (.user "clone"), s') ∧ Inv s'.buf ∧ s'.buf.cap = s.buf.cap ∧
      abs s'.buf = Spec.lastN s.buf.cap (cloneList s.kind s.next (other.take k)) := by
  obtain ⟨s1, r1, p1⟩ := (clear_spec s h hd).runs
  obtain ⟨s2, r2, p2⟩ := extendCloned_clone_fault other s1 k p1.inv (by rw [p1.faults_eq]; exact hd)
    (by rw [p1.faults_eq]; exact hc) hk
  refine ⟨s2, ?_, p2.inv, by rw [p2.cap_eq, p1.cap_eq], ?_⟩
  · simp only [cloneFrom, bind_run, r1, r2]
  · rw [p2.abs_eq, p1.abs_eq, p1.cap_eq, p1.kind_eq, p1.next_eq, Nat.add_zero,
      pushMany_contents _ _ _ (by simp)]
    simp [Spec.extend]

/-- **`Clone::clone` with a `clone` that panics at its `k+1`-th call**: the panic propagates; the source
buffer is literally untouched; the partially built copy is dropped during unwinding, which destroys
each of the `k` clones made exactly once (the ledger's newest entries are exactly those) -/
theorem cloneBuf_clone_fault (s : Sys) (k : Nat) (h : Inv s.buf)
    (hd : s.faults.drop = 0) (hc : s.faults.clone = k + 1) (hk : k < s.buf.size) :
    ∃ s' pre, cloneBuf s = (.error (.user "clone"), s') ∧ s'.buf = s.buf ∧
      s'.log = dropEvents s.kind (cloneList s.kind s.next ((abs s.buf).take k)) ++ pre := by
  have hW := h.cap_lt
  have hlen := abs_length s.buf h
  have hsz := h.size_le
  obtain ⟨hI0, hA0⟩ := inv_new' s.buf.cap hW
  obtain ⟨s2, r2, p2⟩ := extendCloned_clone_fault (abs s.buf) { s with buf := CB.new s.buf.cap } k hI0 hd hc
    (by rw [hlen]; exact hk)
  have hcap : (CB.new s.buf.cap).cap = s.buf.cap := rfl
  simp only [hA0, hcap] at r2 p2
  obtain ⟨s3, r3, p3⟩ := (clear_spec s2 p2.inv p2.drop_eq).runs
  have habs2 : abs s2.buf = cloneList s.kind s.next ((abs s.buf).take k) := by
    have ha := p2.abs_eq
    simp only [hA0, hcap] at ha
    rw [ha, pushMany_contents _ _ _ (by simp)]
    simp only [Spec.extend, Spec.lastN, List.nil_append]
    have : (cloneList s.kind s.next ((abs s.buf).take k)).length - s.buf.cap = 0 := by
      rw [cloneList_length, List.length_take, hlen]; omega
    rw [this, List.drop_zero]
  refine ⟨{ s3 with buf := s.buf }, s2.log, ?_, rfl, ?_⟩
  · have hsl := iterSlots_run s h
    have hall : readAll (windowSlots s.buf.start s.buf.cap s.buf.size) s = (.ok (abs s.buf), s) := by
      have := contents_run s h
      simp only [contents, bind_run, hsl] at this
      exact this
    have hdb : dropBuffer s2 = (.ok (), s3) := r3
    simp only [cloneBuf, bind_run, getBuf_run, hsl, hall, swapIn, attempt, onPanic, r2, hdb, raise_run]
  · simp only [p3.log_eq, p2.kind_eq, habs2]

end CircBuf
