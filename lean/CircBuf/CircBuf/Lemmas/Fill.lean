import CircBuf.Lemmas.Ctor
set_option linter.unusedSimpArgs false
set_option linter.unusedVariables false
/-! `fill_spare(value)` and `fill(value)`: clones of the value, the value itself last. -/
namespace CircBuf

theorem cloneList_replicate_succ (k : Kind) (n j : Nat) (v : Elem) :
    cloneList k n (List.replicate (j + 1) v)
      = (cloneList k n [v]) ++ cloneList k (n + cloneCount k 1) (List.replicate j v) := by
  have : List.replicate (j + 1) v = [v] ++ List.replicate j v := by simp [List.replicate_succ]
  rw [this, cloneList_append]; simp

theorem fillSpareLoop_runs (fuel : Nat) (s : Sys) (value : Elem) (h : Inv s.buf) (hc0 : 0 < s.buf.cap)
    (hd : s.faults.drop = 0) (hc : s.faults.clone = 0) (hfuel : s.buf.cap - 1 - s.buf.size ≤ fuel) :
    ∃ evs, Runs (fillSpareLoop fuel value) s ()
      (abs s.buf ++ cloneList s.kind s.next (List.replicate (s.buf.cap - 1 - s.buf.size) value)) evs
      (cloneCount s.kind (s.buf.cap - 1 - s.buf.size)) := by
  induction fuel generalizing s with
  | zero =>
    have hz : s.buf.cap - 1 - s.buf.size = 0 := by omega
    refine ⟨[], s, ?_, ⟨h, by simp [hz, cloneList], rfl, rfl, by simp [hz, cloneCount], rfl, rfl⟩⟩
    have hnl : ¬ (s.buf.size < s.buf.cap - 1) := by omega
    mrun [fillSpareLoop, hnl]
  | succ fuel ih =>
    have hlen := abs_length s.buf h
    by_cases hlt : s.buf.size < s.buf.cap - 1
    · -- one more clone fits before the last slot
      obtain ⟨j, hj⟩ : ∃ j, s.buf.cap - 1 - s.buf.size = j + 1 := ⟨s.buf.cap - 1 - s.buf.size - 1, by omega⟩
      have h1 := cloneElem_run' s value hc
      obtain ⟨c, hcdef⟩ : ∃ c, c = (cloneList s.kind s.next [value])[0]'(by simp [cloneList_length]) := ⟨_, rfl⟩
      rw [← hcdef] at h1
      obtain ⟨s0, hs0⟩ : ∃ s0 : Sys, s0 = { s with
          next := s.next + cloneCount s.kind 1
          log := cloneLog s.kind s.next [value] ++ s.log } := ⟨_, rfl⟩
      rw [← hs0] at h1
      have e1 : fillSpareLoop (fuel + 1) value s =
          ((pushBack c >>= dropOpt) >>= fun _ => fillSpareLoop fuel value) s0 := by
        rw [bind_assoc_run]
        mrun [fillSpareLoop, hlt, h1]
      have hI0 : Inv s0.buf := by rw [hs0]; exact h
      have hb0 : s0.buf = s.buf := by rw [hs0]
      have hroom : s.buf.size < s.buf.cap := by omega
      have hcne : s.buf.cap ≠ 0 := by omega
      have hpb : Spec.pushBack s.buf.cap (abs s.buf) c = (abs s.buf ++ [c], none) := by
        simp [Spec.pushBack, hcne, hlen, hroom]
      obtain ⟨s1, r1, p1⟩ := pushDrop_runs s0 c hI0 (by rw [hs0]; exact hd)
      rw [hb0, hpb] at p1
      have hsz1 : s1.buf.size = s.buf.size + 1 := by
        have := abs_length s1.buf p1.inv
        rw [p1.abs_eq] at this; simp [hlen] at this; omega
      have hc1 : s1.buf.cap = s.buf.cap := by rw [p1.cap_eq, hb0]
      obtain ⟨evs2, s2, r2, p2⟩ := ih s1 p1.inv (by rw [hc1]; exact hc0)
        (by rw [p1.faults_eq, hs0]; exact hd) (by rw [p1.faults_eq, hs0]; exact hc)
        (by rw [hc1, hsz1]; omega)
      have hj1 : s1.buf.cap - 1 - s1.buf.size = j := by rw [hc1, hsz1]; omega
      rw [hj1] at p2
      have hcl : cloneList s.kind s.next [value] = [c] := by
        rw [hcdef]
        by_cases hk : s.kind = .tracked ∨ s.kind = .plain
        · simp [cloneList, hk]
        · simp [cloneList, hk]
      refine ⟨evs2 ++ dropEvents s0.kind (none : Option Elem).toList ++ cloneLog s.kind s.next [value],
        s2, ?_, ⟨p2.inv, ?_, ?_, ?_, ?_, ?_, ?_⟩⟩
      · have r1' := r1
        simp only [bind_run] at r1'
        rw [e1]; simp only [bind_run, r1', r2]
      · rw [p2.abs_eq, p1.abs_eq, hj, cloneList_replicate_succ, hcl, p1.kind_eq, p1.next_eq, hs0]
        simp [List.append_assoc]
      · rw [p2.cap_eq, hc1]
      · rw [p2.log_eq, p1.log_eq, hs0]; simp [List.append_assoc]
      · rw [p2.next_eq, p1.next_eq, p1.kind_eq, hs0, hj]
        simp only
        have := cloneCount_add s.kind 1 j
        rw [Nat.add_comm 1 j] at this
        rw [this]; omega
      · rw [p2.faults_eq, p1.faults_eq, hs0]
      · rw [p2.kind_eq, p1.kind_eq, hs0]
    · have hz : s.buf.cap - 1 - s.buf.size = 0 := by omega
      refine ⟨[], s, ?_, ⟨h, by simp [hz, cloneList], rfl, rfl, by simp [hz, cloneCount], rfl, rfl⟩⟩
      mrun [fillSpareLoop, hlt]

/-- `fill_spare(value)`: a full buffer is left alone (the value is destroyed); otherwise the free
space is filled with clones of the value and the value itself goes last -/
theorem fillSpare_runs (s : Sys) (value : Elem) (h : Inv s.buf) (hd : s.faults.drop = 0)
    (hc : s.faults.clone = 0) :
    ∃ evs, Runs (fillSpare value) s ()
      (if s.buf.size = s.buf.cap then abs s.buf
       else abs s.buf ++ cloneList s.kind s.next (List.replicate (s.buf.cap - 1 - s.buf.size) value) ++ [value])
      evs (if s.buf.size = s.buf.cap then 0 else cloneCount s.kind (s.buf.cap - 1 - s.buf.size)) := by
  have hsz := h.size_le
  have hlen := abs_length s.buf h
  by_cases hfull : s.buf.cap = 0 ∨ s.buf.size = s.buf.cap
  · have hf : s.buf.size = s.buf.cap := by omega
    simp only [hf, if_true]
    refine ⟨dropEvents s.kind [value], { s with log := dropEvents s.kind [value] ++ s.log }, ?_,
      ⟨h, rfl, rfl, rfl, rfl, rfl, rfl⟩⟩
    mrun [fillSpare, hfull, dropElem_run s value hd]
  · have hnf : ¬ s.buf.size = s.buf.cap := by omega
    have hc0 : 0 < s.buf.cap := by omega
    simp only [hnf, if_false]
    obtain ⟨evs1, s1, r1, p1⟩ := fillSpareLoop_runs (s.buf.cap - s.buf.size) s value h hc0 hd hc (by omega)
    have hl1 : (abs s1.buf).length = s.buf.cap - 1 := by
      rw [p1.abs_eq]; simp [hlen, cloneList_length]; omega
    have hsz1 : s1.buf.size = s.buf.cap - 1 := by rw [← abs_length s1.buf p1.inv, hl1]
    have hc1 : s1.buf.cap = s.buf.cap := p1.cap_eq
    have hpb : Spec.pushBack s1.buf.cap (abs s1.buf) value = (abs s1.buf ++ [value], none) := by
      have : (abs s1.buf).length < s1.buf.cap := by rw [hl1, hc1]; omega
      have hne : s1.buf.cap ≠ 0 := by omega
      simp [Spec.pushBack, hne, this]
    obtain ⟨s2, r2, p2⟩ := pushDrop_runs s1 value p1.inv (by rw [p1.faults_eq]; exact hd)
    rw [hpb] at p2
    refine ⟨dropEvents s1.kind (none : Option Elem).toList ++ evs1, s2, ?_,
      ⟨p2.inv, ?_, ?_, ?_, ?_, ?_, ?_⟩⟩
    · have r2' := r2
      simp only [bind_run] at r2'
      simp only [fillSpare, bind_run, getBuf_run, hfull, if_false, onPanic, r1]
      exact r2'
    · rw [p2.abs_eq, p1.abs_eq]
    · rw [p2.cap_eq, hc1]
    · rw [p2.log_eq, p1.log_eq]; simp [List.append_assoc]
    · rw [p2.next_eq, p1.next_eq]; omega
    · rw [p2.faults_eq, p1.faults_eq]
    · rw [p2.kind_eq, p1.kind_eq]

/-- `fill(value)`: the old contents are destroyed; the buffer is full of clones with the value last
(a zero-capacity buffer just destroys the value) -/
theorem fill_runs (s : Sys) (value : Elem) (h : Inv s.buf) (hd : s.faults.drop = 0)
    (hc : s.faults.clone = 0) :
    ∃ evs, Runs (fill value) s ()
      (if s.buf.cap = 0 then []
       else cloneList s.kind s.next (List.replicate (s.buf.cap - 1) value) ++ [value])
      evs (if s.buf.cap = 0 then 0 else cloneCount s.kind (s.buf.cap - 1)) := by
  obtain ⟨s1, r1, p1⟩ := (clear_spec s h hd).runs
  have hs0 : s1.buf.size = 0 := by
    have := abs_length s1.buf p1.inv
    rw [p1.abs_eq] at this; simp at this; omega
  obtain ⟨evs2, s2, r2, p2⟩ := fillSpare_runs s1 value p1.inv (by rw [p1.faults_eq]; exact hd)
    (by rw [p1.faults_eq]; exact hc)
  rw [p1.abs_eq, p1.cap_eq, hs0, p1.kind_eq, p1.next_eq] at p2
  refine ⟨evs2 ++ dropEvents s.kind (abs s.buf), s2, ?_, ⟨p2.inv, ?_, ?_, ?_, ?_, ?_, ?_⟩⟩
  · simp only [fill, bind_run, onPanic, r1, r2]
  · rw [p2.abs_eq]
    by_cases hc0 : s.buf.cap = 0
    · simp [hc0]
    · have : ¬ (0 = s.buf.cap) := fun e => hc0 e.symm
      simp [hc0, this]
  · rw [p2.cap_eq, p1.cap_eq]
  · rw [p2.log_eq, p1.log_eq]; simp [List.append_assoc]
  · rw [p2.next_eq, p1.next_eq]
    by_cases hc0 : s.buf.cap = 0
    · simp [hc0]
    · have : ¬ (0 = s.buf.cap) := fun e => hc0 e.symm
      simp [hc0, this]
  · rw [p2.faults_eq, p1.faults_eq]
  · rw [p2.kind_eq, p1.kind_eq]

end CircBuf
