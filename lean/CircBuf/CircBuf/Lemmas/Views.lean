import CircBuf.Lemmas.Ops
set_option linter.unusedSimpArgs false
set_option linter.unusedVariables false
/-! Views: `as_slices`, element access, and the physical slots of the window. -/
namespace CircBuf

/-- the slots of the window, front to back -/
def windowSlots (start cap size : Nat) : List Nat := (List.range size).map (phys start cap)

theorem windowSlots_length (start cap size : Nat) : (windowSlots start cap size).length = size := by
  simp [windowSlots]

/-- the window is one or two contiguous runs of slots -/
theorem windowSlots_eq (start cap size : Nat) (hst : start < cap) (hsz : size ≤ cap) :
    windowSlots start cap size =
      if start + size ≤ cap then List.range' start size
      else List.range' start (cap - start) ++ List.range' 0 (start + size - cap) := by
  unfold windowSlots
  split
  · next hle =>
    apply List.ext_getElem
    · simp
    · intro i h1 h2
      simp only [List.length_map, List.length_range] at h1
      simp only [List.getElem_map, List.getElem_range, List.getElem_range']
      rcases phys_cases start cap i hst (by omega) with ⟨a1, a2⟩ | ⟨a1, a2⟩
      · omega
      · omega
  · next hgt =>
    apply List.ext_getElem
    · simp; omega
    · intro i h1 h2
      simp only [List.length_map, List.length_range] at h1
      simp only [List.getElem_map, List.getElem_range]
      rcases phys_cases start cap i hst (by omega) with ⟨a1, a2⟩ | ⟨a1, a2⟩
      · rw [List.getElem_append_left (by simp; omega)]
        simp only [List.getElem_range']; omega
      · rw [List.getElem_append_right (by simp; omega)]
        simp only [List.getElem_range', List.length_range']; omega

/-- `as_slices`: the two views are exactly the window, front to back -/
theorem asSlicesOf_spec (b : CB) (h : Inv b) :
    ∃ f k, asSlicesOf b = .ok (f, k) ∧ f.slots ++ k.slots = windowSlots b.start b.cap b.size ∧
      (k.len ≠ 0 → f.len ≠ 0) := by
  have hsz := h.size_le
  have hW := h.cap_lt
  by_cases hz : b.cap = 0 ∨ b.size = 0
  · refine ⟨View.empty, View.empty, ?_, ?_, ?_⟩
    · simp [asSlicesOf, hz]
    · have : b.size = 0 := by omega
      simp [View.empty, View.slots, windowSlots, this]
    · simp [View.empty]
  have hcpos : 0 < b.cap := by omega
  have hst := h.start_lt' hcpos
  have ha := addMod_spec b.start b.size b.cap hcpos hW (by omega) hsz
  rw [windowSlots_eq _ _ _ hst hsz]
  rcases phys_cases b.start b.cap b.size hst hsz with ⟨a1, a2⟩ | ⟨a1, a2⟩
  · -- no wrap
    unfold phys at a2
    have hlt : b.start < b.start + b.size := by omega
    refine ⟨⟨b.start, b.size⟩, View.empty, ?_, ?_, ?_⟩
    · simp [asSlicesOf, hz, dassertE, hst, hsz, ha, a2, hlt, bind, Except.bind]
      omega
    · have : b.start + b.size ≤ b.cap := by omega
      simp [View.slots, View.empty, this]
    · simp [View.empty]
  · unfold phys at a2
    have hnlt : ¬ (b.start < b.start + b.size - b.cap) := by omega
    refine ⟨⟨b.start, b.cap - b.start⟩, ⟨0, b.start + b.size - b.cap⟩, ?_, ?_, ?_⟩
    · simp [asSlicesOf, hz, dassertE, hst, hsz, ha, a2, hnlt, bind, Except.bind]
      omega
    · by_cases he : b.start + b.size = b.cap
      · simp [View.slots, he]; omega
      · have : ¬ (b.start + b.size ≤ b.cap) := by omega
        simp [View.slots, this]
    · simp; omega

/-! ### element access (`get`, `front`, `back`, `nth_back`, indexing) -/

theorem get?_run (s : Sys) (i : Nat) (h : Inv s.buf) :
    get? i s = (.ok (if i < s.buf.size then some (phys s.buf.start s.buf.cap i) else none), s) := by
  have hget := abs_getElem s.buf h
  have hlen := abs_length s.buf h
  have hsz := h.size_le
  by_cases hz : s.buf.cap = 0 ∨ s.buf.size ≤ i
  · have : ¬ i < s.buf.size := by omega
    mrun [get?, hz, this]
  have hcpos : 0 < s.buf.cap := by omega
  have hst := h.start_lt' hcpos
  have hW := h.cap_lt
  have hi : i < s.buf.size := by omega
  have hp := phys_lt s.buf.start s.buf.cap i hcpos
  mrun [get?, hz, getSlot_run, readInit_run _ _ _ _ (hget i (by omega)), hi]

theorem front?_run (s : Sys) (h : Inv s.buf) :
    front? s = (.ok (if 0 < s.buf.size then some s.buf.start else none), s) := by
  have hget := abs_getElem s.buf h
  have hlen := abs_length s.buf h
  have hsz := h.size_le
  by_cases hz : s.buf.cap = 0 ∨ s.buf.size = 0
  · have : ¬ 0 < s.buf.size := by omega
    mrun [front?, hz, this]
  have hcpos : 0 < s.buf.cap := by omega
  have hst := h.start_lt' hcpos
  have h0 := hget 0 (by omega)
  rw [phys_zero _ _ hst] at h0
  have hpos : 0 < s.buf.size := by omega
  mrun [front?, hz, frontSlot_run, readInit_run _ _ _ _ h0, hpos]

theorem back?_run (s : Sys) (h : Inv s.buf) :
    back? s = (.ok (if 0 < s.buf.size then some (phys s.buf.start s.buf.cap (s.buf.size - 1))
      else none), s) := by
  have hget := abs_getElem s.buf h
  have hlen := abs_length s.buf h
  have hsz := h.size_le
  by_cases hz : s.buf.cap = 0 ∨ s.buf.size = 0
  · have : ¬ 0 < s.buf.size := by omega
    mrun [back?, hz, this]
  have hcpos : 0 < s.buf.cap := by omega
  have hst := h.start_lt' hcpos
  have hW := h.cap_lt
  have hpos : 0 < s.buf.size := by omega
  have hp := phys_lt s.buf.start s.buf.cap (s.buf.size - 1) hcpos
  mrun [back?, hz, backSlot_run, readInit_run _ _ _ _ (hget (s.buf.size - 1) (by omega)), hpos]

theorem nthBack?_run (s : Sys) (i : Nat) (h : Inv s.buf) :
    nthBack? i s = (.ok (if i < s.buf.size then some (phys s.buf.start s.buf.cap (s.buf.size - 1 - i))
      else none), s) := by
  by_cases hi : i < s.buf.size
  · have h1 : checkedSub s.buf.size i = some (s.buf.size - i) := by simp [checkedSub]; omega
    have h2 : checkedSub (s.buf.size - i) 1 = some (s.buf.size - i - 1) := by
      simp [checkedSub]; omega
    have h3 : s.buf.size - i - 1 < s.buf.size := by omega
    have h4 : s.buf.size - i - 1 = s.buf.size - 1 - i := by omega
    mrun [nthBack?, h1, h2, get?_run _ _ h, h3, hi, h4]
  · by_cases hi' : i = s.buf.size
    · have h1 : checkedSub s.buf.size i = some 0 := by simp [checkedSub, hi']
      have h2 : checkedSub 0 1 = none := by simp [checkedSub]
      mrun [nthBack?, h1, h2, hi]
    · have h1 : checkedSub s.buf.size i = none := by simp [checkedSub]; omega
      mrun [nthBack?, h1, hi]

theorem index_run (s : Sys) (i : Nat) (h : Inv s.buf) :
    index i s = if i < s.buf.size then (.ok (phys s.buf.start s.buf.cap i), s)
      else (.error (.doc "index"), s) := by
  by_cases hi : i < s.buf.size
  · mrun [index, get?_run _ _ h, hi]
  · mrun [index, get?_run _ _ h, hi]

end CircBuf
