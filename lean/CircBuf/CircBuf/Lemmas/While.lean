import CircBuf.Lemmas.TieTac
import CircBuf.Lemmas.Backfill
set_option linter.unusedSimpArgs false
set_option linter.unusedVariables false
set_option maxHeartbeats 1000000
/-!
The back-fill loop of `Drop for Drain` as an instance of the generic fuelled loop `whileFuel`, and the
congruence of `whileFuel` in its step function under an invariant of the loop state: two step functions
that agree on the states satisfying an invariant the second one preserves give the same loop.  This is
what ties the translated loop (`Gen.Drain_drop_step`, one iteration of the Rust body) to the model's
`backfillLoop` for every amount of fuel.
-/
namespace CircBuf

theorem backfillLoop_eq_while (fuel : Nat) : ∀ (hole backfill : CSP) (rem : Nat),
    backfillLoop fuel hole backfill rem =
      whileFuel (fun x : CSP × CSP × Nat => decide (x.2.2 > 0)) backfillStep fuel (backfill, hole, rem) := by
  induction fuel with
  | zero =>
    intro hole backfill rem
    funext s
    simp only [backfillLoop, whileFuel, decide_eq_true_eq]
  | succ n ih =>
    intro hole backfill rem
    funext s
    simp only [backfillLoop, whileFuel, decide_eq_true_eq, ih, backfillStep]
    by_cases hr : rem > 0
    · simp only [hr, if_true, ite_true]
      tie [CSP.availableLen, CSP.ptr, CSP.add]
    · simp only [hr, if_false, ite_false]

/-- congruence of the fuelled loop in its step function, under an invariant -/
theorem whileFuel_congr {σ : Type} (c : σ → Bool) (f g : σ → M σ) (I : σ → Prop)
    (hstep : ∀ x s, I x → c x = true → f x s = g x s)
    (hpres : ∀ x s x' s', I x → c x = true → g x s = (.ok x', s') → I x') :
    ∀ (fuel : Nat) (x : σ) (s : Sys), I x → whileFuel c f fuel x s = whileFuel c g fuel x s := by
  intro fuel
  induction fuel with
  | zero => intro x s _; simp only [whileFuel]
  | succ n ih =>
    intro x s hI
    simp only [whileFuel]
    by_cases hc : c x = true
    · simp only [hc, if_true, ite_true, bind_run, hstep x s hI hc]
      cases hg : g x s with
      | mk r s' => cases r with
        | error p => rfl
        | ok x' => exact ih x' s' (hpres x s x' s' hI hc hg)
    · simp only [hc, if_false, ite_false]; rfl

/-- the invariant of the loop state: both circular pointers are well formed -/
def LoopOK (x : CSP × CSP × Nat) : Prop :=
  x.1.offset < x.1.sliceLen ∧ x.1.sliceLen < W ∧ x.2.1.offset < x.2.1.sliceLen ∧ x.2.1.sliceLen < W

/-- the number of elements one iteration moves -/
def backfillChunk (x : CSP × CSP × Nat) : Nat :=
  min (min (x.2.1.sliceLen - x.2.1.offset) (x.1.sliceLen - x.1.offset)) x.2.2

/-- one iteration, evaluated on a well-formed loop state -/
theorem backfillStep_run (x : CSP × CSP × Nat) (s : Sys) (hI : LoopOK x) :
    backfillStep x s =
      (.ok (⟨x.1.sliceLen, phys x.1.offset x.1.sliceLen (backfillChunk x)⟩,
            ⟨x.2.1.sliceLen, phys x.2.1.offset x.2.1.sliceLen (backfillChunk x)⟩,
            x.2.2 - backfillChunk x),
        { s with buf := { s.buf with items := copy s.buf.items x.1.offset x.2.1.offset (backfillChunk x) } }) := by
  obtain ⟨h1, h2, h3, h4⟩ := hI
  unfold backfillChunk
  simp only [backfillStep, bind_run, CSP.availableLen_run _ _ h1, CSP.availableLen_run _ _ h3,
    CSP.ptr_run _ _ h1, CSP.ptr_run _ _ h3, getBuf_run, setItems, setBuf_run, pure_run]
  rw [CSP.add_run _ _ _ h3 (by omega) h4]
  simp only []
  rw [CSP.add_run _ _ _ h1 (by omega) h2]
  simp only [liftE_run, usub]
  rw [if_pos (by omega)]

theorem backfillStep_pres (x : CSP × CSP × Nat) (s : Sys) (x' : CSP × CSP × Nat) (s' : Sys)
    (hI : LoopOK x) (h : backfillStep x s = (.ok x', s')) : LoopOK x' := by
  rw [backfillStep_run x s hI] at h
  obtain ⟨h1, h2, h3, h4⟩ := hI
  simp only [Prod.mk.injEq, Except.ok.injEq] at h
  obtain ⟨hx, _⟩ := h
  subst hx
  exact ⟨phys_lt _ _ _ (by omega), h2, phys_lt _ _ _ (by omega), h4⟩

/-! ### destructors do not touch the buffer (they append to the ledger and count faults) -/
theorem dropElem_buf (e : Elem) (s : Sys) : (dropElem e s).2.buf = s.buf := by
  unfold dropElem
  split
  · rfl
  · dsimp only; split <;> rfl

theorem tryFinally_buf {α : Type} (a : M α) (f : M Unit) (ha : ∀ s, (a s).2.buf = s.buf)
    (hf : ∀ s, (f s).2.buf = s.buf) (s : Sys) : (tryFinally a f s).2.buf = s.buf := by
  have h1 := ha s
  cases hx : a s with
  | mk r s1 =>
    rw [hx] at h1
    have h2 := hf s1
    cases hy : f s1 with
    | mk r2 s2 =>
      rw [hy] at h2
      have h3 : s2.buf = s.buf := by
        simp only at h1 h2
        rw [h2, h1]
      cases r <;> cases r2 <;> simp only [tryFinally, hx, hy] <;> exact h3

theorem dropInPlace_buf (sl : List Nat) : ∀ s, (dropInPlace sl s).2.buf = s.buf := by
  induction sl with
  | nil => intro s; rfl
  | cons i rest ih =>
    intro s
    simp only [dropInPlace, bind_run]
    cases hr : readInit i s with
    | mk r s1 =>
      have hs1 : s1 = s := by
        have : (readInit i s).2 = s := by
          rw [readInit_run']
          split
          · split <;> rfl
          · rfl
        rw [hr] at this; exact this
      subst hs1
      cases r with
      | error p => rfl
      | ok e => exact tryFinally_buf _ _ (dropElem_buf e) ih s1


end CircBuf
