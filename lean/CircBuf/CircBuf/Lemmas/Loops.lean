import CircBuf.Lemmas.Truncate
import CircBuf.Lemmas.Swap
set_option linter.unusedSimpArgs false
set_option linter.unusedVariables false
/-! Operations that call user code in a loop (no panics here): `extend`, `from_iter`, the `fill`
family, `clone_from`.  `Post` is the general post-condition shape: invariant, abstract contents,
capacity, ledger, id counter; faults and element kind untouched. -/
namespace CircBuf

structure Post (s s' : Sys) (xs' : List Elem) (evs : List Event) (k : Nat) : Prop where
  inv : Inv s'.buf
  abs_eq : abs s'.buf = xs'
  cap_eq : s'.buf.cap = s.buf.cap
  log_eq : s'.log = evs ++ s.log
  next_eq : s'.next = s.next + k
  faults_eq : s'.faults = s.faults
  kind_eq : s'.kind = s.kind

/-- `op` run in `s` returns `r`; the post-state satisfies `Post` -/
def Runs (op : M α) (s : Sys) (r : α) (xs' : List Elem) (evs : List Event) (k : Nat) : Prop :=
  ∃ s', op s = (.ok r, s') ∧ Post s s' xs' evs k

theorem Refines.runs {op : M α} {s : Sys} {r : α} {xs' : List Elem} (h : Refines op s r xs') :
    Runs op s r xs' [] 0 := by
  obtain ⟨b', h1, h2, h3, h4⟩ := h
  exact ⟨_, h1, ⟨h2, h3, h4, rfl, rfl, rfl, rfl⟩⟩

theorem RefinesL.runs {op : M α} {s : Sys} {r : α} {xs' : List Elem} {evs : List Event}
    (h : RefinesL op s r xs' evs) : Runs op s r xs' evs 0 := by
  obtain ⟨b', h1, h2, h3, h4⟩ := h
  exact ⟨_, h1, ⟨h2, h3, h4, rfl, rfl, rfl, rfl⟩⟩

/-- sequencing -/
theorem Runs.bind {op1 : M α} {f : α → M β} {s : Sys} {r1 : α} {r2 : β} {xs1 xs2 : List Elem}
    {e1 e2 : List Event} {k1 k2 : Nat}
    (h1 : Runs op1 s r1 xs1 e1 k1)
    (h2 : ∀ s1, Post s s1 xs1 e1 k1 → Runs (f r1) s1 r2 xs2 e2 k2) :
    Runs (op1 >>= f) s r2 xs2 (e2 ++ e1) (k1 + k2) := by
  obtain ⟨s1, r1', p1⟩ := h1
  obtain ⟨s2, r2', p2⟩ := h2 s1 p1
  refine ⟨s2, by simp only [bind_run, r1', r2'], ?_⟩
  exact ⟨p2.inv, p2.abs_eq, p2.cap_eq.trans p1.cap_eq,
    by rw [p2.log_eq, p1.log_eq, List.append_assoc],
    by rw [p2.next_eq, p1.next_eq, Nat.add_assoc],
    p2.faults_eq.trans p1.faults_eq, p2.kind_eq.trans p1.kind_eq⟩

theorem Runs.congr {op op' : M α} {s : Sys} {r : α} {xs : List Elem} {e : List Event} {k : Nat}
    (h : op s = op' s) (h' : Runs op' s r xs e k) : Runs op s r xs e k := by
  obtain ⟨s', h1, h2⟩ := h'
  exact ⟨s', h ▸ h1, h2⟩

theorem Runs.cast {op : M α} {s : Sys} {r : α} {xs xs' : List Elem} {e e' : List Event} {k k' : Nat}
    (h : Runs op s r xs e k) (hx : xs = xs') (he : e = e') (hk : k = k') : Runs op s r xs' e' k' := by
  subst hx he hk; exact h

theorem bind_assoc_run {α β γ : Type} (x : M α) (f : α → M β) (g : β → M γ) (s : Sys) :
    ((x >>= f) >>= g) s = (x >>= fun a => f a >>= g) s := by
  simp only [bind_run]
  cases x s with
  | mk r s' => cases r <;> rfl

/-! ### user code without faults -/

theorem produce_next_run (s : Sys) (hf : s.faults.next = 0) (hk : s.kind = .tracked) :
    produceElem "next" s =
      (.ok ⟨s.next, s.next⟩, { s with next := s.next + 1, log := .given s.next :: s.log }) := by
  obtain ⟨b, l, n, f, k⟩ := s
  obtain ⟨d, c, ca, nx, eq⟩ := f
  simp only at hf hk; subst hf hk
  simp [produceElem, tick]

theorem produce_call_run (s : Sys) (hf : s.faults.call = 0) (hk : s.kind = .tracked) :
    produceElem "call" s =
      (.ok ⟨s.next, s.next⟩, { s with next := s.next + 1, log := .given s.next :: s.log }) := by
  obtain ⟨b, l, n, f, k⟩ := s
  obtain ⟨d, c, ca, nx, eq⟩ := f
  simp only at hf hk; subst hf hk
  simp [produceElem, tick]

theorem cloneElem_run (s : Sys) (e : Elem) (hf : s.faults.clone = 0) (hk : s.kind = .tracked) :
    cloneElem e s =
      (.ok ⟨s.next, e.val⟩, { s with next := s.next + 1, log := .cloned s.next e.id :: s.log }) := by
  obtain ⟨b, l, n, f, k⟩ := s
  obtain ⟨d, c, ca, nx, eq⟩ := f
  simp only at hf hk; subst hf hk
  simp [cloneElem, tick]

theorem cloneElem_run_byte (s : Sys) (e : Elem) (hf : s.faults.clone = 0) (hk : s.kind = .byte) :
    cloneElem e s = (.ok e, s) := by
  obtain ⟨b, l, n, f, k⟩ := s
  obtain ⟨d, c, ca, nx, eq⟩ := f
  simp only at hf hk; subst hf hk
  simp [cloneElem, tick]

theorem dropOpt_runs (s : Sys) (o : Option Elem) (h : Inv s.buf) (hf : s.faults.drop = 0) :
    Runs (dropOpt o) s () (abs s.buf) (dropEvents s.kind o.toList) 0 := by
  cases o with
  | none => exact ⟨s, rfl, ⟨h, rfl, rfl, by simp [dropEvents_nil], rfl, rfl, rfl⟩⟩
  | some e =>
    refine ⟨_, dropElem_run s e hf, ⟨h, rfl, rfl, rfl, rfl, rfl, rfl⟩⟩

/-- `self.push_back(x);` as a statement: the displaced element (if any) is destroyed -/
theorem pushDrop_runs (s : Sys) (x : Elem) (h : Inv s.buf) (hf : s.faults.drop = 0) :
    Runs (pushBack x >>= dropOpt) s () (Spec.pushBack s.buf.cap (abs s.buf) x).1
      (dropEvents s.kind (Spec.pushBack s.buf.cap (abs s.buf) x).2.toList) 0 := by
  have h1 := (pushBack_spec s x h).runs
  have := Runs.bind h1 (f := dropOpt) (r2 := ()) (xs2 := (Spec.pushBack s.buf.cap (abs s.buf) x).1)
    (e2 := dropEvents s.kind (Spec.pushBack s.buf.cap (abs s.buf) x).2.toList) (k2 := 0) (by
      intro s1 p1
      have hd := dropOpt_runs s1 (Spec.pushBack s.buf.cap (abs s.buf) x).2 p1.inv
        (by rw [p1.faults_eq]; exact hf)
      rw [p1.abs_eq, p1.kind_eq] at hd
      exact hd)
  exact this.cast rfl (by simp) rfl

/-! ### abstract description of a run of pushes -/

/-- pushing `ys` one by one: final contents and the displaced elements in order -/
def Spec.pushMany (cap : Nat) : List Elem → List Elem → List Elem × List Elem
  | xs, [] => (xs, [])
  | xs, e :: rest =>
    let r := Spec.pushMany cap (Spec.pushBack cap xs e).1 rest
    (r.1, (Spec.pushBack cap xs e).2.toList ++ r.2)

/-- the elements an iterator / closure of the harness produces: fresh ids, value = id -/
def newElems (n m : Nat) : List Elem := (List.range' n m).map fun i => ⟨i, i⟩

theorem newElems_succ (n m : Nat) : newElems n (m + 1) = ⟨n, n⟩ :: newElems (n + 1) m := by
  simp [newElems, List.range'_succ]

/-- ledger of `extend` (newest first): each element is handed in, then the one it displaced is
destroyed -/
def extendLog (k : Kind) (cap : Nat) : List Elem → List Elem → List Event
  | _, [] => []
  | xs, e :: rest =>
    extendLog k cap (Spec.pushBack cap xs e).1 rest ++
      (dropEvents k (Spec.pushBack cap xs e).2.toList ++ [Event.given e.id])

theorem extendIter_runs (m : Nat) (s : Sys) (h : Inv s.buf) (hd : s.faults.drop = 0)
    (hn : s.faults.next = 0) (hk : s.kind = .tracked) :
    Runs (extendIter m) s () (Spec.pushMany s.buf.cap (abs s.buf) (newElems s.next m)).1
      (extendLog s.kind s.buf.cap (abs s.buf) (newElems s.next m)) m := by
  induction m generalizing s with
  | zero =>
    refine ⟨s, ?_, ⟨h, by simp [newElems, Spec.pushMany], rfl, by simp [newElems, extendLog], rfl,
      rfl, rfl⟩⟩
    obtain ⟨b, l, n, f, k⟩ := s
    obtain ⟨d, c, ca, nx, eq⟩ := f
    simp only at hn; subst hn
    simp [extendIter, tick]
  | succ m ih =>
    rw [newElems_succ]
    simp only [Spec.pushMany, extendLog]
    have e : extendIter (m + 1) s =
        ((pushBack ⟨s.next, s.next⟩ >>= dropOpt) >>= fun _ => extendIter m)
          { s with next := s.next + 1, log := .given s.next :: s.log } := by
      rw [bind_assoc_run]
      simp only [extendIter, bind_run, produce_next_run s hn hk]
    obtain ⟨s2, r2, p2⟩ := Runs.bind (f := fun _ => extendIter m) (r2 := ())
      (pushDrop_runs { s with next := s.next + 1, log := .given s.next :: s.log } ⟨s.next, s.next⟩
        h hd)
      (xs2 := (Spec.pushMany s.buf.cap (Spec.pushBack s.buf.cap (abs s.buf) ⟨s.next, s.next⟩).1
        (newElems (s.next + 1) m)).1)
      (e2 := extendLog s.kind s.buf.cap (Spec.pushBack s.buf.cap (abs s.buf) ⟨s.next, s.next⟩).1
        (newElems (s.next + 1) m)) (k2 := m) (by
        intro s1 p1
        have := ih s1 p1.inv (by rw [p1.faults_eq]; exact hd) (by rw [p1.faults_eq]; exact hn)
          (by rw [p1.kind_eq]; exact hk)
        rw [p1.abs_eq, p1.cap_eq, p1.kind_eq, p1.next_eq] at this
        exact this)
    refine ⟨s2, e ▸ r2, ⟨p2.inv, p2.abs_eq, p2.cap_eq, ?_, ?_, p2.faults_eq, p2.kind_eq⟩⟩
    · rw [p2.log_eq]; simp [List.append_assoc]
    · rw [p2.next_eq]; simp only; omega

/-! ### closed forms of `pushMany` -/

theorem pushMany_cap0 (xs ys : List Elem) : Spec.pushMany 0 xs ys = (xs, ys) := by
  induction ys generalizing xs with
  | nil => rfl
  | cons e rest ih => simp [Spec.pushMany, Spec.pushBack, ih]

theorem lastN_length (n : Nat) (xs : List α) : (Spec.lastN n xs).length = min n xs.length := by
  simp [Spec.lastN]; omega

theorem pushMany_spec (cap : Nat) (hc : 0 < cap) (xs ys : List Elem) (hx : xs.length ≤ cap) :
    Spec.pushMany cap xs ys =
      (Spec.lastN cap (xs ++ ys), (xs ++ ys).take ((xs ++ ys).length - cap)) := by
  induction ys generalizing xs with
  | nil =>
    have : xs.length - cap = 0 := by omega
    simp [Spec.pushMany, Spec.lastN, this]
  | cons e rest ih =>
    have hc0 : cap ≠ 0 := by omega
    by_cases hr : xs.length < cap
    · have hpb : Spec.pushBack cap xs e = (xs ++ [e], none) := by simp [Spec.pushBack, hc0, hr]
      simp only [Spec.pushMany, hpb, Option.toList, List.nil_append]
      rw [ih (xs ++ [e]) (by simp; omega)]
      simp [List.append_assoc]
    · have hfull : xs.length = cap := by omega
      obtain ⟨h, t, rfl⟩ : ∃ h t, xs = h :: t := by
        cases xs with
        | nil => simp at hfull; omega
        | cons h t => exact ⟨h, t, rfl⟩
      have hpb : Spec.pushBack cap (h :: t) e = (t ++ [e], some h) := by
        unfold Spec.pushBack
        simp only [hc0, if_false, hr, List.tail_cons, List.head?_cons]
      have hfull' : t.length + 1 = cap := by simpa using hfull
      simp only [Spec.pushMany, hpb, Option.toList]
      rw [ih (t ++ [e]) (by simp; omega)]
      simp only [Spec.lastN, List.nil_append, List.append_assoc, List.singleton_append,
        List.cons_append]
      have e1 : (t ++ e :: rest).length - cap = rest.length := by simp; omega
      have e2 : (h :: (t ++ e :: rest)).length - cap = rest.length + 1 := by simp; omega
      simp only [e1, e2, List.drop_succ_cons, List.take_succ_cons]

theorem pushMany_contents (cap : Nat) (xs ys : List Elem) (hx : xs.length ≤ cap) :
    (Spec.pushMany cap xs ys).1 = Spec.extend cap xs ys := by
  by_cases hc : cap = 0
  · subst hc
    have : xs = [] := List.eq_nil_of_length_eq_zero (by omega)
    subst this
    simp [pushMany_cap0, Spec.extend, Spec.lastN]
  · rw [pushMany_spec cap (by omega) xs ys hx]; rfl

/-! ### fill family -/

theorem fillSpareWithLoop_runs (fuel : Nat) (s : Sys) (h : Inv s.buf) (hd : s.faults.drop = 0)
    (hc : s.faults.call = 0) (hk : s.kind = .tracked) (hfuel : fuel = s.buf.cap - s.buf.size) :
    Runs (fillSpareWithLoop fuel) s () (abs s.buf ++ newElems s.next fuel)
      ((newElems s.next fuel).reverse.map fun e => Event.given e.id) fuel := by
  induction fuel generalizing s with
  | zero =>
    refine ⟨s, ?_, ⟨h, by simp [newElems], rfl, by simp [newElems], rfl, rfl, rfl⟩⟩
    have := h.size_le
    mrun [fillSpareWithLoop]
  | succ fuel ih =>
    have hlen := abs_length s.buf h
    have hsz := h.size_le
    have hroom : s.buf.size < s.buf.cap := by omega
    have hcne : s.buf.cap ≠ 0 := by omega
    rw [newElems_succ]
    have e : fillSpareWithLoop (fuel + 1) s =
        ((pushBack ⟨s.next, s.next⟩ >>= dropOpt) >>= fun _ => fillSpareWithLoop fuel)
          { s with next := s.next + 1, log := .given s.next :: s.log } := by
      rw [bind_assoc_run]
      mrun [fillSpareWithLoop, produce_call_run s hc hk]
    have hpb : Spec.pushBack s.buf.cap (abs s.buf) ⟨s.next, s.next⟩
        = (abs s.buf ++ [⟨s.next, s.next⟩], none) := by
      simp [Spec.pushBack, hcne, hlen, hroom]
    have hpd := pushDrop_runs { s with next := s.next + 1, log := .given s.next :: s.log }
      ⟨s.next, s.next⟩ h hd
    simp only [hpb, Option.toList, dropEvents_nil] at hpd
    obtain ⟨s2, r2, p2⟩ := Runs.bind (f := fun _ => fillSpareWithLoop fuel) (r2 := ()) hpd
      (xs2 := (abs s.buf ++ [⟨s.next, s.next⟩]) ++ newElems (s.next + 1) fuel)
      (e2 := (newElems (s.next + 1) fuel).reverse.map fun e => Event.given e.id) (k2 := fuel) (by
        intro s1 p1
        have hsz1 : s1.buf.size = s.buf.size + 1 := by
          have := abs_length s1.buf p1.inv
          rw [p1.abs_eq] at this; simp [hlen] at this; omega
        have := ih s1 p1.inv (by rw [p1.faults_eq]; exact hd) (by rw [p1.faults_eq]; exact hc)
          (by rw [p1.kind_eq]; exact hk) (by rw [p1.cap_eq, hsz1]; simp only; omega)
        rw [p1.abs_eq, p1.next_eq] at this
        exact this)
    refine ⟨s2, e ▸ r2, ⟨p2.inv, ?_, p2.cap_eq, ?_, ?_, p2.faults_eq, p2.kind_eq⟩⟩
    · rw [p2.abs_eq]; simp [List.append_assoc]
    · rw [p2.log_eq]; simp [List.append_assoc]
    · rw [p2.next_eq]; simp only; omega

theorem fillSpareWith_runs (s : Sys) (h : Inv s.buf) (hd : s.faults.drop = 0)
    (hc : s.faults.call = 0) (hk : s.kind = .tracked) :
    Runs fillSpareWith s () (abs s.buf ++ newElems s.next (s.buf.cap - s.buf.size))
      ((newElems s.next (s.buf.cap - s.buf.size)).reverse.map fun e => Event.given e.id)
      (s.buf.cap - s.buf.size) := by
  by_cases hc0 : s.buf.cap = 0
  · have : s.buf.cap - s.buf.size = 0 := by omega
    rw [this]
    refine ⟨s, ?_, ⟨h, by simp [newElems], rfl, by simp [newElems], rfl, rfl, rfl⟩⟩
    mrun [fillSpareWith, hc0]
  · have e : fillSpareWith s = fillSpareWithLoop (s.buf.cap - s.buf.size) s := by
      mrun [fillSpareWith, hc0]
    exact Runs.congr e (fillSpareWithLoop_runs _ s h hd hc hk rfl)

theorem fillWith_runs (s : Sys) (h : Inv s.buf) (hd : s.faults.drop = 0)
    (hc : s.faults.call = 0) (hk : s.kind = .tracked) :
    Runs fillWith s () (newElems s.next s.buf.cap)
      (((newElems s.next s.buf.cap).reverse.map fun e => Event.given e.id) ++
        dropEvents s.kind (abs s.buf)) s.buf.cap := by
  have h1 := (clear_spec s h hd).runs
  have := Runs.bind (f := fun _ => fillSpareWith) (r2 := ()) h1
    (xs2 := newElems s.next s.buf.cap)
    (e2 := (newElems s.next s.buf.cap).reverse.map fun e => Event.given e.id) (k2 := s.buf.cap) (by
      intro s1 p1
      have hs0 : s1.buf.size = 0 := by
        have := abs_length s1.buf p1.inv
        rw [p1.abs_eq] at this; simp at this; omega
      have := fillSpareWith_runs s1 p1.inv (by rw [p1.faults_eq]; exact hd)
        (by rw [p1.faults_eq]; exact hc) (by rw [p1.kind_eq]; exact hk)
      rw [p1.abs_eq, p1.next_eq, p1.cap_eq, hs0] at this
      simpa using this)
  exact this.cast rfl rfl (by omega)

end CircBuf
