import CircBuf.Lemmas.ExtendSlice2
import CircBuf.Lemmas.Drain
import CircBuf.Lemmas.Contents
set_option linter.unusedSimpArgs false
set_option linter.unusedVariables false
/-! Byte-stream I/O on `CircularBuffer<N, u8>` (`std::io`, `embedded-io`, `embedded-io-async`). -/
namespace CircBuf

theorem cloneList_byte (n : Nat) (l : List Elem) : cloneList .byte n l = l := by
  induction l generalizing n with
  | nil => rfl
  | cons e rest ih => simp [cloneList, ih]

theorem cloneCount_byte (n : Nat) : cloneCount .byte n = 0 := by simp [cloneCount]

theorem lastN_append_drop (cap : Nat) (xs ys : List α) :
    Spec.lastN cap (xs ++ ys.drop (ys.length - cap)) = Spec.lastN cap (xs ++ ys) := by
  unfold Spec.lastN
  by_cases h : ys.length ≤ cap
  · have : ys.length - cap = 0 := by omega
    simp [this]
  · have hd : (ys.drop (ys.length - cap)).length = cap := by simp; omega
    have e1 : (xs ++ ys.drop (ys.length - cap)).length - cap = xs.length := by simp [hd]
    have e2 : (xs ++ ys).length - cap = xs.length + (ys.length - cap) := by simp; omega
    rw [e1, e2, List.drop_left, List.drop_append]
    simp

/-- `Write::write`: accepts everything, reports the full length, keeps the newest `cap` bytes -/
theorem ioWrite_spec (s : Sys) (src : List Elem) (h : Inv s.buf) (hk : s.kind = .byte)
    (hd : s.faults.drop = 0) (hcl : s.faults.clone = 0) :
    ∃ evs, Runs (ioWrite src) s src.length (Spec.lastN s.buf.cap (abs s.buf ++ src)) evs 0 := by
  obtain ⟨evs, s', hrun, p⟩ := extendFromSlice_runs s src h hd hcl
  refine ⟨evs, s', ?_, ⟨p.inv, ?_, p.cap_eq, p.log_eq, ?_, p.faults_eq, p.kind_eq⟩⟩
  · simp only [ioWrite, bind_run, hrun, pure_run]
  · rw [p.abs_eq, hk, cloneList_byte, Spec.extend, lastN_append_drop]
  · rw [p.next_eq, hk, cloneCount_byte]

theorem viewElems_append (b : CB) (h : Inv b) (f k : View)
    (hs : f.slots ++ k.slots = windowSlots b.start b.cap b.size) :
    viewElems b f ++ viewElems b k = abs b := by
  unfold viewElems
  rw [← List.filterMap_append, hs]
  by_cases hc : b.cap = 0
  · have : b.size = 0 := by have := h.size_le; omega
    simp [windowSlots, abs, this]
  · have hst := h.start_lt' (by omega)
    have := filterMap_window b h 0 b.size (by omega)
    rw [phys_zero _ _ hst] at this
    rw [this]; simp
    apply List.take_of_length_le; rw [abs_length _ h]; exact Nat.le_refl _

theorem viewElems_length (b : CB) (h : Inv b) (v : View)
    (hall : ∀ i ∈ v.slots, (b.items i).isSome = true) : (viewElems b v).length = v.len := by
  unfold viewElems
  have : ∀ l : List Nat, (∀ i ∈ l, (b.items i).isSome = true) → (l.filterMap b.items).length = l.length := by
    intro l
    induction l with
    | nil => simp
    | cons i rest ih =>
      intro hl
      obtain ⟨e, he⟩ := Option.isSome_iff_exists.mp (hl i (by simp))
      simp [List.filterMap_cons, he, ih (fun j hj => hl j (by simp [hj]))]
  rw [this _ hall]; simp [View.slots]

theorem take_two (F B : List α) (k : Nat) :
    F.take (min k F.length) ++ B.take (min (k - min k F.length) B.length)
      = (F ++ B).take (min k (F ++ B).length) := by
  by_cases h : k ≤ F.length
  · have e1 : min k F.length = k := by omega
    have e2 : min k (F ++ B).length = k := by simp; omega
    rw [e1, e2, Nat.sub_self]
    simp [List.take_append_of_le_length h]
  · have e1 : min k F.length = F.length := by omega
    have e2 : F.take F.length = F := List.take_length
    rw [e1, e2, List.take_append]
    have e3 : F.take (min k (F ++ B).length) = F := List.take_of_length_le (by simp; omega)
    rw [e3]
    congr 2
    simp only [List.length_append]; omega

/-- `Read::read` into a destination of `k` bytes: copies `min k len` bytes from the front, in order,
and removes exactly those -/
theorem ioRead_spec (s : Sys) (k : Nat) (h : Inv s.buf) (hd : s.faults.drop = 0) :
    ∃ evs, Runs (ioRead k) s (min k (abs s.buf).length, (abs s.buf).take (min k (abs s.buf).length))
      ((abs s.buf).drop (min k (abs s.buf).length)) evs 0 := by
  have hlen := abs_length s.buf h
  have hsz := h.size_le
  have hW := h.cap_lt
  obtain ⟨f, b, hsl, hslots, _⟩ := asSlicesOf_spec s.buf h
  have hall : ∀ i ∈ f.slots ++ b.slots, (s.buf.items i).isSome = true := by
    intro i hi
    rw [hslots] at hi
    by_cases hc : s.buf.cap = 0
    · have : s.buf.size = 0 := by omega
      simp [windowSlots, this] at hi
    · have hst := h.start_lt' (by omega)
      have := windowSlots_live s.buf h 0 s.buf.size (by omega) i
      rw [phys_zero _ _ hst] at this
      exact this hi
  have hfl := viewElems_length s.buf h f (fun i hi => hall i (List.mem_append_left _ hi))
  have hbl := viewElems_length s.buf h b (fun i hi => hall i (List.mem_append_right _ hi))
  have happ := viewElems_append s.buf h f b hslots
  have htot : f.len + b.len = s.buf.size := by
    have := congrArg List.length happ
    simp [hfl, hbl, hlen] at this; exact this
  have hcount : min k f.len + min (k - min k f.len) b.len = min k s.buf.size := by omega
  have htake := take_two (viewElems s.buf f) (viewElems s.buf b) k
  rw [hfl, hbl, happ, hlen] at htake
  have e : ioRead k s = (truncateFront (s.buf.size - min k s.buf.size) >>= fun _ =>
      pure (min k s.buf.size, (abs s.buf).take (min k s.buf.size))) s := by
    have hsum : min k f.len + min (k - min k f.len) b.len < W := by omega
    mrun [ioRead, asSlices, hsl, hcount, htake]
  rw [hlen]
  have h1 := (truncateFront_spec s (s.buf.size - min k s.buf.size) h hd).runs
  refine ⟨_, Runs.congr e ((Runs.bind h1 (f := fun _ => pure (min k s.buf.size, (abs s.buf).take (min k s.buf.size)))
    (r2 := (min k s.buf.size, (abs s.buf).take (min k s.buf.size)))
    (xs2 := (abs s.buf).drop (min k s.buf.size)) (e2 := []) (k2 := 0) (by
      intro s1 p1
      refine ⟨s1, rfl, ⟨p1.inv, ?_, rfl, rfl, rfl, rfl, rfl⟩⟩
      rw [p1.abs_eq, Spec.lastN, hlen]
      congr 1; omega)).cast rfl rfl rfl)⟩

/-- `BufRead::fill_buf`: a prefix of the contents, non-empty whenever the buffer is non-empty -/
theorem ioFillBuf_spec (s : Sys) (h : Inv s.buf) :
    ∃ v, ioFillBuf s = (.ok v, s) ∧ (∃ rest, viewElems s.buf v ++ rest = abs s.buf) ∧
      (abs s.buf ≠ [] → viewElems s.buf v ≠ []) := by
  obtain ⟨f, b, hsl, hslots, hfb⟩ := asSlicesOf_spec s.buf h
  have happ := viewElems_append s.buf h f b hslots
  have hlen := abs_length s.buf h
  by_cases hf : f.len = 0
  · have hb0 : b.len = 0 := by
      by_cases hb : b.len = 0
      · exact hb
      · exact absurd hf (hfb hb)
    refine ⟨b, by mrun [ioFillBuf, asSlices, hsl, hf, ne_eq, not_true_eq_false], ⟨[], ?_⟩, ?_⟩
    · have : viewElems s.buf f = [] := by simp [viewElems, View.slots, hf]
      rw [this] at happ; simpa using happ
    · intro hne
      have e1 : viewElems s.buf f = [] := by simp [viewElems, View.slots, hf]
      have e2 : viewElems s.buf b = [] := by simp [viewElems, View.slots, hb0]
      rw [e1, e2] at happ; exact absurd happ.symm hne
  · refine ⟨f, by mrun [ioFillBuf, asSlices, hsl, hf, ne_eq, not_false_eq_true], ⟨_, happ⟩, ?_⟩
    intro _ hnil
    have hall : ∀ i ∈ f.slots, (s.buf.items i).isSome = true := by
      intro i hi
      have hi' : i ∈ windowSlots s.buf.start s.buf.cap s.buf.size := by
        rw [← hslots]; exact List.mem_append_left _ hi
      by_cases hc : s.buf.cap = 0
      · have : s.buf.size = 0 := by have := h.size_le; omega
        simp [windowSlots, this] at hi'
      · have hst := h.start_lt' (by omega)
        have := windowSlots_live s.buf h 0 s.buf.size (by omega) i
        rw [phys_zero _ _ hst] at this
        exact this hi'
    have := viewElems_length s.buf h f hall
    rw [hnil] at this; simp at this; omega

/-- `BufRead::consume(k)`: removes the first `min k len` bytes; never fails, any capacity -/
theorem ioConsume_spec (s : Sys) (k : Nat) (h : Inv s.buf) (hd : s.faults.drop = 0) :
    ∃ b' evs, ioConsume k s = (.ok (), { s with buf := b', log := evs ++ s.log }) ∧ Inv b' ∧
      abs b' = (abs s.buf).drop (min k (abs s.buf).length) ∧ b'.cap = s.buf.cap := by
  have hlen := abs_length s.buf h
  have hsz := h.size_le
  have hW := h.cap_lt
  have hamt : min k s.buf.size < W := by omega
  obtain ⟨hnew, hinv⟩ := Drain.new_spec .unb (.excl (min k s.buf.size)) s h
    (by simp [Bound.val, W_pos]) (by simp only [Bound.val]; exact hamt)
    (by simp only [Bound.endNat]; omega) (by simp [Bound.startNat])
  simp only [Bound.startNat, Bound.endNat] at hnew hinv
  obtain ⟨b', hdrop, hI, hA, hC, _⟩ := Drain.drop_spec s.buf _ _ hinv (by simp only; exact hd)
  refine ⟨b', dropEvents s.kind (((abs s.buf).drop 0).take (min k s.buf.size - 0)), ?_, hI, ?_, hC⟩
  · simp only [ioConsume, bind_run, getBuf_run, hnew, hdrop]
  · rw [hA, hlen]; simp

end CircBuf
