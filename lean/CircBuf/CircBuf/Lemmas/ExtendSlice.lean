import CircBuf.Lemmas.Loops
import CircBuf.Lemmas.Backfill
set_option linter.unusedSimpArgs false
set_option linter.unusedVariables false
/-! `extend_from_slice` (no panics here): clone into the one or two free segments. -/
namespace CircBuf

/-- write a list into consecutive cells starting at `off` -/
def writeList (f : Nat → Cell) (off : Nat) (l : List Elem) (q : Nat) : Cell :=
  if off ≤ q ∧ q < off + l.length then (l[q - off]?) else f q

/-- the clones `T::clone` makes of `src`, given the id counter (`tracked`/`plain`: fresh ids,
same values; other kinds: the value itself) -/
def cloneList (k : Kind) (next : Nat) : List Elem → List Elem
  | [] => []
  | e :: rest =>
    if k = .tracked ∨ k = .plain then ⟨next, e.val⟩ :: cloneList k (next + 1) rest
    else e :: cloneList k next rest

def cloneLog (k : Kind) (next : Nat) : List Elem → List Event
  | [] => []
  | e :: rest =>
    if k = .tracked ∨ k = .plain then cloneLog k (next + 1) rest ++ [Event.cloned next e.id]
    else cloneLog k next rest

def cloneCount (k : Kind) (n : Nat) : Nat := if k = .tracked ∨ k = .plain then n else 0

theorem cloneList_length (k : Kind) (next : Nat) (l : List Elem) :
    (cloneList k next l).length = l.length := by
  induction l generalizing next with
  | nil => rfl
  | cons e rest ih => simp only [cloneList]; split <;> simp [ih]

theorem cloneElem_run' (s : Sys) (e : Elem) (hf : s.faults.clone = 0) :
    cloneElem e s = (.ok ((cloneList s.kind s.next [e])[0]'(by simp [cloneList_length])),
      { s with next := s.next + cloneCount s.kind 1, log := cloneLog s.kind s.next [e] ++ s.log }) := by
  obtain ⟨b, l, n, f, k⟩ := s
  obtain ⟨d, c, ca, nx, eq⟩ := f
  simp only at hf; subst hf
  by_cases hk : k = .tracked ∨ k = .plain
  · simp [cloneElem, tick, hk, cloneList, cloneLog, cloneCount]
  · simp [cloneElem, tick, hk, cloneList, cloneLog, cloneCount]

theorem writeList_nil (f : Nat → Cell) (off : Nat) : writeList f off [] = f := by
  funext q; simp [writeList]; omega

theorem writeList_cons (f : Nat → Cell) (off : Nat) (x : Elem) (rest : List Elem) :
    writeList (setCell f off (some x)) (off + 1) rest = writeList f off (x :: rest) := by
  funext q
  simp only [writeList, setCell, List.length_cons]
  by_cases h1 : q = off
  · subst h1
    have : ¬ (q + 1 ≤ q) := by omega
    simp [this]
  · by_cases h2 : off + 1 ≤ q ∧ q < off + 1 + rest.length
    · have h3 : off ≤ q ∧ q < off + (rest.length + 1) := by omega
      have h4 : q - off = (q - (off + 1)) + 1 := by omega
      simp [h2, h3, h4]
    · have h3 : ¬ (off ≤ q ∧ q < off + (rest.length + 1)) := by omega
      simp [h1, h2, h3]

/-- `write_uninit_slice_cloned` without a panicking clone -/
theorem writeClonedLoop_run (dst : View) (src : List Elem) (i : Nat) (s : Sys)
    (hf : s.faults.clone = 0) (hfit : i + src.length ≤ dst.len) (hb : dst.off + dst.len ≤ s.buf.cap) :
    writeClonedLoop dst i src s = (.ok (), { s with
      buf := { s.buf with items := writeList s.buf.items (dst.off + i) (cloneList s.kind s.next src) }
      next := s.next + cloneCount s.kind src.length
      log := cloneLog s.kind s.next src ++ s.log }) := by
  induction src generalizing i s with
  | nil =>
    simp only [writeClonedLoop, pure_run, cloneList, cloneLog, cloneCount, List.nil_append,
      writeList_nil, List.length_nil]
    split <;> rfl
  | cons e rest ih =>
    simp only [List.length_cons] at hfit
    have hi : i < dst.len := by omega
    have hcell : dst.off + i < s.buf.cap := by omega
    have h1 := cloneElem_run' s e hf
    simp only [writeClonedLoop, bind_run, onPanic, h1, hi, if_true, pure_run]
    rw [writeCell_run _ _ _ (by simp only; exact hcell)]
    simp only
    rw [ih (i + 1) _ (by simp only; exact hf) (by omega) (by simp only; exact hb)]
    have ea : dst.off + (i + 1) = dst.off + i + 1 := by omega
    by_cases hk : s.kind = .tracked ∨ s.kind = .plain
    · simp only [cloneList, cloneLog, cloneCount, hk, if_true, List.length_cons, ea,
        List.getElem_cons_zero, writeList_cons, List.append_assoc, List.singleton_append,
        List.nil_append]
      congr 2; omega
    · simp only [cloneList, cloneLog, cloneCount, hk, if_false, List.length_cons, Nat.add_zero,
        List.nil_append, ea, List.getElem_cons_zero, writeList_cons]

theorem writeCloned_run (dst : View) (src : List Elem) (s : Sys)
    (hf : s.faults.clone = 0) (hlen : dst.len = src.length) (hb : dst.off + dst.len ≤ s.buf.cap) :
    writeCloned dst src s = (.ok (), { s with
      buf := { s.buf with items := writeList s.buf.items dst.off (cloneList s.kind s.next src) }
      next := s.next + cloneCount s.kind src.length
      log := cloneLog s.kind s.next src ++ s.log }) := by
  have := writeClonedLoop_run dst src 0 s hf (by omega) hb
  simp only [Nat.add_zero] at this
  mrun [writeCloned, this]

/-- length of the free segment that starts right behind the back element -/
def firstFree (b : CB) : Nat :=
  if phys b.start b.cap b.size < b.start then b.start - phys b.start b.cap b.size
  else b.cap - phys b.start b.cap b.size

theorem slicesUninitMut_run (s : Sys) (h : Inv s.buf) (hc : 0 < s.buf.cap) :
    ∃ l2, slicesUninitMut s =
      (.ok (⟨phys s.buf.start s.buf.cap s.buf.size, firstFree s.buf⟩, ⟨0, l2⟩), s) ∧
      phys s.buf.start s.buf.cap s.buf.size + firstFree s.buf ≤ s.buf.cap := by
  have hsz := h.size_le
  have hW := h.cap_lt
  have hst := h.start_lt' hc
  have hne : s.buf.cap ≠ 0 := by omega
  have hp := phys_lt s.buf.start s.buf.cap s.buf.size hc
  unfold firstFree
  by_cases hlt : phys s.buf.start s.buf.cap s.buf.size < s.buf.start
  · refine ⟨0, ?_, by simp only [hlt, if_true]; omega⟩
    mrun [slicesUninitMut, hne, hlt, View.empty]
  · refine ⟨s.buf.start, ?_, by simp only [hlt, if_false]; omega⟩
    mrun [slicesUninitMut, hne, hlt]

/-- appending `L` in the first free segment: the pointwise description -/
theorem append_segment (b : CB) (h : Inv b) (L : List Elem) (hc : 0 < b.cap)
    (hfit1 : L.length ≤ firstFree b) (hfit2 : b.size + L.length ≤ b.cap) :
    Inv ⟨b.cap, b.size + L.length, b.start, writeList b.items (phys b.start b.cap b.size) L⟩ ∧
    abs ⟨b.cap, b.size + L.length, b.start, writeList b.items (phys b.start b.cap b.size) L⟩
      = abs b ++ L := by
  have hlen := abs_length b h
  have hget := abs_getElem b h
  have hst := h.start_lt' hc
  have hp := phys_lt b.start b.cap b.size hc
  have hend : phys b.start b.cap b.size + firstFree b ≤ b.cap := by
    unfold firstFree; split <;> omega
  apply inv_abs_of ⟨b.cap, b.size + L.length, b.start, writeList b.items (phys b.start b.cap b.size) L⟩ _
    h.cap_lt (by simp [hlen]) hfit2 (Or.inl hst)
  intro i hi
  simp only [List.length_append, hlen] at hi
  simp only
  by_cases hlo : i < b.size
  · -- an old element: its cell is not in the written run
    rw [List.getElem_append_left (by omega)]
    rw [← hget i (by omega)]
    unfold writeList
    rw [if_neg]
    intro ⟨h1, h2⟩
    have hlog : phys b.start b.cap i = phys b.start b.cap (b.size + (phys b.start b.cap i - phys b.start b.cap b.size)) := by
      rw [phys_add_of_lt _ _ _ _ (by omega)]; omega
    have := phys_inj _ _ _ _ hst (by omega) (by omega) hlog
    omega
  · rw [List.getElem_append_right (by omega)]
    have hj : i = b.size + (i - b.size) := by omega
    have hd : phys b.start b.cap i = phys b.start b.cap b.size + (i - b.size) := by
      rw [hj, phys_add_of_lt _ _ _ _ (by omega)]; congr 1; omega
    unfold writeList
    rw [if_pos (by omega), hd]
    simp only [Nat.add_sub_cancel_left, hlen]
    exact List.getElem?_eq_getElem _

theorem cloneList_append (k : Kind) (n : Nat) (a b : List Elem) :
    cloneList k n (a ++ b) = cloneList k n a ++ cloneList k (n + cloneCount k a.length) b := by
  induction a generalizing n with
  | nil => simp [cloneList, cloneCount]
  | cons e rest ih =>
    by_cases hk : k = .tracked ∨ k = .plain
    · simp only [List.cons_append, cloneList, hk, if_true, ih, cloneCount, List.length_cons]
      congr 3; omega
    · simp only [List.cons_append, cloneList, hk, if_false, ih, cloneCount, List.length_cons]

theorem cloneLog_append (k : Kind) (n : Nat) (a b : List Elem) :
    cloneLog k n (a ++ b) = cloneLog k (n + cloneCount k a.length) b ++ cloneLog k n a := by
  induction a generalizing n with
  | nil => simp [cloneLog, cloneCount]
  | cons e rest ih =>
    by_cases hk : k = .tracked ∨ k = .plain
    · simp only [List.cons_append, cloneLog, hk, if_true, ih, cloneCount, List.length_cons,
        List.append_assoc]
      congr 2; omega
    · simp only [List.cons_append, cloneLog, hk, if_false, ih, cloneCount, List.length_cons]

theorem cloneCount_add (k : Kind) (a b : Nat) :
    cloneCount k (a + b) = cloneCount k a + cloneCount k b := by
  unfold cloneCount; split <;> simp

/-- once the first free segment is full, the second one has room for the rest -/
theorem firstFree_after (b : CB) (h : Inv b) (hc : 0 < b.cap) (m : Nat)
    (hfit : b.size + m ≤ b.cap) (hm : firstFree b < m) (items' : Nat → Cell) :
    m - firstFree b ≤ firstFree ⟨b.cap, b.size + firstFree b, b.start, items'⟩ := by
  have hst := h.start_lt' hc
  have hsz := h.size_le
  unfold firstFree at hm ⊢
  simp only
  rcases phys_cases b.start b.cap b.size hst hsz with ⟨a1, a2⟩ | ⟨a1, a2⟩
  · -- the contents do not reach the array end
    have hnlt : ¬ (phys b.start b.cap b.size < b.start) := by omega
    simp only [hnlt, if_false] at hm ⊢
    rw [a2] at hm ⊢
    have e : b.size + (b.cap - (b.start + b.size)) = b.cap - b.start := by omega
    rw [e]
    have e2 : phys b.start b.cap (b.cap - b.start) = 0 := by
      unfold phys
      have : b.start + (b.cap - b.start) = b.cap := by omega
      rw [this, Nat.mod_self]
    rw [e2]
    split <;> omega
  · by_cases hlt : phys b.start b.cap b.size < b.start
    · simp only [hlt, if_true] at hm; omega
    · simp only [hlt, if_false] at hm; omega

theorem cloneIntoFree_runs (s : Sys) (other : List Elem) (h : Inv s.buf) (hc : 0 < s.buf.cap)
    (hf : s.faults.clone = 0) (hfit : s.buf.size + other.length ≤ s.buf.cap) :
    Runs (cloneIntoFree other) s () (abs s.buf ++ cloneList s.kind s.next other)
      (cloneLog s.kind s.next other) (cloneCount s.kind other.length) := by
  have hW := h.cap_lt
  obtain ⟨l2, hsl, hend⟩ := slicesUninitMut_run s h hc
  -- phase 1
  obtain ⟨wl, hwl⟩ : ∃ wl, wl = min (firstFree s.buf) other.length := ⟨_, rfl⟩
  have hwl1 : wl ≤ firstFree s.buf := by omega
  have hwl2 : wl ≤ other.length := by omega
  have htk : (other.take wl).length = wl := by simp; omega
  have hw1 := writeCloned_run ⟨phys s.buf.start s.buf.cap s.buf.size, wl⟩ (other.take wl) s hf
    (by simp only [htk]) (by simp only; omega)
  obtain ⟨hI1, hA1⟩ := append_segment s.buf h (cloneList s.kind s.next (other.take wl)) hc
    (by rw [cloneList_length, htk]; exact hwl1) (by rw [cloneList_length, htk]; omega)
  rw [cloneList_length, htk] at hI1 hA1
  obtain ⟨s1, hs1⟩ : ∃ s1 : Sys, s1 = { s with
      buf := ⟨s.buf.cap, s.buf.size + wl, s.buf.start,
        writeList s.buf.items (phys s.buf.start s.buf.cap s.buf.size)
          (cloneList s.kind s.next (other.take wl))⟩
      next := s.next + cloneCount s.kind wl
      log := cloneLog s.kind s.next (other.take wl) ++ s.log } := ⟨_, rfl⟩
  by_cases hrest : (other.drop wl).length = 0
  · -- everything fitted into the first segment
    have hall : other.take wl = other := by
      apply List.take_of_length_le; simp at hrest; omega
    refine ⟨s1, ?_, ⟨by rw [hs1]; exact hI1, ?_, by rw [hs1], ?_, ?_, by rw [hs1], by rw [hs1]⟩⟩
    · mrun [cloneIntoFree, hsl, ← hwl, hw1, setSize_run, hrest, ne_eq, not_true_eq_false]
      simp only [htk, hs1]
    · rw [hs1]; simp only; rw [hA1, hall]
    · rw [hs1]; simp only [hall]
    · rw [hs1]; simp only; rw [← htk, hall]
  · -- the free space wraps: continue at the start of the array
    have hwlff : wl = firstFree s.buf := by
      simp at hrest; omega
    have hm : firstFree s.buf < other.length := by simp at hrest; omega
    have hI1' : Inv s1.buf := by rw [hs1]; exact hI1
    have hc1 : 0 < s1.buf.cap := by rw [hs1]; exact hc
    obtain ⟨l3, hsl2, hend2⟩ := slicesUninitMut_run s1 hI1' hc1
    have hroom : (other.drop wl).length ≤ firstFree s1.buf := by
      have := firstFree_after s.buf h hc other.length hfit hm
        (writeList s.buf.items (phys s.buf.start s.buf.cap s.buf.size)
          (cloneList s.kind s.next (other.take wl)))
      rw [hs1, hwlff]; simp only [List.length_drop]; exact this
    have hw2 := writeCloned_run ⟨phys s1.buf.start s1.buf.cap s1.buf.size, (other.drop wl).length⟩
      (other.drop wl) s1 (by rw [hs1]; exact hf) rfl (by simp only; omega)
    have hfit2 : s1.buf.size + (other.drop wl).length ≤ s1.buf.cap := by
      rw [hs1]; simp only [List.length_drop]; omega
    obtain ⟨hI2, hA2⟩ := append_segment s1.buf hI1' (cloneList s1.kind s1.next (other.drop wl)) hc1
      (by rw [cloneList_length]; exact hroom) (by rw [cloneList_length]; exact hfit2)
    rw [cloneList_length] at hI2 hA2
    have hsplit : other = other.take wl ++ other.drop wl := (List.take_append_drop wl other).symm
    obtain ⟨s2, hs2⟩ : ∃ s2 : Sys, s2 = { s1 with
        buf := ⟨s1.buf.cap, s1.buf.size + (other.drop wl).length, s1.buf.start,
          writeList s1.buf.items (phys s1.buf.start s1.buf.cap s1.buf.size)
            (cloneList s1.kind s1.next (other.drop wl))⟩
        next := s1.next + cloneCount s1.kind (other.drop wl).length
        log := cloneLog s1.kind s1.next (other.drop wl) ++ s1.log } := ⟨_, rfl⟩
    refine ⟨s2, ?_, ⟨by rw [hs2]; exact hI2, ?_, by rw [hs2, hs1], ?_, ?_, by rw [hs2, hs1],
      by rw [hs2, hs1]⟩⟩
    · have hge : (other.drop wl).length ≤ firstFree s1.buf := hroom
      have hW1 : s1.buf.cap < W := by rw [hs1]; exact hW
      mrun [cloneIntoFree, hsl, ← hwl, hw1, setSize_run, hrest, ne_eq, not_false_eq_true]
      simp only [htk, ← hs1]
      mrun [hsl2, hw2, setSize_run, hge]
      simp only [hs2]
    · rw [hs2]; simp only; rw [hA2, hs1]; simp only
      rw [hA1, List.append_assoc]
      congr 1
      conv => rhs; rw [hsplit]
      rw [cloneList_append, htk]
    · rw [hs2, hs1]; simp only
      conv => rhs; rw [hsplit]
      rw [cloneLog_append, htk, List.append_assoc]
    · rw [hs2, hs1]; simp only
      have : other.length = wl + (other.drop wl).length := by simp; omega
      rw [this, cloneCount_add]; simp only [List.length_drop]; omega

end CircBuf
