import CircBuf.Lemmas.DropRange
import CircBuf.Lemmas.Iter
set_option linter.unusedSimpArgs false
set_option linter.unusedVariables false
/-! Reading the whole contents (`iter().cloned()`, `Debug`, `Hash`, `to_vec`), writing through a
mutable reference, and the list-level double-ended consumption lemma. -/
namespace CircBuf

theorem readAll_run (sl : List Nat) (s : Sys)
    (hsl : ∀ i ∈ sl, i < s.buf.cap ∧ (s.buf.items i).isSome = true) :
    readAll sl s = (.ok (sl.filterMap s.buf.items), s) := by
  induction sl with
  | nil => simp [readAll]
  | cons i rest ih =>
    obtain ⟨hi, hsome⟩ := hsl i (by simp)
    obtain ⟨e, he⟩ := Option.isSome_iff_exists.mp hsome
    have := ih (fun j hj => hsl j (by simp [hj]))
    simp only [readAll, bind_run, readInit_run s i e hi he, this, pure_run, List.filterMap_cons, he]

theorem iterSlots_run (s : Sys) (h : Inv s.buf) :
    iterSlots s = (.ok (windowSlots s.buf.start s.buf.cap s.buf.size), s) := by
  obtain ⟨f, k, h1, h2, _⟩ := asSlicesOf_spec s.buf h
  simp only [iterSlots, asSlices, bind_run, getBuf_run, h1, liftE_ok, pure_run, h2]

/-- every whole-buffer reader (`iter`, `to_vec`, `Debug`, `Hash`, `clone`) sees exactly `abs` -/
theorem contents_run (s : Sys) (h : Inv s.buf) : contents s = (.ok (abs s.buf), s) := by
  have hfm : (windowSlots s.buf.start s.buf.cap s.buf.size).filterMap s.buf.items = abs s.buf := by
    by_cases hc : s.buf.cap = 0
    · have : s.buf.size = 0 := by have := h.size_le; omega
      simp [windowSlots, abs, this]
    · have hst := h.start_lt' (by omega)
      have := filterMap_window s.buf h 0 s.buf.size (by omega)
      rw [phys_zero _ _ hst] at this
      rw [this]; simp
      apply List.take_of_length_le; rw [abs_length _ h]; exact Nat.le_refl _
  have hall : ∀ i ∈ windowSlots s.buf.start s.buf.cap s.buf.size,
      i < s.buf.cap ∧ (s.buf.items i).isSome = true := by
    intro i hi
    by_cases hc : s.buf.cap = 0
    · have : s.buf.size = 0 := by have := h.size_le; omega
      simp [windowSlots, this] at hi
    · have hst := h.start_lt' (by omega)
      refine ⟨windowSlots_lt _ _ _ (by omega) i hi, ?_⟩
      have := windowSlots_live s.buf h 0 s.buf.size (by omega) i
      rw [phys_zero _ _ hst] at this
      exact this hi
  simp only [contents, bind_run, iterSlots_run s h, readAll_run _ s hall, hfm]

/-- a write through the reference for logical position `i` changes exactly that position -/
theorem write_spec (b : CB) (h : Inv b) (i : Nat) (hi : i < b.size) (v : Elem) :
    Inv { b with items := setCell b.items (phys b.start b.cap i) (some v) } ∧
    abs { b with items := setCell b.items (phys b.start b.cap i) (some v) } = (abs b).set i v := by
  have hlen := abs_length b h
  have hget := abs_getElem b h
  have hsz := h.size_le
  have hst := h.start_lt' (by omega)
  apply inv_abs_of ⟨b.cap, b.size, b.start, setCell b.items (phys b.start b.cap i) (some v)⟩ _ h.cap_lt
    (by simp [hlen]) hsz (Or.inl hst)
  intro j hj
  simp only [List.length_set, hlen] at hj
  simp only [List.getElem_set]
  by_cases hji : i = j
  · subst hji; simp
  · rw [setCell_ne _ _ _ _ (phys_ne _ _ _ _ hst (by omega) (by omega) (fun e => hji e.symm))]
    simp only [hji, if_false]
    exact hget j (by omega)

/-! ### consuming a list from both ends -/

/-- what is left of `xs` after `f` steps from the front and `b` from the back -/
def leftover (xs : List α) (f b : Nat) : List α := (xs.drop f).take (xs.length - f - b)

theorem leftover_length (xs : List α) (f b : Nat) :
    (leftover xs f b).length = xs.length - f - b := by
  simp [leftover]; try omega

theorem leftover_head (xs : List α) (f b : Nat) (h : f + b < xs.length) :
    (leftover xs f b).head? = xs[f]? ∧ (leftover xs f b).tail = leftover xs (f + 1) b := by
  unfold leftover
  constructor
  · rw [List.head?_eq_getElem?, List.getElem?_take]
    simp only [show 0 < xs.length - f - b by omega, if_true, List.getElem?_drop, Nat.add_zero]
  · rw [← List.drop_one, List.drop_take, List.drop_drop]
    congr 1; omega

theorem leftover_last (xs : List α) (f b : Nat) (h : f + b < xs.length) :
    (leftover xs f b).getLast? = xs[xs.length - 1 - b]? ∧
      (leftover xs f b).dropLast = leftover xs f (b + 1) := by
  unfold leftover
  constructor
  · rw [List.getLast?_eq_getElem?, List.getElem?_take]
    simp only [List.length_take, List.length_drop]
    have e : min (xs.length - f - b) (xs.length - f) - 1 < xs.length - f - b := by omega
    simp only [e, if_true, List.getElem?_drop]
    congr 1; omega
  · rw [List.dropLast_eq_take, List.take_take]
    simp only [List.length_take, List.length_drop]
    congr 1; omega

/-- exhausted: nothing is left once `f + b` reaches the length, so every further call yields `None` -/
theorem leftover_nil (xs : List α) (f b : Nat) (h : xs.length ≤ f + b) : leftover xs f b = [] := by
  unfold leftover
  have : xs.length - f - b = 0 := by omega
  simp [this]

end CircBuf
