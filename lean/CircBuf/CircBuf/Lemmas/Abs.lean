import CircBuf.Lemmas.Run
set_option linter.unusedSimpArgs false
set_option linter.unusedVariables false
/-!
  Pointwise characterisation of the abstraction function.
-/
namespace CircBuf

theorem filterMap_range_eq (n : Nat) (f : Nat → Option α) (xs : List α) (hlen : xs.length = n)
    (h : ∀ i, (hi : i < xs.length) → f i = some xs[i]) : (List.range n).filterMap f = xs := by
  induction n generalizing xs with
  | zero =>
    have : xs = [] := List.length_eq_zero_iff.mp hlen
    simp [this]
  | succ n ih =>
    have hne : xs ≠ [] := by intro h0; simp [h0] at hlen
    have hx : xs = xs.dropLast ++ [xs.getLast hne] := (List.dropLast_concat_getLast hne).symm
    have hdl : xs.dropLast.length = n := by simp [hlen]
    rw [List.range_succ, List.filterMap_append]
    have ih' := ih xs.dropLast hdl (by
      intro i hi
      have hi' : i < xs.length := by omega
      rw [h i hi']
      simp [List.getElem_dropLast])
    rw [ih']
    have hl := h n (by omega)
    have hlast : xs[n]'(by omega) = xs.getLast hne := by
      rw [List.getLast_eq_getElem]; congr 1; omega
    simp [List.filterMap_cons, hl, hlast]
    exact hx.symm

theorem abs_eq_of (b : CB) (xs : List Elem) (hlen : xs.length = b.size)
    (h : ∀ i, (hi : i < xs.length) → b.items (phys b.start b.cap i) = some xs[i]) : abs b = xs :=
  filterMap_range_eq b.size _ xs hlen h

theorem filterMap_range_length (n : Nat) (f : Nat → Option α)
    (h : ∀ i, i < n → (f i).isSome = true) : ((List.range n).filterMap f).length = n := by
  induction n with
  | zero => simp
  | succ n ih =>
    rw [List.range_succ, List.filterMap_append, List.length_append,
      ih (fun i hi => h i (by omega))]
    have := h n (by omega)
    cases hf : f n with
    | none => simp [hf] at this
    | some v => simp [List.filterMap_cons, hf]

theorem filterMap_range_getElem? (n : Nat) (f : Nat → Option α)
    (h : ∀ i, i < n → (f i).isSome = true) (i : Nat) (hi : i < n) :
    ((List.range n).filterMap f)[i]? = f i := by
  induction n with
  | zero => omega
  | succ n ih =>
    have hl := filterMap_range_length n f (fun i hi => h i (by omega))
    rw [List.range_succ, List.filterMap_append]
    by_cases hin : i < n
    · rw [List.getElem?_append_left (by omega)]
      exact ih (fun i hi => h i (by omega)) hin
    · have : i = n := by omega
      subst this
      rw [List.getElem?_append_right (by omega), hl]
      have := h i (by omega)
      cases hf : f i with
      | none => simp [hf] at this
      | some v => simp [List.filterMap_cons, hf]

theorem abs_length (b : CB) (h : Inv b) : (abs b).length = b.size :=
  filterMap_range_length _ _ h.live

theorem abs_getElem? (b : CB) (h : Inv b) (i : Nat) (hi : i < b.size) :
    (abs b)[i]? = b.items (phys b.start b.cap i) :=
  filterMap_range_getElem? _ _ h.live i hi

theorem abs_getElem (b : CB) (h : Inv b) (i : Nat) (hi : i < (abs b).length) :
    b.items (phys b.start b.cap i) = some (abs b)[i] := by
  have := abs_getElem? b h i (by rw [abs_length b h] at hi; exact hi)
  rw [← this, List.getElem?_eq_getElem hi]

/-- One pointwise statement gives both the invariant and the abstract contents. -/
theorem inv_abs_of (b : CB) (xs : List Elem) (hW : b.cap < W) (hlen : xs.length = b.size)
    (hsz : b.size ≤ b.cap) (hst : b.start < b.cap ∨ (b.cap = 0 ∧ b.start = 0))
    (h : ∀ i, (hi : i < xs.length) → b.items (phys b.start b.cap i) = some xs[i]) :
    Inv b ∧ abs b = xs := by
  refine ⟨⟨hsz, hst, hW, ?_⟩, abs_eq_of b xs hlen h⟩
  intro i hi
  rw [h i (by omega)]; rfl

theorem phys_phys (s c k i : Nat) : phys (phys s c k) c i = phys s c (k + i) := by
  unfold phys; rw [Nat.mod_add_mod, Nat.add_assoc]

theorem phys_zero (s c : Nat) (hs : s < c) : phys s c 0 = s := by
  unfold phys; simp [Nat.mod_eq_of_lt hs]

theorem phys_cap (s c : Nat) (hs : s < c) : phys s c c = s := by
  unfold phys; rw [Nat.add_mod_right]; exact Nat.mod_eq_of_lt hs

theorem phys_ne (s c i j : Nat) (hs : s < c) (hi : i < c) (hj : j < c) (h : i ≠ j) :
    phys s c i ≠ phys s c j := fun he => h (phys_inj s c i j hs hi hj he)

theorem getLast?_eq_of_length (xs : List α) (n : Nat) (hn : xs.length = n) (hpos : 0 < n) :
    xs.getLast? = some (xs[n - 1]'(by omega)) := by
  subst hn
  rw [List.getLast?_eq_getElem?]; exact List.getElem?_eq_getElem _

theorem phys_add_cap (s c k : Nat) : phys s c (c + k) = phys s c k := by
  unfold phys
  have : s + (c + k) = s + k + c := by omega
  rw [this, Nat.add_mod_right]

theorem phys_pred_add (s c i : Nat) (hi : 0 < i) (hc : 0 < c) :
    phys s c (c - 1 + i) = phys s c (i - 1) := by
  have : c - 1 + i = c + (i - 1) := by omega
  rw [this, phys_add_cap]

end CircBuf
