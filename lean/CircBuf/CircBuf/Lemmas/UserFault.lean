import CircBuf.Lemmas.Loops
import CircBuf.Lemmas.Cmp
set_option linter.unusedSimpArgs false
set_option linter.unusedVariables false
/-! Panics in user code other than destructors: element comparison (read-only operations cannot
damage the buffer at all), closures and iterators (each produced element is pushed before the next
call, so a panic leaves a valid buffer holding everything produced so far). -/
namespace CircBuf

/-- `m` never changes the buffer, whatever it returns (normally or by panicking) -/
def PB (m : M α) : Prop := ∀ s, (m s).2.buf = s.buf

theorem PB.pure (a : α) : PB (pure a : M α) := fun _ => rfl
theorem PB.raise (p : Panic) : PB (raise p : M α) := fun _ => rfl
theorem PB.liftE (e : Except Panic α) : PB (liftE e) := by
  intro s; cases e <;> rfl
theorem PB.getBuf : PB getBuf := fun _ => rfl
theorem PB.dassert (c : Bool) (m : String) : PB (dassert c m) := by
  intro s; cases c <;> rfl
theorem PB.bind {m : M α} {f : α → M β} (h1 : PB m) (h2 : ∀ a, PB (f a)) : PB (m >>= f) := by
  intro s
  simp only [bind_run]
  have := h1 s
  cases hm : m s with
  | mk r s' =>
    rw [hm] at this
    cases r with
    | ok a => simp only; rw [h2 a s']; exact this
    | error p => exact this
theorem PB.ite (c : Prop) [Decidable c] {a b : M α} (ha : PB a) (hb : PB b) : PB (if c then a else b) := by
  split <;> assumption

theorem PB.eqOne (x y : Elem) : PB (eqOne x y) := by
  intro s
  unfold CircBuf.eqOne
  simp only
  split <;> split <;> rfl

theorem PB.eqElems (xs ys : List Elem) : PB (eqElems xs ys) := by
  induction xs generalizing ys with
  | nil => cases ys <;> exact PB.pure _
  | cons x xs ih =>
    cases ys with
    | nil => exact PB.pure _
    | cons y ys =>
      simp only [CircBuf.eqElems]
      apply PB.bind (PB.eqOne x y)
      intro b
      cases b
      · exact PB.pure _
      · exact ih ys

theorem PB.sc {p q : M Bool} (hp : PB p) (hq : PB q) :
    PB (do if !(← p) then Pure.pure false else q) := by
  apply PB.bind hp; intro b
  cases b
  · exact PB.pure _
  · exact hq

/-- **a panic inside `==`** (any comparison call, any position) cannot change the buffer: the
operation never writes to it -/
theorem eqBuf_readonly (other : CB) : PB (eqBuf other) := by
  unfold eqBuf
  apply PB.bind PB.getBuf; intro a
  apply PB.ite; exact PB.pure _
  apply PB.bind (PB.liftE _); intro ⟨al, ar⟩
  apply PB.bind (PB.liftE _); intro ⟨bl, br⟩
  apply PB.ite
  · apply PB.bind (PB.liftE _); intro y
    dsimp only
    apply PB.ite
    · exact PB.sc (PB.eqElems _ _) (PB.sc (PB.eqElems _ _) (PB.eqElems _ _))
    · apply PB.bind (PB.raise _); intro _
      exact PB.sc (PB.eqElems _ _) (PB.sc (PB.eqElems _ _) (PB.eqElems _ _))
  · apply PB.ite
    · apply PB.bind (PB.liftE _); intro y
      dsimp only
      apply PB.ite
      · exact PB.sc (PB.eqElems _ _) (PB.sc (PB.eqElems _ _) (PB.eqElems _ _))
      · apply PB.bind (PB.raise _); intro _
        exact PB.sc (PB.eqElems _ _) (PB.sc (PB.eqElems _ _) (PB.eqElems _ _))
    · apply PB.bind (PB.dassert _ _); intro _
      exact PB.sc (PB.eqElems _ _) (PB.eqElems _ _)

theorem produce_call_panics (s : Sys) (hf : s.faults.call = 1) :
    produceElem "call" s = (.error (.user "call"), { s with faults := { s.faults with call := 0 } }) := by
  obtain ⟨b, l, n, f, k⟩ := s
  obtain ⟨d, c, ca, nx, eq⟩ := f
  simp only at hf; subst hf
  simp [produceElem, tick]

theorem produce_call_counts (s : Sys) (k : Nat) (hf : s.faults.call = k + 2) (hk : s.kind = .tracked) :
    produceElem "call" s = (.ok ⟨s.next, s.next⟩,
      { s with next := s.next + 1, log := .given s.next :: s.log,
               faults := { s.faults with call := k + 1 } }) := by
  obtain ⟨b, l, n, f, kd⟩ := s
  obtain ⟨d, c, ca, nx, eq⟩ := f
  simp only at hf hk; subst hf hk
  simp [produceElem, tick]

theorem produce_next_panics (s : Sys) (hf : s.faults.next = 1) :
    produceElem "next" s = (.error (.user "next"), { s with faults := { s.faults with next := 0 } }) := by
  obtain ⟨b, l, n, f, k⟩ := s
  obtain ⟨d, c, ca, nx, eq⟩ := f
  simp only at hf; subst hf
  simp [produceElem, tick]

theorem produce_next_counts (s : Sys) (k : Nat) (hf : s.faults.next = k + 2) (hk : s.kind = .tracked) :
    produceElem "next" s = (.ok ⟨s.next, s.next⟩,
      { s with next := s.next + 1, log := .given s.next :: s.log,
               faults := { s.faults with next := k + 1 } }) := by
  obtain ⟨b, l, n, f, kd⟩ := s
  obtain ⟨d, c, ca, nx, eq⟩ := f
  simp only at hf hk; subst hf hk
  simp [produceElem, tick]

/-- **the closure of `fill_with` / `fill_spare_with` panics at its `k+1`-th call**: the buffer is
valid and holds the old contents followed by the `k` elements produced before; every element that
was created is in the buffer. -/
theorem fillSpareWithLoop_fault (fuel : Nat) (s : Sys) (k : Nat) (h : Inv s.buf)
    (hd : s.faults.drop = 0) (hc : s.faults.call = k + 1) (hk : s.kind = .tracked)
    (hfuel : fuel = s.buf.cap - s.buf.size) (hkf : k < fuel) :
    ∃ s', fillSpareWithLoop fuel s = (.error (.user "call"), s') ∧ Inv s'.buf ∧
      abs s'.buf = abs s.buf ++ newElems s.next k ∧ s'.buf.cap = s.buf.cap ∧ s'.next = s.next + k := by
  induction fuel generalizing s k with
  | zero => omega
  | succ fuel ih =>
    have hlen := abs_length s.buf h
    have hsz := h.size_le
    have hroom : s.buf.size < s.buf.cap := by omega
    have hcne : s.buf.cap ≠ 0 := by omega
    cases k with
    | zero =>
      refine ⟨{ s with faults := { s.faults with call := 0 } }, ?_, h, by simp [newElems], rfl, rfl⟩
      mrun [fillSpareWithLoop, produce_call_panics s (by simpa using hc)]
    | succ k =>
      rw [newElems_succ]
      obtain ⟨s0, hs0⟩ : ∃ s0 : Sys, s0 = { s with
          next := s.next + 1
          log := .given s.next :: s.log
          faults := { s.faults with call := k + 1 } } := ⟨_, rfl⟩
      have e : fillSpareWithLoop (fuel + 1) s =
          ((pushBack ⟨s.next, s.next⟩ >>= dropOpt) >>= fun _ => fillSpareWithLoop fuel) s0 := by
        rw [bind_assoc_run, hs0]
        mrun [fillSpareWithLoop, produce_call_counts s k (by omega) hk]
      have hpb : Spec.pushBack s.buf.cap (abs s.buf) ⟨s.next, s.next⟩
          = (abs s.buf ++ [⟨s.next, s.next⟩], none) := by
        simp [Spec.pushBack, hcne, hlen, hroom]
      have hI0 : Inv s0.buf := by rw [hs0]; exact h
      obtain ⟨s1, r1, p1⟩ := pushDrop_runs s0 ⟨s.next, s.next⟩ hI0 (by rw [hs0]; exact hd)
      have hb0 : s0.buf = s.buf := by rw [hs0]
      rw [hb0, hpb] at p1
      have hsz1 : s1.buf.size = s.buf.size + 1 := by
        have := abs_length s1.buf p1.inv
        rw [p1.abs_eq] at this; simp [hlen] at this; omega
      have hc1 : s1.buf.cap = s.buf.cap := by rw [p1.cap_eq, hb0]
      obtain ⟨s', h1, h2, h3, h4, h5⟩ := ih s1 k p1.inv (by rw [p1.faults_eq, hs0]; exact hd)
        (by rw [p1.faults_eq, hs0]) (by rw [p1.kind_eq, hs0]; exact hk)
        (by rw [hc1, hsz1]; omega) (by omega)
      refine ⟨s', ?_, h2, ?_, by rw [h4, hc1], ?_⟩
      · have r1' := r1
        simp only [bind_run] at r1'
        rw [e]; simp only [bind_run, r1', h1]
      · rw [h3, p1.abs_eq, p1.next_eq, hs0]; simp [List.append_assoc]
      · rw [h5, p1.next_eq, hs0]; simp only; omega

/-- **the iterator given to `extend` panics at its `k+1`-th `next` call** (`k = m`: the call that
would have returned `None`): the buffer is valid and holds what pushing the `k` items produced
before gives; the displaced elements were destroyed as usual. -/
theorem extendIter_fault (m : Nat) (s : Sys) (k : Nat) (h : Inv s.buf)
    (hd : s.faults.drop = 0) (hn : s.faults.next = k + 1) (hk : s.kind = .tracked) (hkm : k ≤ m) :
    ∃ s', extendIter m s = (.error (.user "next"), s') ∧ Inv s'.buf ∧
      abs s'.buf = (Spec.pushMany s.buf.cap (abs s.buf) (newElems s.next k)).1 ∧
      s'.buf.cap = s.buf.cap ∧ s'.next = s.next + k := by
  induction m generalizing s k with
  | zero =>
    have hk0 : k = 0 := by omega
    subst hk0
    refine ⟨{ s with faults := { s.faults with next := 0 } }, ?_, h, by simp [newElems, Spec.pushMany], rfl, rfl⟩
    obtain ⟨b, l, n, f, kd⟩ := s
    obtain ⟨d, c, ca, nx, eq⟩ := f
    simp only at hn; subst hn
    simp [extendIter, tick]
  | succ m ih =>
    cases k with
    | zero =>
      refine ⟨{ s with faults := { s.faults with next := 0 } }, ?_, h, by simp [newElems, Spec.pushMany], rfl, rfl⟩
      mrun [extendIter, produce_next_panics s (by simpa using hn)]
    | succ k =>
      rw [newElems_succ]
      simp only [Spec.pushMany]
      obtain ⟨s0, hs0⟩ : ∃ s0 : Sys, s0 = { s with
          next := s.next + 1
          log := .given s.next :: s.log
          faults := { s.faults with next := k + 1 } } := ⟨_, rfl⟩
      have e : extendIter (m + 1) s =
          ((pushBack ⟨s.next, s.next⟩ >>= dropOpt) >>= fun _ => extendIter m) s0 := by
        rw [bind_assoc_run, hs0]
        simp only [extendIter, bind_run, produce_next_counts s k (by omega) hk]
      have hI0 : Inv s0.buf := by rw [hs0]; exact h
      obtain ⟨s1, r1, p1⟩ := pushDrop_runs s0 ⟨s.next, s.next⟩ hI0 (by rw [hs0]; exact hd)
      have hb0 : s0.buf = s.buf := by rw [hs0]
      rw [hb0] at p1
      have hc1 : s1.buf.cap = s.buf.cap := by rw [p1.cap_eq, hb0]
      obtain ⟨s', h1, h2, h3, h4, h5⟩ := ih s1 k p1.inv (by rw [p1.faults_eq, hs0]; exact hd)
        (by rw [p1.faults_eq, hs0]) (by rw [p1.kind_eq, hs0]; exact hk) (by omega)
      refine ⟨s', ?_, h2, ?_, by rw [h4, hc1], ?_⟩
      · have r1' := r1
        simp only [bind_run] at r1'
        rw [e]; simp only [bind_run, r1', h1]
      · rw [h3, p1.abs_eq, hc1, p1.next_eq, hs0]
      · rw [h5, p1.next_eq, hs0]; simp only; omega

end CircBuf
