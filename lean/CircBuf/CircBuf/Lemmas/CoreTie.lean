import CircBuf.Lemmas.Tie.Index
import CircBuf.Lemmas.Tie.Access
import CircBuf.Lemmas.Tie.PushPop
import CircBuf.Lemmas.Tie.Swap
import CircBuf.Lemmas.Tie.Truncate
import CircBuf.Lemmas.Tie.Remove
import CircBuf.Lemmas.Tie.IterTie
import CircBuf.Lemmas.Tie.DrainTie
import CircBuf.Lemmas.Tie.Fill
/-!
  The tie between the *translated* core (`Generated/Core.lean`, regenerated from `/repo/src/lib.rs` by
  `/verif/translate/t3_core.py` on every run) and the hand-written model (`Model.lean`) the theorems
  of `Props/` are stated about: for every function of the translated fragment, the generated
  definition and the model's definition are the same function `Sys → Except Panic α × Sys`.

  The equalities are stated on the states that satisfy the representation invariant `Inv` — the
  hypothesis of every property theorem.  (On other states the two may differ in *which*
  `debug_assert!` fires first: e.g. the `&self` variants `front_maybe_uninit` / `back_maybe_uninit`
  also assert `size <= N`, which the model's shared helper omits.)

  The proofs do not compare text.  `tie2` first evaluates both sides symbolically on an arbitrary
  state and compares them branch by branch (`tie`); if that fails it evaluates the index arithmetic
  under the invariant (`add_mod`/`sub_mod` by their specification, `+`/`-` without overflow) and
  compares the resulting states (`tieInv`).  A rewrite of the source that computes the same thing
  therefore keeps them true (e.g. writing the new back element at `add_mod(start, size, N)` before
  `inc_size()` instead of after it).
-/
