import CircBuf.Lemmas.ExtendSlice2
set_option linter.unusedSimpArgs false
set_option linter.unusedVariables false
/-! A panicking `T::clone` inside `extend_from_slice`: the `Guard` destroys exactly the clones made
so far in the current segment, the segments completed earlier already belong to the buffer. -/
namespace CircBuf

theorem cloneElem_panics (s : Sys) (e : Elem) (hf : s.faults.clone = 1) :
    cloneElem e s = (.error (.user "clone"), { s with faults := { s.faults with clone := 0 } }) := by
  obtain ⟨b, l, n, f, k⟩ := s
  obtain ⟨d, c, ca, nx, eq⟩ := f
  simp only at hf; subst hf
  simp [cloneElem, tick]

theorem cloneElem_counts (s : Sys) (e : Elem) (k : Nat) (hf : s.faults.clone = k + 2) :
    cloneElem e s = (.ok ((cloneList s.kind s.next [e])[0]'(by simp [cloneList_length])),
      { s with next := s.next + cloneCount s.kind 1, log := cloneLog s.kind s.next [e] ++ s.log,
               faults := { s.faults with clone := k + 1 } }) := by
  obtain ⟨b, l, n, f, kd⟩ := s
  obtain ⟨d, c, ca, nx, eq⟩ := f
  simp only at hf; subst hf
  by_cases hk : kd = .tracked ∨ kd = .plain
  · simp [cloneElem, tick, hk, cloneList, cloneLog, cloneCount]
  · simp [cloneElem, tick, hk, cloneList, cloneLog, cloneCount]

/-- slots `off .. off+pre.length` hold `pre` -/
def Holds (f : Nat → Cell) (off : Nat) (pre : List Elem) : Prop :=
  ∀ j, (hj : j < pre.length) → f (off + j) = some pre[j]

theorem holds_filterMap (f : Nat → Cell) (off : Nat) (pre : List Elem) (h : Holds f off pre) :
    (List.range' off pre.length).filterMap f = pre := by
  induction pre generalizing off with
  | nil => simp
  | cons x rest ih =>
    have h0 := h 0 (by simp)
    simp only [Nat.add_zero, List.getElem_cons_zero] at h0
    have hr : Holds f (off + 1) rest := by
      intro j hj
      have := h (j + 1) (by simp; omega)
      simp only [List.getElem_cons_succ] at this
      rw [← this]; congr 1; omega
    simp only [List.length_cons, List.range'_succ, List.filterMap_cons, h0, ih (off + 1) hr]

/-- the `k`-th clone (counted from the current one) panics -/
theorem writeClonedLoop_fault (dst : View) (src : List Elem) (i : Nat) (s : Sys) (pre : List Elem)
    (k : Nat) (hk : s.faults.clone = k + 1) (hkn : k < src.length) (hd : s.faults.drop = 0)
    (hpl : pre.length = i) (hpre : Holds s.buf.items dst.off pre)
    (hfit : i + src.length ≤ dst.len) (hb : dst.off + dst.len ≤ s.buf.cap) :
    writeClonedLoop dst i src s = (.error (.user "clone"), { s with
      buf := { s.buf with items := writeList s.buf.items (dst.off + i) (cloneList s.kind s.next (src.take k)) }
      next := s.next + cloneCount s.kind k
      log := dropEvents s.kind (pre ++ cloneList s.kind s.next (src.take k)) ++
        (cloneLog s.kind s.next (src.take k) ++ s.log)
      faults := { s.faults with clone := 0 } }) := by
  induction src generalizing i s pre k with
  | nil => simp at hkn
  | cons e rest ih =>
    simp only [List.length_cons] at hfit hkn
    cases k with
    | zero =>
      -- this very clone panics: the guard destroys what was initialised so far
      have h1 := cloneElem_panics s e (by simpa using hk)
      have hall : ∀ j ∈ List.range' dst.off i, j < s.buf.cap ∧ (s.buf.items j).isSome = true := by
        intro j hj
        simp only [List.mem_range'_1] at hj
        refine ⟨by omega, ?_⟩
        have := hpre (j - dst.off) (by omega)
        have e1 : dst.off + (j - dst.off) = j := by omega
        rw [e1] at this; rw [this]; rfl
      have h2 := dropInPlace_run (List.range' dst.off i)
        { s with faults := { s.faults with clone := 0 } } (by simp only; exact hd) (by simp only; exact hall)
      have hfm : (List.range' dst.off i).filterMap s.buf.items = pre := by
        rw [← hpl]; exact holds_filterMap _ _ _ hpre
      simp only [hfm] at h2
      simp only [writeClonedLoop, bind_run, onPanic, h1, h2, List.take_zero, cloneList, cloneLog,
        cloneCount, List.append_nil, List.nil_append, writeList_nil, Nat.add_zero]
      split <;> rfl
    | succ k =>
      have hi : i < dst.len := by omega
      have hcell : dst.off + i < s.buf.cap := by omega
      have h1 := cloneElem_counts s e k (by omega)
      simp only [writeClonedLoop, bind_run, onPanic, h1, hi, if_true, pure_run]
      rw [writeCell_run _ _ _ (by simp only; exact hcell)]
      simp only
      obtain ⟨c, hc⟩ : ∃ c, c = (cloneList s.kind s.next [e])[0]'(by simp [cloneList_length]) := ⟨_, rfl⟩
      rw [← hc]
      have hpre' : Holds (setCell s.buf.items (dst.off + i) (some c)) dst.off (pre ++ [c]) := by
        intro j hj
        simp only [List.length_append, List.length_singleton] at hj
        by_cases hji : j = i
        · subst hji
          simp only [setCell_same]
          rw [List.getElem_append_right (by omega)]; simp [hpl]
        · have hlt : j < pre.length := by omega
          rw [setCell_ne _ _ _ _ (by omega), List.getElem_append_left hlt]
          exact hpre j hlt
      rw [ih (i + 1) _ (pre ++ [c]) k (by simp only) (by omega) (by simp only; exact hd)
        (by simp [hpl]) (by simp only; exact hpre') (by omega) (by simp only; exact hb)]
      have ea : dst.off + (i + 1) = dst.off + i + 1 := by omega
      by_cases hkk : s.kind = .tracked ∨ s.kind = .plain
      · have hcv : c = ⟨s.next, e.val⟩ := by rw [hc]; simp [cloneList, hkk]
        simp only [List.take_succ_cons, cloneList, cloneLog, cloneCount, hkk, if_true, ea,
          writeList_cons, hcv, List.append_assoc, List.singleton_append]
        have e2 : s.next + 1 + k = s.next + (k + 1) := by omega
        simp only [List.nil_append, e2]
      · have hcv : c = e := by rw [hc]; simp [cloneList, hkk]
        simp only [List.take_succ_cons, cloneList, cloneLog, cloneCount, hkk, if_false, ea,
          writeList_cons, hcv, List.append_assoc, List.singleton_append, Nat.add_zero, List.nil_append]

theorem cloneElem_ok (s : Sys) (e : Elem) (hf : s.faults.clone ≠ 1) :
    cloneElem e s = (.ok ((cloneList s.kind s.next [e])[0]'(by simp [cloneList_length])),
      { s with next := s.next + cloneCount s.kind 1, log := cloneLog s.kind s.next [e] ++ s.log,
               faults := { s.faults with clone := s.faults.clone - 1 } }) := by
  rcases hc : s.faults.clone with _ | _ | k
  · have := cloneElem_run' s e hc
    rw [this]
    obtain ⟨b, l, n, f, kd⟩ := s
    obtain ⟨d, c, ca, nx, eq⟩ := f
    simp only at hc; subst hc; rfl
  · exact absurd hc hf
  · have := cloneElem_counts s e k hc
    rw [this]
    simp only [Nat.add_sub_cancel]

/-- the fault counter is beyond this segment (or not armed): the segment is written completely -/
theorem writeClonedLoop_passes (dst : View) (src : List Elem) (i : Nat) (s : Sys)
    (hc : s.faults.clone = 0 ∨ src.length < s.faults.clone)
    (hfit : i + src.length ≤ dst.len) (hb : dst.off + dst.len ≤ s.buf.cap) :
    writeClonedLoop dst i src s = (.ok (), { s with
      buf := { s.buf with items := writeList s.buf.items (dst.off + i) (cloneList s.kind s.next src) }
      next := s.next + cloneCount s.kind src.length
      log := cloneLog s.kind s.next src ++ s.log
      faults := { s.faults with clone := s.faults.clone - src.length } }) := by
  induction src generalizing i s with
  | nil =>
    simp only [writeClonedLoop, pure_run, cloneList, cloneLog, cloneCount, List.nil_append,
      writeList_nil, List.length_nil, Nat.sub_zero]
    split <;> rfl
  | cons e rest ih =>
    simp only [List.length_cons] at hfit hc
    have hi : i < dst.len := by omega
    have hcell : dst.off + i < s.buf.cap := by omega
    have h1 := cloneElem_ok s e (by omega)
    simp only [writeClonedLoop, bind_run, onPanic, h1, hi, if_true, pure_run]
    rw [writeCell_run _ _ _ (by simp only; exact hcell)]
    simp only
    rw [ih (i + 1) _ (by simp only; omega) (by omega) (by simp only; exact hb)]
    have ea : dst.off + (i + 1) = dst.off + i + 1 := by omega
    have es : s.faults.clone - 1 - rest.length = s.faults.clone - (rest.length + 1) := by omega
    by_cases hk : s.kind = .tracked ∨ s.kind = .plain
    · simp only [cloneList, cloneLog, cloneCount, hk, if_true, List.length_cons, ea,
        List.getElem_cons_zero, writeList_cons, List.append_assoc, List.singleton_append,
        List.nil_append, es]
      congr 2; omega
    · simp only [cloneList, cloneLog, cloneCount, hk, if_false, List.length_cons, Nat.add_zero,
        List.nil_append, ea, List.getElem_cons_zero, writeList_cons, es]

/-- the window is not touched by a write into the first free segment -/
theorem window_untouched (b : CB) (h : Inv b) (hc : 0 < b.cap) (L : List Elem)
    (hfit1 : L.length ≤ firstFree b) (hfit2 : b.size + L.length ≤ b.cap) (i : Nat) (hi : i < b.size) :
    writeList b.items (phys b.start b.cap b.size) L (phys b.start b.cap i)
      = b.items (phys b.start b.cap i) := by
  have hst := h.start_lt' hc
  have hp := phys_lt b.start b.cap b.size hc
  have hend : phys b.start b.cap b.size + firstFree b ≤ b.cap := by
    unfold firstFree; split <;> omega
  unfold writeList
  rw [if_neg]
  intro ⟨h1, h2⟩
  have hlog : phys b.start b.cap i = phys b.start b.cap (b.size + (phys b.start b.cap i - phys b.start b.cap b.size)) := by
    rw [phys_add_of_lt _ _ _ _ (by omega)]; omega
  have := phys_inj _ _ _ _ hst (by omega) (by omega) hlog
  omega

theorem writeCloned_fault (dst : View) (src : List Elem) (s : Sys) (k : Nat)
    (hk : s.faults.clone = k + 1) (hkn : k < src.length) (hd : s.faults.drop = 0)
    (hlen : dst.len = src.length) (hb : dst.off + dst.len ≤ s.buf.cap) :
    writeCloned dst src s = (.error (.user "clone"), { s with
      buf := { s.buf with items := writeList s.buf.items dst.off (cloneList s.kind s.next (src.take k)) }
      next := s.next + cloneCount s.kind k
      log := dropEvents s.kind (cloneList s.kind s.next (src.take k)) ++
        (cloneLog s.kind s.next (src.take k) ++ s.log)
      faults := { s.faults with clone := 0 } }) := by
  have := writeClonedLoop_fault dst src 0 s [] k hk hkn hd rfl (by intro j hj; simp at hj)
    (by omega) hb
  simp only [Nat.add_zero, List.nil_append] at this
  mrun [writeCloned, this]

theorem writeCloned_passes (dst : View) (src : List Elem) (s : Sys)
    (hc : s.faults.clone = 0 ∨ src.length < s.faults.clone)
    (hlen : dst.len = src.length) (hb : dst.off + dst.len ≤ s.buf.cap) :
    writeCloned dst src s = (.ok (), { s with
      buf := { s.buf with items := writeList s.buf.items dst.off (cloneList s.kind s.next src) }
      next := s.next + cloneCount s.kind src.length
      log := cloneLog s.kind s.next src ++ s.log
      faults := { s.faults with clone := s.faults.clone - src.length } }) := by
  have := writeClonedLoop_passes dst src 0 s hc (by omega) hb
  simp only [Nat.add_zero] at this
  mrun [writeCloned, this]

/-- **a panicking `clone` in `extend_from_slice`'s cloning phase** (the `k`-th source element, for
any `k`): the buffer stays valid, and each of the `k` clones made so far is either in the buffer
(`kept`, appended behind the old contents) or has been destroyed (`destroyed`) — nothing is leaked,
nothing is destroyed twice. -/
theorem cloneIntoFree_fault (s : Sys) (other : List Elem) (k : Nat) (h : Inv s.buf)
    (hc : 0 < s.buf.cap) (hk : s.faults.clone = k + 1) (hkm : k < other.length)
    (hd : s.faults.drop = 0) (hfit : s.buf.size + other.length ≤ s.buf.cap) :
    ∃ s' kept destroyed, cloneIntoFree other s = (.error (.user "clone"), s') ∧ Inv s'.buf ∧
      s'.buf.cap = s.buf.cap ∧ kept ++ destroyed = cloneList s.kind s.next (other.take k) ∧
      abs s'.buf = abs s.buf ++ kept ∧
      s'.log = dropEvents s.kind destroyed ++ (cloneLog s.kind s.next (other.take k) ++ s.log) := by
  have hW := h.cap_lt
  have hlen := abs_length s.buf h
  have hget := abs_getElem s.buf h
  have hst := h.start_lt' hc
  obtain ⟨l2, hsl, hend⟩ := slicesUninitMut_run s h hc
  obtain ⟨wl, hwl⟩ : ∃ wl, wl = min (firstFree s.buf) other.length := ⟨_, rfl⟩
  have hwl1 : wl ≤ firstFree s.buf := by omega
  have hwl2 : wl ≤ other.length := by omega
  have htk : (other.take wl).length = wl := by simp; omega
  by_cases hlt : k < wl
  · -- the panic happens in the first segment: nothing is committed
    have htt : (other.take wl).take k = other.take k := by
      rw [List.take_take]; congr 1; omega
    have hw := writeCloned_fault ⟨phys s.buf.start s.buf.cap s.buf.size, wl⟩ (other.take wl) s k hk
      (by rw [htk]; exact hlt) hd (by simp only [htk]) (by simp only; omega)
    rw [htt] at hw
    have hcl : (cloneList s.kind s.next (other.take k)).length = k := by
      rw [cloneList_length]; simp; omega
    obtain ⟨hI, hA⟩ := inv_abs_of ⟨s.buf.cap, s.buf.size, s.buf.start,
      writeList s.buf.items (phys s.buf.start s.buf.cap s.buf.size)
        (cloneList s.kind s.next (other.take k))⟩ (abs s.buf) hW hlen h.size_le (Or.inl hst) (by
        intro i hi
        simp only
        rw [window_untouched s.buf h hc _ (by rw [hcl]; omega) (by rw [hcl]; omega) i (by omega)]
        exact hget i hi)
    refine ⟨{ s with
        buf := ⟨s.buf.cap, s.buf.size, s.buf.start,
          writeList s.buf.items (phys s.buf.start s.buf.cap s.buf.size)
            (cloneList s.kind s.next (other.take k))⟩
        next := s.next + cloneCount s.kind k
        log := dropEvents s.kind (cloneList s.kind s.next (other.take k)) ++
          (cloneLog s.kind s.next (other.take k) ++ s.log)
        faults := { s.faults with clone := 0 } },
      [], cloneList s.kind s.next (other.take k), ?_, hI, rfl, by simp, by simp [hA], rfl⟩
    mrun [cloneIntoFree, hsl, ← hwl, hw]
  · -- the first segment is complete and committed; the panic happens in the wrapped segment
    have hge : wl ≤ k := by omega
    have hwlff : wl = firstFree s.buf := by omega
    have hm : firstFree s.buf < other.length := by omega
    have hw1 := writeCloned_passes ⟨phys s.buf.start s.buf.cap s.buf.size, wl⟩ (other.take wl) s
      (Or.inr (by rw [htk]; omega)) (by simp only [htk]) (by simp only; omega)
    obtain ⟨hI1, hA1⟩ := append_segment s.buf h (cloneList s.kind s.next (other.take wl)) hc
      (by rw [cloneList_length, htk]; exact hwl1) (by rw [cloneList_length, htk]; omega)
    rw [cloneList_length, htk] at hI1 hA1
    obtain ⟨s1, hs1⟩ : ∃ s1 : Sys, s1 = { s with
        buf := ⟨s.buf.cap, s.buf.size + wl, s.buf.start,
          writeList s.buf.items (phys s.buf.start s.buf.cap s.buf.size)
            (cloneList s.kind s.next (other.take wl))⟩
        next := s.next + cloneCount s.kind wl
        log := cloneLog s.kind s.next (other.take wl) ++ s.log
        faults := { s.faults with clone := s.faults.clone - wl } } := ⟨_, rfl⟩
    have hI1' : Inv s1.buf := by rw [hs1]; exact hI1
    have hc1 : 0 < s1.buf.cap := by rw [hs1]; exact hc
    have hlen1 := abs_length s1.buf hI1'
    have hget1 := abs_getElem s1.buf hI1'
    obtain ⟨l3, hsl2, hend2⟩ := slicesUninitMut_run s1 hI1' hc1
    have hroom : (other.drop wl).length ≤ firstFree s1.buf := by
      have := firstFree_after s.buf h hc other.length hfit hm
        (writeList s.buf.items (phys s.buf.start s.buf.cap s.buf.size)
          (cloneList s.kind s.next (other.take wl)))
      rw [hs1, hwlff]; simp only [List.length_drop]; exact this
    have hk1 : s1.faults.clone = (k - wl) + 1 := by rw [hs1]; simp only; omega
    have hrest : (other.drop wl).length ≠ 0 := by simp; omega
    have hw2 := writeCloned_fault ⟨phys s1.buf.start s1.buf.cap s1.buf.size, (other.drop wl).length⟩
      (other.drop wl) s1 (k - wl) hk1 (by simp; omega) (by rw [hs1]; exact hd) rfl (by simp only; omega)
    have hcl2 : (cloneList s1.kind s1.next ((other.drop wl).take (k - wl))).length = k - wl := by
      rw [cloneList_length]; simp; omega
    have hfit2 : s1.buf.size + (other.drop wl).length ≤ s1.buf.cap := by
      rw [hs1]; simp only [List.length_drop]; omega
    obtain ⟨hI2, hA2⟩ := inv_abs_of ⟨s1.buf.cap, s1.buf.size, s1.buf.start,
      writeList s1.buf.items (phys s1.buf.start s1.buf.cap s1.buf.size)
        (cloneList s1.kind s1.next ((other.drop wl).take (k - wl)))⟩ (abs s1.buf) (by rw [hs1]; exact hW)
      hlen1 hI1'.size_le (Or.inl (hI1'.start_lt' hc1)) (by
        intro i hi
        simp only
        rw [window_untouched s1.buf hI1' hc1 _ (by rw [hcl2]; simp at hroom; omega)
          (by rw [hcl2]; simp at hfit2; omega) i (by omega)]
        exact hget1 i hi)
    have hsplit : other.take k = other.take wl ++ (other.drop wl).take (k - wl) := by
      have : k = wl + (k - wl) := by omega
      conv => lhs; rw [this, List.take_add]
    refine ⟨{ s1 with
        buf := ⟨s1.buf.cap, s1.buf.size, s1.buf.start,
          writeList s1.buf.items (phys s1.buf.start s1.buf.cap s1.buf.size)
            (cloneList s1.kind s1.next ((other.drop wl).take (k - wl)))⟩
        next := s1.next + cloneCount s1.kind (k - wl)
        log := dropEvents s1.kind (cloneList s1.kind s1.next ((other.drop wl).take (k - wl))) ++
          (cloneLog s1.kind s1.next ((other.drop wl).take (k - wl)) ++ s1.log)
        faults := { s1.faults with clone := 0 } },
      cloneList s.kind s.next (other.take wl),
      cloneList s1.kind s1.next ((other.drop wl).take (k - wl)), ?_, hI2, by rw [hs1], ?_, ?_, ?_⟩
    · have hW1 : s1.buf.cap < W := by rw [hs1]; exact hW
      have hgeroom : (other.drop wl).length ≤ firstFree s1.buf := hroom
      mrun [cloneIntoFree, hsl, ← hwl, hw1, setSize_run, hrest, ne_eq, not_false_eq_true]
      simp only [htk, ← hs1]
      mrun [hsl2, hw2, hgeroom]
    · rw [hsplit, cloneList_append, htk, hs1]
    · simp only [hA2]; rw [hs1]; simp only; exact hA1
    · simp only; rw [hs1]; simp only
      rw [hsplit, cloneLog_append, htk, List.append_assoc]

end CircBuf
