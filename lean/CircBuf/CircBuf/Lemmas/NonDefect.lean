import CircBuf.Lemmas.TieTac
import CircBuf.Lemmas.Swap
import CircBuf.Lemmas.Remove
import CircBuf.Lemmas.Contig
import CircBuf.Lemmas.Views
import CircBuf.Lemmas.Faults
import CircBuf.Lemmas.Frame
set_option linter.unusedSimpArgs false
set_option linter.unusedVariables false
/-!
  On every state satisfying the invariant the model's core operations never end in a *defect* panic
  (overflow, out-of-bounds, empty-slot read, failed debug assertion): they return normally, or with a
  documented / user panic.  These are corollaries of the specification lemmas; the tie theorems of
  `Lemmas/Tie` take them as the hypothesis `hnd`.
-/
namespace CircBuf

theorem dropOutcome_nd (k n : Nat) : NonDefect (dropOutcome k n) := by
  unfold dropOutcome; split <;> simp [NonDefect, Panic.defect]

theorem Refines.nd {α : Type} {op : M α} {s : Sys} {r : α} {xs : List Elem} (h : Refines op s r xs) :
    NonDefect (op s).1 := by
  obtain ⟨b', e, _⟩ := h; rw [e]; trivial
theorem RefinesL.nd {α : Type} {op : M α} {s : Sys} {r : α} {xs : List Elem} {evs : List Event}
    (h : RefinesL op s r xs evs) : NonDefect (op s).1 := by
  obtain ⟨b', e, _⟩ := h; rw [e]; trivial

theorem nd_pushBack (x : Elem) (s : Sys) (h : Inv s.buf) : NonDefect (pushBack x s).1 := (pushBack_spec s x h).nd
theorem nd_pushFront (x : Elem) (s : Sys) (h : Inv s.buf) : NonDefect (pushFront x s).1 := (pushFront_spec s x h).nd
theorem nd_tryPushBack (x : Elem) (s : Sys) (h : Inv s.buf) : NonDefect (tryPushBack x s).1 :=
  (tryPushBack_spec s x h).nd
theorem nd_tryPushFront (x : Elem) (s : Sys) (h : Inv s.buf) : NonDefect (tryPushFront x s).1 :=
  (tryPushFront_spec s x h).nd
theorem nd_popBack (s : Sys) (h : Inv s.buf) : NonDefect (popBack s).1 := (popBack_spec s h).nd
theorem nd_popFront (s : Sys) (h : Inv s.buf) : NonDefect (popFront s).1 := (popFront_spec s h).nd
theorem nd_remove (i : Nat) (s : Sys) (h : Inv s.buf) : NonDefect (remove i s).1 := (remove_spec s i h).nd
theorem nd_swapRemoveBack (i : Nat) (s : Sys) (h : Inv s.buf) : NonDefect (swapRemoveBack i s).1 :=
  (swapRemoveBack_spec s i h).nd
theorem nd_swapRemoveFront (i : Nat) (s : Sys) (h : Inv s.buf) : NonDefect (swapRemoveFront i s).1 :=
  (swapRemoveFront_spec s i h).nd
theorem nd_swap (i j : Nat) (s : Sys) (h : Inv s.buf) : NonDefect (swap i j s).1 := by
  by_cases hi : i < s.buf.size
  · by_cases hj : j < s.buf.size
    · exact (swap_spec s i j h hi hj).nd
    · rw [swap_panics_j s i j hi hj]; simp [NonDefect, Panic.defect]
  · rw [swap_panics_i s i j hi]; simp [NonDefect, Panic.defect]
theorem nd_makeContiguous (s : Sys) (h : Inv s.buf) : NonDefect (makeContiguous s).1 := by
  obtain ⟨b', v, e, _⟩ := makeContiguous_spec s h; rw [e]; trivial
theorem nd_get (i : Nat) (s : Sys) (h : Inv s.buf) : NonDefect (get? i s).1 := by rw [get?_run s i h]; trivial
theorem nd_front (s : Sys) (h : Inv s.buf) : NonDefect (front? s).1 := by rw [front?_run s h]; trivial
theorem nd_back (s : Sys) (h : Inv s.buf) : NonDefect (back? s).1 := by rw [back?_run s h]; trivial
theorem nd_nthBack (i : Nat) (s : Sys) (h : Inv s.buf) : NonDefect (nthBack? i s).1 := by
  rw [nthBack?_run s i h]; trivial

/-! destroying operations: without an armed destructor fault, or for any fault when the element kind
has a destructor -/
theorem nd_truncateBack_nofault (n : Nat) (s : Sys) (h : Inv s.buf) (hf : s.faults.drop = 0) :
    NonDefect (truncateBack n s).1 := (truncateBack_spec s n h hf).nd
theorem nd_truncateFront_nofault (n : Nat) (s : Sys) (h : Inv s.buf) (hf : s.faults.drop = 0) :
    NonDefect (truncateFront n s).1 := (truncateFront_spec s n h hf).nd
theorem nd_clear_nofault (s : Sys) (h : Inv s.buf) (hf : s.faults.drop = 0) :
    NonDefect (clear s).1 := (clear_spec s h hf).nd
theorem nd_truncateBack_any (n : Nat) (s : Sys) (h : Inv s.buf) (hk : ¬ (s.kind = .byte ∨ s.kind = .plain)) :
    NonDefect (truncateBack n s).1 := by
  obtain ⟨s', e, _⟩ := truncateBack_any s n h hk; rw [e]; exact dropOutcome_nd _ _
theorem nd_truncateFront_any (n : Nat) (s : Sys) (h : Inv s.buf) (hk : ¬ (s.kind = .byte ∨ s.kind = .plain)) :
    NonDefect (truncateFront n s).1 := by
  obtain ⟨s', e, _⟩ := truncateFront_any s n h hk; rw [e]; exact dropOutcome_nd _ _
theorem nd_clear_any (s : Sys) (h : Inv s.buf) (hk : ¬ (s.kind = .byte ∨ s.kind = .plain)) :
    NonDefect (clear s).1 := by
  obtain ⟨s', e, _⟩ := clear_any s h hk; rw [e]; exact dropOutcome_nd _ _
theorem nd_dropRange_any (rs re : Nat) (s : Sys) (h : Inv s.buf) (hk : ¬ (s.kind = .byte ∨ s.kind = .plain))
    (h1 : rs < re) (h2 : re ≤ s.buf.size) (h3 : rs = 0 ∨ re = s.buf.size) :
    NonDefect (dropRange rs re s).1 := by
  rw [dropRange_fault s rs re h hk h1 h2 h3]; exact dropOutcome_nd _ _
theorem nd_dropRange_nofault (rs re : Nat) (s : Sys) (h : Inv s.buf) (hf : s.faults.drop = 0)
    (h1 : rs < re) (h2 : re ≤ s.buf.size) (h3 : rs = 0 ∨ re = s.buf.size) :
    NonDefect (dropRange rs re s).1 := by
  obtain ⟨s', e, _⟩ := dropRange_frame s rs re h hf h1 h2 h3; rw [e]; trivial

end CircBuf
