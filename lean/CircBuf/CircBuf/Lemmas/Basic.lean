import CircBuf.Model
import CircBuf.Lemmas.AddModSpec
set_option linter.unusedSimpArgs false
set_option linter.unusedVariables false
/-!
  Invariant, abstraction function and the basic evaluation lemmas.
-/
namespace CircBuf

/-- physical slot of logical position `i` in a buffer with front position `start` and capacity
`cap` (three plain numbers, so that it does not depend on the other fields of a state) -/
def phys (start cap i : Nat) : Nat := (start + i) % cap

/-- the representation invariant of `CircularBuffer` -/
structure Inv (b : CB) : Prop where
  size_le : b.size ≤ b.cap
  start_lt : b.start < b.cap ∨ (b.cap = 0 ∧ b.start = 0)
  cap_lt : b.cap < W
  live : ∀ i, i < b.size → (b.items (phys b.start b.cap i)).isSome = true

/-- the abstract sequence held by a buffer -/
def abs (b : CB) : List Elem :=
  (List.range b.size).filterMap (fun i => b.items (phys b.start b.cap i))

/-- logical read -/
def getL (b : CB) (i : Nat) : Cell := b.items (phys b.start b.cap i)

theorem phys_lt (start cap i : Nat) (h : 0 < cap) : phys start cap i < cap := Nat.mod_lt _ h

/-- either no wrap, or exactly one wrap -/
theorem phys_cases (start cap i : Nat) (hs : start < cap) (hi : i ≤ cap) :
    (start + i < cap ∧ phys start cap i = start + i) ∨
    (cap ≤ start + i ∧ phys start cap i = start + i - cap) := by
  unfold phys
  by_cases h : start + i < cap
  · left; exact ⟨h, Nat.mod_eq_of_lt h⟩
  · right
    refine ⟨by omega, ?_⟩
    rw [Nat.mod_eq_sub_mod (by omega)]
    exact Nat.mod_eq_of_lt (by omega)

theorem phys_inj (start cap i j : Nat) (hs : start < cap) (hi : i < cap) (hj : j < cap)
    (h : phys start cap i = phys start cap j) : i = j := by
  rcases phys_cases start cap i hs (by omega) with ⟨a1, a2⟩ | ⟨a1, a2⟩ <;>
  rcases phys_cases start cap j hs (by omega) with ⟨c1, c2⟩ | ⟨c1, c2⟩ <;> omega

/-! ### evaluation of the index helpers -/

theorem amod_run (x y m : Nat) (s : Sys) (hm : 0 < m) (hmW : m < W) (hx : x ≤ m) (hy : y ≤ m) :
    amod x y m s = (.ok (phys x m y), s) := by
  unfold amod phys; rw [addMod_spec x y m hm hmW hx hy]; rfl

theorem smod_run (x y m : Nat) (s : Sys) (hm : 0 < m) (hmW : m < W) (hx : x ≤ m) (hy : y ≤ m) :
    smod x y m s = (.ok (phys x m (m - y)), s) := by
  unfold smod phys; rw [subMod_spec x y m hm hmW hx hy]; rfl

end CircBuf
