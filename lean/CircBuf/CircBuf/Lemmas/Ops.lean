import CircBuf.Lemmas.Abs
import CircBuf.Spec
set_option linter.unusedSimpArgs false
set_option linter.unusedVariables false
/-!
  Per-operation refinement lemmas: each operation, run on any state satisfying the invariant,
  returns without panicking, touches only the buffer, re-establishes the invariant and changes the
  abstract sequence exactly as the specification says.
-/
namespace CircBuf

/-- `op` run in `s` returns `r` without panicking and touches only the buffer; the new buffer
satisfies the invariant, has the same capacity and holds `xs'`. -/
def Refines (op : M α) (s : Sys) (r : α) (xs' : List Elem) : Prop :=
  ∃ b', op s = (.ok r, { s with buf := b' }) ∧ Inv b' ∧ abs b' = xs' ∧ b'.cap = s.buf.cap

@[simp] theorem setCell_same (f : Nat → Cell) (i : Nat) (c : Cell) : setCell f i c i = c := by
  simp [setCell]
theorem setCell_ne (f : Nat → Cell) (i j : Nat) (c : Cell) (h : j ≠ i) : setCell f i c j = f j := by
  simp [setCell, h]

theorem Inv.start_lt' {b : CB} (h : Inv b) (hc : 0 < b.cap) : b.start < b.cap := by
  rcases h.start_lt with h1 | ⟨h1, _⟩ <;> omega

/-- how `Refines` is established: an explicit post-buffer plus its pointwise description -/
theorem refines_of (op : M α) (s : Sys) (r : α) (xs' : List Elem) (b' : CB)
    (hrun : op s = (.ok r, { s with buf := b' })) (hcap : b'.cap = s.buf.cap)
    (hW : s.buf.cap < W) (hlen : xs'.length = b'.size) (hsz : b'.size ≤ b'.cap)
    (hst : b'.start < b'.cap ∨ (b'.cap = 0 ∧ b'.start = 0))
    (h : ∀ i, (hi : i < xs'.length) → b'.items (phys b'.start b'.cap i) = some xs'[i]) :
    Refines op s r xs' := by
  obtain ⟨h1, h2⟩ := inv_abs_of b' xs' (hcap ▸ hW) hlen hsz hst h
  exact ⟨b', hrun, h1, h2, hcap⟩

/-! ### push_back -/

theorem pushBack_spec (s : Sys) (x : Elem) (h : Inv s.buf) :
    Refines (pushBack x) s (Spec.pushBack s.buf.cap (abs s.buf) x).2
      (Spec.pushBack s.buf.cap (abs s.buf) x).1 := by
  have hlen := abs_length s.buf h
  have hget := abs_getElem s.buf h
  by_cases hc : s.buf.cap = 0
  · -- zero capacity: the element comes straight back
    refine ⟨s.buf, ?_, h, ?_, rfl⟩
    · mrun [pushBack, hc, Spec.pushBack]
    · simp [Spec.pushBack, hc]
  have hcpos : 0 < s.buf.cap := by omega
  have hst := h.start_lt' hcpos
  obtain ⟨hsz, _, hW, hl⟩ := h
  by_cases hroom : s.buf.size < s.buf.cap
  · -- room left: append at the back
    have hp := phys_lt s.buf.start s.buf.cap s.buf.size hcpos
    simp only [Spec.pushBack, hc, if_false, hlen, hroom, if_true]
    apply refines_of _ _ _ _ ⟨s.buf.cap, s.buf.size + 1, s.buf.start,
      setCell s.buf.items (phys s.buf.start s.buf.cap s.buf.size) (some x)⟩
    · mrun [pushBack, incSize_run, backSlot_run, writeCell_run, Nat.add_sub_cancel]
    · rfl
    · exact hW
    · simp [hlen]
    · simp only; omega
    · exact Or.inl hst
    · intro i hi
      simp only [List.length_append, List.length_singleton, hlen] at hi
      simp only
      by_cases hi' : i = s.buf.size
      · subst hi'; simp [← hlen]
      · rw [setCell_ne _ _ _ _ (phys_ne _ _ _ _ hst (by omega) (by omega) hi'),
          List.getElem_append_left (by omega)]
        exact hget i (by omega)
  · -- full: overwrite the front element, advance the front position
    have hfull : s.buf.size = s.buf.cap := by omega
    have hne : abs s.buf ≠ [] := by
      intro h0; rw [h0] at hlen; simp at hlen; omega
    have he : s.buf.items s.buf.start = some ((abs s.buf)[0]'(by omega)) := by
      have := hget 0 (by omega)
      rwa [phys_zero _ _ hst] at this
    have hhead : (abs s.buf).head? = some ((abs s.buf)[0]'(by omega)) := by
      rw [List.head?_eq_getElem?]; exact List.getElem?_eq_getElem _
    simp only [Spec.pushBack, hc, if_false, hlen, hroom, hhead]
    apply refines_of _ _ _ _ ⟨s.buf.cap, s.buf.size, phys s.buf.start s.buf.cap 1,
      setCell s.buf.items s.buf.start (some x)⟩
    · mrun [pushBack, frontSlot_run, readInit_run _ _ _ _ he, writeCell_run, incStart_run]
    · rfl
    · exact hW
    · simp [hlen]; omega
    · exact hsz
    · exact Or.inl (phys_lt _ _ _ hcpos)
    · intro i hi
      simp only [List.length_append, List.length_tail, List.length_singleton, hlen] at hi
      simp only [phys_phys]
      by_cases hi' : i = s.buf.cap - 1
      · subst hi'
        have : 1 + (s.buf.cap - 1) = s.buf.cap := by omega
        rw [this, phys_cap _ _ hst, setCell_same,
          List.getElem_append_right (by simp [hlen]; omega)]
        simp
      · have hne' : phys s.buf.start s.buf.cap (1 + i) ≠ s.buf.start := by
          have := phys_ne s.buf.start s.buf.cap (1 + i) 0 hst (by omega) (by omega) (by omega)
          rwa [phys_zero _ _ hst] at this
        rw [setCell_ne _ _ _ _ hne', List.getElem_append_left (by simp [hlen]; omega)]
        rw [hget (1 + i) (by omega)]
        simp [List.getElem_tail, Nat.add_comm]


/-! ### try_push_back -/

theorem tryPushBack_spec (s : Sys) (x : Elem) (h : Inv s.buf) :
    Refines (tryPushBack x) s (Spec.tryPushBack s.buf.cap (abs s.buf) x).2
      (Spec.tryPushBack s.buf.cap (abs s.buf) x).1 := by
  have hlen := abs_length s.buf h
  have hget := abs_getElem s.buf h
  by_cases hc : s.buf.cap = 0
  · have : ¬ (s.buf.size < s.buf.cap) := by omega
    refine ⟨s.buf, ?_, h, ?_, rfl⟩
    · mrun [tryPushBack, hc, Spec.tryPushBack, hlen]
    · simp [Spec.tryPushBack, hc]
  have hcpos : 0 < s.buf.cap := by omega
  have hst := h.start_lt' hcpos
  obtain ⟨hsz, _, hW, hl⟩ := h
  by_cases hroom : s.buf.size < s.buf.cap
  · have hp := phys_lt s.buf.start s.buf.cap s.buf.size hcpos
    simp only [Spec.tryPushBack, hlen, hroom, if_true]
    apply refines_of _ _ _ _ ⟨s.buf.cap, s.buf.size + 1, s.buf.start,
      setCell s.buf.items (phys s.buf.start s.buf.cap s.buf.size) (some x)⟩
    · mrun [tryPushBack, incSize_run, backSlot_run, writeCell_run, Nat.add_sub_cancel]
    · rfl
    · exact hW
    · simp [hlen]
    · simp only; omega
    · exact Or.inl hst
    · intro i hi
      simp only [List.length_append, List.length_singleton, hlen] at hi
      simp only
      by_cases hi' : i = s.buf.size
      · subst hi'; simp [← hlen]
      · rw [setCell_ne _ _ _ _ (phys_ne _ _ _ _ hst (by omega) (by omega) hi'),
          List.getElem_append_left (by omega)]
        exact hget i (by omega)
  · simp only [Spec.tryPushBack, hlen, hroom, if_false]
    refine ⟨s.buf, ?_, ⟨hsz, Or.inl hst, hW, hl⟩, rfl, rfl⟩
    mrun [tryPushBack]

/-! ### push_front / try_push_front -/

/-- pointwise description of a buffer after an element was put in front of a non-full buffer -/
theorem prepend_pointwise (b : CB) (x : Elem) (h : Inv b) (hroom : b.size < b.cap) :
    ∀ i, (hi : i < (x :: abs b).length) →
      setCell b.items (phys b.start b.cap (b.cap - 1)) (some x)
        (phys (phys b.start b.cap (b.cap - 1)) b.cap i) = some (x :: abs b)[i] := by
  have hlen := abs_length b h
  have hget := abs_getElem b h
  have hst := h.start_lt' (by omega)
  intro i hi
  simp only [List.length_cons, hlen] at hi
  rw [phys_phys]
  cases i with
  | zero => simp
  | succ i =>
    rw [phys_pred_add _ _ _ (by omega) (by omega)]
    simp only [Nat.add_sub_cancel, List.getElem_cons_succ]
    rw [setCell_ne _ _ _ _ (phys_ne _ _ _ _ hst (by omega) (by omega) (by omega))]
    exact hget i (by omega)

theorem pushFront_spec (s : Sys) (x : Elem) (h : Inv s.buf) :
    Refines (pushFront x) s (Spec.pushFront s.buf.cap (abs s.buf) x).2
      (Spec.pushFront s.buf.cap (abs s.buf) x).1 := by
  have hlen := abs_length s.buf h
  have hget := abs_getElem s.buf h
  by_cases hc : s.buf.cap = 0
  · refine ⟨s.buf, ?_, h, ?_, rfl⟩
    · mrun [pushFront, hc, Spec.pushFront]
    · simp [Spec.pushFront, hc]
  have hcpos : 0 < s.buf.cap := by omega
  have hst := h.start_lt' hcpos
  have hI := h
  obtain ⟨hsz, _, hW, hl⟩ := h
  by_cases hroom : s.buf.size < s.buf.cap
  · have hp := phys_lt s.buf.start s.buf.cap (s.buf.cap - 1) hcpos
    simp only [Spec.pushFront, hc, if_false, hlen, hroom, if_true]
    apply refines_of _ _ _ _ ⟨s.buf.cap, s.buf.size + 1, phys s.buf.start s.buf.cap (s.buf.cap - 1),
      setCell s.buf.items (phys s.buf.start s.buf.cap (s.buf.cap - 1)) (some x)⟩
    · mrun [pushFront, incSize_run, decStart_run, frontSlot_run, writeCell_run]
    · rfl
    · exact hW
    · simp [hlen]
    · simp only; omega
    · exact Or.inl hp
    · exact prepend_pointwise s.buf x hI hroom
  · have hfull : s.buf.size = s.buf.cap := by omega
    have hp := phys_lt s.buf.start s.buf.cap (s.buf.cap - 1) hcpos
    have hne : abs s.buf ≠ [] := by
      intro h0; rw [h0] at hlen; simp at hlen; omega
    have he : s.buf.items (phys s.buf.start s.buf.cap (s.buf.size - 1))
        = some ((abs s.buf)[s.buf.size - 1]'(by omega)) := hget _ (by omega)
    have hlast := getLast?_eq_of_length (abs s.buf) s.buf.size hlen (by omega)
    have hp' := phys_lt s.buf.start s.buf.cap (s.buf.size - 1) hcpos
    simp only [Spec.pushFront, hc, if_false, hlen, hroom, hlast]
    apply refines_of _ _ _ _ ⟨s.buf.cap, s.buf.size, phys s.buf.start s.buf.cap (s.buf.cap - 1),
      setCell s.buf.items (phys s.buf.start s.buf.cap (s.buf.size - 1)) (some x)⟩
    · mrun [pushFront, backSlot_run, readInit_run _ _ _ _ he, writeCell_run, decStart_run]
    · rfl
    · exact hW
    · simp [hlen]; omega
    · exact hsz
    · exact Or.inl hp
    · intro i hi
      simp only [List.length_cons, List.length_dropLast, hlen] at hi
      simp only [phys_phys, hfull]
      cases i with
      | zero => simp
      | succ i =>
        rw [phys_pred_add _ _ _ (by omega) (by omega)]
        simp only [Nat.add_sub_cancel, List.getElem_cons_succ, List.getElem_dropLast]
        rw [setCell_ne _ _ _ _ (phys_ne _ _ _ _ hst (by omega) (by omega) (by omega))]
        exact hget i (by omega)

theorem tryPushFront_spec (s : Sys) (x : Elem) (h : Inv s.buf) :
    Refines (tryPushFront x) s (Spec.tryPushFront s.buf.cap (abs s.buf) x).2
      (Spec.tryPushFront s.buf.cap (abs s.buf) x).1 := by
  have hlen := abs_length s.buf h
  by_cases hc : s.buf.cap = 0
  · have : ¬ (s.buf.size < s.buf.cap) := by omega
    refine ⟨s.buf, ?_, h, ?_, rfl⟩
    · mrun [tryPushFront, hc, Spec.tryPushFront, hlen]
    · simp [Spec.tryPushFront, hc]
  have hcpos : 0 < s.buf.cap := by omega
  have hst := h.start_lt' hcpos
  have hI := h
  obtain ⟨hsz, _, hW, hl⟩ := h
  by_cases hroom : s.buf.size < s.buf.cap
  · have hp := phys_lt s.buf.start s.buf.cap (s.buf.cap - 1) hcpos
    simp only [Spec.tryPushFront, hlen, hroom, if_true]
    apply refines_of _ _ _ _ ⟨s.buf.cap, s.buf.size + 1, phys s.buf.start s.buf.cap (s.buf.cap - 1),
      setCell s.buf.items (phys s.buf.start s.buf.cap (s.buf.cap - 1)) (some x)⟩
    · mrun [tryPushFront, incSize_run, decStart_run, frontSlot_run, writeCell_run]
    · rfl
    · exact hW
    · simp [hlen]
    · simp only; omega
    · exact Or.inl hp
    · exact prepend_pointwise s.buf x hI hroom
  · simp only [Spec.tryPushFront, hlen, hroom, if_false]
    refine ⟨s.buf, ?_, hI, rfl, rfl⟩
    mrun [tryPushFront]

/-! ### pop_back / pop_front -/

theorem popBack_spec (s : Sys) (h : Inv s.buf) :
    Refines popBack s (Spec.popBack (abs s.buf)).2 (Spec.popBack (abs s.buf)).1 := by
  have hlen := abs_length s.buf h
  have hget := abs_getElem s.buf h
  by_cases hz : s.buf.cap = 0 ∨ s.buf.size = 0
  · have h0 : abs s.buf = [] := by
      apply List.eq_nil_of_length_eq_zero; have := h.size_le; omega
    refine ⟨s.buf, ?_, h, ?_, rfl⟩
    · mrun [popBack, hz, Spec.popBack, h0]; rfl
    · simp [Spec.popBack, h0]
  have hcpos : 0 < s.buf.cap := by omega
  have hspos : 0 < s.buf.size := by omega
  have hst := h.start_lt' hcpos
  obtain ⟨hsz, _, hW, hl⟩ := h
  have he : s.buf.items (phys s.buf.start s.buf.cap (s.buf.size - 1))
      = some ((abs s.buf)[s.buf.size - 1]'(by omega)) := hget _ (by omega)
  have hlast := getLast?_eq_of_length (abs s.buf) s.buf.size hlen (by omega)
  have hp' := phys_lt s.buf.start s.buf.cap (s.buf.size - 1) hcpos
  simp only [Spec.popBack, hlast]
  apply refines_of _ _ _ _ ⟨s.buf.cap, s.buf.size - 1, s.buf.start, s.buf.items⟩
  · mrun [popBack, hz, backSlot_run, readInit_run _ _ _ _ he, decSize_run]
  · rfl
  · exact hW
  · simp [hlen]
  · simp only; omega
  · exact Or.inl hst
  · intro i hi
    simp only [List.length_dropLast, hlen] at hi
    simp only [List.getElem_dropLast]
    exact hget i (by omega)

theorem popFront_spec (s : Sys) (h : Inv s.buf) :
    Refines popFront s (Spec.popFront (abs s.buf)).2 (Spec.popFront (abs s.buf)).1 := by
  have hlen := abs_length s.buf h
  have hget := abs_getElem s.buf h
  by_cases hz : s.buf.cap = 0 ∨ s.buf.size = 0
  · have h0 : abs s.buf = [] := by
      apply List.eq_nil_of_length_eq_zero; have := h.size_le; omega
    refine ⟨s.buf, ?_, h, ?_, rfl⟩
    · mrun [popFront, hz, Spec.popFront, h0]; rfl
    · simp [Spec.popFront, h0]
  have hcpos : 0 < s.buf.cap := by omega
  have hspos : 0 < s.buf.size := by omega
  have hst := h.start_lt' hcpos
  obtain ⟨hsz, _, hW, hl⟩ := h
  have he : s.buf.items s.buf.start = some ((abs s.buf)[0]'(by omega)) := by
    have := hget 0 (by omega)
    rwa [phys_zero _ _ hst] at this
  have hhead : (abs s.buf).head? = some ((abs s.buf)[0]'(by omega)) := by
    rw [List.head?_eq_getElem?]; exact List.getElem?_eq_getElem _
  simp only [Spec.popFront, hhead]
  apply refines_of _ _ _ _ ⟨s.buf.cap, s.buf.size - 1, phys s.buf.start s.buf.cap 1, s.buf.items⟩
  · mrun [popFront, hz, frontSlot_run, readInit_run _ _ _ _ he, decSize_run, incStart_run]
  · rfl
  · exact hW
  · simp [hlen]
  · simp only; omega
  · exact Or.inl (phys_lt _ _ _ hcpos)
  · intro i hi
    simp only [List.length_tail, hlen] at hi
    simp only [phys_phys, List.getElem_tail]
    rw [hget (1 + i) (by omega)]
    simp [Nat.add_comm]

end CircBuf
