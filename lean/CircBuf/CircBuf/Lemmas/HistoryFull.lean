import CircBuf.Lemmas.History
import CircBuf.Lemmas.Fill
import CircBuf.Lemmas.ExtendSlice2
set_option linter.unusedSimpArgs false
set_option linter.unusedVariables false
/-!
  Histories over the **whole mutator API**: besides the fourteen core operations of `History.lean`,
  `extend` (an iterator of `m` new elements), `extend_from_slice`, `fill`, `fill_spare`, `fill_with`,
  `fill_spare_with` and `clone_from` — the operations that call user code (`Clone`, a closure, an
  iterator).  The abstract state is the sequence together with the counter from which new element
  identities are drawn.  Panic-free user code (all fault counters zero), identity-tracked elements.
-/
namespace CircBuf

inductive OpX where
  | core (op : Op)
  | extend (m : Nat)
  | extendFromSlice (l : List Elem)
  | fill (v : Elem)
  | fillSpare (v : Elem)
  | fillWith
  | fillSpareWith
  | cloneFrom (l : List Elem)

/-- one step of a history on the model -/
def runOpX : OpX → M Out
  | .core op => runOp op
  | .extend m => do extendIter m; pure .unit
  | .extendFromSlice l => do extendFromSlice l; pure .unit
  | .fill v => do fill v; pure .unit
  | .fillSpare v => do fillSpare v; pure .unit
  | .fillWith => do fillWith; pure .unit
  | .fillSpareWith => do fillSpareWith; pure .unit
  | .cloneFrom l => do cloneFrom l; pure .unit

/-- the same step on the abstract deque: new contents, new identity counter, output -/
def Spec.stepX (cap : Nat) (xs : List Elem) (next : Nat) : OpX → List Elem × Nat × Out
  | .core op => ((Spec.step cap xs op).1, next, (Spec.step cap xs op).2)
  | .extend m => ((Spec.pushMany cap xs (newElems next m)).1, next + m, .unit)
  | .extendFromSlice l =>
      (Spec.extend cap xs (cloneList .tracked next (l.drop (l.length - cap))),
       next + (l.drop (l.length - cap)).length, .unit)
  | .fill v =>
      (if cap = 0 then [] else cloneList .tracked next (List.replicate (cap - 1) v) ++ [v],
       next + (if cap = 0 then 0 else cap - 1), .unit)
  | .fillSpare v =>
      (if xs.length = cap then xs
       else xs ++ cloneList .tracked next (List.replicate (cap - 1 - xs.length) v) ++ [v],
       next + (if xs.length = cap then 0 else cap - 1 - xs.length), .unit)
  | .fillWith => (newElems next cap, next + cap, .unit)
  | .fillSpareWith => (xs ++ newElems next (cap - xs.length), next + (cap - xs.length), .unit)
  | .cloneFrom l => (Spec.lastN cap (cloneList .tracked next l), next + l.length, .unit)

/-- what the full-API history theorem carries from step to step -/
structure GoodX (cap : Nat) (s : Sys) : Prop where
  inv : Inv s.buf
  cap_eq : s.buf.cap = cap
  nofault : s.faults = {}
  tracked : s.kind = .tracked

theorem GoodX.good {cap : Nat} {s : Sys} (g : GoodX cap s) : Good cap s :=
  ⟨g.inv, g.cap_eq, by rw [g.nofault]⟩

theorem cloneCount_tracked (n : Nat) : cloneCount .tracked n = n := by simp [cloneCount]

theorem stepX_refines (cap : Nat) (s : Sys) (op : OpX) (g : GoodX cap s) :
    ∃ s', runOpX op s = (.ok (Spec.stepX cap (abs s.buf) s.next op).2.2, s') ∧ GoodX cap s' ∧
      abs s'.buf = (Spec.stepX cap (abs s.buf) s.next op).1 ∧
      s'.next = (Spec.stepX cap (abs s.buf) s.next op).2.1 := by
  have h := g.inv
  have hc := g.cap_eq
  have hf := g.nofault
  have hk := g.tracked
  have hd : s.faults.drop = 0 := by rw [hf]
  have hcl : s.faults.clone = 0 := by rw [hf]
  have hca : s.faults.call = 0 := by rw [hf]
  have hnx : s.faults.next = 0 := by rw [hf]
  have hlen := abs_length s.buf h
  -- from a `Runs` statement to the step statement
  have fromRuns : ∀ (m : M Unit) (xs' : List Elem) (evs : List Event) (k : Nat),
      Runs m s () xs' evs k → ∃ s', (m >>= fun _ => pure Out.unit) s = (.ok Out.unit, s') ∧ GoodX cap s' ∧
        abs s'.buf = xs' ∧ s'.next = s.next + k := by
    intro m xs' evs k ⟨s', e, p⟩
    exact ⟨s', by simp only [bind_run, e, pure_run],
      ⟨p.inv, by rw [p.cap_eq, hc], by rw [p.faults_eq, hf], by rw [p.kind_eq, hk]⟩, p.abs_eq, p.next_eq⟩
  cases op with
  | core op =>
    obtain ⟨s', e, g', a, _, k, n, f⟩ := step_refines cap s op g.good
    exact ⟨s', by simpa [runOpX, Spec.stepX] using e,
      ⟨g'.inv, g'.cap_eq, by rw [f, hf], by rw [k, hk]⟩, by simpa [Spec.stepX] using a, by simpa [Spec.stepX] using n⟩
  | extend m =>
    simpa [runOpX, Spec.stepX, hc] using fromRuns _ _ _ _ (extendIter_runs m s h hd hnx hk)
  | extendFromSlice l =>
    obtain ⟨evs, r⟩ := extendFromSlice_runs s l h hd hcl
    simpa [runOpX, Spec.stepX, hc, hk, cloneCount_tracked] using fromRuns _ _ _ _ r
  | fill v =>
    obtain ⟨evs, r⟩ := fill_runs s v h hd hcl
    have := fromRuns _ _ _ _ r
    by_cases h0 : cap = 0
    · simpa [runOpX, Spec.stepX, hc, hk, h0] using this
    · simpa [runOpX, Spec.stepX, hc, hk, h0, cloneCount_tracked] using this
  | fillSpare v =>
    obtain ⟨evs, r⟩ := fillSpare_runs s v h hd hcl
    have := fromRuns _ _ _ _ r
    by_cases hfull : s.buf.size = cap
    · simpa [runOpX, Spec.stepX, hc, hk, hlen, hfull] using this
    · simpa [runOpX, Spec.stepX, hc, hk, hlen, hfull, cloneCount_tracked] using this
  | fillWith =>
    simpa [runOpX, Spec.stepX, hc] using fromRuns _ _ _ _ (fillWith_runs s h hd hca hk)
  | fillSpareWith =>
    simpa [runOpX, Spec.stepX, hc, hlen] using fromRuns _ _ _ _ (fillSpareWith_runs s h hd hca hk)
  | cloneFrom l =>
    obtain ⟨evs, r⟩ := cloneFrom_runs l s h hd hcl
    simpa [runOpX, Spec.stepX, hc, hk, cloneCount_tracked] using fromRuns _ _ _ _ r

/-- run a whole history over the full API, collecting the outputs -/
def runOpsX : List OpX → Sys → List Out × Sys
  | [], s => ([], s)
  | op :: rest, s =>
    match runOpX op s with
    | (.ok o, s') => let (os, s'') := runOpsX rest s'; (o :: os, s'')
    | (.error _, s') => ([], s')

def Spec.runOpsX (cap : Nat) : List OpX → List Elem → Nat → List Out × List Elem
  | [], xs, _ => ([], xs)
  | op :: rest, xs, next =>
    let st := Spec.stepX cap xs next op
    let r := Spec.runOpsX cap rest st.1 st.2.1
    (st.2.2 :: r.1, r.2)

/-- **every finite history over the whole mutator API** (panic-free user code) produces the outputs and
the final contents of the same history on the abstract deque, and ends in a good state -/
theorem historyX_refines (cap : Nat) (ops : List OpX) (s : Sys) (g : GoodX cap s) :
    (runOpsX ops s).1 = (Spec.runOpsX cap ops (abs s.buf) s.next).1 ∧
    abs (runOpsX ops s).2.buf = (Spec.runOpsX cap ops (abs s.buf) s.next).2 ∧ GoodX cap (runOpsX ops s).2 := by
  induction ops generalizing s with
  | nil => exact ⟨rfl, rfl, g⟩
  | cons op rest ih =>
    obtain ⟨s', e, g', a, n⟩ := stepX_refines cap s op g
    obtain ⟨h1, h2, h3⟩ := ih s' g'
    simp only [runOpsX, e, Spec.runOpsX]
    rw [a, n] at h1 h2
    exact ⟨by rw [h1], h2, h3⟩

end CircBuf
