import Lean
import CircBuf.Generated.Core
import CircBuf.Lemmas.Loops
set_option linter.unusedSimpArgs false
/-!
  The tie between the *translated* core (`Generated/Core.lean`, regenerated from `/repo/src/lib.rs` by
  `/verif/translate/t3_core.py` on every run) and the hand-written model (`Model.lean`) the theorems
  of `Props/` are stated about: for every function of the translated fragment, the generated
  definition and the model's definition are the same function `Sys → Except Panic α × Sys`.

  Where the source has a `debug_assert!` that the model's (shared) helper omits — the `&self` variants
  `front_maybe_uninit` / `back_maybe_uninit` also assert `size <= N` — the equality is stated on the
  states satisfying that assertion (`s.buf.size ≤ s.buf.cap`, a conjunct of the representation
  invariant `Inv` under which every property theorem is stated).

  The proofs do not compare text: both sides are evaluated symbolically on an arbitrary state
  (`tie`), so a rewrite of the source that computes the same thing keeps them true.
-/
open Lean Elab Command in
/-- `maybe <declaration>`: elaborates the declaration; when that fails (an error, a time-out), nothing
is added to the environment and the failure is demoted to a warning, so that the rest of the module —
and the modules importing it — still check.  A theorem declared this way either exists, fully
checked by the kernel, or does not exist (the axiom audit of `/verif/check.py` then reports it
missing): a tie that no longer holds for one function costs the theorems that rest on that function,
not the ones that happen to live in the same file. -/
elab "maybe " cmd:command : command => do
  let saved ← get
  let before := saved.messages
  modify fun st => { st with messages := {} }
  let failed ← try
      withScope (fun sc => { sc with opts := Elab.async.set sc.opts false }) (elabCommand cmd)
      pure (← get).messages.hasErrors
    catch _ => pure true
  if failed then
    let msgs := (← get).messages
    set saved
    let txt ← msgs.toList.filterMapM fun m => do
      if m.severity == .error then return some (← m.data.toString) else return none
    logWarning m!"maybe: declaration skipped — {(txt.headD "").take 300}"
  else
    modify fun st => { st with messages := before ++ st.messages }

namespace CircBuf
section
variable {α β : Type}
theorem dassert_run (c : Bool) (msg : String) (s : Sys) :
    dassert c msg s = if c then (.ok (), s) else (.error (.assert ""), s) := by
  cases c <;> rfl
theorem liftE_run (e : Except Panic α) (s : Sys) :
    liftE e s = match e with | .ok a => (.ok a, s) | .error p => (.error p, s) := rfl
theorem dassert_bind (c : Bool) (msg : String) (f : Unit → M β) (s : Sys) :
    (dassert c msg >>= f) s = if c then f () s else (.error (.assert ""), s) := by
  cases c <;> rfl
theorem liftE_bind (e : Except Panic α) (f : α → M β) (s : Sys) :
    (liftE e >>= f) s = match e with | .ok a => f a s | .error p => (.error p, s) := by
  cases e <;> rfl
theorem getBuf_bind (f : CB → M β) (s : Sys) : (getBuf >>= f) s = f s.buf s := rfl
theorem setBuf_bind (b : CB) (f : Unit → M β) (s : Sys) :
    (setBuf b >>= f) s = f () { s with buf := b } := rfl
theorem pure_bind_run (a : α) (f : α → M β) (s : Sys) : (pure a >>= f) s = f a s := rfl
theorem raise_bind (p : Panic) (f : α → M β) (s : Sys) : ((raise p : M α) >>= f) s = (.error p, s) := rfl
theorem ite_bind (c : Prop) [Decidable c] (x y : M α) (f : α → M β) (s : Sys) :
    ((if c then x else y) >>= f) s = if c then (x >>= f) s else (y >>= f) s := by
  split <;> rfl
theorem liftE_ite_bind (c : Prop) [Decidable c] (v : α) (p : Panic) (f : α → M β) (s : Sys) :
    (liftE (if c then .ok v else .error p) >>= f) s = if c then f v s else (.error p, s) := by
  split <;> rfl
theorem liftE_ite_run (c : Prop) [Decidable c] (v : α) (p : Panic) (s : Sys) :
    liftE (if c then .ok v else .error p) s = if c then (.ok v, s) else (.error p, s) := by
  split <;> rfl
theorem liftE_ite (c : Prop) [Decidable c] (x y : Except Panic α) :
    liftE (if c then x else y) = if c then liftE x else liftE y := by
  split <;> rfl
theorem liftE_ok_eq (a : α) : liftE (Except.ok a) = (pure a : M α) := rfl
theorem liftE_pure_eq (a : α) : liftE (pure a : Except Panic α) = (pure a : M α) := rfl
theorem liftE_error_eq (p : Panic) : liftE (Except.error p : Except Panic α) = (raise p : M α) := rfl
theorem liftE_bind_dist (e : Except Panic α) (f : α → Except Panic β) :
    liftE (e >>= f) = liftE e >>= fun a => liftE (f a) := by
  cases e <;> rfl
theorem liftE_dassertE (c : Bool) (msg : String) : liftE (dassertE c msg) = dassert c msg := by
  cases c <;> rfl
theorem checkIdx_bind (i : Nat) (f : Unit → M β) (s : Sys) :
    (checkIdx i >>= f) s = if i < s.buf.cap then f () s else (.error .oob, s) := by
  simp only [checkIdx, bind_assoc_run, getBuf_bind]; split <;> rfl
theorem checkIdx_run' (i : Nat) (s : Sys) :
    checkIdx i s = if i < s.buf.cap then (.ok (), s) else (.error .oob, s) := by
  simp only [checkIdx, getBuf_bind]; split <;> rfl
theorem readInit_bind (i : Nat) (f : Elem → M β) (s : Sys) :
    (readInit i >>= f) s = if i < s.buf.cap then
        (match s.buf.items i with | some e => f e s | none => (.error .ub, s))
      else (.error .oob, s) := by
  simp only [readInit, bind_assoc_run, checkIdx_bind, getBuf_bind]
  split
  · cases s.buf.items i <;> rfl
  · rfl
theorem readInit_run' (i : Nat) (s : Sys) :
    readInit i s = if i < s.buf.cap then
        (match s.buf.items i with | some e => (.ok e, s) | none => (.error .ub, s))
      else (.error .oob, s) := by
  simp only [readInit, checkIdx_bind, getBuf_bind]
  split
  · cases s.buf.items i <;> rfl
  · rfl
theorem writeCell_bind (i : Nat) (e : Elem) (f : Unit → M β) (s : Sys) :
    (writeCell i e >>= f) s = if i < s.buf.cap then
        f () { s with buf := { s.buf with items := setCell s.buf.items i (some e) } }
      else (.error .oob, s) := by
  simp only [writeCell, bind_assoc_run, checkIdx_bind, getBuf_bind]
  split <;> rfl
theorem writeCell_run' (i : Nat) (e : Elem) (s : Sys) :
    writeCell i e s = if i < s.buf.cap then
        (.ok (), { s with buf := { s.buf with items := setCell s.buf.items i (some e) } })
      else (.error .oob, s) := by
  simp only [writeCell, checkIdx_bind, getBuf_bind]
  split <;> rfl
/-- reading the same slot twice in a row (`assume_init_mut()` followed by `mem::replace`) is reading it once -/
theorem readInit_twice (i : Nat) (g : Elem → Elem → M β) :
    (readInit i >>= fun a => readInit i >>= fun b => g a b) = (readInit i >>= fun a => g a a) := by
  funext s
  simp only [readInit_bind]
  split
  · split <;> simp_all
  · rfl
theorem dropInPlace_nil : dropInPlace [] = (pure () : M Unit) := rfl
theorem range'_zero_len (a : Nat) : List.range' a 0 = [] := rfl
theorem ite_run (c : Prop) [Decidable c] (x y : M α) (s : Sys) :
    (if c then x else y) s = if c then x s else y s := by
  split <;> rfl
end

/-- panics that only a defect of the crate can produce (arithmetic overflow, out-of-bounds access, a
read of an empty slot, a failed `debug_assert!`, a panic while panicking) — as opposed to the panics
of user code and the documented ones -/
def Panic.defect : Panic → Bool
  | .user _ => false
  | .doc _ => false
  | _ => true

/-- the run ended normally, or with a user / documented panic -/
def NonDefect {α : Type} (r : Except Panic α) : Prop :=
  match r with
  | .ok _ => True
  | .error p => p.defect = false

theorem NonDefect.ok {α : Type} (a : α) : NonDefect (.ok a : Except Panic α) := trivial
theorem nd_of_eq {α : Type} {m : M α} {s : Sys} {r : Except Panic α} {s' : Sys}
    (e : m s = (r, s')) (hr : NonDefect r) : NonDefect (m s).1 := by rw [e]; exact hr

/-- if a sequence of two steps did not end in a defect, neither did the first step -/
theorem nd_of_bind {α β : Type} (m : M α) (f : α → M β) (s : Sys) (h : NonDefect ((m >>= f) s).1) :
    NonDefect (m s).1 := by
  simp only [bind_run] at h
  cases hm : m s with
  | mk r s' =>
    cases r with
    | ok a => trivial
    | error p => rw [hm] at h; exact h

section tactics
open Lean Elab Tactic Meta

/-- case split on the condition of the first `if … then … else` of the goal (outermost first) and
rewrite with it.  (`split` runs a full `simp` pass over the goal for every branch and gives up on the
larger bodies; this does one `by_cases`.) -/
elab "ifsplit1" : tactic => withMainContext do
  let g ← getMainGoal
  let t ← instantiateMVars (← g.getType)
  -- an `if` whose condition does not itself contain an `if` (innermost conditions first: the outer ones
  -- then become arithmetic facts `omega` understands)
  let hasIte (e : Expr) : Bool := (e.find? (fun x => x.isAppOfArity ``ite 5)).isSome
  let some c := t.find? (fun e => e.isAppOfArity ``ite 5 && !(e.getArg! 1).hasLooseBVars && !hasIte (e.getArg! 1))
    | throwError "ifsplit1: no if-then-else in the goal"
  let cond := c.getArg! 1
  let (s1, s2) ← g.byCases cond `hif
  let h := mkIdent `hif
  -- the condition is rewritten as a proposition (`c = True` / `c = False`), never used as an equation from
  -- left to right: `start = start + 0` would rewrite for ever
  let simpsetPos ← `(tactic| try simp only [eq_true $h, if_true, if_false, ite_true, ite_false, not_true_eq_false,
        not_false_eq_true, true_and, and_true, false_and, and_false, true_or, or_true, false_or, or_false,
        decide_true, decide_false, Bool.false_eq_true])
  let simpsetNeg ← `(tactic| try simp only [eq_false $h, if_true, if_false, ite_true, ite_false, not_true_eq_false,
        not_false_eq_true, true_and, and_true, false_and, and_false, true_or, or_true, false_or, or_false,
        decide_true, decide_false, Bool.false_eq_true])
  let tacPos ← `(tactic| first
    | (exfalso; omega)          -- a branch the arithmetic facts already exclude
    | ((try simp only [if_pos $h]); $simpsetPos))
  let tacNeg ← `(tactic| first
    | (exfalso; omega)
    | ((try simp only [if_neg $h]); $simpsetNeg))
  let gs1 ← evalTacticAt tacPos s1.mvarId
  let gs2 ← evalTacticAt tacNeg s2.mvarId
  -- progress check: the condition must be gone from the `if`s of the new goals (else `repeat'` would loop)
  for g' in gs1 ++ gs2 do
    let t' ← instantiateMVars (← g'.getType)
    if (t'.find? (fun e => e.isAppOfArity ``ite 5 && e.getArg! 1 == cond)).isSome then
      throwError "ifsplit1: the condition could not be eliminated"
  replaceMainGoal (gs1 ++ gs2)

/-- case split on the first scrutinee of the goal that is a checked arithmetic step (`add_mod`,
`sub_mod`, `+`, `-`, …: ok / panic) or the content of a slot (`some` / `none`) -/
elab "esplit1" : tactic => withMainContext do
  let g ← getMainGoal
  let t ← instantiateMVars (← g.getType)
  let isTarget (e : Expr) : Bool :=
    !e.hasLooseBVars &&
      (e.isAppOfArity ``CircBuf.addMod 3 || e.isAppOfArity ``CircBuf.subMod 3 ||
       e.isAppOfArity ``CircBuf.CB.items 2)
  let some e := t.find? isTarget | throwError "esplit1: nothing to split on"
  let (xs, g1) ← g.generalize #[{ expr := e }]
  let subgoals ← g1.cases xs[0]!
  let tac ← `(tactic| try simp only [])
  let mut out := []
  for sg in subgoals do
    out := out ++ (← evalTacticAt tac sg.mvarId)
  for g' in out do
    let t' ← instantiateMVars (← g'.getType)
    if (t'.find? (fun x => x == e)).isSome then
      throwError "esplit1: the scrutinee could not be eliminated"
  replaceMainGoal out

/-- two reads `b.items t₁`, `b.items t₂` of the goal whose indices `omega` proves equal are made the same
term (two bodies may compute one slot in two ways — `start + (size - 1)` and `start + (cap - 1)` on a
full buffer); otherwise the case analysis would treat them as unrelated slots -/
elab "itemsUnify" : tactic => withMainContext do
  let g ← getMainGoal
  let t ← instantiateMVars (← g.getType)
  -- gather every read `b.items t` of the goal
  let found ← IO.mkRef (#[] : Array Expr)
  t.forEach fun e => do
    if e.isAppOfArity ``CircBuf.CB.items 2 && !e.hasLooseBVars then
      found.modify fun acc => if acc.contains e then acc else acc.push e
  let reads ← found.get
  for i in [0:reads.size] do
    for j in [i+1:reads.size] do
      let a := reads[i]!
      let b := reads[j]!
      if a.getArg! 0 != b.getArg! 0 then continue
      let ia := a.getArg! 1
      let ib := b.getArg! 1
      if ia == ib then continue
      let eqT ← mkEq ib ia
      let m ← mkFreshExprMVar eqT
      let ok ← try
          let gs ← evalTacticAt (← `(tactic| omega)) m.mvarId!
          pure gs.isEmpty
        catch _ => pure false
      if ok then
        let r ← g.rewrite (← g.getType) m
        let g' ← g.replaceTargetEq r.eNew r.eqProof
        replaceMainGoal (g' :: r.mvarIds)
        return
  throwError "itemsUnify: nothing to unify"

/-- two `min` expressions of the goal that `omega` proves equal are made the same term (`a.min(b).min(c)`
against `c.min(b).min(a)`); otherwise what is computed from them — a pointer advanced by that amount — would be
treated as unrelated on the two sides -/
elab "minUnify" : tactic => withMainContext do
  let g ← getMainGoal
  let t ← instantiateMVars (← g.getType)
  let found ← IO.mkRef (#[] : Array Expr)
  t.forEach fun e => do
    if e.isAppOfArity ``Min.min 4 && !e.hasLooseBVars then
      found.modify fun acc => if acc.contains e then acc else acc.push e
  let terms ← found.get
  let natT := mkConst ``Nat
  for i in [0:terms.size] do
    for j in [i+1:terms.size] do
      let a := terms[i]!
      let b := terms[j]!
      if a == b then continue
      if !(← isDefEq (← inferType a) natT) then continue
      -- the larger term is rewritten into the other one only if it does not contain it
      if (b.find? (· == a)).isSome || (a.find? (· == b)).isSome then continue
      let eqT ← mkEq b a
      let m ← mkFreshExprMVar eqT
      let ok ← try
          let gs ← evalTacticAt (← `(tactic| omega)) m.mvarId!
          pure gs.isEmpty
        catch _ => pure false
      if ok then
        let r ← g.rewrite (← g.getType) m
        let g' ← g.replaceTargetEq r.eNew r.eqProof
        replaceMainGoal (g' :: r.mvarIds)
        return
  throwError "minUnify: nothing to unify"

end tactics

/-- evaluate both sides on an arbitrary state down to the primitive steps, then compare case by case -/
syntax "tie" "[" Lean.Parser.Tactic.simpLemma,* "]" : tactic
macro_rules
  | `(tactic| tie [$ls,*]) =>
  `(tactic| ((try simp only [$ls,*, readInit_twice])
     <;> simp only [$ls,*, liftE_ite, liftE_ok_eq, liftE_pure_eq, liftE_error_eq, liftE_bind_dist,
       liftE_dassertE, bind_assoc_run, dassert_bind, getBuf_bind, setBuf_bind,
       pure_bind_run, raise_bind, ite_bind, ite_run, dassert_run, getBuf_run, setBuf_run,
       pure_run, raise_run, amod, smod, setStart, setSize, setItems, checkIdx_bind, checkIdx_run',
       readInit_bind, readInit_run', writeCell_bind, writeCell_run', checkRange, View.sub, View.splitAt, View.all, View.empty, checkedSub,
       uadd, usub, umul, umod, View.slots, Nat.zero_add, Nat.add_zero, Nat.sub_zero, range'_zero_len, dropInPlace_nil, Nat.zero_le, true_and]
     <;> (try simp only [liftE_bind, liftE_run, bind_assoc_run, dassert_bind, getBuf_bind, setBuf_bind,
       pure_bind_run, raise_bind, ite_bind, ite_run, dassert_run, getBuf_run, setBuf_run, pure_run, raise_run,
       checkIdx_bind, checkIdx_run', readInit_bind, readInit_run', writeCell_bind, writeCell_run',
       decide_eq_true_eq, Nat.not_lt, Nat.not_le, range'_zero_len, dropInPlace_nil])
     <;> (repeat' (first | rfl | (dsimp only; done) | minUnify | ifsplit1 | esplit1 | (simp only [bind_assoc_run, ite_bind, ite_run, raise_bind, pure_bind_run, pure_run, raise_run, dassert_bind, dassert_run, getBuf_bind, getBuf_run, setBuf_bind, setBuf_run, liftE_bind, liftE_run]) | split)) <;> (try subst_vars) <;> (try simp_all) <;> (try omega)))


/-- the same with Lean's own `split` only -/
syntax "tieS" "[" Lean.Parser.Tactic.simpLemma,* "]" : tactic
macro_rules
  | `(tactic| tieS [$ls,*]) =>
  `(tactic| ((try simp only [$ls,*, readInit_twice])
     <;> simp only [$ls,*, liftE_ite, liftE_ok_eq, liftE_pure_eq, liftE_error_eq, liftE_bind_dist,
       liftE_dassertE, bind_assoc_run, dassert_bind, getBuf_bind, setBuf_bind,
       pure_bind_run, raise_bind, ite_bind, ite_run, dassert_run, getBuf_run, setBuf_run,
       pure_run, raise_run, amod, smod, setStart, setSize, setItems, checkIdx_bind, checkIdx_run',
       readInit_bind, readInit_run', writeCell_bind, writeCell_run', checkRange, View.sub, View.splitAt, View.all, View.empty, checkedSub,
       uadd, usub, umul, umod, View.slots, Nat.zero_add, Nat.add_zero, Nat.sub_zero, range'_zero_len, dropInPlace_nil, Nat.zero_le, true_and]
     <;> (try simp only [liftE_bind, liftE_run, bind_assoc_run, dassert_bind, getBuf_bind, setBuf_bind,
       pure_bind_run, raise_bind, ite_bind, ite_run, dassert_run, getBuf_run, setBuf_run, pure_run, raise_run,
       checkIdx_bind, checkIdx_run', readInit_bind, readInit_run', writeCell_bind, writeCell_run',
       decide_eq_true_eq, Nat.not_lt, Nat.not_le, range'_zero_len, dropInPlace_nil])
     <;> (repeat' split) <;> (try subst_vars) <;> (try simp_all) <;> (try omega)))


theorem uadd_ok' (x y : Nat) (h : x + y < W) : uadd x y = .ok (x + y) := by simp [uadd, h]
theorem usub_ok' (x y : Nat) (h : y ≤ x) : usub x y = .ok (x - y) := by simp [usub, h]

/-- `% m` on `[0, 2m]` without `%` (so that `omega` can finish) -/
theorem mod_small (z m : Nat) (hm : 0 < m) (hz : z ≤ 2 * m) :
    z % m = if z < m then z else if z < 2 * m then z - m else 0 := by
  split
  · exact Nat.mod_eq_of_lt (by assumption)
  · split
    · rw [Nat.mod_eq_sub_mod (by omega)]; exact Nat.mod_eq_of_lt (by omega)
    · have : z = 2 * m := by omega
      subst this; simp
theorem addMod_ite (x y m : Nat) (hm : 0 < m) (hmW : m < W) (hx : x ≤ m) (hy : y ≤ m) :
    addMod x y m = .ok (if x + y < m then x + y else if x + y < 2 * m then x + y - m else 0) := by
  rw [addMod_spec x y m hm hmW hx hy, mod_small (x + y) m hm (by omega)]
theorem subMod_ite (x y m : Nat) (hm : 0 < m) (hmW : m < W) (hx : x ≤ m) (hy : y ≤ m) :
    subMod x y m = .ok (if x + (m - y) < m then x + (m - y) else if x + (m - y) < 2 * m then x + (m - y) - m else 0) := by
  rw [subMod_spec x y m hm hmW hx hy, mod_small (x + (m - y)) m hm (by omega)]

/-- the same comparison on the states that satisfy the representation invariant `h : Inv s.buf`: the
index arithmetic is evaluated (`add_mod`/`sub_mod` by their specification, `+`/`-` without overflow), so
two bodies that compute the same slots in different ways are recognised as equal -/
syntax "tieInv" ident "[" Lean.Parser.Tactic.simpLemma,* "]" : tactic
macro_rules
  | `(tactic| tieInv $h [$ls,*]) =>
  `(tactic| (
     have hsz_ := Inv.size_le $h
     have hst_ := Inv.start_lt $h
     have hcw_ := Inv.cap_lt $h
     try simp only [$ls,*, readInit_twice]
     simp only [$ls,*, liftE_ite, liftE_ok_eq, liftE_pure_eq, liftE_error_eq, liftE_bind_dist,
       liftE_dassertE, bind_assoc_run, dassert_bind, getBuf_bind, setBuf_bind,
       pure_bind_run, raise_bind, ite_bind, ite_run, dassert_run, getBuf_run, setBuf_run,
       pure_run, raise_run, amod, smod, setStart, setSize, setItems, checkIdx_bind, checkIdx_run',
       readInit_bind, readInit_run', writeCell_bind, writeCell_run', checkRange, View.sub, View.splitAt, View.all, View.empty, checkedSub,
       uadd, usub, umul, umod, View.slots, Nat.zero_add, Nat.add_zero, Nat.sub_zero, range'_zero_len, dropInPlace_nil, Nat.zero_le, true_and]
     try simp only [liftE_bind, liftE_run, bind_assoc_run, dassert_bind, getBuf_bind, setBuf_bind,
       pure_bind_run, raise_bind, ite_bind, ite_run, dassert_run, getBuf_run, setBuf_run, pure_run, raise_run,
       checkIdx_bind, checkIdx_run', readInit_bind, readInit_run', writeCell_bind, writeCell_run',
       decide_eq_true_eq, Nat.not_lt, Nat.not_le, range'_zero_len, dropInPlace_nil]
     try simp (disch := omega) only [addMod_ite, subMod_ite, uadd_ok', usub_ok', decide_eq_true_eq, if_pos,
       if_neg, Nat.mod_lt, gt_iff_lt, ge_iff_le, Nat.add_sub_cancel]
     all_goals (repeat' (first | rfl | (dsimp only; done) | ifsplit1 | esplit1 | (simp only [bind_assoc_run, ite_bind, ite_run, raise_bind, pure_bind_run, pure_run, raise_run, dassert_bind, dassert_run, getBuf_bind, getBuf_run, setBuf_bind, setBuf_run, liftE_bind, liftE_run]) | split))
     all_goals (try subst_vars)
     all_goals (try simp (disch := omega) only [addMod_ite, subMod_ite, uadd_ok', usub_ok', decide_eq_true_eq, if_pos,
       if_neg, Nat.mod_lt, gt_iff_lt, ge_iff_le, Nat.add_sub_cancel] at *)
     all_goals (try simp_all)
     all_goals (try omega)
     all_goals (try (repeat' (first | rfl | omega | apply And.intro | congr 1)))))

/-- ties are stated for the runs of the model that do not end in a defect panic (`hnd`): every property
theorem establishes such a run, and the branches in which only a *defect* could be reported — which
the two bodies may reach in a different order, with the state changed to a different extent — need not
be compared.  `tieNd h hnd [defs]` = `tieInv`, with `hnd` carried through the case analysis. -/
syntax "tieNd" ident ident "[" Lean.Parser.Tactic.simpLemma,* "]" : tactic
macro_rules
  | `(tactic| tieNd $h $hnd [$ls,*]) =>
  `(tactic| (
     have hsz_ := Inv.size_le $h
     have hst_ := Inv.start_lt $h
     have hcw_ := Inv.cap_lt $h
     revert $hnd
     try simp only [$ls,*, readInit_twice]
     simp only [$ls,*, liftE_ite, liftE_ok_eq, liftE_pure_eq, liftE_error_eq, liftE_bind_dist,
       liftE_dassertE, bind_assoc_run, dassert_bind, getBuf_bind, setBuf_bind,
       pure_bind_run, raise_bind, ite_bind, ite_run, dassert_run, getBuf_run, setBuf_run,
       pure_run, raise_run, amod, smod, setStart, setSize, setItems, checkIdx_bind, checkIdx_run',
       readInit_bind, readInit_run', writeCell_bind, writeCell_run', checkRange, View.sub, View.splitAt, View.all, View.empty, checkedSub,
       uadd, usub, umul, umod, View.slots, Nat.zero_add, Nat.add_zero, Nat.sub_zero, range'_zero_len, dropInPlace_nil, Nat.zero_le, true_and]
     try simp only [liftE_bind, liftE_run, bind_assoc_run, dassert_bind, getBuf_bind, setBuf_bind,
       pure_bind_run, raise_bind, ite_bind, ite_run, dassert_run, getBuf_run, setBuf_run, pure_run, raise_run,
       checkIdx_bind, checkIdx_run', readInit_bind, readInit_run', writeCell_bind, writeCell_run',
       decide_eq_true_eq, Nat.not_lt, Nat.not_le, range'_zero_len, dropInPlace_nil]
     try simp (disch := omega) only [addMod_ite, subMod_ite, uadd_ok', usub_ok', decide_eq_true_eq, if_pos,
       if_neg, Nat.mod_lt, gt_iff_lt, ge_iff_le, Nat.add_sub_cancel]
     all_goals (repeat' (first | (intro _; rfl) | (show NonDefect (Except.error _, _).fst → _; intro hnd_; simp [NonDefect, Panic.defect] at hnd_; done) | (show NonDefect (Except.ok _, _).fst → _; intro _) | ifsplit1 | itemsUnify | esplit1 | (simp only [bind_assoc_run, ite_bind, ite_run, raise_bind, pure_bind_run, pure_run, raise_run, dassert_bind, dassert_run, getBuf_bind, getBuf_run, setBuf_bind, setBuf_run, liftE_bind, liftE_run]) | split))
     all_goals (try subst_vars)
     all_goals (try simp (disch := omega) only [addMod_ite, subMod_ite, uadd_ok', usub_ok', decide_eq_true_eq, if_pos,
       if_neg, Nat.mod_lt, gt_iff_lt, ge_iff_le, Nat.add_sub_cancel] at *)
     all_goals (try (simp only [NonDefect, Panic.defect]; done))
     all_goals (try simp_all [NonDefect, Panic.defect])
     all_goals (try omega)
     all_goals (try (intro _))
     all_goals (try (repeat' (first | rfl | omega | apply And.intro | congr 1)))))

/-- first as functions on all states, then on the states satisfying the invariant; first unfolding the
definitions named by the caller (the callees of the pinned source), then — for a body that was
re-expressed through other functions of the fragment — every definition of the fragment -/
syntax "tie2" ident "[" Lean.Parser.Tactic.simpLemma,* "]" : tactic
macro_rules
  | `(tactic| tie2 $h [$ls,*]) => `(tactic| first
      | (tieInv $h [$ls,*, Gen.len, Gen.is_empty, Gen.is_full, Gen.inc_start, Gen.dec_start, Gen.inc_size, Gen.dec_size, Gen.front_maybe_uninit_mut, Gen.front_maybe_uninit, Gen.back_maybe_uninit, Gen.back_maybe_uninit_mut, Gen.get_maybe_uninit, Gen.get_maybe_uninit_mut, Gen.slices_uninit_mut, Gen.as_slices, Gen.as_mut_slices, Gen.front, Gen.back, Gen.get, Gen.front_mut, Gen.back_mut, Gen.get_mut, Gen.nth_front, Gen.nth_back, Gen.push_back, Gen.push_front, Gen.try_push_back, Gen.try_push_front, Gen.pop_back, Gen.pop_front, Gen.swap, Gen.swap_remove_back, Gen.swap_remove_front, Gen.drop_range, Gen.truncate_back, Gen.truncate_front, Gen.clear, Gen.remove, Gen.make_contiguous, incStart, decStart, incSize, decSize, frontSlot, backSlot, getSlot, slicesUninitMut, asSlices, asSlicesOf, dassertE, front?, back?, get?, nthFront?, nthBack?, pushBack, pushFront, tryPushBack, tryPushFront, popBack, popFront, swap, swapRemoveBack, swapRemoveFront, dropRange, dropSegments, truncateBack, truncateFront, clear, remove, makeContiguous]; done)
      | (tie [$ls,*, Gen.len, Gen.is_empty, Gen.is_full, Gen.inc_start, Gen.dec_start, Gen.inc_size, Gen.dec_size, Gen.front_maybe_uninit_mut, Gen.front_maybe_uninit, Gen.back_maybe_uninit, Gen.back_maybe_uninit_mut, Gen.get_maybe_uninit, Gen.get_maybe_uninit_mut, Gen.slices_uninit_mut, Gen.as_slices, Gen.as_mut_slices, Gen.front, Gen.back, Gen.get, Gen.front_mut, Gen.back_mut, Gen.get_mut, Gen.nth_front, Gen.nth_back, Gen.push_back, Gen.push_front, Gen.try_push_back, Gen.try_push_front, Gen.pop_back, Gen.pop_front, Gen.swap, Gen.swap_remove_back, Gen.swap_remove_front, Gen.drop_range, Gen.truncate_back, Gen.truncate_front, Gen.clear, Gen.remove, Gen.make_contiguous, incStart, decStart, incSize, decSize, frontSlot, backSlot, getSlot, slicesUninitMut, asSlices, asSlicesOf, dassertE, front?, back?, get?, nthFront?, nthBack?, pushBack, pushFront, tryPushBack, tryPushFront, popBack, popFront, swap, swapRemoveBack, swapRemoveFront, dropRange, dropSegments, truncateBack, truncateFront, clear, remove, makeContiguous]; done))

/-- the tie tactic for a statement with a non-defect hypothesis: the stronger statements first -/
syntax "tie3" ident ident "[" Lean.Parser.Tactic.simpLemma,* "]" : tactic
macro_rules
  | `(tactic| tie3 $h $hnd [$ls,*]) => `(tactic| (tieNd $h $hnd [$ls,*, Gen.len, Gen.is_empty, Gen.is_full, Gen.inc_start, Gen.dec_start, Gen.inc_size, Gen.dec_size, Gen.front_maybe_uninit_mut, Gen.front_maybe_uninit, Gen.back_maybe_uninit, Gen.back_maybe_uninit_mut, Gen.get_maybe_uninit, Gen.get_maybe_uninit_mut, Gen.slices_uninit_mut, Gen.as_slices, Gen.as_mut_slices, Gen.front, Gen.back, Gen.get, Gen.front_mut, Gen.back_mut, Gen.get_mut, Gen.nth_front, Gen.nth_back, Gen.push_back, Gen.push_front, Gen.try_push_back, Gen.try_push_front, Gen.pop_back, Gen.pop_front, Gen.swap, Gen.swap_remove_back, Gen.swap_remove_front, Gen.drop_range, Gen.truncate_back, Gen.truncate_front, Gen.clear, Gen.remove, Gen.make_contiguous, incStart, decStart, incSize, decSize, frontSlot, backSlot, getSlot, slicesUninitMut, asSlices, asSlicesOf, dassertE, front?, back?, get?, nthFront?, nthBack?, pushBack, pushFront, tryPushBack, tryPushFront, popBack, popFront, swap, swapRemoveBack, swapRemoveFront, dropRange, dropSegments, truncateBack, truncateFront, clear, remove, makeContiguous]; done))

/-- evaluation of a body that *calls* other functions of the fragment whose ties are given as rewrite rules
(`ls`): the conditions are split (innermost first; impossible combinations pruned by `omega`), the callees are
replaced by the model's, and what remains is compared — up to arithmetic on the arguments of the calls -/
syntax "callEval" "[" Lean.Parser.Tactic.simpLemma,* "]" : tactic
macro_rules
  | `(tactic| callEval [$ls,*]) => `(tactic| (
      simp only [$ls,*, getBuf_bind, getBuf_run, ite_run, ite_bind, bind_assoc_run, pure_run, pure_bind_run, liftE_bind,
        liftE_run, dassert_bind, bind_run, uadd, usub, decide_eq_true_eq, Nat.sub_zero, Nat.zero_add, Nat.add_zero]
      repeat' (first
        | rfl
        | ifsplit1
        | (simp only [$ls,*, getBuf_bind, getBuf_run, ite_run, ite_bind, bind_assoc_run, pure_run, pure_bind_run,
             liftE_bind, liftE_run, dassert_bind, dassert_run, bind_run])
        | split)
      all_goals (first | rfl | (exfalso; omega) |
        (congr 1 <;> first | rfl | omega | (congr 1 <;> first | rfl | omega)))))

end CircBuf
