import CircBuf.Lemmas.DropRange
set_option linter.unusedSimpArgs false
set_option linter.unusedVariables false
/-! The back-fill loop of `Drain::drop`: for every capacity, front position, hole and tail. -/
namespace CircBuf

theorem phys_add_of_lt (s c a t : Nat) (h : phys s c a + t < c) :
    phys s c (a + t) = phys s c a + t := by
  unfold phys at h ⊢
  rw [← Nat.add_assoc, ← Nat.mod_add_mod, Nat.mod_eq_of_lt h]

theorem CSP.add_run (p : CSP) (inc : Nat) (s : Sys) (h1 : p.offset < p.sliceLen)
    (h2 : inc ≤ p.sliceLen) (h3 : p.sliceLen < W) :
    p.add inc s = (.ok ⟨p.sliceLen, phys p.offset p.sliceLen inc⟩, s) := by
  mrun [CSP.add]

theorem CSP.availableLen_run (p : CSP) (s : Sys) (h1 : p.offset < p.sliceLen) :
    p.availableLen s = (.ok (p.sliceLen - p.offset), s) := by
  mrun [CSP.availableLen]

theorem CSP.ptr_run (p : CSP) (s : Sys) (h1 : p.offset < p.sliceLen) :
    p.ptr s = (.ok p.offset, s) := by
  mrun [CSP.ptr]

/-- The loop invariant.  `R` elements have to move from logical positions `re ..` to `rs ..`;
`k` of them have moved already.  The loop terminates (fuel `> R - k` suffices), never fails, writes
exactly the slots of logical positions `rs+k .. rs+R`, and each of them receives what the
corresponding source slot held on entry. -/
theorem backfillLoop_spec (fuel : Nat) (s : Sys) (rs re R k : Nat)
    (hc : 0 < s.buf.cap) (hW : s.buf.cap < W) (hst : s.buf.start < s.buf.cap)
    (hrs : rs ≤ re) (hR : re + R ≤ s.buf.cap) (hk : k ≤ R) (hfuel : R - k < fuel) :
    ∃ f', backfillLoop fuel ⟨s.buf.cap, phys s.buf.start s.buf.cap (rs + k)⟩
        ⟨s.buf.cap, phys s.buf.start s.buf.cap (re + k)⟩ (R - k) s =
        (.ok (), { s with buf := { s.buf with items := f' } }) ∧
      (∀ j, k ≤ j → j < R → f' (phys s.buf.start s.buf.cap (rs + j)) =
        s.buf.items (phys s.buf.start s.buf.cap (re + j))) ∧
      (∀ x, (∀ j, k ≤ j → j < R → x ≠ phys s.buf.start s.buf.cap (rs + j)) →
        f' x = s.buf.items x) := by
  induction fuel generalizing s k with
  | zero => omega
  | succ fuel ih =>
    by_cases hr : R - k = 0
    · refine ⟨s.buf.items, ?_, ?_, ?_⟩
      · simp only [backfillLoop, hr, Nat.lt_irrefl, if_false]; rfl
      · intro j h1 h2; omega
      · intro x _; rfl
    · have hpos : R - k > 0 := by omega
      have hho := phys_lt s.buf.start s.buf.cap (rs + k) hc
      have hbo := phys_lt s.buf.start s.buf.cap (re + k) hc
      -- the chunk moved in this iteration
      obtain ⟨c, hcdef⟩ : ∃ c, c = min (min (s.buf.cap - phys s.buf.start s.buf.cap (rs + k))
        (s.buf.cap - phys s.buf.start s.buf.cap (re + k))) (R - k) := ⟨_, rfl⟩
      have hc1 : 1 ≤ c := by omega
      have hc2 : c ≤ R - k := by omega
      have hc3 : phys s.buf.start s.buf.cap (rs + k) + c ≤ s.buf.cap := by omega
      have hc4 : phys s.buf.start s.buf.cap (re + k) + c ≤ s.buf.cap := by omega
      -- the state after the copy
      obtain ⟨f1, hf1⟩ : ∃ f1, f1 = copy s.buf.items (phys s.buf.start s.buf.cap (re + k))
        (phys s.buf.start s.buf.cap (rs + k)) c := ⟨_, rfl⟩
      obtain ⟨s1, hs1⟩ : ∃ s1 : Sys, s1 = { s with buf := { s.buf with items := f1 } } := ⟨_, rfl⟩
      have hs1c : s1.buf.cap = s.buf.cap := by rw [hs1]
      have hs1s : s1.buf.start = s.buf.start := by rw [hs1]
      have hs1i : s1.buf.items = f1 := by rw [hs1]
      have hstep : backfillLoop (fuel + 1) ⟨s.buf.cap, phys s.buf.start s.buf.cap (rs + k)⟩
          ⟨s.buf.cap, phys s.buf.start s.buf.cap (re + k)⟩ (R - k) s =
          backfillLoop fuel ⟨s.buf.cap, phys s.buf.start s.buf.cap (rs + (k + c))⟩
            ⟨s.buf.cap, phys s.buf.start s.buf.cap (re + (k + c))⟩ (R - (k + c)) s1 := by
        have e1 : phys (phys s.buf.start s.buf.cap (rs + k)) s.buf.cap c
            = phys s.buf.start s.buf.cap (rs + (k + c)) := by rw [phys_phys, Nat.add_assoc]
        have e2 : phys (phys s.buf.start s.buf.cap (re + k)) s.buf.cap c
            = phys s.buf.start s.buf.cap (re + (k + c)) := by rw [phys_phys, Nat.add_assoc]
        have e3 : R - k - c = R - (k + c) := by omega
        simp only [backfillLoop, hpos, if_true]
        mrun [CSP.availableLen_run, CSP.ptr_run, CSP.add_run, setItems_run]
        simp only [← hcdef, e1, e2, e3, hs1, hf1]
      obtain ⟨f', hrun, hmv, hun⟩ := ih s1 (k + c) (hs1c ▸ hc) (hs1c ▸ hW) (by rw [hs1c, hs1s]; exact hst)
        (hs1c ▸ hR) (by omega) (by omega)
      rw [hs1c, hs1s] at hrun
      rw [hs1c, hs1s, hs1i] at hmv hun
      refine ⟨f', ?_, ?_, ?_⟩
      · rw [hstep, hrun, hs1]
      · intro j h1 h2
        by_cases hj : j < k + c
        · -- moved in this iteration
          have hx : f' (phys s.buf.start s.buf.cap (rs + j)) = f1 (phys s.buf.start s.buf.cap (rs + j)) := by
            apply hun
            intro j' h1' h2'
            exact phys_ne _ _ _ _ hst (by omega) (by omega) (by omega)
          rw [hx]
          have ht : j = k + (j - k) := by omega
          have hd : phys s.buf.start s.buf.cap (rs + j)
              = phys s.buf.start s.buf.cap (rs + k) + (j - k) := by
            rw [ht, ← Nat.add_assoc, phys_add_of_lt _ _ _ _ (by omega)]; congr 1; omega
          have hsrc : phys s.buf.start s.buf.cap (re + j)
              = phys s.buf.start s.buf.cap (re + k) + (j - k) := by
            rw [ht, ← Nat.add_assoc, phys_add_of_lt _ _ _ _ (by omega)]; congr 1; omega
          rw [hf1]; simp only [copy]
          rw [if_pos (by omega), hsrc]
          congr 1; omega
        · -- moved later: its source is not touched by this iteration
          rw [hmv j (by omega) h2, hf1]
          simp only [copy]
          rw [if_neg]
          intro ⟨h3, h4⟩
          have hpj := phys_lt s.buf.start s.buf.cap (re + j) hc
          -- the source slot of a later element would lie in the chunk just written
          have hlog : ∃ t, t < c ∧ phys s.buf.start s.buf.cap (re + j)
              = phys s.buf.start s.buf.cap (rs + k + t) := by
            refine ⟨phys s.buf.start s.buf.cap (re + j) - phys s.buf.start s.buf.cap (rs + k), by omega, ?_⟩
            rw [phys_add_of_lt s.buf.start s.buf.cap (rs + k) _ (by omega)]; omega
          obtain ⟨t, ht, he⟩ := hlog
          have hb1 : re + j < s.buf.cap := by omega
          have hb2 : rs + k + t < s.buf.cap := by omega
          have := phys_inj s.buf.start s.buf.cap (re + j) (rs + k + t) hst hb1 hb2 he
          omega
      · intro x hx
        rw [hun x (fun j h1 h2 => hx j (by omega) h2), hf1]
        simp only [copy]
        rw [if_neg]
        intro ⟨h3, h4⟩
        have hlog : x = phys s.buf.start s.buf.cap (rs + (k + (x - phys s.buf.start s.buf.cap (rs + k)))) := by
          rw [← Nat.add_assoc, phys_add_of_lt _ _ _ _ (by omega)]; omega
        exact hx _ (by omega) (by omega) hlog

end CircBuf
