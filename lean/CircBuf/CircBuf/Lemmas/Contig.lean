import CircBuf.Lemmas.Views
set_option linter.unusedSimpArgs false
set_option linter.unusedVariables false
/-! `make_contiguous` -/
namespace CircBuf

theorem makeContiguous_spec (s : Sys) (h : Inv s.buf) :
    ∃ b' v, makeContiguous s = (.ok v, { s with buf := b' }) ∧ Inv b' ∧ abs b' = abs s.buf ∧
      b'.cap = s.buf.cap ∧ b'.size = s.buf.size ∧
      v.slots = windowSlots b'.start b'.cap b'.size ∧
      (b'.start + b'.size ≤ b'.cap) ∧
      (s.buf.start + s.buf.size ≤ s.buf.cap → b' = s.buf) := by
  have hlen := abs_length s.buf h
  have hget := abs_getElem s.buf h
  have hsz := h.size_le
  have hW := h.cap_lt
  by_cases hz : s.buf.cap = 0 ∨ s.buf.size = 0
  · refine ⟨s.buf, View.empty, ?_, h, rfl, rfl, rfl, ?_, ?_, fun _ => rfl⟩
    · mrun [makeContiguous, hz]
    · have : s.buf.size = 0 := by omega
      simp [View.empty, View.slots, windowSlots, this]
    · rcases h.start_lt with h1 | ⟨h1, h2⟩ <;> omega
  have hcpos : 0 < s.buf.cap := by omega
  have hst := h.start_lt' hcpos
  by_cases hfit : s.buf.size ≤ s.buf.cap - s.buf.start
  · refine ⟨s.buf, ⟨s.buf.start, s.buf.size⟩, ?_, h, rfl, rfl, rfl, ?_, by omega, fun _ => rfl⟩
    · mrun [makeContiguous, hz, hfit]
    · rw [windowSlots_eq _ _ _ hst hsz]
      have : s.buf.start + s.buf.size ≤ s.buf.cap := by omega
      simp [View.slots, this]
  · have hpt : ∀ i, (hi : i < (abs s.buf).length) →
        rotl s.buf.items s.buf.cap s.buf.start (phys 0 s.buf.cap i) = some (abs s.buf)[i] := by
      intro i hi
      have hic : i < s.buf.cap := by omega
      have : phys 0 s.buf.cap i = i := by unfold phys; simp [Nat.mod_eq_of_lt hic]
      rw [this]
      unfold rotl
      simp only [hic, if_true]
      have := hget i hi
      unfold phys at this
      rw [Nat.add_comm]; exact this
    obtain ⟨hI, hA⟩ := inv_abs_of ⟨s.buf.cap, s.buf.size, 0, rotl s.buf.items s.buf.cap s.buf.start⟩
      (abs s.buf) hW hlen hsz (Or.inl hcpos) hpt
    refine ⟨⟨s.buf.cap, s.buf.size, 0, rotl s.buf.items s.buf.cap s.buf.start⟩,
      ⟨0, s.buf.size⟩, ?_, hI, hA, rfl, rfl, ?_, by simp only; omega, ?_⟩
    · mrun [makeContiguous, hz, hfit, setStart_run, setItems_run]
    · rw [windowSlots_eq _ _ _ hcpos hsz]
      have : 0 + s.buf.size ≤ s.buf.cap := by omega
      simp only [View.slots, this, if_true]
    · intro hc; omega

end CircBuf
