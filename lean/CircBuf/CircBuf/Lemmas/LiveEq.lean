import CircBuf.Lemmas.TieTac
import CircBuf.Lemmas.Ops
set_option linter.unusedSimpArgs false
set_option linter.unusedVariables false
/-!
# Agreement up to the dead slots

`LiveEq x y`: the two runs `x`, `y : Except Panic α × Sys` return the same value (or the same panic) and
end in states that agree on everything *except the contents of the slots outside the live window*
(`size` slots from `start`, wrapping).  Nothing an operation of the crate does reads a dead slot before
writing it, so no property theorem stated through `abs` and `Inv` can tell such states apart; but two
bodies that compute the same thing may well leave different stale bytes behind (a `swap_remove_back`
that moves the last element into the hole, against one that swaps and then pops).  The ties between
the translated source and the model are therefore also offered in this weaker form.
-/
namespace CircBuf
variable {α β : Type}

theorem filterMap_congr' {γ δ : Type} (f g : γ → Option δ) (l : List γ) (h : ∀ a, a ∈ l → f a = g a) :
    l.filterMap f = l.filterMap g := by
  induction l with
  | nil => rfl
  | cons a l ih =>
    have ha := h a (by simp)
    have ih' := ih (fun b hb => h b (by simp [hb]))
    simp only [List.filterMap_cons, ha, ih']

def LiveEq (x y : Except Panic α × Sys) : Prop :=
  x.1 = y.1 ∧ x.2.log = y.2.log ∧ x.2.next = y.2.next ∧ x.2.faults = y.2.faults ∧ x.2.kind = y.2.kind ∧
  x.2.buf.cap = y.2.buf.cap ∧ x.2.buf.size = y.2.buf.size ∧ x.2.buf.start = y.2.buf.start ∧
  ∀ i, i < y.2.buf.size →
    x.2.buf.items (phys y.2.buf.start y.2.buf.cap i) = y.2.buf.items (phys y.2.buf.start y.2.buf.cap i)

theorem LiveEq.refl (x : Except Panic α × Sys) : LiveEq x x :=
  ⟨rfl, rfl, rfl, rfl, rfl, rfl, rfl, rfl, fun _ _ => rfl⟩

theorem LiveEq.of_eq {x y : Except Panic α × Sys} (h : x = y) : LiveEq x y := h ▸ LiveEq.refl x

/-- what a run that agrees, up to dead slots, with a run ending in a state that satisfies the
invariant looks like -/
theorem LiveEq.ok {x : Except Panic α × Sys} {r : Except Panic α} {s' : Sys} (hl : LiveEq x (r, s'))
    (hI : Inv s'.buf) :
    ∃ b2, x = (r, { s' with buf := b2 }) ∧ Inv b2 ∧ abs b2 = abs s'.buf ∧ b2.cap = s'.buf.cap ∧
      b2.size = s'.buf.size ∧ b2.start = s'.buf.start ∧
      ∀ i, i < s'.buf.size → b2.items (phys s'.buf.start s'.buf.cap i) = s'.buf.items (phys s'.buf.start s'.buf.cap i) := by
  obtain ⟨x1, x2⟩ := x
  obtain ⟨h1, h2, h3, h4, h5, h6, h7, h8, h9⟩ := hl
  simp only at h1 h2 h3 h4 h5 h6 h7 h8 h9
  refine ⟨x2.buf, ?_, ?_, ?_, h6, h7, h8, h9⟩
  · subst h1
    obtain ⟨b, l, n, f, k⟩ := x2
    simp only at h2 h3 h4 h5
    subst h2 h3 h4 h5
    rfl
  · refine ⟨by rw [h7, h6]; exact hI.size_le, by rw [h8, h6]; exact hI.start_lt, by rw [h6]; exact hI.cap_lt, ?_⟩
    intro i hi
    rw [h8, h6, h9 i (by omega)]
    exact hI.live i (by omega)
  · unfold abs
    rw [h7, h8, h6]
    apply filterMap_congr'
    intro i hi
    exact h9 i (by simpa using hi)

/-- `Refines` is insensitive to the dead slots -/
theorem Refines.of_liveEq {op op' : M α} {s : Sys} {r : α} {xs : List Elem}
    (hl : LiveEq (op s) (op' s)) (hr : Refines op' s r xs) : Refines op s r xs := by
  obtain ⟨b', e, hI, ha, hc⟩ := hr
  rw [e] at hl
  obtain ⟨b2, e2, hI2, ha2, hc2, _⟩ := LiveEq.ok hl hI
  exact ⟨b2, e2, hI2, by rw [ha2]; exact ha, by rw [hc2]; exact hc⟩

/-- the shape of the C02 statements (value returned, invariant, capacity, contents) -/
theorem LiveEq.ex4 {x m : Except Panic α × Sys} {s : Sys} {r : α} {cap : Nat} {xs : List Elem}
    (hl : LiveEq x m) (hm : ∃ b', m = (.ok r, { s with buf := b' }) ∧ Inv b' ∧ b'.cap = cap ∧ abs b' = xs) :
    ∃ b', x = (.ok r, { s with buf := b' }) ∧ Inv b' ∧ b'.cap = cap ∧ abs b' = xs := by
  obtain ⟨b', e, hI, hc, ha⟩ := hm
  rw [e] at hl
  obtain ⟨b2, e2, hI2, ha2, hc2, _⟩ := LiveEq.ok hl hI
  exact ⟨b2, e2, hI2, by rw [hc2]; exact hc, by rw [ha2]; exact ha⟩

/-- the shape of the C04 statements (two runs from two layouts of the same contents) -/
theorem LiveEq.ex2 {x1 m1 x2 m2 : Except Panic α × Sys} {s1 s2 : Sys}
    (hl1 : LiveEq x1 m1) (hl2 : LiveEq x2 m2)
    (hm : ∃ r b1 b2, m1 = (.ok r, { s1 with buf := b1 }) ∧ m2 = (.ok r, { s2 with buf := b2 }) ∧
      Inv b1 ∧ Inv b2 ∧ abs b1 = abs b2 ∧ b1.cap = b2.cap) :
    ∃ r b1 b2, x1 = (.ok r, { s1 with buf := b1 }) ∧ x2 = (.ok r, { s2 with buf := b2 }) ∧
      Inv b1 ∧ Inv b2 ∧ abs b1 = abs b2 ∧ b1.cap = b2.cap := by
  obtain ⟨r, b1, b2, e1, e2, hI1, hI2, ha, hc⟩ := hm
  rw [e1] at hl1
  rw [e2] at hl2
  obtain ⟨c1, f1, hJ1, ha1, hc1, _⟩ := LiveEq.ok hl1 hI1
  obtain ⟨c2, f2, hJ2, ha2, hc2, _⟩ := LiveEq.ok hl2 hI2
  exact ⟨r, c1, c2, f1, f2, hJ1, hJ2, by rw [ha1, ha2]; exact ha, by rw [hc1, hc2]; exact hc⟩

theorem LiveEq.map {m m' : M α} {s : Sys} (f : α → β) (hl : LiveEq (m s) (m' s)) :
    LiveEq ((m >>= fun a => pure (f a)) s) ((m' >>= fun a => pure (f a)) s) := by
  simp only [bind_run]
  obtain ⟨h1, hrest⟩ := hl
  cases hx : m s with
  | mk r1 s1 => cases hy : m' s with
    | mk r2 s2 =>
      rw [hx, hy] at h1 hrest
      simp only at h1; subst h1
      cases r1 <;> exact ⟨rfl, hrest⟩

end CircBuf

namespace CircBuf

theorem phys_ite (st cap i : Nat) (hc : st < cap) (hi : i ≤ cap) :
    phys st cap i = if st + i < cap then st + i else st + i - cap := by
  unfold phys
  rw [mod_small (st + i) cap (by omega) (by omega)]
  split
  · rfl
  · split
    · rfl
    · omega

/-- a slot of the live window holds an element (the invariant, stated on slot numbers) -/
theorem Inv.live_slot {b : CB} (h : Inv b) (t : Nat)
    (ht : (b.start ≤ t ∧ t < b.start + b.size ∧ t < b.cap) ∨ (t + b.cap < b.start + b.size)) :
    ∃ v, b.items t = some v := by
  have hs := h.size_le
  have hst := h.start_lt
  apply Option.isSome_iff_exists.mp
  rcases ht with ⟨h1, h2, h3⟩ | h1
  · have := h.live (t - b.start) (by omega)
    rw [phys_ite _ _ _ (by omega) (by omega)] at this
    rw [if_pos (by omega)] at this
    have e : b.start + (t - b.start) = t := by omega
    rw [e] at this; exact this
  · have := h.live (t + b.cap - b.start) (by omega)
    rw [phys_ite _ _ _ (by omega) (by omega)] at this
    rw [if_neg (by omega)] at this
    have e : b.start + (t + b.cap - b.start) - b.cap = t := by omega
    rw [e] at this; exact this

section tactics
open Lean Elab Tactic Meta

/-- `liveReads h` (`h : Inv s.buf`): every read `s.buf.items t` of the goal whose slot `omega` places
inside the live window is replaced by `some v` for a fresh `v` -/
elab "liveReads" h:ident : tactic => withMainContext do
  let g ← getMainGoal
  let t ← instantiateMVars (← g.getType)
  let found ← IO.mkRef (#[] : Array Expr)
  t.forEach fun e => do
    if e.isAppOfArity ``CircBuf.CB.items 2 && !e.hasLooseBVars then
      found.modify fun acc => if acc.contains e then acc else acc.push e
  let reads ← found.get
  for e in reads do
    let idx ← Term.exprToSyntax (e.getArg! 1) |>.run'
    -- a slot already named by an earlier read (possibly computed in another way)?
    for d in (← getLCtx) do
      if d.isImplementationDetail then continue
      let ty ← instantiateMVars d.type
      if !ty.isAppOfArity ``Eq 3 then continue
      let lhs := ty.getArg! 1
      if !(lhs.isAppOfArity ``CircBuf.CB.items 2 && lhs.getArg! 0 == e.getArg! 0) then continue
      if !(ty.getArg! 2).isAppOfArity ``Option.some 2 then continue
      let idx' ← Term.exprToSyntax (lhs.getArg! 1) |>.run'
      let hyp := mkIdent d.userName
      let eStx ← Term.exprToSyntax e |>.run'
      let rhs ← Term.exprToSyntax (ty.getArg! 2) |>.run'
      let hypE ← Term.exprToSyntax d.toExpr |>.run'
      let tac ← `(tactic| (
        have hr_ : $eStx = $rhs := by
          have hidx_ : $idx = $idx' := by omega
          rw [hidx_]; exact $hypE
        simp only [hr_]
        try clear hr_))
      let saved ← saveState
      try
        evalTactic tac
        return
      catch _ => saved.restore
    let tac ← `(tactic| (
      obtain ⟨v_, hv_⟩ := Inv.live_slot $h $idx (by omega)
      simp only [hv_]))
    let saved ← saveState
    try
      evalTactic tac
      return
    catch _ => saved.restore
  throwError "liveReads: no read inside the live window"

end tactics

/-- the weak tie: `LiveEq (Gen.f … s) (f … s)` on the states satisfying the invariant, for the runs of the
model that do not end in a defect panic.  Same evaluation and case analysis as `tieNd`; at the leaves
the two final states are compared field by field and, for the slots, on the live window only. -/
syntax "tieLive" ident ident "[" Lean.Parser.Tactic.simpLemma,* "]" : tactic
macro_rules
  | `(tactic| tieLive $h $hnd [$ls,*]) =>
  `(tactic| (
     have hsz_ := Inv.size_le $h
     have hst_ := Inv.start_lt $h
     have hcw_ := Inv.cap_lt $h
     revert $hnd
     try simp only [$ls,*, readInit_twice]
     simp only [$ls,*, liftE_ite, liftE_ok_eq, liftE_pure_eq, liftE_error_eq, liftE_bind_dist,
       liftE_dassertE, bind_assoc_run, dassert_bind, getBuf_bind, setBuf_bind,
       pure_bind_run, raise_bind, ite_bind, ite_run, dassert_run, getBuf_run, setBuf_run,
       pure_run, raise_run, amod, smod, setCell, swapCells, copy, setStart, setSize, setItems, checkIdx_bind, checkIdx_run',
       readInit_bind, readInit_run', writeCell_bind, writeCell_run', checkRange, View.sub, View.splitAt, View.all, View.empty, checkedSub,
       uadd, usub, umul, umod, View.slots, Nat.zero_add, Nat.add_zero, Nat.sub_zero, range'_zero_len, dropInPlace_nil, Nat.zero_le, true_and]
     try simp only [liftE_bind, liftE_run, bind_assoc_run, dassert_bind, getBuf_bind, setBuf_bind,
       pure_bind_run, raise_bind, ite_bind, ite_run, dassert_run, getBuf_run, setBuf_run, pure_run, raise_run,
       checkIdx_bind, checkIdx_run', readInit_bind, readInit_run', writeCell_bind, writeCell_run',
       decide_eq_true_eq, Nat.not_lt, Nat.not_le, range'_zero_len, dropInPlace_nil]
     try simp (disch := omega) only [addMod_ite, subMod_ite, uadd_ok', usub_ok', decide_eq_true_eq, if_pos,
       if_neg, Nat.mod_lt, gt_iff_lt, ge_iff_le, Nat.add_sub_cancel]
     all_goals (repeat' (first
       | (intro _; exact LiveEq.refl _)
       | (show NonDefect (Except.error _, _).fst → _; intro hnd_; simp [NonDefect, Panic.defect] at hnd_; done)
       | (show NonDefect (Except.ok _, _).fst → _; intro _)
       | (intro hnd_; exfalso; simp only [NonDefect, Panic.defect] at hnd_; done)
       | ifsplit1 | itemsUnify | liveReads $h | esplit1
       | (simp only [setCell, swapCells, copy, bind_assoc_run, ite_bind, ite_run, raise_bind, pure_bind_run, pure_run, raise_run, dassert_bind, dassert_run, getBuf_bind, getBuf_run, setBuf_bind, setBuf_run, liftE_bind, liftE_run])
       | split))
     all_goals (try subst_vars)
     all_goals (try (intro _))
     all_goals (try (exact LiveEq.refl _))
     all_goals (try (unfold LiveEq; dsimp only; refine ⟨?_, ?_, ?_, ?_, ?_, ?_, ?_, ?_, ?_⟩))
     all_goals (try rfl)
     all_goals (try omega)
     all_goals (try (
       intro i_ hi_
       simp only [setCell, copy, swapCells]
       try simp (disch := omega) only [phys_ite]
       repeat' (first | rfl | (exfalso; omega) | ifsplit1 | itemsUnify | liveReads $h | (congr 1; omega))))
     all_goals (try (simp only [setCell, copy, swapCells]
                     repeat' (first | rfl | (exfalso; omega) | ifsplit1 | itemsUnify | liveReads $h | (congr 1; omega))))))

end CircBuf
