import CircBuf.Lemmas.Basic
set_option linter.unusedSimpArgs false
set_option linter.unusedVariables false
/-!
  Evaluation ("run") lemmas for the primitive steps and private helpers, and the `mrun` tactic that
  evaluates a method body to an explicit post-state, discharging every arithmetic side condition
  (`debug_assert!`s, overflow checks, bounds checks) with `omega`.
-/
namespace CircBuf

theorem dassert_decide (p : Prop) [Decidable p] (msg : String) (h : p) :
    dassert (decide p) msg = (pure () : M Unit) := by simp [h]
theorem uadd_ok (x y : Nat) (h : x + y < W) : uadd x y = .ok (x + y) := by simp [uadd, h]
theorem usub_ok (x y : Nat) (h : y ≤ x) : usub x y = .ok (x - y) := by simp [usub, h]
theorem checkRange_ok (a b n : Nat) (h : a ≤ b ∧ b ≤ n) : checkRange a b n = (pure () : M Unit) := by
  simp [checkRange, h]

syntax "mrun" "[" Lean.Parser.Tactic.simpLemma,* "]" (Lean.Parser.Tactic.location)? : tactic
macro_rules
  | `(tactic| mrun [$ls,*] $[$loc]?) =>
  `(tactic| simp (disch := (first | omega | (dsimp only; omega))) only
      [uadd_ok, usub_ok, amod_run, smod_run, dassert_decide, checkRange_ok, if_pos, if_neg,
       bind_run, pure_run, getBuf_run, setBuf_run, getSys_run, liftE_ok, liftE_err, raise_run,
       ge_iff_le, gt_iff_lt, ite_true, ite_false, or_true, true_or, eq_self, decide_true,
       dassert_true, $ls,*] $[$loc]?)

/-! ### helpers -/

theorem checkIdx_run (s : Sys) (i : Nat) (h : i < s.buf.cap) : checkIdx i s = (.ok (), s) := by
  mrun [checkIdx]

theorem readInit_run (s : Sys) (i : Nat) (e : Elem) (h : i < s.buf.cap)
    (he : s.buf.items i = some e) : readInit i s = (.ok e, s) := by
  mrun [readInit, checkIdx, he]

theorem writeCell_run (s : Sys) (i : Nat) (e : Elem) (h : i < s.buf.cap) :
    writeCell i e s =
      (.ok (), { s with buf := { s.buf with items := setCell s.buf.items i (some e) } }) := by
  mrun [writeCell, checkIdx]

theorem setSize_run (s : Sys) (n : Nat) :
    setSize n s = (.ok (), { s with buf := { s.buf with size := n } }) := by
  mrun [setSize]

theorem setStart_run (s : Sys) (n : Nat) :
    setStart n s = (.ok (), { s with buf := { s.buf with start := n } }) := by
  mrun [setStart]

theorem setItems_run (s : Sys) (f : Nat → Cell) :
    setItems f s = (.ok (), { s with buf := { s.buf with items := f } }) := by
  mrun [setItems]

theorem incSize_run (s : Sys) (h1 : s.buf.size < s.buf.cap) (h4 : s.buf.cap < W) :
    incSize s = (.ok (), { s with buf := { s.buf with size := s.buf.size + 1 } }) := by
  mrun [incSize, setSize]

theorem decSize_run (s : Sys) (h1 : 0 < s.buf.size) :
    decSize s = (.ok (), { s with buf := { s.buf with size := s.buf.size - 1 } }) := by
  mrun [decSize, setSize]

theorem incStart_run (s : Sys) (h1 : s.buf.start < s.buf.cap) (h4 : s.buf.cap < W) :
    incStart s =
      (.ok (), { s with buf := { s.buf with start := phys s.buf.start s.buf.cap 1 } }) := by
  mrun [incStart, setStart]

theorem decStart_run (s : Sys) (h1 : s.buf.start < s.buf.cap) (h4 : s.buf.cap < W) :
    decStart s =
      (.ok (), { s with buf := { s.buf with start := phys s.buf.start s.buf.cap (s.buf.cap - 1) } }) := by
  mrun [decStart, setStart]

theorem frontSlot_run (s : Sys) (h1 : 0 < s.buf.size) (h3 : s.buf.start < s.buf.cap) :
    frontSlot s = (.ok s.buf.start, s) := by
  mrun [frontSlot, checkIdx]

theorem backSlot_run (s : Sys) (h1 : 0 < s.buf.size) (h2 : s.buf.size ≤ s.buf.cap)
    (h3 : s.buf.start < s.buf.cap) (h4 : s.buf.cap < W) :
    backSlot s = (.ok (phys s.buf.start s.buf.cap (s.buf.size - 1)), s) := by
  have hp := phys_lt s.buf.start s.buf.cap (s.buf.size - 1) (by omega)
  mrun [backSlot, checkIdx, hp]

theorem getSlot_run (s : Sys) (i : Nat) (h1 : 0 < s.buf.size) (h2 : i < s.buf.cap)
    (h3 : s.buf.start < s.buf.cap) (h4 : s.buf.cap < W) :
    getSlot i s = (.ok (phys s.buf.start s.buf.cap i), s) := by
  have hp := phys_lt s.buf.start s.buf.cap i (by omega)
  mrun [getSlot, checkIdx, hp]

end CircBuf
