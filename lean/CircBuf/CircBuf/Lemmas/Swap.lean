import CircBuf.Lemmas.Ops
set_option linter.unusedSimpArgs false
set_option linter.unusedVariables false
/-! `swap`, `swap_remove_back`, `swap_remove_front`, and sequential composition of refinements. -/
namespace CircBuf

theorem Refines.congr {op op' : M α} {s : Sys} {r : α} {xs : List Elem} (h : op s = op' s)
    (h' : Refines op' s r xs) : Refines op s r xs := by
  obtain ⟨b', h1, h2⟩ := h'
  exact ⟨b', h ▸ h1, h2⟩

/-- sequential composition: the second step may assume the invariant, the abstract contents and the
capacity produced by the first one -/
theorem Refines.bind {op1 : M α} {f : α → M β} {s : Sys} {r1 : α} {r2 : β} {xs1 xs2 : List Elem}
    (h1 : Refines op1 s r1 xs1)
    (h2 : ∀ b', Inv b' → abs b' = xs1 → b'.cap = s.buf.cap →
      Refines (f r1) { s with buf := b' } r2 xs2) :
    Refines (op1 >>= f) s r2 xs2 := by
  obtain ⟨b1, e1, i1, a1, c1⟩ := h1
  obtain ⟨b2, e2, i2, a2, c2⟩ := h2 b1 i1 a1 c1
  refine ⟨b2, ?_, i2, a2, c2.trans c1⟩
  simp only [bind_run, e1, e2]

theorem swapCells_get (b : CB) (i j k : Nat) (h : Inv b) (hi : i < b.size) (hj : j < b.size)
    (hk : k < b.size) :
    swapCells b.items (phys b.start b.cap i) (phys b.start b.cap j) (phys b.start b.cap k) =
      if k = i then b.items (phys b.start b.cap j)
      else if k = j then b.items (phys b.start b.cap i)
      else b.items (phys b.start b.cap k) := by
  have hsz := h.size_le
  have hst := h.start_lt' (by omega)
  unfold swapCells
  by_cases h1 : k = i
  · subst h1; simp
  · have n1 := phys_ne b.start b.cap k i hst (by omega) (by omega) h1
    by_cases h2 : k = j
    · subst h2; simp [n1, h1]
    · have n2 := phys_ne b.start b.cap k j hst (by omega) (by omega) h2
      simp [n1, n2, h1, h2]

theorem swap_spec (s : Sys) (i j : Nat) (h : Inv s.buf) (hi : i < s.buf.size) (hj : j < s.buf.size) :
    Refines (swap i j) s () (Spec.swap (abs s.buf) i j) := by
  have hlen := abs_length s.buf h
  have hget := abs_getElem s.buf h
  have hsz := h.size_le
  have hcpos : 0 < s.buf.cap := by omega
  have hst := h.start_lt' hcpos
  have hW := h.cap_lt
  have hsi : (abs s.buf)[i]? = some ((abs s.buf)[i]'(by omega)) := List.getElem?_eq_getElem _
  have hsj : (abs s.buf)[j]? = some ((abs s.buf)[j]'(by omega)) := List.getElem?_eq_getElem _
  simp only [Spec.swap, hsi, hsj]
  by_cases hij : i = j
  · subst hij
    apply refines_of _ _ _ _ s.buf
    · mrun [swap]
    · rfl
    · exact hW
    · simp [hlen]
    · exact hsz
    · exact Or.inl hst
    · intro k hk
      simp only [List.length_set, hlen] at hk
      rw [hget k (by omega)]
      simp only [List.getElem_set]
      split
      · next heq => subst heq; rfl
      · rfl
  · have hp1 := phys_lt s.buf.start s.buf.cap i hcpos
    have hp2 := phys_lt s.buf.start s.buf.cap j hcpos
    apply refines_of _ _ _ _ ⟨s.buf.cap, s.buf.size, s.buf.start,
      swapCells s.buf.items (phys s.buf.start s.buf.cap i) (phys s.buf.start s.buf.cap j)⟩
    · mrun [swap, hij, checkIdx_run, setItems_run, ne_eq, not_false_eq_true]
    · rfl
    · exact hW
    · simp [hlen]
    · exact hsz
    · exact Or.inl hst
    · intro k hk
      simp only [List.length_set, hlen] at hk
      simp only
      rw [swapCells_get s.buf i j k h hi hj hk]
      simp only [List.getElem_set]
      by_cases h1 : k = i
      · subst h1
        have : ¬ j = k := fun e => hij e.symm
        simp [this, hget j (by omega)]
      · by_cases h2 : k = j
        · subst h2; simp [h1, hget i (by omega)]
        · have n1 : ¬ i = k := fun e => h1 e.symm
          have n2 : ¬ j = k := fun e => h2 e.symm
          simp [h1, h2, n1, n2, hget k (by omega)]

theorem swap_panics_i (s : Sys) (i j : Nat) (hi : ¬ i < s.buf.size) :
    swap i j s = (.error (.doc "swap_i"), s) := by
  mrun [swap]

theorem swap_panics_j (s : Sys) (i j : Nat) (hi : i < s.buf.size) (hj : ¬ j < s.buf.size) :
    swap i j s = (.error (.doc "swap_j"), s) := by
  mrun [swap]

theorem swap_length (xs : List Elem) (i j : Nat) : (Spec.swap xs i j).length = xs.length := by
  unfold Spec.swap
  split <;> simp

theorem swap_getElem_right (xs : List Elem) (i j : Nat) (hi : i < xs.length) (hj : j < xs.length) :
    (Spec.swap xs i j)[j]'(by rw [swap_length]; exact hj) = xs[i] := by
  have hsi : xs[i]? = some xs[i] := List.getElem?_eq_getElem _
  have hsj : xs[j]? = some xs[j] := List.getElem?_eq_getElem _
  simp [Spec.swap, hsi, hsj, List.getElem_set]

theorem swapRemoveBack_spec (s : Sys) (i : Nat) (h : Inv s.buf) :
    Refines (swapRemoveBack i) s (Spec.swapRemoveBack (abs s.buf) i).2
      (Spec.swapRemoveBack (abs s.buf) i).1 := by
  have hlen := abs_length s.buf h
  by_cases hi : i < s.buf.size
  · have e : swapRemoveBack i s = (swap i (s.buf.size - 1) >>= fun _ => popBack) s := by
      mrun [swapRemoveBack]
    apply Refines.congr e
    simp only [Spec.swapRemoveBack, hlen, hi, if_true]
    apply Refines.bind (swap_spec s i (s.buf.size - 1) h hi (by omega))
    intro b' hI ha hc
    have hp := popBack_spec { s with buf := b' } hI
    simp only [ha, Spec.popBack] at hp
    have hl2 : (Spec.swap (abs s.buf) i (s.buf.size - 1)).length = s.buf.size := by
      rw [swap_length, hlen]
    rw [getLast?_eq_of_length _ _ hl2 (by omega)] at hp
    have := swap_getElem_right (abs s.buf) i (s.buf.size - 1) (by omega) (by omega)
    rw [this] at hp
    rw [List.getElem?_eq_getElem (by omega)]
    exact hp
  · simp only [Spec.swapRemoveBack, hlen, hi, if_false]
    refine ⟨s.buf, ?_, h, rfl, rfl⟩
    mrun [swapRemoveBack]

theorem swap_getElem_zero (xs : List Elem) (i : Nat) (hi : i < xs.length) :
    (Spec.swap xs i 0)[0]'(by rw [swap_length]; omega) = xs[i] := by
  have := swap_getElem_right xs i 0 hi (by omega)
  exact this

theorem swapRemoveFront_spec (s : Sys) (i : Nat) (h : Inv s.buf) :
    Refines (swapRemoveFront i) s (Spec.swapRemoveFront (abs s.buf) i).2
      (Spec.swapRemoveFront (abs s.buf) i).1 := by
  have hlen := abs_length s.buf h
  by_cases hi : i < s.buf.size
  · have e : swapRemoveFront i s = (swap i 0 >>= fun _ => popFront) s := by
      mrun [swapRemoveFront]
    apply Refines.congr e
    simp only [Spec.swapRemoveFront, hlen, hi, if_true]
    apply Refines.bind (swap_spec s i 0 h hi (by omega))
    intro b' hI ha hc
    have hp := popFront_spec { s with buf := b' } hI
    simp only [ha, Spec.popFront] at hp
    have hl2 : (Spec.swap (abs s.buf) i 0).length = s.buf.size := by
      rw [swap_length, hlen]
    rw [List.head?_eq_getElem?, List.getElem?_eq_getElem (by omega)] at hp
    rw [swap_getElem_zero (abs s.buf) i (by omega)] at hp
    rw [List.getElem?_eq_getElem (by omega)]
    exact hp
  · simp only [Spec.swapRemoveFront, hlen, hi, if_false]
    refine ⟨s.buf, ?_, h, rfl, rfl⟩
    mrun [swapRemoveFront]

end CircBuf
