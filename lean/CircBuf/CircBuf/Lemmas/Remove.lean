import CircBuf.Lemmas.Ops
set_option linter.unusedSimpArgs false
set_option linter.unusedVariables false
/-! `remove`: one or three chained memmoves, all capacities, all layouts, all indexes. -/
namespace CircBuf

/-- the storage after `remove(index)`: one memmove when the tail does not wrap, three when it does -/
def removeItems (b : CB) (index : Nat) : Nat → Cell :=
  let idx := phys b.start b.cap index
  let back := phys b.start b.cap (b.size - 1)
  if idx ≤ back then copy b.items (idx + 1) idx (back - idx)
  else copy (copy (copy b.items (idx + 1) idx (b.cap - idx - 1)) 0 (b.cap - 1) 1) 1 0 back

theorem remove_run (s : Sys) (index : Nat) (e : Elem) (h : Inv s.buf) (hi : index < s.buf.size)
    (he : s.buf.items (phys s.buf.start s.buf.cap index) = some e) :
    remove index s = (.ok (some e),
      { s with buf := ⟨s.buf.cap, s.buf.size - 1, s.buf.start, removeItems s.buf index⟩ }) := by
  have hcpos : 0 < s.buf.cap := by have := h.size_le; omega
  have hst := h.start_lt' hcpos
  obtain ⟨hsz, _, hW, hl⟩ := h
  have hp1 := phys_lt s.buf.start s.buf.cap index hcpos
  have hp2 := phys_lt s.buf.start s.buf.cap (s.buf.size - 1) hcpos
  have hz : ¬ (s.buf.cap = 0 ∨ s.buf.size ≤ index) := by omega
  by_cases hb : phys s.buf.start s.buf.cap index ≤ phys s.buf.start s.buf.cap (s.buf.size - 1)
  · mrun [remove, hz, readInit_run _ _ _ _ he, setItems_run, decSize_run, removeItems, hb]
  · mrun [remove, hz, readInit_run _ _ _ _ he, setItems_run, decSize_run, removeItems, hb]

theorem removeItems_get (b : CB) (index i : Nat) (h : Inv b) (hidx : index < b.size)
    (hi : i < b.size - 1) :
    removeItems b index (phys b.start b.cap i) =
      if i < index then b.items (phys b.start b.cap i) else b.items (phys b.start b.cap (i + 1)) := by
  have hcpos : 0 < b.cap := by have := h.size_le; omega
  have hst := h.start_lt' hcpos
  have hsz := h.size_le
  unfold removeItems
  rcases phys_cases b.start b.cap index hst (by omega) with ⟨a1, a2⟩ | ⟨a1, a2⟩ <;>
  rcases phys_cases b.start b.cap (b.size - 1) hst (by omega) with ⟨b1, b2⟩ | ⟨b1, b2⟩ <;>
  (try (exfalso; omega)) <;>
  rcases phys_cases b.start b.cap i hst (by omega) with ⟨c1, c2⟩ | ⟨c1, c2⟩ <;>
  (try (exfalso; omega)) <;>
  rcases phys_cases b.start b.cap (i + 1) hst (by omega) with ⟨d1, d2⟩ | ⟨d1, d2⟩ <;>
  (try (exfalso; omega)) <;>
  simp only [a2, b2, c2, d2] <;>
  split <;> simp only [copy] <;> repeat' split
  all_goals first | rfl | (congr 1; omega) | (exfalso; omega)

theorem remove_spec (s : Sys) (index : Nat) (h : Inv s.buf) :
    Refines (remove index) s (Spec.remove (abs s.buf) index).2 (Spec.remove (abs s.buf) index).1 := by
  have hlen := abs_length s.buf h
  have hget := abs_getElem s.buf h
  by_cases hz : s.buf.cap = 0 ∨ s.buf.size ≤ index
  · have hle : (abs s.buf).length ≤ index := by have := h.size_le; omega
    refine ⟨s.buf, ?_, h, ?_, rfl⟩
    · mrun [remove, hz, Spec.remove, List.getElem?_eq_none hle]
    · simp [Spec.remove, List.eraseIdx_of_length_le hle]
  have hidx : index < s.buf.size := by omega
  have hcpos : 0 < s.buf.cap := by omega
  have hst := h.start_lt' hcpos
  have he := hget index (by omega)
  have hsome : (abs s.buf)[index]? = some ((abs s.buf)[index]'(by omega)) :=
    List.getElem?_eq_getElem _
  simp only [Spec.remove, hsome]
  apply refines_of _ _ _ _ ⟨s.buf.cap, s.buf.size - 1, s.buf.start, removeItems s.buf index⟩
  · exact remove_run s index _ h hidx he
  · rfl
  · exact h.cap_lt
  · rw [List.length_eraseIdx]; simp [hlen, hidx]
  · have := h.size_le; simp only; omega
  · exact Or.inl hst
  · intro i hi
    have hi' : i < s.buf.size - 1 := by
      rw [List.length_eraseIdx] at hi; simp [hlen, hidx] at hi; exact hi
    simp only
    rw [removeItems_get s.buf index i h hidx hi', List.getElem_eraseIdx]
    split
    · exact hget i (by omega)
    · exact hget (i + 1) (by omega)

end CircBuf
