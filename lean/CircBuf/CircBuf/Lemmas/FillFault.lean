import CircBuf.Lemmas.Fill
import CircBuf.Lemmas.CloneFault
import CircBuf.Lemmas.Faults
set_option linter.unusedSimpArgs false
set_option linter.unusedVariables false
/-! A panicking `T::clone` inside `fill_spare` / `fill`: the clones made before are in the buffer, the
value handed in is destroyed exactly once, the buffer is valid. -/
namespace CircBuf

/-- what a panicking `clone` leaves behind in the loop of `fill_spare` -/
structure CloneStop (s s' : Sys) (value : Elem) (k : Nat) : Prop where
  inv : Inv s'.buf
  abs_eq : abs s'.buf = abs s.buf ++ cloneList s.kind s.next (List.replicate k value)
  cap_eq : s'.buf.cap = s.buf.cap
  log_eq : s'.log = cloneLog s.kind s.next (List.replicate k value) ++ s.log
  next_eq : s'.next = s.next + cloneCount s.kind k
  drop_eq : s'.faults.drop = 0
  kind_eq : s'.kind = s.kind

theorem cloneLog_replicate_succ (k : Kind) (n j : Nat) (v : Elem) :
    cloneLog k n (List.replicate (j + 1) v)
      = cloneLog k (n + cloneCount k 1) (List.replicate j v) ++ cloneLog k n [v] := by
  have : List.replicate (j + 1) v = [v] ++ List.replicate j v := by simp [List.replicate_succ]
  rw [this, cloneLog_append]; simp

/-- **the `k+1`-th `clone` of `fill_spare`'s loop panics** (`k` clones fit before it): the loop stops
with the panic; the buffer is valid and holds the old contents followed by the `k` clones made -/
theorem fillSpareLoop_clone_fault (fuel : Nat) (s : Sys) (value : Elem) (k : Nat) (h : Inv s.buf)
    (hd : s.faults.drop = 0) (hc : s.faults.clone = k + 1)
    (hfuel : s.buf.cap - 1 - s.buf.size ≤ fuel) (hk : k < s.buf.cap - 1 - s.buf.size) :
    ∃ s', fillSpareLoop fuel value s = (.error (.user "clone"), s') ∧ CloneStop s s' value k := by
  induction fuel generalizing s k with
  | zero => omega
  | succ fuel ih =>
    have hlen := abs_length s.buf h
    have hlt : s.buf.size < s.buf.cap - 1 := by omega
    have hroom : s.buf.size < s.buf.cap := by omega
    have hcne : s.buf.cap ≠ 0 := by omega
    cases k with
    | zero =>
      refine ⟨{ s with faults := { s.faults with clone := 0 } }, ?_,
        ⟨h, by simp [cloneList], rfl, by simp [cloneLog], by simp [cloneCount], hd, rfl⟩⟩
      mrun [fillSpareLoop, hlt, cloneElem_panics s value (by simpa using hc)]
    | succ k =>
      have h1 := cloneElem_counts s value k (by omega)
      obtain ⟨c, hcdef⟩ : ∃ c, c = (cloneList s.kind s.next [value])[0]'(by simp [cloneList_length]) := ⟨_, rfl⟩
      rw [← hcdef] at h1
      obtain ⟨s0, hs0⟩ : ∃ s0 : Sys, s0 = { s with
          next := s.next + cloneCount s.kind 1
          log := cloneLog s.kind s.next [value] ++ s.log
          faults := { s.faults with clone := k + 1 } } := ⟨_, rfl⟩
      rw [← hs0] at h1
      have e1 : fillSpareLoop (fuel + 1) value s =
          ((pushBack c >>= dropOpt) >>= fun _ => fillSpareLoop fuel value) s0 := by
        rw [bind_assoc_run]
        mrun [fillSpareLoop, hlt, h1]
      have hI0 : Inv s0.buf := by rw [hs0]; exact h
      have hb0 : s0.buf = s.buf := by rw [hs0]
      have hpb : Spec.pushBack s.buf.cap (abs s.buf) c = (abs s.buf ++ [c], none) := by
        simp [Spec.pushBack, hcne, hlen, hroom]
      obtain ⟨s1, r1, p1⟩ := pushDrop_runs s0 c hI0 (by rw [hs0]; exact hd)
      rw [hb0, hpb] at p1
      have hsz1 : s1.buf.size = s.buf.size + 1 := by
        have := abs_length s1.buf p1.inv
        rw [p1.abs_eq] at this; simp [hlen] at this; omega
      have hc1 : s1.buf.cap = s.buf.cap := by rw [p1.cap_eq, hb0]
      obtain ⟨s', r2, p2⟩ := ih s1 k p1.inv (by rw [p1.faults_eq, hs0]; exact hd)
        (by rw [p1.faults_eq, hs0]) (by rw [hc1, hsz1]; omega) (by rw [hc1, hsz1]; omega)
      have hcl : cloneList s.kind s.next [value] = [c] := by
        rw [hcdef]
        by_cases hkd : s.kind = .tracked ∨ s.kind = .plain
        · simp [cloneList, hkd]
        · simp [cloneList, hkd]
      refine ⟨s', ?_, ⟨p2.inv, ?_, ?_, ?_, ?_, p2.drop_eq, ?_⟩⟩
      · have r1' := r1
        simp only [bind_run] at r1'
        rw [e1]; simp only [bind_run, r1', r2]
      · rw [p2.abs_eq, p1.abs_eq, cloneList_replicate_succ, hcl, p1.kind_eq, p1.next_eq, hs0]
        simp [List.append_assoc]
      · rw [p2.cap_eq, hc1]
      · rw [p2.log_eq, p1.log_eq, cloneLog_replicate_succ, p1.kind_eq, p1.next_eq, hs0]
        simp [List.append_assoc, dropEvents]
      · rw [p2.next_eq, p1.next_eq, p1.kind_eq, hs0]
        simp only
        have := cloneCount_add s.kind 1 k
        rw [Nat.add_comm 1 k] at this
        rw [this]; omega
      · rw [p2.kind_eq, p1.kind_eq, hs0]

/-- **`fill_spare(value)` with a `clone` that panics at its `k+1`-th call**: the panic propagates; the
buffer is valid and holds the old contents followed by the `k` clones made before; `value`, which
the callee owns, is destroyed exactly once (one more ledger entry); nothing else is destroyed and no
clone is lost -/
theorem fillSpare_clone_fault (s : Sys) (value : Elem) (k : Nat) (h : Inv s.buf)
    (hd : s.faults.drop = 0) (hc : s.faults.clone = k + 1) (hk : k < s.buf.cap - 1 - s.buf.size) :
    ∃ s', fillSpare value s = (.error (.user "clone"), s') ∧ Inv s'.buf ∧
      abs s'.buf = abs s.buf ++ cloneList s.kind s.next (List.replicate k value) ∧
      s'.buf.cap = s.buf.cap ∧
      s'.log = dropEvents s.kind [value] ++ cloneLog s.kind s.next (List.replicate k value) ++ s.log := by
  have hsz := h.size_le
  have hfull : ¬ (s.buf.cap = 0 ∨ s.buf.size = s.buf.cap) := by omega
  obtain ⟨s1, r1, p1⟩ := fillSpareLoop_clone_fault (s.buf.cap - s.buf.size) s value k h hd hc (by omega) hk
  have hdrop := dropElem_run s1 value p1.drop_eq
  refine ⟨{ s1 with log := dropEvents s1.kind [value] ++ s1.log }, ?_, p1.inv, p1.abs_eq, p1.cap_eq, ?_⟩
  · simp only [fillSpare, bind_run, getBuf_run, hfull, if_false, onPanic, r1, hdrop]
  · simp only [p1.log_eq, p1.kind_eq, List.append_assoc]

/-- the fault plan after `truncate_back`: the destructor counter went down by the number of elements
destroyed (whether or not one of them panicked), nothing else changed -/
theorem truncateBack_faults (s : Sys) (n : Nat) (h : Inv s.buf)
    (hk : ¬ (s.kind = .byte ∨ s.kind = .plain)) :
    (truncateBack n s).2.faults = { s.faults with drop := s.faults.drop - (s.buf.size - n) } := by
  have hsz := h.size_le
  by_cases hz : s.buf.cap = 0 ∨ s.buf.size ≤ n
  · have h0 : s.buf.size - n = 0 := by omega
    have : truncateBack n s = (.ok (), s) := by mrun [truncateBack, hz]
    rw [this, h0]
    obtain ⟨b, l, nx, f, kd⟩ := s
    obtain ⟨d, c, ca, nn, eq⟩ := f
    simp
  · have hn : n < s.buf.size := by omega
    have hd := dropRange_fault s n s.buf.size h hk hn (Nat.le_refl _) (Or.inr rfl)
    simp only [truncateBack, bind_run, getBuf_run, hz, if_false, hd]
    cases dropOutcome s.faults.drop (s.buf.size - n) with
    | ok u =>
      simp only [getBuf_run, dassert]
      split <;> rfl
    | error p => rfl

/-- **`fill(value)` when the `k`-th destructor call panics while the old contents are cleared**
(`1 ≤ k ≤ len`): the panic propagates; every old element was destroyed exactly once, `value` (owned by
the callee) is destroyed exactly once, the buffer is left empty and valid -/
theorem fill_drop_fault (s : Sys) (value : Elem) (h : Inv s.buf)
    (hk : ¬ (s.kind = .byte ∨ s.kind = .plain))
    (hfire : 1 ≤ s.faults.drop ∧ s.faults.drop ≤ s.buf.size) :
    ∃ s', fill value s = (.error (.user "drop"), s') ∧ Inv s'.buf ∧ abs s'.buf = [] ∧
      s'.buf.cap = s.buf.cap ∧
      s'.log = dropEvents s.kind [value] ++ dropEvents s.kind (abs s.buf) ++ s.log := by
  obtain ⟨s1, r1, p1⟩ := clear_any s h hk
  have hout : dropOutcome s.faults.drop s.buf.size = .error (.user "drop") := by
    simp [dropOutcome, hfire]
  rw [hout] at r1
  have hf1 : s1.faults.drop = 0 := by
    have := truncateBack_faults s 0 h hk
    have e : truncateBack 0 s = clear s := rfl
    rw [e, r1] at this
    simp only at this
    rw [this]; simp only; omega
  have hk1 : ¬ (s1.kind = .byte ∨ s1.kind = .plain) := by rw [p1.kind_eq]; exact hk
  have hdv := dropElem_fault s1 value hk1
  have hok : dropOutcome s1.faults.drop 1 = .ok () := by simp [dropOutcome, hf1]
  rw [hok] at hdv
  refine ⟨{ s1 with log := dropEvents s1.kind [value] ++ s1.log,
                    faults := { s1.faults with drop := s1.faults.drop - 1 } }, ?_, ?_, ?_, ?_, ?_⟩
  · simp only [fill, bind_run, onPanic, r1, hdv]
  · exact p1.inv
  · exact p1.abs_eq
  · exact p1.cap_eq
  · simp only [p1.log_eq, p1.kind_eq, List.append_assoc]

/-- **`fill(value)` with a `clone` that panics at its `k+1`-th call** (no destructor panics): the old
contents were destroyed, the buffer holds the `k` clones made, `value` is destroyed exactly once -/
theorem fill_clone_fault (s : Sys) (value : Elem) (k : Nat) (h : Inv s.buf)
    (hd : s.faults.drop = 0) (hc : s.faults.clone = k + 1) (hk : k < s.buf.cap - 1) :
    ∃ s', fill value s = (.error (.user "clone"), s') ∧ Inv s'.buf ∧
      abs s'.buf = cloneList s.kind s.next (List.replicate k value) ∧ s'.buf.cap = s.buf.cap ∧
      s'.log = dropEvents s.kind [value] ++ cloneLog s.kind s.next (List.replicate k value)
        ++ dropEvents s.kind (abs s.buf) ++ s.log := by
  obtain ⟨s1, r1, p1⟩ := (clear_spec s h hd).runs
  have hs0 : s1.buf.size = 0 := by
    have := abs_length s1.buf p1.inv
    rw [p1.abs_eq] at this; simp at this; omega
  obtain ⟨s2, r2, h2, h3, h4, h5⟩ := fillSpare_clone_fault s1 value k p1.inv
    (by rw [p1.faults_eq]; exact hd) (by rw [p1.faults_eq]; exact hc)
    (by rw [p1.cap_eq, hs0]; omega)
  refine ⟨s2, ?_, h2, ?_, by rw [h4, p1.cap_eq], ?_⟩
  · simp only [fill, bind_run, onPanic, r1, r2]
  · rw [h3, p1.abs_eq, p1.kind_eq, p1.next_eq]; simp
  · rw [h5, p1.log_eq, p1.kind_eq, p1.next_eq]; simp [List.append_assoc]

end CircBuf
