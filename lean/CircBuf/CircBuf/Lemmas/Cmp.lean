import CircBuf.Lemmas.IO
set_option linter.unusedSimpArgs false
set_option linter.unusedVariables false
/-! Equality, ordering, hashing, formatting depend only on the logical contents. -/
namespace CircBuf

def vals (l : List Elem) : List Nat := l.map (·.val)

/-- the state after some comparisons: only the ledger grew -/
def LogExt (s s' : Sys) : Prop := ∃ evs, s' = { s with log := evs ++ s.log }

theorem LogExt.refl (s : Sys) : LogExt s s := ⟨[], rfl⟩
theorem LogExt.trans {a b c : Sys} (h1 : LogExt a b) (h2 : LogExt b c) : LogExt a c := by
  obtain ⟨e1, rfl⟩ := h1
  obtain ⟨e2, rfl⟩ := h2
  exact ⟨e2 ++ e1, by simp [List.append_assoc]⟩

theorem LogExt.faults {s s' : Sys} (h : LogExt s s') : s'.faults = s.faults := by
  obtain ⟨e, rfl⟩ := h; rfl

theorem eqOne_run (x y : Elem) (s : Sys) (hf : s.faults.eq = 0) :
    ∃ s', eqOne x y s = (.ok (decide (x.val = y.val)), s') ∧ LogExt s s' := by
  obtain ⟨b, l, n, f, k⟩ := s
  obtain ⟨d, c, ca, nx, eq⟩ := f
  simp only at hf; subst hf
  by_cases hk : k = .byte
  · exact ⟨_, by simp [eqOne, tick, hk], LogExt.refl _⟩
  · refine ⟨⟨b, .cmp x.id y.id :: l, n, ⟨d, c, ca, nx, 0⟩, k⟩, by simp [eqOne, tick, hk],
      ⟨[.cmp x.id y.id], rfl⟩⟩

theorem eqElems_run (xs ys : List Elem) (s : Sys) (hf : s.faults.eq = 0) :
    ∃ s', eqElems xs ys s = (.ok (decide (vals xs = vals ys)), s') ∧ LogExt s s' := by
  induction xs generalizing ys s with
  | nil =>
    cases ys with
    | nil => exact ⟨s, by simp [eqElems, vals], LogExt.refl s⟩
    | cons y ys => exact ⟨s, by simp [eqElems, vals], LogExt.refl s⟩
  | cons x xs ih =>
    cases ys with
    | nil => exact ⟨s, by simp [eqElems, vals], LogExt.refl s⟩
    | cons y ys =>
      obtain ⟨s1, h1, e1⟩ := eqOne_run x y s hf
      by_cases hv : x.val = y.val
      · obtain ⟨s2, h2, e2⟩ := ih ys s1 (by rw [e1.faults]; exact hf)
        refine ⟨s2, ?_, e1.trans e2⟩
        simp only [eqElems, bind_run, h1, hv, decide_true, if_true, h2]
        simp [vals, hv]
        try (first | rfl | (rw [decide_eq_decide]))
      · refine ⟨s1, ?_, e1⟩
        simp only [eqElems, bind_run, h1, hv, decide_false, pure_run]
        simp [vals, hv]

/-- the three-way alignment of two two-segment sequences is list equality -/
theorem align_lt (A1 A2 B1 B2 : List Nat) (h1 : A1.length ≤ B1.length)
    (hlen : A1.length + A2.length = B1.length + B2.length) :
    (A1 = B1.take A1.length ∧ A2.take (B1.length - A1.length) = B1.drop A1.length ∧
      A2.drop (B1.length - A1.length) = B2) ↔ A1 ++ A2 = B1 ++ B2 := by
  constructor
  · intro ⟨e1, e2, e3⟩
    calc A1 ++ A2 = A1 ++ (A2.take (B1.length - A1.length) ++ A2.drop (B1.length - A1.length)) := by
            rw [List.take_append_drop]
      _ = B1.take A1.length ++ (B1.drop A1.length ++ B2) := by rw [e2, e3, ← e1]
      _ = B1 ++ B2 := by rw [← List.append_assoc, List.take_append_drop]
  · intro h
    have ht : (A1 ++ A2).take A1.length = (B1 ++ B2).take A1.length := by rw [h]
    rw [List.take_left, List.take_append_of_le_length h1] at ht
    have hd : (A1 ++ A2).drop A1.length = (B1 ++ B2).drop A1.length := by rw [h]
    rw [List.drop_left, List.drop_append_of_le_length h1] at hd
    refine ⟨ht, ?_, ?_⟩
    · have := congrArg (List.take (B1.length - A1.length)) hd
      rw [List.take_append_of_le_length (by simp)] at this
      rw [this]; apply List.take_of_length_le; simp
    · have := congrArg (List.drop (B1.length - A1.length)) hd
      rw [this, List.drop_append_of_le_length (by simp)]
      have : (B1.drop A1.length).drop (B1.length - A1.length) = [] := by
        apply List.drop_eq_nil_of_le; simp
      rw [this]; rfl

/-- `p && q` with short-circuit: `if !(p) then false else q` -/
def sc (p q : M Bool) : M Bool := do
  if !(← p) then pure false else q

theorem shortCircuit_run (p q : M Bool) (s : Sys) (P Q : Prop) [Decidable P] [Decidable Q]
    (hp : ∃ s1, p s = (.ok (decide P), s1) ∧ LogExt s s1)
    (hq : ∀ s1, LogExt s s1 → ∃ s2, q s1 = (.ok (decide Q), s2) ∧ LogExt s1 s2) :
    ∃ s2, sc p q s = (.ok (decide (P ∧ Q)), s2) ∧ LogExt s s2 := by
  unfold sc
  obtain ⟨s1, h1, e1⟩ := hp
  by_cases hP : P
  · obtain ⟨s2, h2, e2⟩ := hq s1 e1
    refine ⟨s2, ?_, e1.trans e2⟩
    simp only [bind_run, h1, hP, decide_true, Bool.not_true, Bool.false_eq_true, if_false, h2, true_and]
  · refine ⟨s1, ?_, e1⟩
    simp only [bind_run, h1, hP, decide_false, Bool.not_false, if_true, pure_run, false_and]

theorem vals_append (a b : List Elem) : vals (a ++ b) = vals a ++ vals b := by simp [vals]
theorem vals_take (a : List Elem) (n : Nat) : vals (a.take n) = (vals a).take n := by simp [vals, List.map_take]
theorem vals_drop (a : List Elem) (n : Nat) : vals (a.drop n) = (vals a).drop n := by simp [vals, List.map_drop]
theorem vals_length (a : List Elem) : (vals a).length = a.length := by simp [vals]

theorem slices_of (b : CB) (h : Inv b) :
    ∃ f k, asSlicesOf b = .ok (f, k) ∧ viewElems b f ++ viewElems b k = abs b ∧
      (viewElems b f).length = f.len ∧ (viewElems b k).length = k.len := by
  obtain ⟨f, k, hsl, hslots, _⟩ := asSlicesOf_spec b h
  have hall : ∀ i ∈ f.slots ++ k.slots, (b.items i).isSome = true := by
    intro i hi
    rw [hslots] at hi
    by_cases hc : b.cap = 0
    · have : b.size = 0 := by have := h.size_le; omega
      simp [windowSlots, this] at hi
    · have hst := h.start_lt' (by omega)
      have := windowSlots_live b h 0 b.size (by omega) i
      rw [phys_zero _ _ hst] at this
      exact this hi
  exact ⟨f, k, hsl, viewElems_append b h f k hslots,
    viewElems_length b h f (fun i hi => hall i (List.mem_append_left _ hi)),
    viewElems_length b h k (fun i hi => hall i (List.mem_append_right _ hi))⟩

/-- the facts `eqBuf` works with -/
structure EqCtx (s : Sys) (other : CB) (al ar bl br : View) : Prop where
  hsz : s.buf.size = other.size
  hsa : asSlicesOf s.buf = .ok (al, ar)
  hsb : asSlicesOf other = .ok (bl, br)
  happa : viewElems s.buf al ++ viewElems s.buf ar = abs s.buf
  happb : viewElems other bl ++ viewElems other br = abs other
  hlal : (viewElems s.buf al).length = al.len
  hlar : (viewElems s.buf ar).length = ar.len
  hlbl : (viewElems other bl).length = bl.len
  hlbr : (viewElems other br).length = br.len
  htot : al.len + ar.len = bl.len + br.len
  hf : s.faults.eq = 0

theorem eqBuf_lt (s : Sys) (other : CB) (al ar bl br : View) (c : EqCtx s other al ar bl br)
    (hlt : al.len < bl.len) :
    ∃ s', eqBuf other s = (.ok (decide (vals (viewElems s.buf al) ++ vals (viewElems s.buf ar) =
      vals (viewElems other bl) ++ vals (viewElems other br))), s') ∧ LogExt s s' := by
  obtain ⟨hsz', hsa, hsb, happa, happb, hlal, hlar, hlbl, hlbr, htot, hf⟩ := c
  have hfx : ∀ s1, LogExt s s1 → s1.faults.eq = 0 := fun s1 e => by rw [e.faults]; exact hf
  have hy : bl.len - al.len ≤ ar.len := by omega
  have key := align_lt (vals (viewElems s.buf al)) (vals (viewElems s.buf ar))
    (vals (viewElems other bl)) (vals (viewElems other br))
    (by simp [vals_length, hlal, hlbl]; omega) (by simp [vals_length, hlal, hlar, hlbl, hlbr]; exact htot)
  simp only [vals_length, hlal, hlbl] at key
  obtain ⟨s', hrun, hext⟩ := shortCircuit_run
    (eqElems (viewElems s.buf al) ((viewElems other bl).take al.len))
    (sc (eqElems ((viewElems s.buf ar).take (bl.len - al.len)) ((viewElems other bl).drop al.len))
      (eqElems ((viewElems s.buf ar).drop (bl.len - al.len)) (viewElems other br)))
    s _ _ (eqElems_run _ _ s hf)
    (fun s1 e1 => shortCircuit_run _ _ s1 _ _ (eqElems_run _ _ s1 (hfx s1 e1))
      (fun s2 e2 => eqElems_run _ _ s2 (hfx s2 (e1.trans e2))))
  refine ⟨s', ?_, hext⟩
  simp only [vals_take, vals_drop] at hrun
  have e : eqBuf other s = sc (eqElems (viewElems s.buf al) ((viewElems other bl).take al.len))
      (sc (eqElems ((viewElems s.buf ar).take (bl.len - al.len)) ((viewElems other bl).drop al.len))
        (eqElems ((viewElems s.buf ar).drop (bl.len - al.len)) (viewElems other br))) s := by
    mrun [eqBuf, sc, hsz', hsa, hsb, hlt, ne_eq, not_true_eq_false]
  rw [e, hrun]
  congr 2
  rw [decide_eq_decide]; exact key

theorem eqBuf_gt (s : Sys) (other : CB) (al ar bl br : View) (c : EqCtx s other al ar bl br)
    (hgt : bl.len < al.len) :
    ∃ s', eqBuf other s = (.ok (decide (vals (viewElems s.buf al) ++ vals (viewElems s.buf ar) =
      vals (viewElems other bl) ++ vals (viewElems other br))), s') ∧ LogExt s s' := by
  obtain ⟨hsz', hsa, hsb, happa, happb, hlal, hlar, hlbl, hlbr, htot, hf⟩ := c
  have hfx : ∀ s1, LogExt s s1 → s1.faults.eq = 0 := fun s1 e => by rw [e.faults]; exact hf
  have hy : al.len - bl.len ≤ br.len := by omega
  have hnlt : ¬ al.len < bl.len := by omega
  have key := align_lt (vals (viewElems other bl)) (vals (viewElems other br))
    (vals (viewElems s.buf al)) (vals (viewElems s.buf ar))
    (by simp [vals_length, hlal, hlbl]; omega) (by simp [vals_length, hlal, hlar, hlbl, hlbr]; omega)
  simp only [vals_length, hlal, hlbl] at key
  obtain ⟨s', hrun, hext⟩ := shortCircuit_run
    (eqElems ((viewElems s.buf al).take bl.len) (viewElems other bl))
    (sc (eqElems ((viewElems s.buf al).drop bl.len) ((viewElems other br).take (al.len - bl.len)))
      (eqElems (viewElems s.buf ar) ((viewElems other br).drop (al.len - bl.len))))
    s _ _ (eqElems_run _ _ s hf)
    (fun s1 e1 => shortCircuit_run _ _ s1 _ _ (eqElems_run _ _ s1 (hfx s1 e1))
      (fun s2 e2 => eqElems_run _ _ s2 (hfx s2 (e1.trans e2))))
  refine ⟨s', ?_, hext⟩
  simp only [vals_take, vals_drop] at hrun
  have e : eqBuf other s = sc (eqElems ((viewElems s.buf al).take bl.len) (viewElems other bl))
      (sc (eqElems ((viewElems s.buf al).drop bl.len) ((viewElems other br).take (al.len - bl.len)))
        (eqElems (viewElems s.buf ar) ((viewElems other br).drop (al.len - bl.len)))) s := by
    mrun [eqBuf, sc, hsz', hsa, hsb, hnlt, hgt, ne_eq, not_true_eq_false]
  rw [e, hrun]
  congr 2
  rw [decide_eq_decide]
  constructor
  · intro ⟨e1, e2, e3⟩; exact (key.mp ⟨e1.symm, e2.symm, e3.symm⟩).symm
  · intro e0; obtain ⟨e1, e2, e3⟩ := key.mpr e0.symm; exact ⟨e1.symm, e2.symm, e3.symm⟩

theorem eqBuf_eq (s : Sys) (other : CB) (al ar bl br : View) (c : EqCtx s other al ar bl br)
    (heq : al.len = bl.len) :
    ∃ s', eqBuf other s = (.ok (decide (vals (viewElems s.buf al) ++ vals (viewElems s.buf ar) =
      vals (viewElems other bl) ++ vals (viewElems other br))), s') ∧ LogExt s s' := by
  obtain ⟨hsz', hsa, hsb, happa, happb, hlal, hlar, hlbl, hlbr, htot, hf⟩ := c
  have hfx : ∀ s1, LogExt s s1 → s1.faults.eq = 0 := fun s1 e => by rw [e.faults]; exact hf
  have her : ar.len = br.len := by omega
  have hnlt : ¬ al.len < bl.len := by omega
  have hngt : ¬ bl.len < al.len := by omega
  obtain ⟨s', hrun, hext⟩ := shortCircuit_run
    (eqElems (viewElems s.buf al) (viewElems other bl))
    (eqElems (viewElems s.buf ar) (viewElems other br))
    s _ _ (eqElems_run _ _ s hf) (fun s1 e1 => eqElems_run _ _ s1 (hfx s1 e1))
  refine ⟨s', ?_, hext⟩
  have e : eqBuf other s = sc (eqElems (viewElems s.buf al) (viewElems other bl))
      (eqElems (viewElems s.buf ar) (viewElems other br)) s := by
    mrun [eqBuf, sc, hsz', hsa, hsb, hnlt, hngt, her, ne_eq, not_true_eq_false]
  rw [e, hrun]
  congr 2
  rw [decide_eq_decide]
  constructor
  · intro ⟨e1, e2⟩; rw [e1, e2]
  · intro e0
    have hl : (vals (viewElems s.buf al)).length = (vals (viewElems other bl)).length := by
      simp [vals_length, hlal, hlbl, heq]
    exact List.append_inj e0 hl

/-- **equality of two buffers** (any capacities, any layouts) is equality of their element
sequences; no slice index goes out of range -/
theorem eqBuf_spec (s : Sys) (other : CB) (h : Inv s.buf) (ho : Inv other) (hf : s.faults.eq = 0) :
    ∃ s', eqBuf other s = (.ok (decide (vals (abs s.buf) = vals (abs other))), s') ∧ LogExt s s' := by
  have hla := abs_length s.buf h
  have hlb := abs_length other ho
  by_cases hsz : s.buf.size ≠ other.size
  · refine ⟨s, ?_, LogExt.refl s⟩
    have : vals (abs s.buf) ≠ vals (abs other) := by
      intro e; have := congrArg List.length e; simp [vals_length, hla, hlb] at this; exact hsz this
    mrun [eqBuf, hsz, this, decide_false, ne_eq, not_false_eq_true]
  have hsz' : s.buf.size = other.size := by
    by_cases e : s.buf.size = other.size
    · exact e
    · exact absurd e hsz
  obtain ⟨al, ar, hsa, happa, hlal, hlar⟩ := slices_of s.buf h
  obtain ⟨bl, br, hsb, happb, hlbl, hlbr⟩ := slices_of other ho
  have htot : al.len + ar.len = bl.len + br.len := by
    have e1 := congrArg List.length happa
    have e2 := congrArg List.length happb
    simp [hlal, hlar, hla] at e1
    simp [hlbl, hlbr, hlb] at e2
    omega
  have c : EqCtx s other al ar bl br := ⟨hsz', hsa, hsb, happa, happb, hlal, hlar, hlbl, hlbr, htot, hf⟩
  rw [← happa, ← happb, vals_append, vals_append]
  by_cases hlt : al.len < bl.len
  · exact eqBuf_lt s other al ar bl br c hlt
  · by_cases hgt : bl.len < al.len
    · exact eqBuf_gt s other al ar bl br c hgt
    · exact eqBuf_eq s other al ar bl br c (by omega)

end CircBuf

namespace CircBuf

/-- `PartialEq<[U]>`: comparison with a slice (hence arrays and references to them) -/
theorem eqSlice_spec (s : Sys) (other : List Elem) (h : Inv s.buf) (hf : s.faults.eq = 0) :
    ∃ s', eqSlice other s = (.ok (decide (vals (abs s.buf) = vals other)), s') ∧ LogExt s s' := by
  have hla := abs_length s.buf h
  by_cases hsz : s.buf.size ≠ other.length
  · refine ⟨s, ?_, LogExt.refl s⟩
    have : vals (abs s.buf) ≠ vals other := by
      intro e; have := congrArg List.length e; simp [vals_length, hla] at this; exact hsz this
    mrun [eqSlice, hsz, this, decide_false, ne_eq, not_false_eq_true]
  have hsz' : s.buf.size = other.length := by
    by_cases e : s.buf.size = other.length
    · exact e
    · exact absurd e hsz
  obtain ⟨al, ar, hsa, happa, hlal, hlar⟩ := slices_of s.buf h
  have hfx : ∀ s1, LogExt s s1 → s1.faults.eq = 0 := fun s1 e => by rw [e.faults]; exact hf
  have htot : al.len + ar.len = other.length := by
    have e1 := congrArg List.length happa
    simp [hlal, hlar, hla] at e1; omega
  obtain ⟨s', hrun, hext⟩ := shortCircuit_run
    (eqElems (viewElems s.buf al) (other.take al.len))
    (eqElems (viewElems s.buf ar) (other.drop al.len))
    s _ _ (eqElems_run _ _ s hf) (fun s1 e1 => eqElems_run _ _ s1 (hfx s1 e1))
  refine ⟨s', ?_, hext⟩
  have hle : al.len ≤ other.length := by omega
  have hdl : ar.len = (other.drop al.len).length := by simp; omega
  have e : eqSlice other s = sc (eqElems (viewElems s.buf al) (other.take al.len))
      (eqElems (viewElems s.buf ar) (other.drop al.len)) s := by
    mrun [eqSlice, sc, hsz', hsa, hle, hdl, ne_eq, not_true_eq_false]
  rw [e, hrun]
  congr 2
  rw [decide_eq_decide, ← happa, vals_append]
  constructor
  · intro ⟨e1, e2⟩
    rw [e1, e2, ← vals_append, List.take_append_drop]
  · intro e0
    have hsplit : vals other = vals (other.take al.len) ++ vals (other.drop al.len) := by
      rw [← vals_append, List.take_append_drop]
    rw [hsplit] at e0
    exact List.append_inj e0 (by simp [vals_length, hlal]; omega)

/-- the lexicographic three-way comparison of two sequences of values -/
def lexCmp : List Nat → List Nat → Int
  | [], [] => 0
  | [], _ :: _ => -1
  | _ :: _, [] => 1
  | x :: xs, y :: ys => if x < y then -1 else if x > y then 1 else lexCmp xs ys

theorem lexCmp_eq_zero (a b : List Nat) : lexCmp a b = 0 ↔ a = b := by
  induction a generalizing b with
  | nil => cases b <;> simp [lexCmp]
  | cons x xs ih =>
    cases b with
    | nil => simp [lexCmp]
    | cons y ys =>
      simp only [lexCmp]
      by_cases h1 : x < y
      · simp [h1]; omega
      · by_cases h2 : x > y
        · simp [h1, h2]; omega
        · have : x = y := by omega
          simp [h1, h2, ih, this]

theorem lexCmp_lt (a b : List Nat) : lexCmp a b = -1 ↔ a < b := by
  induction a generalizing b with
  | nil => cases b <;> simp [lexCmp]
  | cons x xs ih =>
    cases b with
    | nil => simp [lexCmp]
    | cons y ys =>
      simp only [lexCmp, List.cons_lt_cons_iff]
      by_cases h1 : x < y
      · simp [h1]
      · by_cases h2 : x > y
        · simp [h1, h2]; omega
        · have : x = y := by omega
          simp [h1, h2, ih, this]

theorem emitAll_run (xs : List Elem) (f : Elem → Event) (s : Sys) :
    ∃ s', (xs.forM (fun e => emit (f e))) s = (.ok (), s') ∧ LogExt s s' := by
  induction xs generalizing s with
  | nil => exact ⟨s, rfl, LogExt.refl s⟩
  | cons x xs ih =>
    obtain ⟨s', h1, h2⟩ := ih (if s.kind = .byte ∧ f x ≠ .alloc then s else { s with log := f x :: s.log })
    refine ⟨s', ?_, LogExt.trans ?_ h2⟩
    · simp only [List.forM, bind_run, emit, h1]
    · split
      · exact LogExt.refl s
      · exact ⟨[f x], rfl⟩

theorem cmpElems_run (xs ys : List Elem) (s : Sys) :
    ∃ s', cmpElems xs ys s = (.ok (lexCmp (vals xs) (vals ys)), s') ∧ LogExt s s' := by
  induction xs generalizing ys s with
  | nil => cases ys <;> exact ⟨s, by simp [cmpElems, lexCmp, vals], LogExt.refl s⟩
  | cons x xs ih =>
    cases ys with
    | nil => exact ⟨s, by simp [cmpElems, lexCmp, vals], LogExt.refl s⟩
    | cons y ys =>
      have he : LogExt s (if s.kind = .byte ∧ Event.cmp x.id y.id ≠ .alloc then s
          else { s with log := .cmp x.id y.id :: s.log }) := by
        split
        · exact LogExt.refl s
        · exact ⟨[.cmp x.id y.id], rfl⟩
      by_cases h1 : x.val < y.val
      · exact ⟨_, by simp [cmpElems, emit, lexCmp, vals, h1], he⟩
      · by_cases h2 : x.val > y.val
        · exact ⟨_, by simp [cmpElems, emit, lexCmp, vals, h1, h2], he⟩
        · obtain ⟨s', h3, h4⟩ := ih ys (if s.kind = .byte ∧ Event.cmp x.id y.id ≠ .alloc then s
            else { s with log := .cmp x.id y.id :: s.log })
          refine ⟨s', ?_, he.trans h4⟩
          simp only [cmpElems, bind_run, emit, h1, h2, if_false, h3]
          simp [lexCmp, vals, h1, h2]

theorem LogExt.buf {s s' : Sys} (h : LogExt s s') : s'.buf = s.buf := by
  obtain ⟨e, rfl⟩ := h; rfl

theorem contentsOf_run (other : CB) (s : Sys) (ho : Inv other) :
    contentsOf other s = (.ok (abs other), s) := by
  have := contents_run { s with buf := other } ho
  simp only [contentsOf, bind_run, swapIn, attempt, this, pure_run]

/-- `partial_cmp` / `cmp`: the lexicographic order of the two element sequences -/
theorem cmpBuf_spec (s : Sys) (other : CB) (h : Inv s.buf) (ho : Inv other) :
    ∃ s', cmpBuf other s = (.ok (lexCmp (vals (abs s.buf)) (vals (abs other))), s') ∧ LogExt s s' := by
  obtain ⟨s', h1, h2⟩ := cmpElems_run (abs s.buf) (abs other) s
  exact ⟨s', by simp only [cmpBuf, bind_run, contents_run s h, contentsOf_run other s ho, h1], h2⟩

/-- `Hash`: the hasher is fed the length followed by the elements in order -/
theorem hashWords_spec (s : Sys) (h : Inv s.buf) :
    ∃ s', hashWords s = (.ok (s.buf.size :: vals (abs s.buf)), s') ∧ LogExt s s' := by
  obtain ⟨s', h1, h2⟩ := emitAll_run (abs s.buf) (fun e => Event.hashed e.id) s
  exact ⟨s', by simp only [hashWords, bind_run, getBuf_run, contents_run s h, h1, pure_run, vals], h2⟩

/-- `Debug`: the entries of the list are the elements in order -/
theorem fmtItems_spec (s : Sys) (h : Inv s.buf) :
    ∃ s', fmtItems s = (.ok (abs s.buf), s') ∧ LogExt s s' := by
  obtain ⟨s', h1, h2⟩ := emitAll_run (abs s.buf) (fun e => Event.fmt e.id) s
  exact ⟨s', by simp only [fmtItems, bind_run, contents_run s h, h1, pure_run], h2⟩

end CircBuf
