import CircBuf.Lemmas.Truncate
import CircBuf.Lemmas.Remove
import CircBuf.Lemmas.Contig
import CircBuf.Lemmas.Loops
set_option linter.unusedSimpArgs false
set_option linter.unusedVariables false
/-! Histories: any finite sequence of operations, started from `new()`, behaves like the same
sequence on the abstract deque — by induction, using the per-operation refinement theorems. -/
namespace CircBuf

inductive Op where
  | pushBack (x : Elem) | pushFront (x : Elem) | tryPushBack (x : Elem) | tryPushFront (x : Elem)
  | popBack | popFront | remove (i : Nat) | swapRemoveBack (i : Nat) | swapRemoveFront (i : Nat)
  | swap (i j : Nat) | truncateBack (n : Nat) | truncateFront (n : Nat) | clear | makeContiguous

inductive Out where
  | unit
  | elem (o : Option Elem)
  | res (r : Except Elem Unit)
  | panicked (kind : String)

/-- one protocol step of the model -/
def runOp : Op → M Out
  | .pushBack x => do let r ← pushBack x; pure (.elem r)
  | .pushFront x => do let r ← pushFront x; pure (.elem r)
  | .tryPushBack x => do let r ← tryPushBack x; pure (.res r)
  | .tryPushFront x => do let r ← tryPushFront x; pure (.res r)
  | .popBack => do let r ← popBack; pure (.elem r)
  | .popFront => do let r ← popFront; pure (.elem r)
  | .remove i => do let r ← remove i; pure (.elem r)
  | .swapRemoveBack i => do let r ← swapRemoveBack i; pure (.elem r)
  | .swapRemoveFront i => do let r ← swapRemoveFront i; pure (.elem r)
  | .swap i j => do
      match ← attempt (swap i j) with
      | .ok _ => pure .unit
      | .error (.doc k) => pure (.panicked k)
      | .error p => raise p
  | .truncateBack n => do truncateBack n; pure .unit
  | .truncateFront n => do truncateFront n; pure .unit
  | .clear => do clear; pure .unit
  | .makeContiguous => do let _ ← makeContiguous; pure .unit

/-- the same step on the abstract deque -/
def Spec.step (cap : Nat) (xs : List Elem) : Op → List Elem × Out
  | .pushBack x => ((Spec.pushBack cap xs x).1, .elem (Spec.pushBack cap xs x).2)
  | .pushFront x => ((Spec.pushFront cap xs x).1, .elem (Spec.pushFront cap xs x).2)
  | .tryPushBack x => ((Spec.tryPushBack cap xs x).1, .res (Spec.tryPushBack cap xs x).2)
  | .tryPushFront x => ((Spec.tryPushFront cap xs x).1, .res (Spec.tryPushFront cap xs x).2)
  | .popBack => ((Spec.popBack xs).1, .elem (Spec.popBack xs).2)
  | .popFront => ((Spec.popFront xs).1, .elem (Spec.popFront xs).2)
  | .remove i => ((Spec.remove xs i).1, .elem (Spec.remove xs i).2)
  | .swapRemoveBack i => ((Spec.swapRemoveBack xs i).1, .elem (Spec.swapRemoveBack xs i).2)
  | .swapRemoveFront i => ((Spec.swapRemoveFront xs i).1, .elem (Spec.swapRemoveFront xs i).2)
  | .swap i j =>
      if i < xs.length then (if j < xs.length then (Spec.swap xs i j, .unit) else (xs, .panicked "swap_j"))
      else (xs, .panicked "swap_i")
  | .truncateBack n => (Spec.truncateBack xs n, .unit)
  | .truncateFront n => (Spec.truncateFront xs n, .unit)
  | .clear => ([], .unit)
  | .makeContiguous => (xs, .unit)

def Op.given : Op → List Elem
  | .pushBack x => [x] | .pushFront x => [x] | .tryPushBack x => [x] | .tryPushFront x => [x]
  | _ => []

def Out.handed : Out → List Elem
  | .elem (some e) => [e]
  | .res (.error x) => [x]
  | _ => []

/-- the elements an operation destroys -/
def Spec.destroyed (xs : List Elem) : Op → List Elem
  | .truncateBack n => xs.drop n
  | .truncateFront n => xs.take (xs.length - n)
  | .clear => xs
  | _ => []

/-- what the history theorems carry from step to step -/
structure Good (cap : Nat) (s : Sys) : Prop where
  inv : Inv s.buf
  cap_eq : s.buf.cap = cap
  nodrop : s.faults.drop = 0

theorem step_refines (cap : Nat) (s : Sys) (op : Op) (g : Good cap s) :
    ∃ s', runOp op s = (.ok (Spec.step cap (abs s.buf) op).2, s') ∧ Good cap s' ∧
      abs s'.buf = (Spec.step cap (abs s.buf) op).1 ∧
      s'.log = dropEvents s.kind (Spec.destroyed (abs s.buf) op) ++ s.log ∧ s'.kind = s.kind ∧
      s'.next = s.next ∧ s'.faults = s.faults := by
  obtain ⟨h, hc, hd⟩ := g
  have fromRefines : ∀ {α : Type} (m : M α) (r : α) (xs' : List Elem) (f : α → Out),
      Refines m s r xs' → ∃ s', (m >>= fun a => pure (f a)) s = (.ok (f r), s') ∧ Good cap s' ∧
        abs s'.buf = xs' ∧ s'.log = dropEvents s.kind [] ++ s.log ∧ s'.kind = s.kind ∧
        s'.next = s.next ∧ s'.faults = s.faults := by
    intro α m r xs' f ⟨b', e, i, a, c⟩
    exact ⟨{ s with buf := b' }, by simp only [bind_run, e, pure_run], ⟨i, by rw [c, hc], hd⟩, a,
      by simp [dropEvents_nil], rfl, rfl, rfl⟩
  have fromRefinesL : ∀ (m : M Unit) (xs' : List Elem) (evs : List Event),
      RefinesL m s () xs' evs → ∃ s', (m >>= fun _ => pure Out.unit) s = (.ok Out.unit, s') ∧
        Good cap s' ∧ abs s'.buf = xs' ∧ s'.log = evs ++ s.log ∧ s'.kind = s.kind ∧
        s'.next = s.next ∧ s'.faults = s.faults := by
    intro m xs' evs ⟨b', e, i, a, c⟩
    exact ⟨{ s with buf := b', log := evs ++ s.log }, by simp only [bind_run, e, pure_run],
      ⟨i, by rw [c, hc], hd⟩, a, rfl, rfl, rfl, rfl⟩
  cases op with
  | pushBack x => simpa [runOp, Spec.step, Spec.destroyed, hc] using fromRefines _ _ _ Out.elem (pushBack_spec s x h)
  | pushFront x => simpa [runOp, Spec.step, Spec.destroyed, hc] using fromRefines _ _ _ Out.elem (pushFront_spec s x h)
  | tryPushBack x => simpa [runOp, Spec.step, Spec.destroyed, hc] using fromRefines _ _ _ Out.res (tryPushBack_spec s x h)
  | tryPushFront x => simpa [runOp, Spec.step, Spec.destroyed, hc] using fromRefines _ _ _ Out.res (tryPushFront_spec s x h)
  | popBack => simpa [runOp, Spec.step, Spec.destroyed] using fromRefines _ _ _ Out.elem (popBack_spec s h)
  | popFront => simpa [runOp, Spec.step, Spec.destroyed] using fromRefines _ _ _ Out.elem (popFront_spec s h)
  | remove i => simpa [runOp, Spec.step, Spec.destroyed] using fromRefines _ _ _ Out.elem (remove_spec s i h)
  | swapRemoveBack i =>
    simpa [runOp, Spec.step, Spec.destroyed] using fromRefines _ _ _ Out.elem (swapRemoveBack_spec s i h)
  | swapRemoveFront i =>
    simpa [runOp, Spec.step, Spec.destroyed] using fromRefines _ _ _ Out.elem (swapRemoveFront_spec s i h)
  | swap i j =>
    have hlen := abs_length s.buf h
    by_cases hi : i < s.buf.size
    · by_cases hj : j < s.buf.size
      · obtain ⟨b', e, i', a, c⟩ := swap_spec s i j h hi hj
        refine ⟨{ s with buf := b' }, ?_, ⟨i', by rw [c, hc], hd⟩, ?_, by simp [Spec.destroyed, dropEvents_nil], rfl, rfl, rfl⟩
        · simp only [runOp, bind_run, attempt, e, pure_run, Spec.step, hlen, hi, hj, if_true]
        · simp only [Spec.step, hlen, hi, hj, if_true]; exact a
      · refine ⟨s, ?_, ⟨h, hc, hd⟩, by simp [Spec.step, hlen, hi, hj], by simp [Spec.destroyed, dropEvents_nil], rfl, rfl, rfl⟩
        simp only [runOp, bind_run, attempt, swap_panics_j s i j hi hj, pure_run, Spec.step, hlen, hi,
          hj, if_true, if_false]
    · refine ⟨s, ?_, ⟨h, hc, hd⟩, by simp [Spec.step, hlen, hi], by simp [Spec.destroyed, dropEvents_nil], rfl, rfl, rfl⟩
      simp only [runOp, bind_run, attempt, swap_panics_i s i j hi, pure_run, Spec.step, hlen, hi,
        if_false]
  | truncateBack n =>
    simpa [runOp, Spec.step, Spec.destroyed, Spec.truncateBack] using fromRefinesL _ _ _ (truncateBack_spec s n h hd)
  | truncateFront n =>
    simpa [runOp, Spec.step, Spec.destroyed, Spec.truncateFront] using fromRefinesL _ _ _ (truncateFront_spec s n h hd)
  | clear => simpa [runOp, Spec.step, Spec.destroyed] using fromRefinesL _ _ _ (clear_spec s h hd)
  | makeContiguous =>
    obtain ⟨b', v, e, i, a, c, _⟩ := makeContiguous_spec s h
    exact ⟨{ s with buf := b' }, by simp only [runOp, bind_run, e, pure_run, Spec.step],
      ⟨i, by rw [c, hc], hd⟩, by simp only [Spec.step]; exact a,
      by simp [Spec.destroyed, dropEvents_nil], rfl, rfl, rfl⟩

/-- run a whole history, collecting the outputs -/
def runOps : List Op → Sys → List Out × Sys
  | [], s => ([], s)
  | op :: rest, s =>
    match runOp op s with
    | (.ok o, s') => let (os, s'') := runOps rest s'; (o :: os, s'')
    | (.error _, s') => ([], s')

def Spec.runOps (cap : Nat) : List Op → List Elem → List Out × List Elem
  | [], xs => ([], xs)
  | op :: rest, xs =>
    let (xs', o) := Spec.step cap xs op
    let (os, xs'') := Spec.runOps cap rest xs'
    (o :: os, xs'')

/-- **every finite history** from a good state produces the outputs and final contents of the
abstract deque, and ends in a good state -/
theorem history_refines (cap : Nat) (ops : List Op) (s : Sys) (g : Good cap s) :
    (runOps ops s).1 = (Spec.runOps cap ops (abs s.buf)).1 ∧
    abs (runOps ops s).2.buf = (Spec.runOps cap ops (abs s.buf)).2 ∧ Good cap (runOps ops s).2 := by
  induction ops generalizing s with
  | nil => exact ⟨rfl, rfl, g⟩
  | cons op rest ih =>
    obtain ⟨s', e, g', a, _, _⟩ := step_refines cap s op g
    obtain ⟨h1, h2, h3⟩ := ih s' g'
    simp only [runOps, e, Spec.runOps]
    rw [a] at h1 h2
    exact ⟨by rw [h1], h2, h3⟩

/-- the ledger entries (newest first) a history produces: the destructions of each step -/
def Spec.histDrops (k : Kind) (cap : Nat) : List Op → List Elem → List Event
  | [], _ => []
  | op :: rest, xs =>
    Spec.histDrops k cap rest (Spec.step cap xs op).1 ++ dropEvents k (Spec.destroyed xs op)

/-- along any history the model's ledger grows by exactly the destructions of the abstract steps -/
theorem history_ledger (cap : Nat) (ops : List Op) (s : Sys) (g : Good cap s) :
    (runOps ops s).2.log = Spec.histDrops s.kind cap ops (abs s.buf) ++ s.log := by
  induction ops generalizing s with
  | nil => simp [runOps, Spec.histDrops]
  | cons op rest ih =>
    obtain ⟨s', e, g', a, l, k, _, _⟩ := step_refines cap s op g
    have := ih s' g'
    simp only [runOps, e, Spec.histDrops]
    rw [this, a, l, k, List.append_assoc]

/-- in particular from `new()`, for every capacity below `2^64` -/
theorem history_from_new (cap : Nat) (hc : cap < W) (ops : List Op) (k : Kind) :
    (runOps ops { buf := CB.new cap, kind := k }).1 = (Spec.runOps cap ops []).1 ∧
    abs (runOps ops { buf := CB.new cap, kind := k }).2.buf = (Spec.runOps cap ops []).2 := by
  have hI : Inv (CB.new cap) := by
    refine ⟨by simp [CB.new], ?_, hc, by intro i hi; simp [CB.new] at hi⟩
    by_cases h : cap = 0
    · right; simp [CB.new, h]
    · left; simp [CB.new]; omega
  have hA : abs (CB.new cap) = [] := by simp [abs, CB.new]
  obtain ⟨h1, h2, _⟩ := history_refines cap ops { buf := CB.new cap, kind := k } ⟨hI, rfl, rfl⟩
  simp only [hA] at h1 h2
  exact ⟨h1, h2⟩

end CircBuf
