import CircBuf.Lemmas.HistoryFull
import CircBuf.Lemmas.HistoryConserve
set_option linter.unusedSimpArgs false
set_option linter.unusedVariables false
/-! Conservation of elements along histories over the whole mutator API (C03): what enters (handed in,
produced by the closure / iterator, cloned) is, as a multiset, what is in the buffer, handed out or
destroyed. -/
namespace CircBuf
open List

/-- the elements a step brings in: handed in by the caller, produced by its closure or iterator, or
created by `T::clone` -/
def Spec.enterX (cap : Nat) (xs : List Elem) (next : Nat) : OpX → List Elem
  | .core op => op.given
  | .extend m => newElems next m
  | .extendFromSlice l => cloneList .tracked next (l.drop (l.length - cap))
  | .fill v => (if cap = 0 then [] else cloneList .tracked next (List.replicate (cap - 1) v)) ++ [v]
  | .fillSpare v =>
      (if xs.length = cap then [] else cloneList .tracked next (List.replicate (cap - 1 - xs.length) v)) ++ [v]
  | .fillWith => newElems next cap
  | .fillSpareWith => newElems next (cap - xs.length)
  | .cloneFrom l => cloneList .tracked next l

/-- the elements a step destroys -/
def Spec.destroyedX (cap : Nat) (xs : List Elem) (next : Nat) : OpX → List Elem
  | .core op => Spec.destroyed xs op
  | .extend m => (Spec.pushMany cap xs (newElems next m)).2
  | .extendFromSlice l =>
      let c := cloneList .tracked next (l.drop (l.length - cap))
      (xs ++ c).take ((xs ++ c).length - cap)
  | .fill v => xs ++ (if cap = 0 then [v] else [])
  | .fillSpare v => if xs.length = cap then [v] else []
  | .fillWith => xs
  | .fillSpareWith => []
  | .cloneFrom l =>
      let c := cloneList .tracked next l
      xs ++ c.take (c.length - cap)

theorem perm_drop_take {α : Type} (l : List α) (k : Nat) : l.Perm (l.drop k ++ l.take k) := by
  have h : (l.take k ++ l.drop k).Perm (l.drop k ++ l.take k) := perm_append_comm
  rwa [List.take_append_drop] at h

/-- one step over the whole API conserves the elements -/
theorem Spec.stepX_conserves (cap : Nat) (xs : List Elem) (next : Nat) (op : OpX) :
    (xs ++ Spec.enterX cap xs next op).Perm
      ((Spec.stepX cap xs next op).1 ++ (Spec.stepX cap xs next op).2.2.handed ++
        Spec.destroyedX cap xs next op) := by
  cases op with
  | core op => simpa [Spec.enterX, Spec.stepX, Spec.destroyedX] using Spec.step_conserves cap xs op
  | extend m =>
    simpa [Spec.enterX, Spec.stepX, Spec.destroyedX, Out.handed] using
      Spec.pushMany_conserves cap xs (newElems next m)
  | extendFromSlice l =>
    simp only [Spec.enterX, Spec.stepX, Spec.destroyedX, Out.handed, List.append_nil, Spec.extend, Spec.lastN]
    exact perm_drop_take _ _
  | fill v =>
    by_cases h0 : cap = 0
    · simp [Spec.enterX, Spec.stepX, Spec.destroyedX, Out.handed, h0]
    · simp only [Spec.enterX, Spec.stepX, Spec.destroyedX, Out.handed, h0, if_false, List.append_nil]
      exact perm_append_comm
  | fillSpare v =>
    by_cases hf : xs.length = cap
    · simp [Spec.enterX, Spec.stepX, Spec.destroyedX, Out.handed, hf]
    · simp [Spec.enterX, Spec.stepX, Spec.destroyedX, Out.handed, hf]
  | fillWith =>
    simp only [Spec.enterX, Spec.stepX, Spec.destroyedX, Out.handed, List.append_nil]
    exact perm_append_comm
  | fillSpareWith => simp [Spec.enterX, Spec.stepX, Spec.destroyedX, Out.handed]
  | cloneFrom l =>
    simp only [Spec.enterX, Spec.stepX, Spec.destroyedX, Out.handed, List.append_nil, Spec.lastN]
    have h1 := perm_drop_take (cloneList .tracked next l) ((cloneList .tracked next l).length - cap)
    apply List.perm_iff_count.mpr
    intro e
    have := List.perm_iff_count.mp h1 e
    simp only [List.count_append] at this ⊢
    omega

/-- everything that entered and everything destroyed along a history over the whole API -/
def Spec.tallyX (cap : Nat) : List OpX → List Elem → Nat → List Elem × List Elem × List Elem
  | [], _, _ => ([], [], [])
  | op :: rest, xs, next =>
    let st := Spec.stepX cap xs next op
    let t := Spec.tallyX cap rest st.1 st.2.1
    (Spec.enterX cap xs next op ++ t.1, st.2.2.handed ++ t.2.1, Spec.destroyedX cap xs next op ++ t.2.2)

/-- **conservation along any finite history over the whole mutator API**: initial contents plus
everything that entered is a permutation of final contents, everything handed out and everything
destroyed — nothing is lost, nothing is duplicated -/
theorem Spec.historyX_conserves (cap : Nat) (ops : List OpX) (xs : List Elem) (next : Nat) :
    (xs ++ (Spec.tallyX cap ops xs next).1).Perm
      ((Spec.runOpsX cap ops xs next).2 ++ (Spec.tallyX cap ops xs next).2.1 ++
        (Spec.tallyX cap ops xs next).2.2) := by
  induction ops generalizing xs next with
  | nil => simp [Spec.tallyX, Spec.runOpsX]
  | cons op rest ih =>
    have h1 := Spec.stepX_conserves cap xs next op
    have h2 := ih (Spec.stepX cap xs next op).1 (Spec.stepX cap xs next op).2.1
    simp only [Spec.tallyX, Spec.runOpsX]
    apply List.perm_iff_count.mpr
    intro e
    have c1 := List.perm_iff_count.mp h1 e
    have c2 := List.perm_iff_count.mp h2 e
    simp only [List.count_append] at c1 c2 ⊢
    omega

end CircBuf
