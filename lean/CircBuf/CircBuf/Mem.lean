import CircBuf.Word
import CircBuf.Generated.AddMod
/-!
  Memory, elements, the system state and the effect monad of the model.

  * `Elem` carries an identity (`id`) besides its value, so "the same element" is expressible.
  * `Cell = Option Elem`: `none` = never initialised.  A slot whose element was moved out keeps its
    stale value, exactly as memory does.
  * `items : Nat → Cell` is a function (not a list): proofs are pointwise, a memmove is one
    definition and a capacity of `usize::MAX` needs no `2^64`-element list.
  * `M α = Sys → Except Panic α × Sys`: the state *survives* a panic, because the state after a
    caught unwind is what several properties talk about.
-/
namespace CircBuf

structure Elem where
  id : Nat
  val : Nat
  deriving DecidableEq, Repr, Inhabited

abbrev Cell := Option Elem

/-- The three fields of `CircularBuffer<N, T>` plus the const parameter `N` (`cap`). -/
structure CB where
  cap : Nat
  size : Nat
  start : Nat
  items : Nat → Cell

/-- A sub-slice of `items`: `len` slots starting at slot `off`. -/
structure View where
  off : Nat
  len : Nat
  deriving DecidableEq, Repr, Inhabited

def View.empty : View := ⟨0, 0⟩
def View.slots (v : View) : List Nat := List.range' v.off v.len

/-- Ledger events (what the element type's trait impls and the allocator observe). -/
inductive Event where
  | given (id : Nat)            -- the caller (or its closure / iterator) hands an element in
  | cloned (id src : Nat)       -- `T::clone` produced `id` from `src`
  | dropped (id : Nat)          -- destructor of `id` ran
  | cmp (a b : Nat)             -- `a == b` / `a.partial_cmp(b)` was evaluated
  | hashed (id : Nat)
  | fmt (id : Nat)
  | alloc                       -- one heap allocation
  deriving DecidableEq, Repr

/-- Which user-code call panics (once): a counter `k > 0` means "the k-th such call from now". -/
structure Faults where
  drop : Nat := 0
  clone : Nat := 0
  call : Nat := 0
  next : Nat := 0
  eq : Nat := 0
  deriving DecidableEq, Repr

inductive Kind where
  | tracked   -- elements with identity and a destructor
  | byte      -- `u8` / `()`: no identity, no destructor
  | zst       -- zero-sized type with a counting destructor
  | plain     -- elements with identity but without a destructor (`needs_drop` is false)
  deriving DecidableEq, Repr

structure Sys where
  buf : CB
  log : List Event := []     -- newest first
  next : Nat := 1            -- next fresh element id
  faults : Faults := {}
  kind : Kind := .tracked

def M (α : Type) : Type := Sys → Except Panic α × Sys

namespace M
@[inline] protected def pure (a : α) : M α := fun s => (.ok a, s)
@[inline] protected def bind (x : M α) (f : α → M β) : M β := fun s =>
  match x s with
  | (.ok a, s') => f a s'
  | (.error p, s') => (.error p, s')
instance : Monad M where
  pure := M.pure
  bind := M.bind
end M

@[inline] def raise (p : Panic) : M α := fun s => (.error p, s)
@[inline] def liftE (e : Except Panic α) : M α := fun s =>
  match e with
  | .ok a => (.ok a, s)
  | .error p => (.error p, s)
@[inline] def getBuf : M CB := fun s => (.ok s.buf, s)
@[inline] def setBuf (b : CB) : M Unit := fun s => (.ok (), { s with buf := b })
@[inline] def getSys : M Sys := fun s => (.ok s, s)
@[inline] def emit (e : Event) : M Unit := fun s =>
  (.ok (), if s.kind = .byte ∧ e ≠ .alloc then s else { s with log := e :: s.log })
/-- a fresh element id (identities exist only for tracked elements) -/
@[inline] def fresh : M Nat := fun s =>
  if s.kind = .tracked ∨ s.kind = .plain then (.ok s.next, { s with next := s.next + 1 })
  else (.ok 0, s)

/-- run `a`; run `fin` whatever happened (a destructor guard / unwinding); a panic of `a` is
re-raised afterwards; a second panic while unwinding aborts. -/
@[inline] def tryFinally (a : M α) (fin : M Unit) : M α := fun s =>
  match a s with
  | (.ok x, s1) =>
    (match fin s1 with
     | (.ok _, s2) => (.ok x, s2)
     | (.error p, s2) => (.error p, s2))
  | (.error p, s1) =>
    (match fin s1 with
     | (.ok _, s2) => (.error p, s2)
     | (.error _, s2) => (.error .abort, s2))

/-- run `a`; if it panics run the handler (a guard's destructor during unwinding) and re-raise. -/
@[inline] def onPanic (a : M α) (h : M Unit) : M α := fun s =>
  match a s with
  | (.ok x, s1) => (.ok x, s1)
  | (.error p, s1) =>
    (match h s1 with
     | (.ok _, s2) => (.error p, s2)
     | (.error _, s2) => (.error .abort, s2))

/-- `debug_assert!(c, msg)`.  The message documents which assertion it is; it is not part of the panic
value (no property speaks about the text of a failed debug assertion, and two bodies that differ only
in such a text are the same program for every theorem here). -/
@[inline] def dassert (c : Bool) (_msg : String := "") : M Unit :=
  if c then pure () else raise (.assert "")

/-! ### run lemmas (one `simp` call evaluates a method body) -/
section run
variable {α β : Type}
@[simp] theorem pure_run (a : α) (s : Sys) : (pure a : M α) s = (.ok a, s) := rfl
@[simp] theorem bind_run (x : M α) (f : α → M β) (s : Sys) :
    (x >>= f) s = match x s with
      | (.ok a, s') => f a s'
      | (.error p, s') => (.error p, s') := rfl
@[simp] theorem raise_run (p : Panic) (s : Sys) : (raise p : M α) s = (.error p, s) := rfl
@[simp] theorem liftE_ok (a : α) (s : Sys) : liftE (.ok a) s = (.ok a, s) := rfl
@[simp] theorem liftE_err (p : Panic) (s : Sys) : (liftE (.error p) : M α) s = (.error p, s) := rfl
@[simp] theorem getBuf_run (s : Sys) : getBuf s = (.ok s.buf, s) := rfl
@[simp] theorem setBuf_run (b : CB) (s : Sys) : setBuf b s = (.ok (), { s with buf := b }) := rfl
@[simp] theorem getSys_run (s : Sys) : getSys s = (.ok s, s) := rfl
@[simp] theorem dassert_true (msg : String) : dassert true msg = (pure () : M Unit) := rfl
@[simp] theorem dassert_false (msg : String) : dassert false msg = (raise (.assert "") : M Unit) := rfl
end run

/-! ### storage primitives -/

/-- overwrite one slot -/
def setCell (f : Nat → Cell) (i : Nat) (c : Cell) (j : Nat) : Cell := if j = i then c else f j

/-- `ptr::copy(src, dst, len)` — memmove semantics (the source range is read before any write) -/
def copy (f : Nat → Cell) (src dst len : Nat) (j : Nat) : Cell :=
  if dst ≤ j ∧ j < dst + len then f (j - dst + src) else f j

/-- swap two slots -/
def swapCells (f : Nat → Cell) (i j : Nat) (k : Nat) : Cell :=
  if k = i then f j else if k = j then f i else f k

/-- `<[_]>::rotate_left(k)` on the first `n` slots -/
def rotl (f : Nat → Cell) (n k : Nat) (j : Nat) : Cell :=
  if j < n then f ((j + k) % n) else f j

/-- bounds check of `items[i]` -/
@[inline] def checkIdx (i : Nat) : M Unit := do
  let b ← getBuf
  if i < b.cap then pure () else raise .oob

/-- bounds check of `slice[a..b]` on a slice of length `n` -/
@[inline] def checkRange (a b n : Nat) : M Unit :=
  if a ≤ b ∧ b ≤ n then pure () else raise .oob

/-- `items[i]` as a `MaybeUninit<T>` (no initialisation requirement) -/
def readCell (i : Nat) : M Cell := do
  checkIdx i
  let b ← getBuf
  pure (b.items i)

/-- `items[i].assume_init_ref() / _read()`: reading a slot that holds no element is UB -/
def readInit (i : Nat) : M Elem := do
  checkIdx i
  let b ← getBuf
  match b.items i with
  | some e => pure e
  | none => raise .ub

/-- `items[i].write(e)` / `mem::replace` target (no destructor runs) -/
def writeCell (i : Nat) (e : Elem) : M Unit := do
  checkIdx i
  let b ← getBuf
  setBuf { b with items := setCell b.items i (some e) }

def setSize (n : Nat) : M Unit := do
  let b ← getBuf
  setBuf { b with size := n }

def setStart (n : Nat) : M Unit := do
  let b ← getBuf
  setBuf { b with start := n }

def setItems (f : Nat → Cell) : M Unit := do
  let b ← getBuf
  setBuf { b with items := f }

/-- `add_mod` (the translated definition) inside `M` -/
@[inline] def amod (x y m : Nat) : M Nat := liftE (addMod x y m)
@[inline] def smod (x y m : Nat) : M Nat := liftE (subMod x y m)

/-! ### user code -/

/-- decrement a fault counter; `true` = this call panics -/
@[inline] def tick (k : Nat) : Nat × Bool :=
  if k = 0 then (0, false) else if k = 1 then (0, true) else (k - 1, false)

/-- `Drop::drop` of one element (user code; may panic once) -/
def dropElem (e : Elem) : M Unit := fun s =>
  if s.kind = .byte ∨ s.kind = .plain then (.ok (), s) else
  let (k, boom) := tick s.faults.drop
  let s' := { s with log := .dropped e.id :: s.log, faults := { s.faults with drop := k } }
  if boom then (.error (.user "drop"), s') else (.ok (), s')

/-- `T::clone` (user code; may panic once; the clone is a new element with the same value) -/
def cloneElem (e : Elem) : M Elem := fun s =>
  let (k, boom) := tick s.faults.clone
  let s1 := { s with faults := { s.faults with clone := k } }
  if boom then (.error (.user "clone"), s1) else
  if s.kind = .tracked ∨ s.kind = .plain then
    (.ok ⟨s.next, e.val⟩, { s1 with next := s.next + 1, log := .cloned s.next e.id :: s.log })
  else (.ok e, s1)

/-- a user closure `FnMut() -> T` or `Iterator::next` producing a brand-new element -/
def produceElem (which : String) : M Elem := fun s =>
  let cur := if which = "call" then s.faults.call else s.faults.next
  let (k, boom) := tick cur
  let f' := if which = "call" then { s.faults with call := k } else { s.faults with next := k }
  let s1 := { s with faults := f' }
  if boom then (.error (.user which), s1) else
  if s.kind = .tracked ∨ s.kind = .plain then
    (.ok ⟨s.next, s.next⟩, { s1 with next := s.next + 1, log := .given s.next :: s.log })
  else (.ok ⟨0, 0⟩, s1)

/-- `ptr::drop_in_place` of a slice: every element is dropped, in order; a panicking destructor
does not stop the remaining ones; the panic is re-raised afterwards. -/
def dropInPlace : List Nat → M Unit
  | [] => pure ()
  | i :: rest => do
    let e ← readInit i
    tryFinally (dropElem e) (dropInPlace rest)

/-- a `while cond(x) { x = step(x) }` loop as a recursive definition on a fuel argument (the translated
`Drop for Drain` uses it; running out of fuel is reported as a failed assertion, never silently) -/
def whileFuel {σ : Type} (cond : σ → Bool) (step : σ → M σ) : Nat → σ → M Unit
  | 0, x => if cond x then raise (.assert "Drain::drop: fuel exhausted") else pure ()
  | fuel + 1, x => if cond x then do let x' ← step x; whileFuel cond step fuel x' else pure ()

/-- a `while cond { body }` loop on the state itself, on a fuel argument (the translated `fill_spare_with`
uses it); running out of fuel is reported as a failed assertion, never silently -/
def whileM (msg : String) (cond : M Bool) (body : M Unit) : Nat → M Unit
  | 0 => do if (← cond) then raise (.assert msg) else pure ()
  | fuel + 1 => do if (← cond) then do body; whileM msg cond body fuel else pure ()

end CircBuf
