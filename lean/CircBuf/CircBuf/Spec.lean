import CircBuf.Mem
/-!
  The abstract specification: a deque of at most `cap` elements written on plain lists.
  No front position, no slots, no arithmetic modulo anything.
-/
namespace CircBuf.Spec

/-- the last `n` elements of a list -/
def lastN (n : Nat) (xs : List α) : List α := xs.drop (xs.length - n)

/-- `push_back`: append; a full buffer discards its front element and returns it; a zero-capacity
buffer returns the pushed element itself. -/
def pushBack (cap : Nat) (xs : List Elem) (x : Elem) : List Elem × Option Elem :=
  if cap = 0 then (xs, some x)
  else if xs.length < cap then (xs ++ [x], none)
  else (xs.tail ++ [x], xs.head?)

def pushFront (cap : Nat) (xs : List Elem) (x : Elem) : List Elem × Option Elem :=
  if cap = 0 then (xs, some x)
  else if xs.length < cap then (x :: xs, none)
  else (x :: xs.dropLast, xs.getLast?)

/-- `try_push_back`: `Err x` exactly when full -/
def tryPushBack (cap : Nat) (xs : List Elem) (x : Elem) : List Elem × Except Elem Unit :=
  if xs.length < cap then (xs ++ [x], .ok ()) else (xs, .error x)

def tryPushFront (cap : Nat) (xs : List Elem) (x : Elem) : List Elem × Except Elem Unit :=
  if xs.length < cap then (x :: xs, .ok ()) else (xs, .error x)

def popBack (xs : List Elem) : List Elem × Option Elem := (xs.dropLast, xs.getLast?)
def popFront (xs : List Elem) : List Elem × Option Elem := (xs.tail, xs.head?)

def remove (xs : List Elem) (i : Nat) : List Elem × Option Elem := (xs.eraseIdx i, xs[i]?)

/-- exchange positions `i` and `j` (both in range) -/
def swap (xs : List Elem) (i j : Nat) : List Elem :=
  match xs[i]?, xs[j]? with
  | some a, some b => (xs.set i b).set j a
  | _, _ => xs

def swapRemoveBack (xs : List Elem) (i : Nat) : List Elem × Option Elem :=
  if i < xs.length then ((swap xs i (xs.length - 1)).dropLast, xs[i]?) else (xs, none)

def swapRemoveFront (xs : List Elem) (i : Nat) : List Elem × Option Elem :=
  if i < xs.length then ((swap xs i 0).tail, xs[i]?) else (xs, none)

def truncateBack (xs : List Elem) (n : Nat) : List Elem := xs.take n
def truncateFront (xs : List Elem) (n : Nat) : List Elem := lastN n xs

/-- appending a whole sequence keeps the last `cap` elements -/
def extend (cap : Nat) (xs ys : List Elem) : List Elem := lastN cap (xs ++ ys)

/-- `drain(a..b)`: the drained elements and what is left -/
def drain (xs : List Elem) (a b : Nat) : List Elem × List Elem :=
  ((xs.drop a).take (b - a), xs.take a ++ xs.drop b)

end CircBuf.Spec
