import CircBuf.Lemmas.Faults
import CircBuf.Lemmas.FillFault
import CircBuf.Lemmas.CtorFault
/-!
# C05 — a panicking element destructor never causes a second drop or a corrupt buffer

The fault plan is a counter: "the `k`-th destructor call from now panics" (`faults.drop = k`, any
`k`; `k = 0` = none).  For **every** capacity, layout, argument and **every** `k`:
* `drop_range` — the only place where `truncate_back`, `truncate_front`, `clear`, `Drop`, and through
  them `fill`, `fill_with`, `extend_from_slice`, `clone_from`, the owning iterator's drop destroy
  elements — first shrinks the buffer and then destroys every element of the range **exactly once**
  (the ledger grows by one `dropped` event per element of the range, in order, whatever `k` is);
  only the result value tells whether a destructor panicked (`dropOutcome`);
* hence after `truncate_back` / `truncate_front` / `clear` — normal return *or* caught panic — the
  buffer satisfies the invariant and holds exactly the kept elements (`PostDrop`), so every later
  operation, including the final drop, behaves normally (all other theorems only assume `Inv`);
  no element can be destroyed a second time because none of the destroyed ones is in the buffer;
* dropping a drain whose destructor call panics: all not-yet-yielded elements are still destroyed
  exactly once, the buffer stays in its empty state (valid; the flanks are leaked, not duplicated).
* `fill(value)` (`C05_fill`): when a destructor panics while the old contents are cleared, every old
  element was still destroyed exactly once, `value` (owned by the callee) is destroyed exactly once,
  and the buffer is left empty and valid.
* `clone_from(other)` (`C05_clone_from`): a destructor panic while the old contents are cleared
  propagates before anything is cloned; every old element was destroyed exactly once; the buffer is
  empty and valid.
* `From<[T; M]>` (`C05_from_array`): a destructor panic while the surplus `M - N` elements of the array
  are destroyed — every surplus element is still destroyed exactly once, and the buffer under
  construction is dropped during unwinding, destroying each kept element exactly once: all `M`
  elements exactly once, none twice (the defect F4 of the unrepaired code, as a theorem about the
  repaired code).
`fill_with`, `extend_from_slice` are covered by the fault-plan
correspondence (every operation × every layout × every `k`) and the ledger oracle.
-/
namespace CircBuf

theorem C05_drop_range (s : Sys) (rs re : Nat) (h : Inv s.buf)
    (hk : ¬ (s.kind = .byte ∨ s.kind = .plain))
    (h1 : rs < re) (h2 : re ≤ s.buf.size) (h3 : rs = 0 ∨ re = s.buf.size) :
    dropRange rs re s = (dropOutcome s.faults.drop (re - rs),
      { s with
        buf := shrink s.buf rs re
        log := dropEvents s.kind (((abs s.buf).drop rs).take (re - rs)) ++ s.log
        faults := { s.faults with drop := s.faults.drop - (re - rs) } }) :=
  dropRange_fault s rs re h hk h1 h2 h3

theorem C05_truncate_back (s : Sys) (n : Nat) (h : Inv s.buf)
    (hk : ¬ (s.kind = .byte ∨ s.kind = .plain)) :
    ∃ s', truncateBack n s = (dropOutcome s.faults.drop (s.buf.size - n), s') ∧
      PostDrop s s' ((abs s.buf).take n) ((abs s.buf).drop n) := truncateBack_any s n h hk

theorem C05_truncate_front (s : Sys) (n : Nat) (h : Inv s.buf)
    (hk : ¬ (s.kind = .byte ∨ s.kind = .plain)) :
    ∃ s', truncateFront n s = (dropOutcome s.faults.drop (s.buf.size - n), s') ∧
      PostDrop s s' (Spec.lastN n (abs s.buf)) ((abs s.buf).take ((abs s.buf).length - n)) :=
  truncateFront_any s n h hk

theorem C05_clear (s : Sys) (h : Inv s.buf) (hk : ¬ (s.kind = .byte ∨ s.kind = .plain)) :
    ∃ s', clear s = (dropOutcome s.faults.drop s.buf.size, s') ∧ PostDrop s s' [] (abs s.buf) :=
  clear_any s h hk

theorem C05_drain_drop (b0 : CB) (d : Drain) (s : Sys) (hd : DrainInv b0 d s)
    (hk : ¬ (s.kind = .byte ∨ s.kind = .plain))
    (hfire : 1 ≤ s.faults.drop ∧ s.faults.drop ≤ d.ie - d.is) :
    ∃ s', d.drop s = (.error (.user "drop"), s') ∧ s'.buf = s.buf ∧
      s'.log = dropEvents s.kind (((abs b0).drop d.is).take (d.ie - d.is)) ++ s.log :=
  drainDrop_panics b0 d s hd hk hfire

theorem C05_fill (s : Sys) (value : Elem) (h : Inv s.buf)
    (hk : ¬ (s.kind = .byte ∨ s.kind = .plain))
    (hfire : 1 ≤ s.faults.drop ∧ s.faults.drop ≤ s.buf.size) :
    ∃ s', fill value s = (.error (.user "drop"), s') ∧ Inv s'.buf ∧ abs s'.buf = [] ∧
      s'.buf.cap = s.buf.cap ∧
      s'.log = dropEvents s.kind [value] ++ dropEvents s.kind (abs s.buf) ++ s.log :=
  fill_drop_fault s value h hk hfire

theorem C05_clone_from (other : List Elem) (s : Sys) (h : Inv s.buf)
    (hk : ¬ (s.kind = .byte ∨ s.kind = .plain))
    (hfire : 1 ≤ s.faults.drop ∧ s.faults.drop ≤ s.buf.size) :
    ∃ s', cloneFrom other s = (.error (.user "drop"), s') ∧ PostDrop s s' [] (abs s.buf) :=
  cloneFrom_drop_fault other s h hk hfire

theorem C05_from_array (s : Sys) (arr : List Elem) (hW : s.buf.cap < W)
    (hk : ¬ (s.kind = .byte ∨ s.kind = .plain))
    (hfire : 1 ≤ s.faults.drop ∧ s.faults.drop ≤ arr.length - s.buf.cap) :
    ∃ s', fromArray arr s = (.error (.user "drop"), s') ∧ Inv s'.buf ∧ abs s'.buf = [] ∧
      s'.buf.cap = s.buf.cap ∧
      s'.log = dropEvents s.kind (Spec.lastN s.buf.cap arr) ++
        (dropEvents s.kind (arr.take (arr.length - s.buf.cap)) ++ s.log) :=
  fromArray_drop_fault s arr hW hk hfire

/-- non-vacuity: the 2nd of 3 destructor calls panics — the outcome is a panic, not `ok` -/
example : dropOutcome 2 3 = .error (.user "drop") := by simp [dropOutcome]

end CircBuf
