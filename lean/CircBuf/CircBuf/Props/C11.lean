import CircBuf.Lemmas.Drain
import CircBuf.Lemmas.Swap
import CircBuf.Lemmas.Views
import CircBuf.Lemmas.Loops
import CircBuf.Lemmas.Contig
import CircBuf.Lemmas.Remove
/-!
# C11 — operations panic exactly when documented and are otherwise total

In the model every arithmetic operation is *checked* (overflow, underflow, remainder by zero), every
slice index is bounds-checked, every `debug_assert!` is an assertion and reading a slot that holds
no element is an error.  A theorem of the form `op s = (.ok r, s')` therefore says that, for that
state and argument, none of these fails.  Such theorems are proved for **every** capacity `< 2^64`
(0 and `usize::MAX` alike), every layout satisfying the invariant and every argument (a natural
number, so `usize::MAX` is an ordinary value):
`push_*`, `try_push_*`, `pop_*`, `remove`, `swap_remove_*`, `truncate_*`, `clear`, `make_contiguous`,
`get`/`front`/`back`/`nth_back`, `as_slices`, `extend`, `fill_with`, iterator and drain steps,
`Drain::drop` (including its loop, which carries a fuel argument that provably suffices).
The documented panics are characterised exactly:
* `swap i j` panics iff `i ≥ len` or `j ≥ len` (`swap_i` / `swap_j`), state unchanged;
* `index i` panics iff `i ≥ len`, state unchanged;
* `range` / `range_mut` / `drain` panic iff (reading the bounds as unbounded naturals) the end
  exceeds the length or the start exceeds the end, with the state unchanged — `Excluded(usize::MAX)`
  as a start and `Included(usize::MAX)` as an end included.
All model functions are total Lean functions (structural recursion; the two loops that are not
structurally bounded by their data carry fuel with a proof that it suffices).
-/
namespace CircBuf

theorem C11_swap_ok (s : Sys) (i j : Nat) (h : Inv s.buf) (hi : i < s.buf.size) (hj : j < s.buf.size) :
    Refines (swap i j) s () (Spec.swap (abs s.buf) i j) := swap_spec s i j h hi hj

theorem C11_swap_panics_i (s : Sys) (i j : Nat) (hi : ¬ i < s.buf.size) :
    swap i j s = (.error (.doc "swap_i"), s) := swap_panics_i s i j hi

theorem C11_swap_panics_j (s : Sys) (i j : Nat) (hi : i < s.buf.size) (hj : ¬ j < s.buf.size) :
    swap i j s = (.error (.doc "swap_j"), s) := swap_panics_j s i j hi hj

theorem C11_index (s : Sys) (i : Nat) (h : Inv s.buf) :
    index i s = if i < s.buf.size then (.ok (phys s.buf.start s.buf.cap i), s)
      else (.error (.doc "index"), s) := index_run s i h

theorem C11_range_ok (sb eb : Bound) (s : Sys) (hsb : sb.val < W) (heb : eb.val < W)
    (he : eb.endNat s.buf.size ≤ s.buf.size) (hs : sb.startNat ≤ eb.endNat s.buf.size)
    (hW : s.buf.size < W) :
    translateRange sb eb s = (.ok (sb.startNat, eb.endNat s.buf.size), s) :=
  translateRange_ok sb eb s hsb heb he hs hW

theorem C11_range_panics (sb eb : Bound) (s : Sys) (hsb : sb.val < W) (heb : eb.val < W)
    (hW : s.buf.size < W)
    (hbad : s.buf.size < eb.endNat s.buf.size ∨ eb.endNat s.buf.size < sb.startNat) :
    ∃ k, translateRange sb eb s = (.error (.doc k), s) :=
  translateRange_panics sb eb s hsb heb hW hbad

theorem C11_drain_panics (sb eb : Bound) (s : Sys) (h : Inv s.buf) (hsb : sb.val < W)
    (heb : eb.val < W)
    (hbad : s.buf.size < eb.endNat s.buf.size ∨ eb.endNat s.buf.size < sb.startNat) :
    ∃ k, Drain.new sb eb s = (.error (.doc k), s) := Drain.new_panics sb eb s h hsb heb hbad

/-- the drain back-fill loop terminates without failing for every capacity, hole and tail -/
theorem C11_backfill_total (fuel : Nat) (s : Sys) (rs re R k : Nat)
    (hc : 0 < s.buf.cap) (hW : s.buf.cap < W) (hst : s.buf.start < s.buf.cap)
    (hrs : rs ≤ re) (hR : re + R ≤ s.buf.cap) (hk : k ≤ R) (hfuel : R - k < fuel) :
    ∃ f', backfillLoop fuel ⟨s.buf.cap, phys s.buf.start s.buf.cap (rs + k)⟩
        ⟨s.buf.cap, phys s.buf.start s.buf.cap (re + k)⟩ (R - k) s =
        (.ok (), { s with buf := { s.buf with items := f' } }) := by
  obtain ⟨f', h, _⟩ := backfillLoop_spec fuel s rs re R k hc hW hst hrs hR hk hfuel
  exact ⟨f', h⟩

/-- non-vacuity: capacity `usize::MAX`, front position `usize::MAX - 1` satisfies the invariant -/
example : Inv ⟨W - 1, 0, W - 2, fun _ => none⟩ := by
  have := W_pos
  have h8 : 8 ≤ W := by unfold W; decide
  exact ⟨Nat.zero_le _, Or.inl (by simp only; omega), by simp only; omega, by intro i hi; simp only at hi; omega⟩

end CircBuf
