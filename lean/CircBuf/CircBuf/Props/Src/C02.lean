import CircBuf.Lemmas.Tie.Live
import CircBuf.Lemmas.Tie.PushPop
import CircBuf.Lemmas.NonDefect
import CircBuf.Props.C02
/-!
# C02 — single-element insertion never loses an element silently: the theorems of `Props/C02.lean`, restated about the *translated source*

`Generated/Core.lean` is regenerated from `/repo/src/lib.rs` on every run (translator T3,
`/verif/translate/t3_core.py`).  Each theorem below is the property theorem of the same name
(without `_src`) with the hand-written model function replaced by the definition translated from
the Rust body (`Gen.push_back` for `pushBack`, ...), carried over along the tie theorems of
`Lemmas/Tie/*.lean`.  A change to one of these Rust functions changes `Gen.*`; the tie, and with it
the `_src` theorem, is then re-proved by Lean on that run — or stops checking.
-/
namespace CircBuf

maybe theorem C02_push_back_src (s : Sys) (x : Elem) (h : Inv s.buf) :
    ∃ b', Gen.push_back x s = (.ok (displacedBack s.buf.cap (abs s.buf) x), { s with buf := b' }) ∧
      Inv b' ∧ b'.cap = s.buf.cap ∧
      abs b' = (if s.buf.cap = 0 then abs s.buf
                else if (abs s.buf).length = s.buf.cap then (abs s.buf).tail ++ [x]
                else abs s.buf ++ [x]) := by
  first
  | (rw [tie_push_back _ s h (nd_pushBack _ s h)]; exact C02_push_back s x h)
  | (exact LiveEq.ex4 (ltie_push_back _ s h (nd_pushBack _ s h)) (C02_push_back s x h))

maybe theorem C02_push_front_src (s : Sys) (x : Elem) (h : Inv s.buf) :
    ∃ b', Gen.push_front x s = (.ok (displacedFront s.buf.cap (abs s.buf) x), { s with buf := b' }) ∧
      Inv b' ∧ b'.cap = s.buf.cap ∧
      abs b' = (if s.buf.cap = 0 then abs s.buf
                else if (abs s.buf).length = s.buf.cap then x :: (abs s.buf).dropLast
                else x :: abs s.buf) := by
  first
  | (rw [tie_push_front _ s h (nd_pushFront _ s h)]; exact C02_push_front s x h)
  | (exact LiveEq.ex4 (ltie_push_front _ s h (nd_pushFront _ s h)) (C02_push_front s x h))

maybe theorem C02_try_push_back_src (s : Sys) (x : Elem) (h : Inv s.buf) :
    (s.buf.size = s.buf.cap → Gen.try_push_back x s = (.ok (.error x), s)) ∧
    (s.buf.size ≠ s.buf.cap → ∃ b', Gen.try_push_back x s = (.ok (.ok ()), { s with buf := b' }) ∧
        Inv b' ∧ b'.cap = s.buf.cap ∧ abs b' = abs s.buf ++ [x] ∧ b'.size = s.buf.size + 1) := by
  first
  | (rw [tie_try_push_back _ s h (nd_tryPushBack _ s h)]; exact C02_try_push_back s x h)

maybe theorem C02_try_push_front_src (s : Sys) (x : Elem) (h : Inv s.buf) :
    (s.buf.size = s.buf.cap → Gen.try_push_front x s = (.ok (.error x), s)) ∧
    (s.buf.size ≠ s.buf.cap → ∃ b', Gen.try_push_front x s = (.ok (.ok ()), { s with buf := b' }) ∧
        Inv b' ∧ b'.cap = s.buf.cap ∧ abs b' = x :: abs s.buf ∧ b'.size = s.buf.size + 1) := by
  first
  | (rw [tie_try_push_front _ s h (nd_tryPushFront _ s h)]; exact C02_try_push_front s x h)

end CircBuf
