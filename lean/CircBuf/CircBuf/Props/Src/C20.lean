import CircBuf.Lemmas.Tie.PushPop
import CircBuf.Lemmas.Tie.Remove
import CircBuf.Lemmas.Tie.Swap
import CircBuf.Lemmas.Tie.Truncate
import CircBuf.Lemmas.NonDefect
import CircBuf.Props.C20
/-!
# C20 — O(1) operations touch O(1) slots: the theorems of `Props/C20.lean`, restated about the *translated source*

`Generated/Core.lean` is regenerated from `/repo/src/lib.rs` on every run (translator T3,
`/verif/translate/t3_core.py`).  Each theorem below is the property theorem of the same name
(without `_src`) with the hand-written model function replaced by the definition translated from
the Rust body (`Gen.push_back` for `pushBack`, ...), carried over along the tie theorems of
`Lemmas/Tie/*.lean`.  A change to one of these Rust functions changes `Gen.*`; the tie, and with it
the `_src` theorem, is then re-proved by Lean on that run — or stops checking.
-/
namespace CircBuf

maybe theorem C20_push_back_src (s : Sys) (x : Elem) (h : Inv s.buf) :
    Frames (Gen.push_back x) s
      [if s.buf.size < s.buf.cap then phys s.buf.start s.buf.cap s.buf.size else s.buf.start] := by
  first
  | (rw [tie_push_back _ s h (nd_pushBack _ s h)]; exact C20_push_back s x h)
  | (have h0 := C20_push_back s x h; unfold Frames at h0 ⊢; rw [tie_push_back _ s h (nd_pushBack _ s h)]; exact h0)

maybe theorem C20_push_front_src (s : Sys) (x : Elem) (h : Inv s.buf) :
    Frames (Gen.push_front x) s [phys s.buf.start s.buf.cap (s.buf.cap - 1)] := by
  first
  | (rw [tie_push_front _ s h (nd_pushFront _ s h)]; exact C20_push_front s x h)
  | (have h0 := C20_push_front s x h; unfold Frames at h0 ⊢; rw [tie_push_front _ s h (nd_pushFront _ s h)]; exact h0)

maybe theorem C20_pop_back_src (s : Sys) (h : Inv s.buf) : Frames Gen.pop_back s [] := by
  first
  | (rw [tie_pop_back s h (nd_popBack s h)]; exact C20_pop_back s h)
  | (have h0 := C20_pop_back s h; unfold Frames at h0 ⊢; rw [tie_pop_back s h (nd_popBack s h)]; exact h0)

maybe theorem C20_pop_front_src (s : Sys) (h : Inv s.buf) : Frames Gen.pop_front s [] := by
  first
  | (rw [tie_pop_front s h (nd_popFront s h)]; exact C20_pop_front s h)
  | (have h0 := C20_pop_front s h; unfold Frames at h0 ⊢; rw [tie_pop_front s h (nd_popFront s h)]; exact h0)

maybe theorem C20_swap_src (s : Sys) (i j : Nat) (h : Inv s.buf) (hi : i < s.buf.size) (hj : j < s.buf.size) :
    Frames (Gen.swap i j) s [phys s.buf.start s.buf.cap i, phys s.buf.start s.buf.cap j] := by
  first
  | (rw [tie_swap _ _ s h (nd_swap _ _ s h)]; exact C20_swap s i j h hi hj)
  | (have h0 := C20_swap s i j h hi hj; unfold Frames at h0 ⊢; rw [tie_swap _ _ s h (nd_swap _ _ s h)]; exact h0)

maybe theorem C20_remove_src (s : Sys) (index : Nat) (h : Inv s.buf) (hidx : index < s.buf.size) :
    ∃ r b', Gen.remove index s = (.ok r, { s with buf := b' }) ∧ b'.start = s.buf.start ∧
      ∀ i, i < index → b'.items (phys s.buf.start s.buf.cap i) = s.buf.items (phys s.buf.start s.buf.cap i) := by
  first
  | (rw [tie_remove _ s h (nd_remove _ s h)]; exact C20_remove s index h hidx)

maybe theorem C20_truncate_src (s : Sys) (rs re : Nat) (h : Inv s.buf) (hf : s.faults.drop = 0)
    (h1 : rs < re) (h2 : re ≤ s.buf.size) (h3 : rs = 0 ∨ re = s.buf.size) :
    ∃ s', Gen.drop_range (rs, re) s = (.ok (), s') ∧ s'.buf.items = s.buf.items := by
  first
  | (rw [tie_drop_range _ _ s h (nd_dropRange_nofault _ _ s h hf h1 h2 h3)]; exact C20_truncate s rs re h hf h1 h2 h3)

maybe theorem C20_make_contiguous_src (s : Sys) (h : Inv s.buf) (hc : s.buf.start + s.buf.size ≤ s.buf.cap) :
    ∃ v, Gen.make_contiguous s = (.ok v, s) := by
  first
  | (rw [tie_make_contiguous s h (nd_makeContiguous s h)]; exact C20_make_contiguous s h hc)

end CircBuf
