import CircBuf.Lemmas.Tie.Access
import CircBuf.Lemmas.Tie.Remove
import CircBuf.Lemmas.NonDefect
import CircBuf.Props.C07
/-!
# C07 — element access returns the element at that logical position: the theorems of `Props/C07.lean`, restated about the *translated source*

`Generated/Core.lean` is regenerated from `/repo/src/lib.rs` on every run (translator T3,
`/verif/translate/t3_core.py`).  Each theorem below is the property theorem of the same name
(without `_src`) with the hand-written model function replaced by the definition translated from
the Rust body (`Gen.push_back` for `pushBack`, ...), carried over along the tie theorems of
`Lemmas/Tie/*.lean`.  A change to one of these Rust functions changes `Gen.*`; the tie, and with it
the `_src` theorem, is then re-proved by Lean on that run — or stops checking.
-/
namespace CircBuf

maybe theorem C07_get_src (s : Sys) (i : Nat) (h : Inv s.buf) :
    Gen.get i s = (.ok (if i < s.buf.size then some (phys s.buf.start s.buf.cap i) else none), s) := by
  first
  | (rw [tie_get _ s h (nd_get _ s h)]; exact C07_get s i h)

maybe theorem C07_front_src (s : Sys) (h : Inv s.buf) :
    Gen.front s = (.ok (if 0 < s.buf.size then some s.buf.start else none), s) := by
  first
  | (rw [tie_front s h (nd_front s h)]; exact C07_front s h)

maybe theorem C07_back_src (s : Sys) (h : Inv s.buf) :
    Gen.back s = (.ok (if 0 < s.buf.size then some (phys s.buf.start s.buf.cap (s.buf.size - 1))
      else none), s) := by
  first
  | (rw [tie_back s h (nd_back s h)]; exact C07_back s h)

maybe theorem C07_nth_back_src (s : Sys) (i : Nat) (h : Inv s.buf) :
    Gen.nth_back i s = (.ok (if i < s.buf.size then some (phys s.buf.start s.buf.cap (s.buf.size - 1 - i))
      else none), s) := by
  first
  | (rw [tie_nth_back _ s h (nd_nthBack _ s h)]; exact C07_nth_back s i h)

maybe theorem C07_make_contiguous_src (s : Sys) (h : Inv s.buf) :
    ∃ b' v, Gen.make_contiguous s = (.ok v, { s with buf := b' }) ∧ Inv b' ∧ abs b' = abs s.buf ∧
      b'.cap = s.buf.cap ∧ b'.size = s.buf.size ∧
      v.slots = windowSlots b'.start b'.cap b'.size ∧
      (b'.start + b'.size ≤ b'.cap) ∧
      (s.buf.start + s.buf.size ≤ s.buf.cap → b' = s.buf) := by
  first
  | (rw [tie_make_contiguous s h (nd_makeContiguous s h)]; exact C07_make_contiguous s h)

end CircBuf
