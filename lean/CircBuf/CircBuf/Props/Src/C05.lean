import CircBuf.Lemmas.Tie.Truncate
import CircBuf.Lemmas.NonDefect
import CircBuf.Props.C05
/-!
# C05 — a panicking element destructor never causes a second drop or a corrupt buffer: the theorems of `Props/C05.lean`, restated about the *translated source*

`Generated/Core.lean` is regenerated from `/repo/src/lib.rs` on every run (translator T3,
`/verif/translate/t3_core.py`).  Each theorem below is the property theorem of the same name
(without `_src`) with the hand-written model function replaced by the definition translated from
the Rust body (`Gen.push_back` for `pushBack`, ...), carried over along the tie theorems of
`Lemmas/Tie/*.lean`.  A change to one of these Rust functions changes `Gen.*`; the tie, and with it
the `_src` theorem, is then re-proved by Lean on that run — or stops checking.
-/
namespace CircBuf

maybe theorem C05_drop_range_src (s : Sys) (rs re : Nat) (h : Inv s.buf)
    (hk : ¬ (s.kind = .byte ∨ s.kind = .plain))
    (h1 : rs < re) (h2 : re ≤ s.buf.size) (h3 : rs = 0 ∨ re = s.buf.size) :
    Gen.drop_range (rs, re) s = (dropOutcome s.faults.drop (re - rs),
      { s with
        buf := shrink s.buf rs re
        log := dropEvents s.kind (((abs s.buf).drop rs).take (re - rs)) ++ s.log
        faults := { s.faults with drop := s.faults.drop - (re - rs) } }) := by
  first
  | (rw [tie_drop_range _ _ s h (nd_dropRange_any _ _ s h hk h1 h2 h3)]; exact C05_drop_range s rs re h hk h1 h2 h3)

maybe theorem C05_truncate_back_src (s : Sys) (n : Nat) (h : Inv s.buf)
    (hk : ¬ (s.kind = .byte ∨ s.kind = .plain)) :
    ∃ s', Gen.truncate_back n s = (dropOutcome s.faults.drop (s.buf.size - n), s') ∧
      PostDrop s s' ((abs s.buf).take n) ((abs s.buf).drop n) := by
  first
  | (rw [tie_truncate_back _ s h (nd_truncateBack_any _ s h hk)]; exact C05_truncate_back s n h hk)

maybe theorem C05_truncate_front_src (s : Sys) (n : Nat) (h : Inv s.buf)
    (hk : ¬ (s.kind = .byte ∨ s.kind = .plain)) :
    ∃ s', Gen.truncate_front n s = (dropOutcome s.faults.drop (s.buf.size - n), s') ∧
      PostDrop s s' (Spec.lastN n (abs s.buf)) ((abs s.buf).take ((abs s.buf).length - n)) := by
  first
  | (rw [tie_truncate_front _ s h (nd_truncateFront_any _ s h hk)]; exact C05_truncate_front s n h hk)

maybe theorem C05_clear_src (s : Sys) (h : Inv s.buf) (hk : ¬ (s.kind = .byte ∨ s.kind = .plain)) :
    ∃ s', Gen.clear s = (dropOutcome s.faults.drop s.buf.size, s') ∧ PostDrop s s' [] (abs s.buf) := by
  first
  | (rw [tie_clear s h (nd_clear_any s h hk)]; exact C05_clear s h hk)

end CircBuf
