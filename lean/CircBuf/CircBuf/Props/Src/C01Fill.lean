import CircBuf.Lemmas.Tie.Fill
import CircBuf.Props.C01
import CircBuf.Props.C06
/-!
# C01 / C06 — the closure-calling operations `fill_spare_with` and `fill_with`, restated about the *translated source*

`Gen.fill_spare_with` / `Gen.fill_with` are translated on every run from `/repo/src/lib.rs`: the closure
`f()` is the primitive `produceElem "call"` (user code: it may panic, once, at any call), the `Option<T>`
returned by `push_back` and not used is destroyed (`dropOpt`), the `while self.size < N` loop is the
fuelled loop `whileM` of `Mem.lean` over the translated body.  The ties are in `Lemmas/Tie/Fill.lean`.
-/
namespace CircBuf

maybe /-- `fill_spare_with(f)`: the free space is filled with the closure's results, in call order -/
theorem C01_fill_spare_with_src (s : Sys) (h : Inv s.buf) (hd : s.faults.drop = 0)
    (hc : s.faults.call = 0) (hk : s.kind = .tracked) :
    Runs Gen.fill_spare_with s () (abs s.buf ++ newElems s.next (s.buf.cap - s.buf.size))
      ((newElems s.next (s.buf.cap - s.buf.size)).reverse.map fun e => Event.given e.id)
      (s.buf.cap - s.buf.size) := by
  have h0 := C01_fill_spare_with s h hd hc hk
  unfold Runs at h0 ⊢
  rw [tie_fill_spare_with s h]; exact h0

maybe /-- `fill_with(f)`: old contents destroyed, the buffer is full of the closure's results -/
theorem C01_fill_with_src (s : Sys) (h : Inv s.buf) (hd : s.faults.drop = 0)
    (hc : s.faults.call = 0) (hk : s.kind = .tracked) :
    Runs Gen.fill_with s () (newElems s.next s.buf.cap)
      (((newElems s.next s.buf.cap).reverse.map fun e => Event.given e.id) ++
        dropEvents s.kind (abs s.buf)) s.buf.cap := by
  have h0 := C01_fill_with s h hd hc hk
  unfold Runs at h0 ⊢
  have hI : ∀ s1, clear s = (.ok (), s1) → Inv s1.buf ∧ s1.buf.cap = s.buf.cap := by
    intro s1 e1
    obtain ⟨b', e2, hI', _, hcap⟩ := clear_spec s h hd
    rw [e2] at e1
    have : s1 = _ := ((Prod.mk.inj e1).2).symm
    subst this
    exact ⟨hI', hcap⟩
  rw [tie_fill_with s h (nd_clear_nofault s h hd) hI]; exact h0

maybe /-- **a panic in the closure** (its `k+1`-st call, for every `k` below the free space): the translated
`fill_spare_with` propagates it and leaves a buffer that satisfies the invariant and holds the old
contents followed by the `k` elements produced so far — nothing is lost, nothing is duplicated -/
theorem C06_closure_src (s : Sys) (k : Nat) (h : Inv s.buf)
    (hd : s.faults.drop = 0) (hc : s.faults.call = k + 1) (hk : s.kind = .tracked)
    (hkf : k < s.buf.cap - s.buf.size) :
    ∃ s', Gen.fill_spare_with s = (.error (.user "call"), s') ∧ Inv s'.buf ∧
      abs s'.buf = abs s.buf ++ newElems s.next k ∧ s'.buf.cap = s.buf.cap ∧ s'.next = s.next + k := by
  rw [tie_fill_spare_with s h]
  have hcap : ¬ s.buf.cap = 0 := by omega
  have e : fillSpareWith s = fillSpareWithLoop (s.buf.cap - s.buf.size) s := by
    simp only [fillSpareWith, bind_run, getBuf_run, ite_run, hcap, if_false, ite_false]
  rw [e]
  exact C06_closure (s.buf.cap - s.buf.size) s k h hd hc hk rfl hkf

end CircBuf
