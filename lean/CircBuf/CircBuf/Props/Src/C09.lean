import CircBuf.Lemmas.Tie.DrainTie
import CircBuf.Props.C09
import CircBuf.Props.C10
/-!
# C09 / C10 — the draining iterator: the theorems of `Props/C09.lean` about creating and stepping a drain, and the leak-safety theorem of `Props/C10.lean`, restated about the *translated source*

`Generated/Core.lean` is regenerated on every run (translator T3, `/verif/translate/t3_core.py`); from
`/repo/src/drain.rs` it takes `Drain::over_range`, `Drain::read`, `Iterator::next`,
`DoubleEndedIterator::next_back` and `ExactSizeIterator::len` (`Gen.Drain_*`).  Each theorem below is the
property theorem of the same name (without `_src`) with the hand-written model function replaced by
the translated definition, carried over along the ties of `Lemmas/Tie/DrainTie.lean`.  (`Drop for
Drain` — and with it `C09_drop` — stays on the hand-written model: its loop is outside T3's subset.)
-/
namespace CircBuf

maybe theorem C09_new_src (sb eb : Bound) (s : Sys) (h : Inv s.buf) (hsb : sb.val < W)
    (heb : eb.val < W) (he : eb.endNat s.buf.size ≤ s.buf.size)
    (hs : sb.startNat ≤ eb.endNat s.buf.size) :
    Gen.Drain_over_range sb eb s =
      (.ok ⟨s.buf.size, sb.startNat, eb.endNat s.buf.size, sb.startNat, eb.endNat s.buf.size⟩,
        { s with buf := ⟨s.buf.cap, 0, s.buf.start, s.buf.items⟩ }) ∧
    DrainInv s.buf ⟨s.buf.size, sb.startNat, eb.endNat s.buf.size, sb.startNat, eb.endNat s.buf.size⟩
      { s with buf := ⟨s.buf.cap, 0, s.buf.start, s.buf.items⟩ } := by
  rw [tie_drain_over_range]; exact C09_new sb eb s h hsb heb he hs

maybe theorem C09_next_src (b0 : CB) (d : Drain) (s : Sys) (hd : DrainInv b0 d s) :
    Gen.Drain_next d s = (.ok (((abs b0).drop d.is).take (d.ie - d.is) |>.head?,
      { d with is := d.is + (if d.is < d.ie then 1 else 0) }), s) ∧
    DrainInv b0 { d with is := d.is + (if d.is < d.ie then 1 else 0) } s := by
  rw [tie_drain_next]; exact C09_next b0 d s hd

maybe theorem C09_next_back_src (b0 : CB) (d : Drain) (s : Sys) (hd : DrainInv b0 d s) :
    Gen.Drain_next_back d s = (.ok (((abs b0).drop d.is).take (d.ie - d.is) |>.getLast?,
      { d with ie := d.ie - (if d.is < d.ie then 1 else 0) }), s) ∧
    DrainInv b0 { d with ie := d.ie - (if d.is < d.ie then 1 else 0) } s := by
  rw [tie_drain_next_back]; exact C09_next_back b0 d s hd

maybe theorem C09_len_src (b0 : CB) (d : Drain) (s : Sys) (hd : DrainInv b0 d s) :
    Gen.Drain_len d s = (.ok (((abs b0).drop d.is).take (d.ie - d.is)).length, s) := by
  rw [tie_drain_len, C09_len b0 d s hd]

maybe /-- **leak safety, on the translated constructor**: in the state `Drain::over_range` leaves behind — the
state a forgotten drain leaves for good — the buffer satisfies the invariant and is empty -/
theorem C10_forget_safe_src (sb eb : Bound) (s : Sys) (h : Inv s.buf) (hsb : sb.val < W)
    (heb : eb.val < W) (he : eb.endNat s.buf.size ≤ s.buf.size)
    (hs : sb.startNat ≤ eb.endNat s.buf.size) :
    ∃ d s', Gen.Drain_over_range sb eb s = (.ok d, s') ∧
      Inv s'.buf ∧ abs s'.buf = [] ∧ s'.buf.size = 0 ∧ s'.buf.cap = s.buf.cap := by
  obtain ⟨e, hd⟩ := C09_new_src sb eb s h hsb heb he hs
  exact ⟨_, _, e, C10_forget_safe _ _ _ hd⟩

end CircBuf
