import CircBuf.Lemmas.Tie.DrainTie
import CircBuf.Props.C09
import CircBuf.Props.C10
import CircBuf.Props.C01
import CircBuf.Props.C05
import CircBuf.Props.C20
/-!
# C09 / C10 — the draining iterator: the theorems of `Props/C09.lean` about creating and stepping a drain, and the leak-safety theorem of `Props/C10.lean`, restated about the *translated source*

`Generated/Core.lean` is regenerated on every run (translator T3, `/verif/translate/t3_core.py`); from
`/repo/src/drain.rs` it takes `Drain::over_range`, `Drain::read`, `Iterator::next`,
`DoubleEndedIterator::next_back` and `ExactSizeIterator::len` (`Gen.Drain_*`).  Each theorem below is the
property theorem of the same name (without `_src`) with the hand-written model function replaced by
the translated definition, carried over along the ties of `Lemmas/Tie/DrainTie.lean`.  `Drop for Drain` is translated too: its `while` loop becomes a recursive definition on a fuel argument
(`Gen.Drain_drop_loop`), tied to the model's `backfillLoop` for every amount of fuel by induction.
-/
namespace CircBuf

theorem DrainInv.re_le_cap {b0 : CB} {d : Drain} {s : Sys} (hd : DrainInv b0 d s) : d.re ≤ s.buf.cap := by
  have h1 := hd.h4; have h2 := hd.bs; have h3 := hd.inv0.size_le
  have h4 : s.buf.cap = b0.cap := by rw [hd.buf_eq]
  omega
theorem DrainInv.rs_le_cap {b0 : CB} {d : Drain} {s : Sys} (hd : DrainInv b0 d s) : d.rs ≤ s.buf.cap := by
  have := hd.re_le_cap; have := hd.h1; have := hd.h2; have := hd.h3
  omega

maybe theorem C09_new_src (sb eb : Bound) (s : Sys) (h : Inv s.buf) (hsb : sb.val < W)
    (heb : eb.val < W) (he : eb.endNat s.buf.size ≤ s.buf.size)
    (hs : sb.startNat ≤ eb.endNat s.buf.size) :
    Gen.Drain_over_range sb eb s =
      (.ok ⟨s.buf.size, sb.startNat, eb.endNat s.buf.size, sb.startNat, eb.endNat s.buf.size⟩,
        { s with buf := ⟨s.buf.cap, 0, s.buf.start, s.buf.items⟩ }) ∧
    DrainInv s.buf ⟨s.buf.size, sb.startNat, eb.endNat s.buf.size, sb.startNat, eb.endNat s.buf.size⟩
      { s with buf := ⟨s.buf.cap, 0, s.buf.start, s.buf.items⟩ } := by
  rw [tie_drain_over_range]; exact C09_new sb eb s h hsb heb he hs

maybe theorem C09_next_src (b0 : CB) (d : Drain) (s : Sys) (hd : DrainInv b0 d s) :
    Gen.Drain_next d s = (.ok (((abs b0).drop d.is).take (d.ie - d.is) |>.head?,
      { d with is := d.is + (if d.is < d.ie then 1 else 0) }), s) ∧
    DrainInv b0 { d with is := d.is + (if d.is < d.ie then 1 else 0) } s := by
  rw [tie_drain_next]; exact C09_next b0 d s hd

maybe theorem C09_next_back_src (b0 : CB) (d : Drain) (s : Sys) (hd : DrainInv b0 d s) :
    Gen.Drain_next_back d s = (.ok (((abs b0).drop d.is).take (d.ie - d.is) |>.getLast?,
      { d with ie := d.ie - (if d.is < d.ie then 1 else 0) }), s) ∧
    DrainInv b0 { d with ie := d.ie - (if d.is < d.ie then 1 else 0) } s := by
  rw [tie_drain_next_back]; exact C09_next_back b0 d s hd

maybe theorem C09_len_src (b0 : CB) (d : Drain) (s : Sys) (hd : DrainInv b0 d s) :
    Gen.Drain_len d s = (.ok (((abs b0).drop d.is).take (d.ie - d.is)).length, s) := by
  rw [tie_drain_len, C09_len b0 d s hd]

maybe /-- what `Drop for Drain` destroys and `Debug for Drain` prints: the two slices of the translated
`as_mut_slices` / `as_slices` designate exactly the slots of the elements not yet yielded, in order -/
theorem C09_as_mut_slices_src (b0 : CB) (d : Drain) (s : Sys) (hd : DrainInv b0 d s) :
    ∃ r l, Gen.Drain_as_mut_slices d s = (.ok (r, l), s) ∧
      r.slots ++ l.slots = windowSlots (phys b0.start b0.cap d.is) b0.cap (d.ie - d.is) := by
  rw [tie_drain_as_mut_slices d s (C10_forget_safe b0 d s hd).1]; exact Drain.asSlices_spec b0 d s hd

maybe theorem C09_as_slices_src (b0 : CB) (d : Drain) (s : Sys) (hd : DrainInv b0 d s) :
    ∃ r l, Gen.Drain_as_slices d s = (.ok (r, l), s) ∧
      r.slots ++ l.slots = windowSlots (phys b0.start b0.cap d.is) b0.cap (d.ie - d.is) := by
  rw [tie_drain_as_slices d s (C10_forget_safe b0 d s hd).1]; exact Drain.asSlices_spec b0 d s hd

maybe /-- **dropping the drain, on the translated `Drop for Drain`** (the explicit drops of the two guards,
`CircularSlicePtr`, the back-fill loop as a recursive definition on its fuel — `tie_drain_drop_loop` ties it
to the model's loop for every amount of fuel by induction) -/
theorem C09_drop_src (b0 : CB) (d : Drain) (s : Sys) (hd : DrainInv b0 d s) (hf : s.faults.drop = 0) :
    ∃ b', Gen.Drain_drop d s = (.ok (), { s with
        buf := b'
        log := dropEvents s.kind (((abs b0).drop d.is).take (d.ie - d.is)) ++ s.log }) ∧
      Inv b' ∧ abs b' = (abs b0).take d.rs ++ (abs b0).drop d.re ∧ b'.cap = b0.cap ∧
      b'.start = b0.start ∧
      (∀ i, i < d.rs → b'.items (phys b0.start b0.cap i) = b0.items (phys b0.start b0.cap i)) := by
  rw [tie_drain_drop d s (C10_forget_safe b0 d s hd).1 (DrainInv.rs_le_cap hd) (DrainInv.re_le_cap hd) hd.h4]; exact C09_drop b0 d s hd hf

maybe theorem C01_drain_src (b0 : CB) (d : Drain) (s : Sys) (hd : DrainInv b0 d s) (hf : s.faults.drop = 0) :
    ∃ b', (Gen.Drain_drop d s).1 = .ok () ∧ (Gen.Drain_drop d s).2.buf = b' ∧ Inv b' ∧
      abs b' = (Spec.drain (abs b0) d.rs d.re).2 ∧ b'.cap = b0.cap := by
  rw [tie_drain_drop d s (C10_forget_safe b0 d s hd).1 (DrainInv.rs_le_cap hd) (DrainInv.re_le_cap hd) hd.h4]; exact C01_drain b0 d s hd hf

maybe theorem C05_drain_drop_src (b0 : CB) (d : Drain) (s : Sys) (hd : DrainInv b0 d s)
    (hk : ¬ (s.kind = .byte ∨ s.kind = .plain))
    (hfire : 1 ≤ s.faults.drop ∧ s.faults.drop ≤ d.ie - d.is) :
    ∃ s', Gen.Drain_drop d s = (.error (.user "drop"), s') ∧ s'.buf = s.buf ∧
      s'.log = dropEvents s.kind (((abs b0).drop d.is).take (d.ie - d.is)) ++ s.log := by
  rw [tie_drain_drop d s (C10_forget_safe b0 d s hd).1 (DrainInv.rs_le_cap hd) (DrainInv.re_le_cap hd) hd.h4]; exact C05_drain_drop b0 d s hd hk hfire

maybe theorem C20_drain_src (b0 : CB) (d : Drain) (s : Sys) (hd : DrainInv b0 d s) (hf : s.faults.drop = 0) :
    ∃ b', (Gen.Drain_drop d s).2.buf = b' ∧ b'.start = b0.start ∧
      (∀ i, i < d.rs → b'.items (phys b0.start b0.cap i) = b0.items (phys b0.start b0.cap i)) := by
  rw [tie_drain_drop d s (C10_forget_safe b0 d s hd).1 (DrainInv.rs_le_cap hd) (DrainInv.re_le_cap hd) hd.h4]; exact C20_drain b0 d s hd hf

maybe /-- **leak safety, on the translated constructor**: in the state `Drain::over_range` leaves behind — the
state a forgotten drain leaves for good — the buffer satisfies the invariant and is empty -/
theorem C10_forget_safe_src (sb eb : Bound) (s : Sys) (h : Inv s.buf) (hsb : sb.val < W)
    (heb : eb.val < W) (he : eb.endNat s.buf.size ≤ s.buf.size)
    (hs : sb.startNat ≤ eb.endNat s.buf.size) :
    ∃ d s', Gen.Drain_over_range sb eb s = (.ok d, s') ∧
      Inv s'.buf ∧ abs s'.buf = [] ∧ s'.buf.size = 0 ∧ s'.buf.cap = s.buf.cap := by
  obtain ⟨e, hd⟩ := C09_new_src sb eb s h hsb heb he hs
  exact ⟨_, _, e, C10_forget_safe _ _ _ hd⟩

end CircBuf
