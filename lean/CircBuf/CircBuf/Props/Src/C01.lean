import CircBuf.Lemmas.Tie.Live
import CircBuf.Lemmas.Tie.PushPop
import CircBuf.Lemmas.Tie.Remove
import CircBuf.Lemmas.Tie.Swap
import CircBuf.Lemmas.Tie.Truncate
import CircBuf.Lemmas.NonDefect
import CircBuf.Props.C01
/-!
# C01 — queue semantics (contents, order, length, return value) of the element-level core: the theorems of `Props/C01.lean`, restated about the *translated source*

`Generated/Core.lean` is regenerated from `/repo/src/lib.rs` on every run (translator T3,
`/verif/translate/t3_core.py`).  Each theorem below is the property theorem of the same name
(without `_src`) with the hand-written model function replaced by the definition translated from
the Rust body (`Gen.push_back` for `pushBack`, ...), carried over along the tie theorems of
`Lemmas/Tie/*.lean`.  A change to one of these Rust functions changes `Gen.*`; the tie, and with it
the `_src` theorem, is then re-proved by Lean on that run — or stops checking.
-/
namespace CircBuf

maybe theorem C01_push_back_src (s : Sys) (x : Elem) (h : Inv s.buf) :
    Refines (Gen.push_back x) s (Spec.pushBack s.buf.cap (abs s.buf) x).2
      (Spec.pushBack s.buf.cap (abs s.buf) x).1 := by
  first
  | (rw [tie_push_back _ s h (nd_pushBack _ s h)]; exact C01_push_back s x h)
  | (have h0 := C01_push_back s x h; unfold Refines at h0 ⊢; rw [tie_push_back _ s h (nd_pushBack _ s h)]; exact h0)
  | (exact Refines.of_liveEq (ltie_push_back _ s h (nd_pushBack _ s h)) (C01_push_back s x h))

maybe theorem C01_push_front_src (s : Sys) (x : Elem) (h : Inv s.buf) :
    Refines (Gen.push_front x) s (Spec.pushFront s.buf.cap (abs s.buf) x).2
      (Spec.pushFront s.buf.cap (abs s.buf) x).1 := by
  first
  | (rw [tie_push_front _ s h (nd_pushFront _ s h)]; exact C01_push_front s x h)
  | (have h0 := C01_push_front s x h; unfold Refines at h0 ⊢; rw [tie_push_front _ s h (nd_pushFront _ s h)]; exact h0)
  | (exact Refines.of_liveEq (ltie_push_front _ s h (nd_pushFront _ s h)) (C01_push_front s x h))

maybe theorem C01_try_push_back_src (s : Sys) (x : Elem) (h : Inv s.buf) :
    Refines (Gen.try_push_back x) s (Spec.tryPushBack s.buf.cap (abs s.buf) x).2
      (Spec.tryPushBack s.buf.cap (abs s.buf) x).1 := by
  first
  | (rw [tie_try_push_back _ s h (nd_tryPushBack _ s h)]; exact C01_try_push_back s x h)
  | (have h0 := C01_try_push_back s x h; unfold Refines at h0 ⊢; rw [tie_try_push_back _ s h (nd_tryPushBack _ s h)]; exact h0)
  | (exact Refines.of_liveEq (ltie_try_push_back _ s h (nd_tryPushBack _ s h)) (C01_try_push_back s x h))

maybe theorem C01_try_push_front_src (s : Sys) (x : Elem) (h : Inv s.buf) :
    Refines (Gen.try_push_front x) s (Spec.tryPushFront s.buf.cap (abs s.buf) x).2
      (Spec.tryPushFront s.buf.cap (abs s.buf) x).1 := by
  first
  | (rw [tie_try_push_front _ s h (nd_tryPushFront _ s h)]; exact C01_try_push_front s x h)
  | (have h0 := C01_try_push_front s x h; unfold Refines at h0 ⊢; rw [tie_try_push_front _ s h (nd_tryPushFront _ s h)]; exact h0)
  | (exact Refines.of_liveEq (ltie_try_push_front _ s h (nd_tryPushFront _ s h)) (C01_try_push_front s x h))

maybe theorem C01_pop_back_src (s : Sys) (h : Inv s.buf) :
    Refines Gen.pop_back s (Spec.popBack (abs s.buf)).2 (Spec.popBack (abs s.buf)).1 := by
  first
  | (rw [tie_pop_back s h (nd_popBack s h)]; exact C01_pop_back s h)
  | (have h0 := C01_pop_back s h; unfold Refines at h0 ⊢; rw [tie_pop_back s h (nd_popBack s h)]; exact h0)
  | (exact Refines.of_liveEq (ltie_pop_back s h (nd_popBack s h)) (C01_pop_back s h))

maybe theorem C01_pop_front_src (s : Sys) (h : Inv s.buf) :
    Refines Gen.pop_front s (Spec.popFront (abs s.buf)).2 (Spec.popFront (abs s.buf)).1 := by
  first
  | (rw [tie_pop_front s h (nd_popFront s h)]; exact C01_pop_front s h)
  | (have h0 := C01_pop_front s h; unfold Refines at h0 ⊢; rw [tie_pop_front s h (nd_popFront s h)]; exact h0)
  | (exact Refines.of_liveEq (ltie_pop_front s h (nd_popFront s h)) (C01_pop_front s h))

maybe theorem C01_swap_src (s : Sys) (i j : Nat) (h : Inv s.buf) (hi : i < s.buf.size) (hj : j < s.buf.size) :
    Refines (Gen.swap i j) s () (Spec.swap (abs s.buf) i j) := by
  first
  | (rw [tie_swap _ _ s h (nd_swap _ _ s h)]; exact C01_swap s i j h hi hj)
  | (have h0 := C01_swap s i j h hi hj; unfold Refines at h0 ⊢; rw [tie_swap _ _ s h (nd_swap _ _ s h)]; exact h0)
  | (exact Refines.of_liveEq (ltie_swap _ _ s h (nd_swap _ _ s h)) (C01_swap s i j h hi hj))

maybe theorem C01_swap_remove_back_src (s : Sys) (i : Nat) (h : Inv s.buf) :
    Refines (Gen.swap_remove_back i) s (Spec.swapRemoveBack (abs s.buf) i).2
      (Spec.swapRemoveBack (abs s.buf) i).1 := by
  first
  | (rw [tie_swap_remove_back _ s h (nd_swapRemoveBack _ s h)]; exact C01_swap_remove_back s i h)
  | (have h0 := C01_swap_remove_back s i h; unfold Refines at h0 ⊢; rw [tie_swap_remove_back _ s h (nd_swapRemoveBack _ s h)]; exact h0)
  | (exact Refines.of_liveEq (ltie_swap_remove_back _ s h (nd_swapRemoveBack _ s h)) (C01_swap_remove_back s i h))

maybe theorem C01_swap_remove_front_src (s : Sys) (i : Nat) (h : Inv s.buf) :
    Refines (Gen.swap_remove_front i) s (Spec.swapRemoveFront (abs s.buf) i).2
      (Spec.swapRemoveFront (abs s.buf) i).1 := by
  first
  | (rw [tie_swap_remove_front _ s h (nd_swapRemoveFront _ s h)]; exact C01_swap_remove_front s i h)
  | (have h0 := C01_swap_remove_front s i h; unfold Refines at h0 ⊢; rw [tie_swap_remove_front _ s h (nd_swapRemoveFront _ s h)]; exact h0)
  | (exact Refines.of_liveEq (ltie_swap_remove_front _ s h (nd_swapRemoveFront _ s h)) (C01_swap_remove_front s i h))

maybe theorem C01_truncate_back_src (s : Sys) (n : Nat) (h : Inv s.buf) (hf : s.faults.drop = 0) :
    RefinesL (Gen.truncate_back n) s () (Spec.truncateBack (abs s.buf) n)
      (dropEvents s.kind ((abs s.buf).drop n)) := by
  first
  | (rw [tie_truncate_back _ s h (nd_truncateBack_nofault _ s h hf)]; exact C01_truncate_back s n h hf)
  | (have h0 := C01_truncate_back s n h hf; unfold RefinesL at h0 ⊢; rw [tie_truncate_back _ s h (nd_truncateBack_nofault _ s h hf)]; exact h0)

maybe theorem C01_truncate_front_src (s : Sys) (n : Nat) (h : Inv s.buf) (hf : s.faults.drop = 0) :
    RefinesL (Gen.truncate_front n) s () (Spec.truncateFront (abs s.buf) n)
      (dropEvents s.kind ((abs s.buf).take ((abs s.buf).length - n))) := by
  first
  | (rw [tie_truncate_front _ s h (nd_truncateFront_nofault _ s h hf)]; exact C01_truncate_front s n h hf)
  | (have h0 := C01_truncate_front s n h hf; unfold RefinesL at h0 ⊢; rw [tie_truncate_front _ s h (nd_truncateFront_nofault _ s h hf)]; exact h0)

maybe theorem C01_clear_src (s : Sys) (h : Inv s.buf) (hf : s.faults.drop = 0) :
    RefinesL Gen.clear s () [] (dropEvents s.kind (abs s.buf)) := by
  first
  | (rw [tie_clear s h (nd_clear_nofault s h hf)]; exact C01_clear s h hf)
  | (have h0 := C01_clear s h hf; unfold RefinesL at h0 ⊢; rw [tie_clear s h (nd_clear_nofault s h hf)]; exact h0)

maybe theorem C01_remove_src (s : Sys) (i : Nat) (h : Inv s.buf) :
    Refines (Gen.remove i) s (Spec.remove (abs s.buf) i).2 (Spec.remove (abs s.buf) i).1 := by
  first
  | (rw [tie_remove _ s h (nd_remove _ s h)]; exact C01_remove s i h)
  | (have h0 := C01_remove s i h; unfold Refines at h0 ⊢; rw [tie_remove _ s h (nd_remove _ s h)]; exact h0)
  | (exact Refines.of_liveEq (ltie_remove _ s h (nd_remove _ s h)) (C01_remove s i h))

maybe theorem C01_make_contiguous_src (s : Sys) (h : Inv s.buf) :
    ∃ b' v, Gen.make_contiguous s = (.ok v, { s with buf := b' }) ∧ Inv b' ∧ abs b' = abs s.buf ∧
      b'.cap = s.buf.cap := by
  first
  | (rw [tie_make_contiguous s h (nd_makeContiguous s h)]; exact C01_make_contiguous s h)

end CircBuf
