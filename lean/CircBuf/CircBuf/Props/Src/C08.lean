import CircBuf.Lemmas.Tie.IterTie
import CircBuf.Lemmas.Tie.IterSpec
import CircBuf.Lemmas.NonDefect
import CircBuf.Props.C08
/-!
# C08 — iterators over a range / the whole buffer visit exactly the specified slots: the theorems of `Props/C08.lean`, restated about the *translated source*

`Generated/Core.lean` is regenerated from `/repo/src/lib.rs` on every run (translator T3,
`/verif/translate/t3_core.py`).  Each theorem below is the property theorem of the same name
(without `_src`) with the hand-written model function replaced by the definition translated from
the Rust body (`Gen.push_back` for `pushBack`, ...), carried over along the tie theorems of
`Lemmas/Tie/*.lean`.  A change to one of these Rust functions changes `Gen.*`; the tie, and with it
the `_src` theorem, is then re-proved by Lean on that run — or stops checking.
-/
namespace CircBuf

maybe theorem C08_over_range_src (sb eb : Bound) (s : Sys) (h : Inv s.buf) (hsb : sb.val < W)
    (heb : eb.val < W) (he : eb.endNat s.buf.size ≤ s.buf.size)
    (hs : sb.startNat ≤ eb.endNat s.buf.size) :
    ∃ it, Gen.Iter_over_range sb eb s = (.ok it, s) ∧
      it.remaining = rangeSlots s.buf.start s.buf.cap sb.startNat (eb.endNat s.buf.size) := by
  first
  | (rw [tie_iter_over_range _ _ s h]; exact C08_over_range sb eb s h hsb heb he hs)
  -- second route (`Lemmas/Tie/IterSpec.lean`): from the specifications of the translated callees
  | (overRangeEval Gen.Iter_over_range tie_iter_new spec_iter_advance_front_by spec_iter_advance_back_by tie_iter_empty)

-- the second route alone, checked on every run
maybe theorem C08_over_range_src_direct (sb eb : Bound) (s : Sys) (h : Inv s.buf) (hsb : sb.val < W)
    (heb : eb.val < W) (he : eb.endNat s.buf.size ≤ s.buf.size)
    (hs : sb.startNat ≤ eb.endNat s.buf.size) :
    ∃ it, Gen.Iter_over_range sb eb s = (.ok it, s) ∧
      it.remaining = rangeSlots s.buf.start s.buf.cap sb.startNat (eb.endNat s.buf.size) := by
  first
  | exact C08_over_range sb eb s h hsb heb he hs      -- (fallback: `Gen.Iter_over_range := Iter.overRange`)
  | (overRangeEval Gen.Iter_over_range tie_iter_new spec_iter_advance_front_by_direct spec_iter_advance_back_by_direct tie_iter_empty)

maybe theorem C08_whole_src (s : Sys) (h : Inv s.buf) :
    ∃ it, Gen.Iter_new s = (.ok it, s) ∧
      it.remaining = windowSlots s.buf.start s.buf.cap s.buf.size := by
  first
  | (rw [tie_iter_new s h]; exact C08_whole s h)

end CircBuf
