import CircBuf.Lemmas.Tie.IterTie
import CircBuf.Lemmas.Tie.IterSpec
import CircBuf.Props.C08
/-!
# C08 — stepping an iterator: `C08_next`, `C08_next_back`, `C08_len` restated about the *translated source*

`Gen.Iter_next`, `Gen.Iter_next_back`, `Gen.Iter_len` are translated on every run from `Iterator::next`,
`DoubleEndedIterator::next_back` and `ExactSizeIterator::len` of `Iter` in `/repo/src/iter.rs` (the two
`slice_take_first` / `slice_take_last` calls are the primitives `View.takeFirst` / `takeLast` of
`GenPrelude.lean`); the ties are in `Lemmas/Tie/IterTie.lean`.
-/
namespace CircBuf

maybe theorem C08_next_src (it : Iter) (s : Sys) :
    ∃ r it', Gen.Iter_next it s = (.ok (r, it'), s) ∧
      r = it.remaining.head? ∧ it'.remaining = it.remaining.tail := by
  rw [tie_iter_next]; exact ⟨_, _, rfl, (C08_next it).1, (C08_next it).2⟩

maybe theorem C08_next_back_src (it : Iter) (s : Sys) :
    ∃ r it', Gen.Iter_next_back it s = (.ok (r, it'), s) ∧
      r = it.remaining.getLast? ∧ it'.remaining = it.remaining.dropLast := by
  rw [tie_iter_next_back]; exact ⟨_, _, rfl, (C08_next_back it).1, (C08_next_back it).2⟩

maybe theorem C08_len_src (it : Iter) (s : Sys) (h : it.right.len + it.left.len < W) :
    Gen.Iter_len it s = (.ok it.remaining.length, s) := by
  rw [tie_iter_len]; exact C08_len it s h

/-! ### `IterMut` (`iter_mut`, `range_mut`): its own copy of the code in `iter.rs`, translated as `Gen.IterMut_*` -/

maybe theorem C08_over_range_mut_src (sb eb : Bound) (s : Sys) (h : Inv s.buf) (hsb : sb.val < W)
    (heb : eb.val < W) (he : eb.endNat s.buf.size ≤ s.buf.size)
    (hs : sb.startNat ≤ eb.endNat s.buf.size) :
    ∃ it, Gen.IterMut_over_range sb eb s = (.ok it, s) ∧
      it.remaining = rangeSlots s.buf.start s.buf.cap sb.startNat (eb.endNat s.buf.size) := by
  first
  | (rw [tie_itermut_over_range sb eb s h]; exact C08_over_range sb eb s h hsb heb he hs)
  | (overRangeEval Gen.IterMut_over_range tie_itermut_new spec_itermut_advance_front_by spec_itermut_advance_back_by tie_itermut_empty)

maybe theorem C08_whole_mut_src (s : Sys) (h : Inv s.buf) :
    ∃ it, Gen.IterMut_new s = (.ok it, s) ∧
      it.remaining = windowSlots s.buf.start s.buf.cap s.buf.size := by
  rw [tie_itermut_new s h]; exact C08_whole s h

maybe theorem C08_next_mut_src (it : Iter) (s : Sys) :
    ∃ r it', Gen.IterMut_next it s = (.ok (r, it'), s) ∧
      r = it.remaining.head? ∧ it'.remaining = it.remaining.tail := by
  rw [tie_itermut_next]; exact ⟨_, _, rfl, (C08_next it).1, (C08_next it).2⟩

maybe theorem C08_next_back_mut_src (it : Iter) (s : Sys) :
    ∃ r it', Gen.IterMut_next_back it s = (.ok (r, it'), s) ∧
      r = it.remaining.getLast? ∧ it'.remaining = it.remaining.dropLast := by
  rw [tie_itermut_next_back]; exact ⟨_, _, rfl, (C08_next_back it).1, (C08_next_back it).2⟩

maybe theorem C08_len_mut_src (it : Iter) (s : Sys) (h : it.right.len + it.left.len < W) :
    Gen.IterMut_len it s = (.ok it.remaining.length, s) := by
  rw [tie_itermut_len]; exact C08_len it s h

end CircBuf
