import CircBuf.Lemmas.Tie.IterTie
import CircBuf.Props.C08
/-!
# C08 — stepping an iterator: `C08_next`, `C08_next_back`, `C08_len` restated about the *translated source*

`Gen.Iter_next`, `Gen.Iter_next_back`, `Gen.Iter_len` are translated on every run from `Iterator::next`,
`DoubleEndedIterator::next_back` and `ExactSizeIterator::len` of `Iter` in `/repo/src/iter.rs` (the two
`slice_take_first` / `slice_take_last` calls are the primitives `View.takeFirst` / `takeLast` of
`GenPrelude.lean`); the ties are in `Lemmas/Tie/IterTie.lean`.
-/
namespace CircBuf

maybe theorem C08_next_src (it : Iter) (s : Sys) :
    ∃ r it', Gen.Iter_next it s = (.ok (r, it'), s) ∧
      r = it.remaining.head? ∧ it'.remaining = it.remaining.tail := by
  rw [tie_iter_next]; exact ⟨_, _, rfl, (C08_next it).1, (C08_next it).2⟩

maybe theorem C08_next_back_src (it : Iter) (s : Sys) :
    ∃ r it', Gen.Iter_next_back it s = (.ok (r, it'), s) ∧
      r = it.remaining.getLast? ∧ it'.remaining = it.remaining.dropLast := by
  rw [tie_iter_next_back]; exact ⟨_, _, rfl, (C08_next_back it).1, (C08_next_back it).2⟩

maybe theorem C08_len_src (it : Iter) (s : Sys) (h : it.right.len + it.left.len < W) :
    Gen.Iter_len it s = (.ok it.remaining.length, s) := by
  rw [tie_iter_len]; exact C08_len it s h

end CircBuf
