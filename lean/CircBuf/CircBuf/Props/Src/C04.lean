import CircBuf.Lemmas.Tie.Live
import CircBuf.Lemmas.Tie.PushPop
import CircBuf.Lemmas.Tie.Remove
import CircBuf.Lemmas.Tie.Swap
import CircBuf.Lemmas.NonDefect
import CircBuf.Props.C04
/-!
# C04 — behaviour is independent of the physical layout: the theorems of `Props/C04.lean`, restated about the *translated source*

`Generated/Core.lean` is regenerated from `/repo/src/lib.rs` on every run (translator T3,
`/verif/translate/t3_core.py`).  Each theorem below is the property theorem of the same name
(without `_src`) with the hand-written model function replaced by the definition translated from
the Rust body (`Gen.push_back` for `pushBack`, ...), carried over along the tie theorems of
`Lemmas/Tie/*.lean`.  A change to one of these Rust functions changes `Gen.*`; the tie, and with it
the `_src` theorem, is then re-proved by Lean on that run — or stops checking.
-/
namespace CircBuf

maybe theorem C04_push_back_src (x : Elem) (s1 s2 : Sys) (h1 : Inv s1.buf) (h2 : Inv s2.buf)
    (hcap : s1.buf.cap = s2.buf.cap) (habs : abs s1.buf = abs s2.buf) :
    ∃ r b1 b2, Gen.push_back x s1 = (.ok r, { s1 with buf := b1 }) ∧
      Gen.push_back x s2 = (.ok r, { s2 with buf := b2 }) ∧
      Inv b1 ∧ Inv b2 ∧ abs b1 = abs b2 ∧ b1.cap = b2.cap := by
  first
  | (rw [tie_push_back _ s1 h1 (nd_pushBack _ s1 h1), tie_push_back _ s2 h2 (nd_pushBack _ s2 h2)]; exact C04_push_back x s1 s2 h1 h2 hcap habs)
  | (exact LiveEq.ex2 (ltie_push_back _ s1 h1 (nd_pushBack _ s1 h1)) (ltie_push_back _ s2 h2 (nd_pushBack _ s2 h2)) (C04_push_back x s1 s2 h1 h2 hcap habs))

maybe theorem C04_push_front_src (x : Elem) (s1 s2 : Sys) (h1 : Inv s1.buf) (h2 : Inv s2.buf)
    (hcap : s1.buf.cap = s2.buf.cap) (habs : abs s1.buf = abs s2.buf) :
    ∃ r b1 b2, Gen.push_front x s1 = (.ok r, { s1 with buf := b1 }) ∧
      Gen.push_front x s2 = (.ok r, { s2 with buf := b2 }) ∧
      Inv b1 ∧ Inv b2 ∧ abs b1 = abs b2 ∧ b1.cap = b2.cap := by
  first
  | (rw [tie_push_front _ s1 h1 (nd_pushFront _ s1 h1), tie_push_front _ s2 h2 (nd_pushFront _ s2 h2)]; exact C04_push_front x s1 s2 h1 h2 hcap habs)
  | (exact LiveEq.ex2 (ltie_push_front _ s1 h1 (nd_pushFront _ s1 h1)) (ltie_push_front _ s2 h2 (nd_pushFront _ s2 h2)) (C04_push_front x s1 s2 h1 h2 hcap habs))

maybe theorem C04_pop_back_src (s1 s2 : Sys) (h1 : Inv s1.buf) (h2 : Inv s2.buf)
    (hcap : s1.buf.cap = s2.buf.cap) (habs : abs s1.buf = abs s2.buf) :
    ∃ r b1 b2, Gen.pop_back s1 = (.ok r, { s1 with buf := b1 }) ∧ Gen.pop_back s2 = (.ok r, { s2 with buf := b2 }) ∧
      Inv b1 ∧ Inv b2 ∧ abs b1 = abs b2 ∧ b1.cap = b2.cap := by
  first
  | (rw [tie_pop_back s1 h1 (nd_popBack s1 h1), tie_pop_back s2 h2 (nd_popBack s2 h2)]; exact C04_pop_back s1 s2 h1 h2 hcap habs)
  | (exact LiveEq.ex2 (ltie_pop_back s1 h1 (nd_popBack s1 h1)) (ltie_pop_back s2 h2 (nd_popBack s2 h2)) (C04_pop_back s1 s2 h1 h2 hcap habs))

maybe theorem C04_pop_front_src (s1 s2 : Sys) (h1 : Inv s1.buf) (h2 : Inv s2.buf)
    (hcap : s1.buf.cap = s2.buf.cap) (habs : abs s1.buf = abs s2.buf) :
    ∃ r b1 b2, Gen.pop_front s1 = (.ok r, { s1 with buf := b1 }) ∧ Gen.pop_front s2 = (.ok r, { s2 with buf := b2 }) ∧
      Inv b1 ∧ Inv b2 ∧ abs b1 = abs b2 ∧ b1.cap = b2.cap := by
  first
  | (rw [tie_pop_front s1 h1 (nd_popFront s1 h1), tie_pop_front s2 h2 (nd_popFront s2 h2)]; exact C04_pop_front s1 s2 h1 h2 hcap habs)
  | (exact LiveEq.ex2 (ltie_pop_front s1 h1 (nd_popFront s1 h1)) (ltie_pop_front s2 h2 (nd_popFront s2 h2)) (C04_pop_front s1 s2 h1 h2 hcap habs))

maybe theorem C04_swap_remove_back_src (i : Nat) (s1 s2 : Sys) (h1 : Inv s1.buf) (h2 : Inv s2.buf)
    (hcap : s1.buf.cap = s2.buf.cap) (habs : abs s1.buf = abs s2.buf) :
    ∃ r b1 b2, Gen.swap_remove_back i s1 = (.ok r, { s1 with buf := b1 }) ∧
      Gen.swap_remove_back i s2 = (.ok r, { s2 with buf := b2 }) ∧
      Inv b1 ∧ Inv b2 ∧ abs b1 = abs b2 ∧ b1.cap = b2.cap := by
  first
  | (rw [tie_swap_remove_back _ s1 h1 (nd_swapRemoveBack _ s1 h1), tie_swap_remove_back _ s2 h2 (nd_swapRemoveBack _ s2 h2)]; exact C04_swap_remove_back i s1 s2 h1 h2 hcap habs)
  | (exact LiveEq.ex2 (ltie_swap_remove_back _ s1 h1 (nd_swapRemoveBack _ s1 h1)) (ltie_swap_remove_back _ s2 h2 (nd_swapRemoveBack _ s2 h2)) (C04_swap_remove_back i s1 s2 h1 h2 hcap habs))

maybe theorem C04_remove_src (i : Nat) (s1 s2 : Sys) (h1 : Inv s1.buf) (h2 : Inv s2.buf)
    (hcap : s1.buf.cap = s2.buf.cap) (habs : abs s1.buf = abs s2.buf) :
    ∃ r b1 b2, Gen.remove i s1 = (.ok r, { s1 with buf := b1 }) ∧ Gen.remove i s2 = (.ok r, { s2 with buf := b2 }) ∧
      Inv b1 ∧ Inv b2 ∧ abs b1 = abs b2 ∧ b1.cap = b2.cap := by
  first
  | (rw [tie_remove _ s1 h1 (nd_remove _ s1 h1), tie_remove _ s2 h2 (nd_remove _ s2 h2)]; exact C04_remove i s1 s2 h1 h2 hcap habs)
  | (exact LiveEq.ex2 (ltie_remove _ s1 h1 (nd_remove _ s1 h1)) (ltie_remove _ s2 h2 (nd_remove _ s2 h2)) (C04_remove i s1 s2 h1 h2 hcap habs))

end CircBuf
