import CircBuf.Lemmas.CoreTie
import CircBuf.Lemmas.Tie.Live
import CircBuf.Lemmas.NonDefect
import CircBuf.Lemmas.HistoryConserve
import CircBuf.Props.C01
import CircBuf.Props.C03
/-!
# C01 / C03 — every finite history, of the *translated source*

`runOpSrc` is `runOp` (one step of a history: push / try_push / pop at both ends, remove, swap with
its documented panics, swap_remove, truncate, clear, make_contiguous) with every operation taken
from `Generated/Core.lean` — the definitions translated from the Rust bodies on this run.  By the
tie theorems it is the same step as the model's on every state satisfying the invariant — up to the
contents of the dead slots, which no operation reads (`Lemmas/LiveEq.lean`) — and the invariant is
re-established by every step; hence, by induction over the sequence, **any** history run
through the translated code produces the outputs, the final contents and the ledger of the same
history on the abstract deque.
-/
namespace CircBuf

/-- one step of a history, through the definitions translated from the source -/
def runOpSrc : Op → M Out
  | .pushBack x => do let r ← Gen.push_back x; pure (.elem r)
  | .pushFront x => do let r ← Gen.push_front x; pure (.elem r)
  | .tryPushBack x => do let r ← Gen.try_push_back x; pure (.res r)
  | .tryPushFront x => do let r ← Gen.try_push_front x; pure (.res r)
  | .popBack => do let r ← Gen.pop_back; pure (.elem r)
  | .popFront => do let r ← Gen.pop_front; pure (.elem r)
  | .remove i => do let r ← Gen.remove i; pure (.elem r)
  | .swapRemoveBack i => do let r ← Gen.swap_remove_back i; pure (.elem r)
  | .swapRemoveFront i => do let r ← Gen.swap_remove_front i; pure (.elem r)
  | .swap i j => do
      match ← attempt (Gen.swap i j) with
      | .ok _ => pure .unit
      | .error (.doc k) => pure (.panicked k)
      | .error p => raise p
  | .truncateBack n => do Gen.truncate_back n; pure .unit
  | .truncateFront n => do Gen.truncate_front n; pure .unit
  | .clear => do Gen.clear; pure .unit
  | .makeContiguous => do let _ ← Gen.make_contiguous; pure .unit

def runOpsSrc : List Op → Sys → List Out × Sys
  | [], s => ([], s)
  | op :: rest, s =>
    match runOpSrc op s with
    | (.ok o, s') => let (os, s'') := runOpsSrc rest s'; (o :: os, s'')
    | (.error _, s') => ([], s')

maybe /-- one step of the translated code agrees with the model's step up to the dead slots: by the weak ties
(`Lemmas/Tie/Live.lean`) for the single-element mutators, by the strong ones for the rest -/
theorem runOpSrc_live (op : Op) (s : Sys) (h : Inv s.buf) (hd : s.faults.drop = 0) :
    LiveEq (runOpSrc op s) (runOp op s) := by
  cases op with
  | pushBack x => exact LiveEq.map _ (ltie_push_back x s h (nd_pushBack _ s h))
  | pushFront x => exact LiveEq.map _ (ltie_push_front x s h (nd_pushFront _ s h))
  | tryPushBack x => exact LiveEq.map _ (ltie_try_push_back x s h (nd_tryPushBack _ s h))
  | tryPushFront x => exact LiveEq.map _ (ltie_try_push_front x s h (nd_tryPushFront _ s h))
  | popBack => exact LiveEq.map _ (ltie_pop_back s h (nd_popBack s h))
  | popFront => exact LiveEq.map _ (ltie_pop_front s h (nd_popFront s h))
  | remove i => exact LiveEq.map _ (ltie_remove i s h (nd_remove _ s h))
  | swapRemoveBack i => exact LiveEq.map _ (ltie_swap_remove_back i s h (nd_swapRemoveBack _ s h))
  | swapRemoveFront i => exact LiveEq.map _ (ltie_swap_remove_front i s h (nd_swapRemoveFront _ s h))
  | swap i j =>
    apply LiveEq.of_eq
    simp only [runOpSrc, runOp, bind_run, attempt, tie_swap _ _ s h (nd_swap _ _ s h)]
    rfl
  | truncateBack n =>
    apply LiveEq.of_eq
    simp only [runOpSrc, runOp, bind_run, tie_truncate_back _ s h (nd_truncateBack_nofault _ s h hd)]
  | truncateFront n =>
    apply LiveEq.of_eq
    simp only [runOpSrc, runOp, bind_run, tie_truncate_front _ s h (nd_truncateFront_nofault _ s h hd)]
  | clear =>
    apply LiveEq.of_eq
    simp only [runOpSrc, runOp, bind_run, tie_clear s h (nd_clear_nofault s h hd)]
  | makeContiguous =>
    apply LiveEq.of_eq
    simp only [runOpSrc, runOp, bind_run, tie_make_contiguous s h (nd_makeContiguous s h)]

maybe /-- `step_refines` (the refinement of one step, `Lemmas/History.lean`) for the translated code -/
theorem step_refines_src (cap : Nat) (s : Sys) (op : Op) (g : Good cap s) :
    ∃ s', runOpSrc op s = (.ok (Spec.step cap (abs s.buf) op).2, s') ∧ Good cap s' ∧
      abs s'.buf = (Spec.step cap (abs s.buf) op).1 ∧
      s'.log = dropEvents s.kind (Spec.destroyed (abs s.buf) op) ++ s.log ∧ s'.kind = s.kind := by
  obtain ⟨s', e, g', a, l, k, _, _⟩ := step_refines cap s op g
  have hl := runOpSrc_live op s g.inv g.nodrop
  rw [e] at hl
  obtain ⟨b2, e2, hI2, ha2, hc2, _⟩ := LiveEq.ok hl g'.inv
  exact ⟨{ s' with buf := b2 }, e2, ⟨hI2, by rw [hc2]; exact g'.cap_eq, g'.nodrop⟩, by rw [ha2]; exact a, l, k⟩

maybe /-- **every finite history of the translated code** produces the outputs and the final contents of
the same history on the abstract deque, and ends in a state satisfying the invariant -/
theorem C01_history_src (cap : Nat) (ops : List Op) (s : Sys) (g : Good cap s) :
    (runOpsSrc ops s).1 = (Spec.runOps cap ops (abs s.buf)).1 ∧
    abs (runOpsSrc ops s).2.buf = (Spec.runOps cap ops (abs s.buf)).2 ∧ Good cap (runOpsSrc ops s).2 := by
  induction ops generalizing s with
  | nil => exact ⟨rfl, rfl, g⟩
  | cons op rest ih =>
    obtain ⟨s', e, g', a, _, _⟩ := step_refines_src cap s op g
    obtain ⟨h1, h2, h3⟩ := ih s' g'
    simp only [runOpsSrc, e, Spec.runOps]
    rw [a] at h1 h2
    exact ⟨by rw [h1], h2, h3⟩

maybe /-- … and its ledger is exactly the destructions of the abstract steps (C03 along histories) -/
theorem C03_history_ledger_src (cap : Nat) (ops : List Op) (s : Sys) (g : Good cap s) :
    (runOpsSrc ops s).2.log = Spec.histDrops s.kind cap ops (abs s.buf) ++ s.log := by
  induction ops generalizing s with
  | nil => simp [runOpsSrc, Spec.histDrops]
  | cons op rest ih =>
    obtain ⟨s', e, g', a, l, k⟩ := step_refines_src cap s op g
    have := ih s' g'
    simp only [runOpsSrc, e, Spec.histDrops]
    rw [this, a, l, k, List.append_assoc]

end CircBuf
