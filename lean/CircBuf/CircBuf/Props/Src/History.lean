import CircBuf.Lemmas.CoreTie
import CircBuf.Lemmas.NonDefect
import CircBuf.Lemmas.HistoryConserve
import CircBuf.Props.C01
import CircBuf.Props.C03
/-!
# C01 / C03 — every finite history, of the *translated source*

`runOpSrc` is `runOp` (one step of a history: push / try_push / pop at both ends, remove, swap with
its documented panics, swap_remove, truncate, clear, make_contiguous) with every operation taken
from `Generated/Core.lean` — the definitions translated from the Rust bodies on this run.  By the
tie theorems it is the same step as the model's on every state satisfying the invariant, and the
invariant is re-established by every step; hence, by induction over the sequence, **any** history run
through the translated code produces the outputs, the final contents and the ledger of the same
history on the abstract deque.
-/
namespace CircBuf

/-- one step of a history, through the definitions translated from the source -/
def runOpSrc : Op → M Out
  | .pushBack x => do let r ← Gen.push_back x; pure (.elem r)
  | .pushFront x => do let r ← Gen.push_front x; pure (.elem r)
  | .tryPushBack x => do let r ← Gen.try_push_back x; pure (.res r)
  | .tryPushFront x => do let r ← Gen.try_push_front x; pure (.res r)
  | .popBack => do let r ← Gen.pop_back; pure (.elem r)
  | .popFront => do let r ← Gen.pop_front; pure (.elem r)
  | .remove i => do let r ← Gen.remove i; pure (.elem r)
  | .swapRemoveBack i => do let r ← Gen.swap_remove_back i; pure (.elem r)
  | .swapRemoveFront i => do let r ← Gen.swap_remove_front i; pure (.elem r)
  | .swap i j => do
      match ← attempt (Gen.swap i j) with
      | .ok _ => pure .unit
      | .error (.doc k) => pure (.panicked k)
      | .error p => raise p
  | .truncateBack n => do Gen.truncate_back n; pure .unit
  | .truncateFront n => do Gen.truncate_front n; pure .unit
  | .clear => do Gen.clear; pure .unit
  | .makeContiguous => do let _ ← Gen.make_contiguous; pure .unit

maybe theorem runOpSrc_eq (op : Op) (s : Sys) (h : Inv s.buf) (hd : s.faults.drop = 0) :
    runOpSrc op s = runOp op s := by
  cases op <;>
    simp only [runOpSrc, runOp, bind_run, attempt, tie_push_back _ s h (nd_pushBack _ s h),
      tie_push_front _ s h (nd_pushFront _ s h), tie_try_push_back _ s h (nd_tryPushBack _ s h),
      tie_try_push_front _ s h (nd_tryPushFront _ s h), tie_pop_back s h (nd_popBack s h),
      tie_pop_front s h (nd_popFront s h), tie_remove _ s h (nd_remove _ s h),
      tie_swap_remove_back _ s h (nd_swapRemoveBack _ s h), tie_swap_remove_front _ s h (nd_swapRemoveFront _ s h),
      tie_swap _ _ s h (nd_swap _ _ s h), tie_truncate_back _ s h (nd_truncateBack_nofault _ s h hd),
      tie_truncate_front _ s h (nd_truncateFront_nofault _ s h hd), tie_clear s h (nd_clear_nofault s h hd),
      tie_make_contiguous s h (nd_makeContiguous s h)] <;> (try rfl)

def runOpsSrc : List Op → Sys → List Out × Sys
  | [], s => ([], s)
  | op :: rest, s =>
    match runOpSrc op s with
    | (.ok o, s') => let (os, s'') := runOpsSrc rest s'; (o :: os, s'')
    | (.error _, s') => ([], s')

maybe theorem runOpsSrc_eq (cap : Nat) (ops : List Op) (s : Sys) (g : Good cap s) :
    runOpsSrc ops s = runOps ops s := by
  induction ops generalizing s with
  | nil => rfl
  | cons op rest ih =>
    obtain ⟨s', e, g', _, _, _⟩ := step_refines cap s op g
    simp only [runOpsSrc, runOps, runOpSrc_eq op s g.inv g.nodrop, e, ih s' g']

maybe /-- **every finite history of the translated code** produces the outputs and the final contents of
the same history on the abstract deque, and ends in a state satisfying the invariant -/
theorem C01_history_src (cap : Nat) (ops : List Op) (s : Sys) (g : Good cap s) :
    (runOpsSrc ops s).1 = (Spec.runOps cap ops (abs s.buf)).1 ∧
    abs (runOpsSrc ops s).2.buf = (Spec.runOps cap ops (abs s.buf)).2 ∧ Good cap (runOpsSrc ops s).2 := by
  rw [runOpsSrc_eq cap ops s g]; exact C01_history cap ops s g

maybe /-- … and its ledger is exactly the destructions of the abstract steps (C03 along histories) -/
theorem C03_history_ledger_src (cap : Nat) (ops : List Op) (s : Sys) (g : Good cap s) :
    (runOpsSrc ops s).2.log = Spec.histDrops s.kind cap ops (abs s.buf) ++ s.log := by
  rw [runOpsSrc_eq cap ops s g]; exact C03_history_ledger cap ops s g

end CircBuf
