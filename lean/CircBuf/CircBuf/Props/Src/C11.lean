import CircBuf.Lemmas.Tie.IterTie
import CircBuf.Lemmas.Tie.Live
import CircBuf.Lemmas.Tie.Swap
import CircBuf.Lemmas.NonDefect
import CircBuf.Props.C11
/-!
# C11 — documented panics of `swap` and of the range translation: the theorems of `Props/C11.lean`, restated about the *translated source*

`Generated/Core.lean` is regenerated from `/repo/src/lib.rs` on every run (translator T3,
`/verif/translate/t3_core.py`).  Each theorem below is the property theorem of the same name
(without `_src`) with the hand-written model function replaced by the definition translated from
the Rust body (`Gen.push_back` for `pushBack`, ...), carried over along the tie theorems of
`Lemmas/Tie/*.lean`.  A change to one of these Rust functions changes `Gen.*`; the tie, and with it
the `_src` theorem, is then re-proved by Lean on that run — or stops checking.
-/
namespace CircBuf

maybe theorem C11_swap_ok_src (s : Sys) (i j : Nat) (h : Inv s.buf) (hi : i < s.buf.size) (hj : j < s.buf.size) :
    Refines (Gen.swap i j) s () (Spec.swap (abs s.buf) i j) := by
  first
  | (rw [tie_swap _ _ s h (nd_swap _ _ s h)]; exact C11_swap_ok s i j h hi hj)
  | (have h0 := C11_swap_ok s i j h hi hj; unfold Refines at h0 ⊢; rw [tie_swap _ _ s h (nd_swap _ _ s h)]; exact h0)
  | (exact Refines.of_liveEq (ltie_swap _ _ s h (nd_swap _ _ s h)) (C11_swap_ok s i j h hi hj))

maybe theorem C11_swap_panics_i_src (s : Sys) (i j : Nat) (hi : ¬ i < s.buf.size) :
    Gen.swap i j s = (.error (.doc "swap_i"), s) :=
  gen_swap_panics_i s i j hi

maybe theorem C11_swap_panics_j_src (s : Sys) (i j : Nat) (hi : i < s.buf.size) (hj : ¬ j < s.buf.size) :
    Gen.swap i j s = (.error (.doc "swap_j"), s) :=
  gen_swap_panics_j s i j hi hj

maybe theorem C11_range_ok_src (sb eb : Bound) (s : Sys) (hsb : sb.val < W) (heb : eb.val < W)
    (he : eb.endNat s.buf.size ≤ s.buf.size) (hs : sb.startNat ≤ eb.endNat s.buf.size)
    (hW : s.buf.size < W) :
    Gen.translate_range_bounds sb eb s = (.ok (sb.startNat, eb.endNat s.buf.size), s) := by
  rw [tie_translate_range_bounds _ _ s]; exact C11_range_ok sb eb s hsb heb he hs hW

maybe theorem C11_range_panics_src (sb eb : Bound) (s : Sys) (hsb : sb.val < W) (heb : eb.val < W)
    (hW : s.buf.size < W)
    (hbad : s.buf.size < eb.endNat s.buf.size ∨ eb.endNat s.buf.size < sb.startNat) :
    ∃ k, Gen.translate_range_bounds sb eb s = (.error (.doc k), s) := by
  rw [tie_translate_range_bounds _ _ s]; exact C11_range_panics sb eb s hsb heb hW hbad

end CircBuf
