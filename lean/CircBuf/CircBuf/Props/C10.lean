import CircBuf.Lemmas.Drain
/-!
# C10 — leaking a drain is safe

While a drain is alive — after `drain(..)` and any number of `next` / `next_back` steps
(`DrainInv` is preserved by them, C09) — the buffer under it has length 0.  `mem::forget` runs no
code, so after leaking the drain the buffer *is* that state: it satisfies the invariant and is
empty, hence it shares no element with what the drain handed out, it owns nothing that could be
destroyed a second time, and every later operation behaves as on an empty buffer of the same
capacity (all the other theorems apply to it, since they only assume `Inv`).  The length is set to
zero by `Drain.new` itself, before the first element is read (`C09_new`).
-/
namespace CircBuf

theorem C10_forget_safe (b0 : CB) (d : Drain) (s : Sys) (hd : DrainInv b0 d s) :
    Inv s.buf ∧ abs s.buf = [] ∧ s.buf.size = 0 ∧ s.buf.cap = b0.cap := by
  have hI := hd.inv0
  rw [hd.buf_eq]
  refine ⟨⟨Nat.zero_le _, hI.start_lt, hI.cap_lt, by intro i hi; simp only at hi; omega⟩, ?_, rfl, rfl⟩
  simp [abs]

end CircBuf
