import CircBuf.Lemmas.Ops
import CircBuf.Lemmas.Remove
import CircBuf.Lemmas.Swap
import CircBuf.Lemmas.Truncate
import CircBuf.Lemmas.Loops
import CircBuf.Lemmas.Contig
import CircBuf.Lemmas.Drain
import CircBuf.Lemmas.Contents
import CircBuf.Lemmas.ExtendSlice2
import CircBuf.Lemmas.History
import CircBuf.Lemmas.HistoryFull
import CircBuf.Lemmas.Fill
/-!
# C01 — every mutator implements bounded-deque sequence semantics

`Refines op s r xs'` says: run in **any** state `s` whose buffer satisfies the representation
invariant (any capacity `< 2^64`, 0 and 1 included; any front position; any length), `op` returns
`r` without panicking, touches only the buffer, re-establishes the invariant, keeps the capacity and
leaves the abstract sequence `xs'`.  `RefinesL` additionally records the ledger events emitted.
Each theorem equates `(r, xs')` with the result of the list-level specification in `Spec.lean`
(a deque capped at the capacity, written on plain lists, no slots, no modular arithmetic).  Arguments
are unrestricted naturals, so "out of range" and `usize::MAX` are ordinary values.

Because each operation re-establishes `Inv`, the theorems compose over any finite history
starting from `new()` (`inv_new`); `len`, `is_empty`, `is_full` are `(abs b).length`, `= 0`,
`= cap` by `abs_length`.
-/
namespace CircBuf

theorem C01_push_back (s : Sys) (x : Elem) (h : Inv s.buf) :
    Refines (pushBack x) s (Spec.pushBack s.buf.cap (abs s.buf) x).2
      (Spec.pushBack s.buf.cap (abs s.buf) x).1 := pushBack_spec s x h

theorem C01_push_front (s : Sys) (x : Elem) (h : Inv s.buf) :
    Refines (pushFront x) s (Spec.pushFront s.buf.cap (abs s.buf) x).2
      (Spec.pushFront s.buf.cap (abs s.buf) x).1 := pushFront_spec s x h

theorem C01_try_push_back (s : Sys) (x : Elem) (h : Inv s.buf) :
    Refines (tryPushBack x) s (Spec.tryPushBack s.buf.cap (abs s.buf) x).2
      (Spec.tryPushBack s.buf.cap (abs s.buf) x).1 := tryPushBack_spec s x h

theorem C01_try_push_front (s : Sys) (x : Elem) (h : Inv s.buf) :
    Refines (tryPushFront x) s (Spec.tryPushFront s.buf.cap (abs s.buf) x).2
      (Spec.tryPushFront s.buf.cap (abs s.buf) x).1 := tryPushFront_spec s x h

theorem C01_pop_back (s : Sys) (h : Inv s.buf) :
    Refines popBack s (Spec.popBack (abs s.buf)).2 (Spec.popBack (abs s.buf)).1 := popBack_spec s h

theorem C01_pop_front (s : Sys) (h : Inv s.buf) :
    Refines popFront s (Spec.popFront (abs s.buf)).2 (Spec.popFront (abs s.buf)).1 :=
  popFront_spec s h

theorem C01_remove (s : Sys) (i : Nat) (h : Inv s.buf) :
    Refines (remove i) s (Spec.remove (abs s.buf) i).2 (Spec.remove (abs s.buf) i).1 :=
  remove_spec s i h

/-- `swap` with both indexes in range (out of range: the documented panic, see C11) -/
theorem C01_swap (s : Sys) (i j : Nat) (h : Inv s.buf) (hi : i < s.buf.size) (hj : j < s.buf.size) :
    Refines (swap i j) s () (Spec.swap (abs s.buf) i j) := swap_spec s i j h hi hj

theorem C01_swap_remove_back (s : Sys) (i : Nat) (h : Inv s.buf) :
    Refines (swapRemoveBack i) s (Spec.swapRemoveBack (abs s.buf) i).2
      (Spec.swapRemoveBack (abs s.buf) i).1 := swapRemoveBack_spec s i h

theorem C01_swap_remove_front (s : Sys) (i : Nat) (h : Inv s.buf) :
    Refines (swapRemoveFront i) s (Spec.swapRemoveFront (abs s.buf) i).2
      (Spec.swapRemoveFront (abs s.buf) i).1 := swapRemoveFront_spec s i h

theorem C01_truncate_back (s : Sys) (n : Nat) (h : Inv s.buf) (hf : s.faults.drop = 0) :
    RefinesL (truncateBack n) s () (Spec.truncateBack (abs s.buf) n)
      (dropEvents s.kind ((abs s.buf).drop n)) := truncateBack_spec s n h hf

theorem C01_truncate_front (s : Sys) (n : Nat) (h : Inv s.buf) (hf : s.faults.drop = 0) :
    RefinesL (truncateFront n) s () (Spec.truncateFront (abs s.buf) n)
      (dropEvents s.kind ((abs s.buf).take ((abs s.buf).length - n))) := truncateFront_spec s n h hf

theorem C01_clear (s : Sys) (h : Inv s.buf) (hf : s.faults.drop = 0) :
    RefinesL clear s () [] (dropEvents s.kind (abs s.buf)) := clear_spec s h hf

/-- `make_contiguous` does not change the sequence -/
theorem C01_make_contiguous (s : Sys) (h : Inv s.buf) :
    ∃ b' v, makeContiguous s = (.ok v, { s with buf := b' }) ∧ Inv b' ∧ abs b' = abs s.buf ∧
      b'.cap = s.buf.cap := by
  obtain ⟨b', v, h1, h2, h3, h4, _⟩ := makeContiguous_spec s h
  exact ⟨b', v, h1, h2, h3, h4⟩

/-- `extend(iter)` with an iterator of `m` new elements: the buffer ends up with the last `cap`
elements of `old contents ++ new elements`; `Runs` also gives the ledger and the id counter. -/
theorem C01_extend (m : Nat) (s : Sys) (h : Inv s.buf) (hd : s.faults.drop = 0)
    (hn : s.faults.next = 0) (hk : s.kind = .tracked) :
    Runs (extendIter m) s () (Spec.extend s.buf.cap (abs s.buf) (newElems s.next m))
      (extendLog s.kind s.buf.cap (abs s.buf) (newElems s.next m)) m := by
  have := extendIter_runs m s h hd hn hk
  rw [pushMany_contents _ _ _ (by rw [abs_length _ h]; exact h.size_le)] at this
  exact this

/-- `extend_from_slice(other)`: the buffer ends up with the last `cap` elements of
`contents ++ clones`; only the last `cap` elements of a longer slice are cloned -/
theorem C01_extend_from_slice (s : Sys) (other : List Elem) (h : Inv s.buf)
    (hd : s.faults.drop = 0) (hcl : s.faults.clone = 0) :
    ∃ evs, Runs (extendFromSlice other) s ()
      (Spec.extend s.buf.cap (abs s.buf)
        (cloneList s.kind s.next (other.drop (other.length - s.buf.cap))))
      evs (cloneCount s.kind (other.drop (other.length - s.buf.cap)).length) :=
  extendFromSlice_runs s other h hd hcl

/-- `fill_spare_with(f)`: the free space is filled with the closure's results, in call order -/
theorem C01_fill_spare_with (s : Sys) (h : Inv s.buf) (hd : s.faults.drop = 0)
    (hc : s.faults.call = 0) (hk : s.kind = .tracked) :
    Runs fillSpareWith s () (abs s.buf ++ newElems s.next (s.buf.cap - s.buf.size))
      ((newElems s.next (s.buf.cap - s.buf.size)).reverse.map fun e => Event.given e.id)
      (s.buf.cap - s.buf.size) := fillSpareWith_runs s h hd hc hk

/-- `fill_with(f)`: old contents destroyed, the buffer is full of the closure's results -/
theorem C01_fill_with (s : Sys) (h : Inv s.buf) (hd : s.faults.drop = 0)
    (hc : s.faults.call = 0) (hk : s.kind = .tracked) :
    Runs fillWith s () (newElems s.next s.buf.cap)
      (((newElems s.next s.buf.cap).reverse.map fun e => Event.given e.id) ++
        dropEvents s.kind (abs s.buf)) s.buf.cap := fillWith_runs s h hd hc hk

/-- `fill_spare(value)` -/
theorem C01_fill_spare (s : Sys) (value : Elem) (h : Inv s.buf) (hd : s.faults.drop = 0)
    (hc : s.faults.clone = 0) :
    ∃ evs, Runs (fillSpare value) s ()
      (if s.buf.size = s.buf.cap then abs s.buf
       else abs s.buf ++ cloneList s.kind s.next (List.replicate (s.buf.cap - 1 - s.buf.size) value) ++ [value])
      evs (if s.buf.size = s.buf.cap then 0 else cloneCount s.kind (s.buf.cap - 1 - s.buf.size)) :=
  fillSpare_runs s value h hd hc

/-- `fill(value)` -/
theorem C01_fill (s : Sys) (value : Elem) (h : Inv s.buf) (hd : s.faults.drop = 0)
    (hc : s.faults.clone = 0) :
    ∃ evs, Runs (fill value) s ()
      (if s.buf.cap = 0 then []
       else cloneList s.kind s.next (List.replicate (s.buf.cap - 1) value) ++ [value])
      evs (if s.buf.cap = 0 then 0 else cloneCount s.kind (s.buf.cap - 1)) := fill_runs s value h hd hc

/-- `drain(a..b)` followed by its drop, after any consumption: what is left is
`take a ++ drop b` (details in C09) -/
theorem C01_drain (b0 : CB) (d : Drain) (s : Sys) (hd : DrainInv b0 d s) (hf : s.faults.drop = 0) :
    ∃ b', (d.drop s).1 = .ok () ∧ (d.drop s).2.buf = b' ∧ Inv b' ∧
      abs b' = (Spec.drain (abs b0) d.rs d.re).2 ∧ b'.cap = b0.cap := by
  obtain ⟨b', h1, h2, h3, h4, _⟩ := Drain.drop_spec b0 d s hd hf
  exact ⟨b', by rw [h1], by rw [h1], h2, h3, h4⟩

/-- a write through a mutable view (`get_mut`, `index_mut`, `iter_mut`, …) replaces exactly that
position -/
theorem C01_write (b : CB) (h : Inv b) (i : Nat) (hi : i < b.size) (v : Elem) :
    Inv { b with items := setCell b.items (phys b.start b.cap i) (some v) } ∧
    abs { b with items := setCell b.items (phys b.start b.cap i) (some v) } = (abs b).set i v :=
  write_spec b h i hi v

/-- **every finite history**: any sequence of (push / try_push / pop at both ends, remove, swap incl.
its documented panics, swap_remove, truncate, clear, make_contiguous) operations, run from any state
satisfying the invariant, produces the outputs and the final contents of the same sequence on the
abstract deque -/
theorem C01_history (cap : Nat) (ops : List Op) (s : Sys) (g : Good cap s) :
    (runOps ops s).1 = (Spec.runOps cap ops (abs s.buf)).1 ∧
    abs (runOps ops s).2.buf = (Spec.runOps cap ops (abs s.buf)).2 ∧ Good cap (runOps ops s).2 :=
  history_refines cap ops s g

/-- … in particular from `new()`, for every capacity `< 2^64` (0 and 1 included) -/
theorem C01_history_from_new (cap : Nat) (hc : cap < W) (ops : List Op) (k : Kind) :
    (runOps ops { buf := CB.new cap, kind := k }).1 = (Spec.runOps cap ops []).1 ∧
    abs (runOps ops { buf := CB.new cap, kind := k }).2.buf = (Spec.runOps cap ops []).2 :=
  history_from_new cap hc ops k

/-- **every finite history over the whole mutator API**: the fourteen core operations and `extend`,
`extend_from_slice`, `fill`, `fill_spare`, `fill_with`, `fill_spare_with`, `clone_from` (user code that
does not panic; identity-tracked elements), in any order and number, from any state satisfying the
invariant: outputs and final contents are those of the abstract deque, whose state is the sequence
and the counter new identities are drawn from -/
theorem C01_history_full (cap : Nat) (ops : List OpX) (s : Sys) (g : GoodX cap s) :
    (runOpsX ops s).1 = (Spec.runOpsX cap ops (abs s.buf) s.next).1 ∧
    abs (runOpsX ops s).2.buf = (Spec.runOpsX cap ops (abs s.buf) s.next).2 ∧ GoodX cap (runOpsX ops s).2 :=
  historyX_refines cap ops s g

/-- non-vacuity: `new()` of any capacity `< 2^64` is a good start for such a history -/
example (cap : Nat) (hc : cap < W) : GoodX cap { buf := CB.new cap } :=
  ⟨(inv_new' cap hc).1, rfl, rfl, rfl⟩

/-- non-vacuity: a wrapped, full buffer of capacity 3 (front position 2) satisfies the invariant -/
example : Inv ⟨3, 3, 2, fun i => some ⟨i + 1, 10 * i⟩⟩ := by
  refine ⟨by decide, Or.inl (by decide), by unfold W; decide, ?_⟩
  intro i hi; rfl

end CircBuf
