import CircBuf.Lemmas.Iter
import CircBuf.Lemmas.Contents
import CircBuf.Lemmas.Ops
/-!
# C08 — borrowing and owning iterators obey the double-ended exact-size protocol

`Iter` / `IterMut` are refinements of the list of slots they have still to produce
(`Iter.remaining`): `over_range(a..b)` (every `RangeBounds` spelling) selects exactly the slots of
logical positions `a..b` in order; `next` is head/tail, `next_back` is last/dropLast, `len` is the
length.  The `leftover_*` lemmas are the generic statement about consuming a list from both ends:
after `f` front steps and `k` back steps what is left is `xs[f .. n-k]`, the next front step yields
`xs[f]`, the next back step `xs[n-1-k]`, and once `f + k ≥ n` nothing is left, so each selected
element is produced exactly once, ascending from the front and descending from the back, then `None`
forever.  `Iter.clone` copies the two views (a value: independence is definitional); the default
iterator is `Iter.empty` (`remaining = []`).  `IntoIter` is the buffer itself with
`next = pop_front`, `next_back = pop_back`, `len = len` (C01).
-/
namespace CircBuf

theorem C08_over_range (sb eb : Bound) (s : Sys) (h : Inv s.buf) (hsb : sb.val < W)
    (heb : eb.val < W) (he : eb.endNat s.buf.size ≤ s.buf.size)
    (hs : sb.startNat ≤ eb.endNat s.buf.size) :
    ∃ it, Iter.overRange sb eb s = (.ok it, s) ∧
      it.remaining = rangeSlots s.buf.start s.buf.cap sb.startNat (eb.endNat s.buf.size) :=
  Iter.overRange_spec sb eb s h hsb heb he hs

theorem C08_whole (s : Sys) (h : Inv s.buf) :
    ∃ it, Iter.new s = (.ok it, s) ∧
      it.remaining = windowSlots s.buf.start s.buf.cap s.buf.size := Iter.new_spec s h

theorem C08_next (it : Iter) :
    (it.next).1 = it.remaining.head? ∧ (it.next).2.remaining = it.remaining.tail := it.next_spec

theorem C08_next_back (it : Iter) :
    (it.nextBack).1 = it.remaining.getLast? ∧ (it.nextBack).2.remaining = it.remaining.dropLast :=
  it.nextBack_spec

theorem C08_len (it : Iter) (s : Sys) (h : it.right.len + it.left.len < W) :
    it.len s = (.ok it.remaining.length, s) := it.len_spec s h

theorem C08_default : Iter.empty.remaining = [] := rfl

theorem C08_consume_front (xs : List α) (f b : Nat) (h : f + b < xs.length) :
    (leftover xs f b).head? = xs[f]? ∧ (leftover xs f b).tail = leftover xs (f + 1) b :=
  leftover_head xs f b h

theorem C08_consume_back (xs : List α) (f b : Nat) (h : f + b < xs.length) :
    (leftover xs f b).getLast? = xs[xs.length - 1 - b]? ∧
      (leftover xs f b).dropLast = leftover xs f (b + 1) := leftover_last xs f b h

theorem C08_exhausted (xs : List α) (f b : Nat) (h : xs.length ≤ f + b) : leftover xs f b = [] :=
  leftover_nil xs f b h

theorem C08_len_exact (xs : List α) (f b : Nat) : (leftover xs f b).length = xs.length - f - b :=
  leftover_length xs f b

/-- the owning iterator: `next` / `next_back` are `pop_front` / `pop_back` -/
theorem C08_into_iter_next (s : Sys) (h : Inv s.buf) :
    Refines popFront s (Spec.popFront (abs s.buf)).2 (Spec.popFront (abs s.buf)).1 := popFront_spec s h

theorem C08_into_iter_next_back (s : Sys) (h : Inv s.buf) :
    Refines popBack s (Spec.popBack (abs s.buf)).2 (Spec.popBack (abs s.buf)).1 := popBack_spec s h

end CircBuf
