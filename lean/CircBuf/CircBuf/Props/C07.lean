import CircBuf.Lemmas.Views
import CircBuf.Lemmas.Contig
import CircBuf.Lemmas.Contents
/-!
# C07 — all views of the contents agree; mutable views alias exactly those elements

For every capacity, layout and position (any natural number, so `len`, `len+1`, `usize::MAX` are
ordinary arguments):
* `get`, `nth_front`, `nth_back`, `front`, `back`, indexing return the **slot** `(start+i) mod cap`
  of logical position `i` when `i < len` and `None` (indexing: the documented panic) otherwise, and
  never touch the state; by `C07_slot_holds` that slot holds `(abs b)[i]`; by `C07_slots_distinct`
  different positions have different slots, so mutable references never alias;
* `as_slices` / `as_mut_slices`: the two views, front then back, are exactly the window's slots in
  order; the iterator and every whole-buffer reader (`to_vec`, `Debug`, `Hash`, `clone`) see `abs b`;
* a write through the reference for position `i` yields `(abs b).set i v` and keeps the invariant;
* `make_contiguous` returns one view holding `abs b`, leaves `abs` unchanged, and afterwards the
  window does not wrap (so `as_slices` reports a single slice).
-/
namespace CircBuf

theorem C07_get (s : Sys) (i : Nat) (h : Inv s.buf) :
    get? i s = (.ok (if i < s.buf.size then some (phys s.buf.start s.buf.cap i) else none), s) :=
  get?_run s i h

theorem C07_front (s : Sys) (h : Inv s.buf) :
    front? s = (.ok (if 0 < s.buf.size then some s.buf.start else none), s) := front?_run s h

theorem C07_back (s : Sys) (h : Inv s.buf) :
    back? s = (.ok (if 0 < s.buf.size then some (phys s.buf.start s.buf.cap (s.buf.size - 1))
      else none), s) := back?_run s h

theorem C07_nth_back (s : Sys) (i : Nat) (h : Inv s.buf) :
    nthBack? i s = (.ok (if i < s.buf.size then some (phys s.buf.start s.buf.cap (s.buf.size - 1 - i))
      else none), s) := nthBack?_run s i h

theorem C07_index (s : Sys) (i : Nat) (h : Inv s.buf) :
    index i s = if i < s.buf.size then (.ok (phys s.buf.start s.buf.cap i), s)
      else (.error (.doc "index"), s) := index_run s i h

/-- the slot of position `i` holds the `i`-th element of the abstract sequence -/
theorem C07_slot_holds (b : CB) (h : Inv b) (i : Nat) (hi : i < (abs b).length) :
    b.items (phys b.start b.cap i) = some (abs b)[i] := abs_getElem b h i hi

/-- different positions, different slots -/
theorem C07_slots_distinct (b : CB) (h : Inv b) (i j : Nat) (hi : i < b.size) (hj : j < b.size)
    (hij : i ≠ j) : phys b.start b.cap i ≠ phys b.start b.cap j := by
  have := h.size_le
  exact phys_ne _ _ _ _ (h.start_lt' (by omega)) (by omega) (by omega) hij

theorem C07_as_slices (b : CB) (h : Inv b) :
    ∃ f k, asSlicesOf b = .ok (f, k) ∧ f.slots ++ k.slots = windowSlots b.start b.cap b.size ∧
      (k.len ≠ 0 → f.len ≠ 0) := asSlicesOf_spec b h

theorem C07_contents (s : Sys) (h : Inv s.buf) : contents s = (.ok (abs s.buf), s) :=
  contents_run s h

theorem C07_write (b : CB) (h : Inv b) (i : Nat) (hi : i < b.size) (v : Elem) :
    Inv { b with items := setCell b.items (phys b.start b.cap i) (some v) } ∧
    abs { b with items := setCell b.items (phys b.start b.cap i) (some v) } = (abs b).set i v :=
  write_spec b h i hi v

theorem C07_make_contiguous (s : Sys) (h : Inv s.buf) :
    ∃ b' v, makeContiguous s = (.ok v, { s with buf := b' }) ∧ Inv b' ∧ abs b' = abs s.buf ∧
      b'.cap = s.buf.cap ∧ b'.size = s.buf.size ∧
      v.slots = windowSlots b'.start b'.cap b'.size ∧
      (b'.start + b'.size ≤ b'.cap) ∧
      (s.buf.start + s.buf.size ≤ s.buf.cap → b' = s.buf) := makeContiguous_spec s h

end CircBuf
