import CircBuf.Lemmas.Conserve
import CircBuf.Lemmas.Truncate
import CircBuf.Lemmas.HistoryConserve
import CircBuf.Lemmas.HistoryFullConserve
/-!
# C03 — every element is dropped exactly once and never while still reachable

The refinement theorems (C01, C09, C12) say what each operation returns, what the buffer holds
afterwards and — for the destroying ones — exactly which `dropped` events it emits
(`RefinesL` / `Runs`: the ledger grows by `dropEvents kind (…)` of an explicitly given list, nothing
else).  What remains is book-keeping on the abstract deque, proved here for every operation of the
specification: the elements present before (plus the ones handed in) are a **permutation** of the
elements in the buffer afterwards, the ones handed to the caller and the ones destroyed.
`C03_consequences` turns such a permutation, together with "every element was created once", into
the property's wording: nothing is destroyed twice, nothing destroyed is still in the buffer or with
the caller, the buffer never holds an element twice; and since the right-hand side of the
permutation accounts for every element, nothing is lost.  `C03_final_drop` is the last step: dropping
the buffer destroys exactly the elements it still holds.
-/
namespace CircBuf

theorem C03_push_back (cap : Nat) (xs : List Elem) (x : Elem) :
    (xs ++ [x]).Perm ((Spec.pushBack cap xs x).1 ++ (Spec.pushBack cap xs x).2.toList) :=
  Spec.pushBack_conserves cap xs x

theorem C03_push_front (cap : Nat) (xs : List Elem) (x : Elem) :
    (x :: xs).Perm ((Spec.pushFront cap xs x).1 ++ (Spec.pushFront cap xs x).2.toList) :=
  Spec.pushFront_conserves cap xs x

theorem C03_pop_back (xs : List Elem) :
    xs.Perm ((Spec.popBack xs).1 ++ (Spec.popBack xs).2.toList) := Spec.popBack_conserves xs

theorem C03_pop_front (xs : List Elem) :
    xs.Perm ((Spec.popFront xs).1 ++ (Spec.popFront xs).2.toList) := Spec.popFront_conserves xs

theorem C03_remove (xs : List Elem) (i : Nat) :
    xs.Perm ((Spec.remove xs i).1 ++ (Spec.remove xs i).2.toList) := Spec.remove_conserves xs i

/-- `truncate_back n`: kept ++ destroyed (the destroyed ones are exactly the events of
`C01_truncate_back`) -/
theorem C03_truncate_back (xs : List Elem) (n : Nat) :
    xs.Perm (Spec.truncateBack xs n ++ xs.drop n) := Spec.truncate_conserves xs n

theorem C03_truncate_front (xs : List Elem) (n : Nat) :
    xs.Perm (Spec.truncateFront xs n ++ xs.take (xs.length - n)) := Spec.truncateFront_conserves xs n

/-- a run of pushes (`extend`, `from_iter`, `fill*`, `clone_from`): kept ++ evicted -/
theorem C03_push_many (cap : Nat) (xs ys : List Elem) :
    (xs ++ ys).Perm ((Spec.pushMany cap xs ys).1 ++ (Spec.pushMany cap xs ys).2) :=
  Spec.pushMany_conserves cap xs ys

/-- `drain(a..b)`: what stays ++ what is drained (yielded or destroyed, C09) -/
theorem C03_drain (xs : List Elem) (a b : Nat) (hab : a ≤ b) :
    xs.Perm ((Spec.drain xs a b).2 ++ (Spec.drain xs a b).1) := Spec.drain_conserves xs a b hab

theorem C03_consequences (created inBuf held dropped : List Nat) (hnd : created.Nodup)
    (hp : created.Perm (inBuf ++ held ++ dropped)) :
    dropped.Nodup ∧ inBuf.Nodup ∧ held.Nodup ∧ (∀ i ∈ dropped, i ∉ inBuf ∧ i ∉ held) ∧
      (∀ i ∈ inBuf, i ∉ held) := conservation_consequences created inBuf held dropped hnd hp

/-- dropping the buffer (`Drop` = `clear`): exactly the elements still held are destroyed, each
once, and nothing is left -/
theorem C03_final_drop (s : Sys) (h : Inv s.buf) (hf : s.faults.drop = 0) :
    RefinesL dropBuffer s () [] (dropEvents s.kind (abs s.buf)) := clear_spec s h hf

/-- **along any finite history** of the abstract deque: initial contents plus everything handed in is
a permutation of final contents, everything handed to the caller and everything destroyed -/
theorem C03_history (cap : Nat) (ops : List Op) (xs : List Elem) :
    (xs ++ (Spec.tally cap ops xs).1).Perm
      ((Spec.runOps cap ops xs).2 ++ (Spec.tally cap ops xs).2.1 ++ (Spec.tally cap ops xs).2.2) :=
  Spec.history_conserves cap ops xs

/-- … and the model's ledger along that history consists of exactly those destructions (the model's
outputs and contents agree with the abstract run by `C01_history`) -/
theorem C03_history_ledger (cap : Nat) (ops : List Op) (s : Sys) (g : Good cap s) :
    (runOps ops s).2.log = Spec.histDrops s.kind cap ops (abs s.buf) ++ s.log :=
  history_ledger cap ops s g

/-- **conservation along any finite history over the whole mutator API** (core operations and the ones
that call `Clone`, a closure or an iterator): initial contents plus everything that entered — handed in,
produced, cloned — is a permutation of final contents, everything handed out and everything
destroyed.  Together with `C01_history_full` (the model's contents are the abstract ones at every step)
no element is lost or duplicated along such a history. -/
theorem C03_history_full (cap : Nat) (ops : List OpX) (xs : List Elem) (next : Nat) :
    (xs ++ (Spec.tallyX cap ops xs next).1).Perm
      ((Spec.runOpsX cap ops xs next).2 ++ (Spec.tallyX cap ops xs next).2.1 ++
        (Spec.tallyX cap ops xs next).2.2) :=
  Spec.historyX_conserves cap ops xs next

end CircBuf
