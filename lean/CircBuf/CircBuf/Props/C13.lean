import CircBuf.Lemmas.Cmp
/-!
# C13 — equality, ordering, hashing and Debug depend only on the logical contents

For **every** pair of capacities and **every** pair of layouts (so every split of both sides into
two physical segments is paired with every other):
* `a == b` is `decide (values of abs a = values of abs b)` — the three-way segment alignment of
  `PartialEq` is list equality, and none of its slice indexes is out of range (the call returns
  `.ok`);
* comparison with a slice (hence with arrays and references to them, which forward to it) agrees;
* `partial_cmp` / `cmp` are the lexicographic order of the two sequences (`lexCmp`, with
  `lexCmp a b = 0 ↔ a = b` and `lexCmp a b = -1 ↔ a < b` for the standard order on lists);
* the hasher is fed `len` followed by the elements in order, so equal contents (of equal length)
  give equal feeds, whatever the layout;
* `Debug` lists the elements in order, as the equivalent slice does.
None of them modifies the buffer (`LogExt`: only the ledger grows).
-/
namespace CircBuf

theorem C13_eq (s : Sys) (other : CB) (h : Inv s.buf) (ho : Inv other) (hf : s.faults.eq = 0) :
    ∃ s', eqBuf other s = (.ok (decide (vals (abs s.buf) = vals (abs other))), s') ∧ LogExt s s' :=
  eqBuf_spec s other h ho hf

theorem C13_eq_slice (s : Sys) (other : List Elem) (h : Inv s.buf) (hf : s.faults.eq = 0) :
    ∃ s', eqSlice other s = (.ok (decide (vals (abs s.buf) = vals other)), s') ∧ LogExt s s' :=
  eqSlice_spec s other h hf

theorem C13_cmp (s : Sys) (other : CB) (h : Inv s.buf) (ho : Inv other) :
    ∃ s', cmpBuf other s = (.ok (lexCmp (vals (abs s.buf)) (vals (abs other))), s') ∧ LogExt s s' :=
  cmpBuf_spec s other h ho

theorem C13_lex_eq (a b : List Nat) : lexCmp a b = 0 ↔ a = b := lexCmp_eq_zero a b
theorem C13_lex_lt (a b : List Nat) : lexCmp a b = -1 ↔ a < b := lexCmp_lt a b

theorem C13_hash (s : Sys) (h : Inv s.buf) :
    ∃ s', hashWords s = (.ok (s.buf.size :: vals (abs s.buf)), s') ∧ LogExt s s' := hashWords_spec s h

theorem C13_debug (s : Sys) (h : Inv s.buf) :
    ∃ s', fmtItems s = (.ok (abs s.buf), s') ∧ LogExt s s' := fmtItems_spec s h

/-- the ledger is the only thing a comparison changes -/
theorem C13_readonly (s s' : Sys) (h : LogExt s s') : s'.buf = s.buf := h.buf

end CircBuf
