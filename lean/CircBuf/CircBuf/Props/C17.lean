import CircBuf.Lemmas.ExtendSlice2
import CircBuf.Lemmas.Swap
/-!
# C17 — no operation allocates (model side)

In the model a heap allocation is the ledger event `alloc`; it is emitted by `boxed` and `to_vec`
only.  The refinement theorems make this precise for every other operation:
* every operation with a `Refines` theorem leaves the ledger exactly as it was
  (`C17_refines_no_event`), so it emits no `alloc` (nor any other event);
* the operations with `RefinesL` / `Runs` theorems extend the ledger by `dropEvents`, `cloneLog`,
  `given` events only, none of which is `alloc` (`C17_drop_events`, `C17_clone_log`);
* `boxed` emits exactly one (`C17_boxed`).
This states what the model says; what ties it to the crate is the allocation column of the
correspondence (counting global allocator) and the offline feature builds — see the check.
-/
namespace CircBuf

theorem C17_refines_no_event {α : Type} (op : M α) (s : Sys) (r : α) (xs : List Elem)
    (h : Refines op s r xs) : (op s).2.log = s.log := by
  obtain ⟨b', e, _⟩ := h
  rw [e]

theorem C17_drop_events (k : Kind) (es : List Elem) : Event.alloc ∉ dropEvents k es := by
  unfold dropEvents
  split
  · simp
  · simp

theorem C17_clone_log (k : Kind) (n : Nat) (es : List Elem) : Event.alloc ∉ cloneLog k n es := by
  induction es generalizing n with
  | nil => simp [cloneLog]
  | cons e rest ih =>
    simp only [cloneLog]
    split
    · simp [ih]
    · exact ih n

theorem C17_boxed (s : Sys) :
    boxed s = (.ok (), { s with buf := CB.new s.buf.cap, log := .alloc :: s.log }) := by
  simp [boxed, emit]

end CircBuf
