import CircBuf.Lemmas.Drain
/-!
# C09 — drain removes exactly the requested range and keeps the rest in order

For every capacity (0 included), every layout, every valid range in every `RangeBounds` spelling:
* `drain(a..b)` creates a drain whose cursors are `a..b` over the original buffer (`DrainInv`);
  an invalid range panics with a documented message before anything is touched;
* `next` / `next_back` return the head / last of what is left of `(abs b0)[a..b]` and only move a
  cursor; `len` (`Drain.len = ie - is`) is the number of elements left;
* dropping the drain at **any** point destroys exactly the elements not yet yielded (one `dropped`
  event each, in order), moves the tail into the hole with a loop that provably terminates and never
  fails (`backfillLoop_spec`), and leaves a buffer satisfying the invariant whose contents are
  `(abs b0).take a ++ (abs b0).drop b`.
-/
namespace CircBuf

theorem C09_new (sb eb : Bound) (s : Sys) (h : Inv s.buf) (hsb : sb.val < W)
    (heb : eb.val < W) (he : eb.endNat s.buf.size ≤ s.buf.size)
    (hs : sb.startNat ≤ eb.endNat s.buf.size) :
    Drain.new sb eb s =
      (.ok ⟨s.buf.size, sb.startNat, eb.endNat s.buf.size, sb.startNat, eb.endNat s.buf.size⟩,
        { s with buf := ⟨s.buf.cap, 0, s.buf.start, s.buf.items⟩ }) ∧
    DrainInv s.buf ⟨s.buf.size, sb.startNat, eb.endNat s.buf.size, sb.startNat, eb.endNat s.buf.size⟩
      { s with buf := ⟨s.buf.cap, 0, s.buf.start, s.buf.items⟩ } :=
  Drain.new_spec sb eb s h hsb heb he hs

theorem C09_next (b0 : CB) (d : Drain) (s : Sys) (hd : DrainInv b0 d s) :
    d.next s = (.ok (((abs b0).drop d.is).take (d.ie - d.is) |>.head?,
      { d with is := d.is + (if d.is < d.ie then 1 else 0) }), s) ∧
    DrainInv b0 { d with is := d.is + (if d.is < d.ie then 1 else 0) } s := Drain.next_spec b0 d s hd

theorem C09_next_back (b0 : CB) (d : Drain) (s : Sys) (hd : DrainInv b0 d s) :
    d.nextBack s = (.ok (((abs b0).drop d.is).take (d.ie - d.is) |>.getLast?,
      { d with ie := d.ie - (if d.is < d.ie then 1 else 0) }), s) ∧
    DrainInv b0 { d with ie := d.ie - (if d.is < d.ie then 1 else 0) } s :=
  Drain.nextBack_spec b0 d s hd

theorem C09_len (b0 : CB) (d : Drain) (s : Sys) (hd : DrainInv b0 d s) :
    d.len = (((abs b0).drop d.is).take (d.ie - d.is)).length := by
  have := abs_length b0 hd.inv0
  have := hd.h2; have := hd.h3; have := hd.h4; have := hd.bs
  simp [Drain.len]; omega

theorem C09_drop (b0 : CB) (d : Drain) (s : Sys) (hd : DrainInv b0 d s) (hf : s.faults.drop = 0) :
    ∃ b', d.drop s = (.ok (), { s with
        buf := b'
        log := dropEvents s.kind (((abs b0).drop d.is).take (d.ie - d.is)) ++ s.log }) ∧
      Inv b' ∧ abs b' = (abs b0).take d.rs ++ (abs b0).drop d.re ∧ b'.cap = b0.cap ∧
      b'.start = b0.start ∧
      (∀ i, i < d.rs → b'.items (phys b0.start b0.cap i) = b0.items (phys b0.start b0.cap i)) :=
  Drain.drop_spec b0 d s hd hf

end CircBuf
