import CircBuf.Generated.TypeDefs
/-!
# C15 — public types keep their borrow, variance, const and auto-trait contracts

"For all client programs" reduces to finitely many facts of the type definitions and signatures.
They are decided here, by kernel evaluation (`decide`), on the definitions **as translated from the
current source by T2** (`Generated/TypeDefs.lean`), using the variance / auto-trait calculus of
`Types.lean` (the Rust Reference's rules; validated against rustc by the witness programs in
`/verif/witnesses`, each of which names the fact it exercises).
-/
namespace CircBuf.Ty

/-! ### variance -/
theorem C15_buffer_covariant : structVariance structs "CircularBuffer" "T" = some .co := by decide
theorem C15_into_iter_covariant : structVariance structs "IntoIter" "T" = some .co := by decide
theorem C15_iter_covariant_T : structVariance structs "Iter" "T" = some .co := by decide
theorem C15_iter_covariant_lt : structVariance structs "Iter" "'a" = some .co := by decide
theorem C15_iter_mut_invariant_T : structVariance structs "IterMut" "T" = some .inv := by decide
theorem C15_iter_mut_covariant_lt : structVariance structs "IterMut" "'a" = some .co := by decide
theorem C15_drain_covariant_T : structVariance structs "Drain" "T" = some .co := by decide
theorem C15_drain_covariant_lt : structVariance structs "Drain" "'a" = some .co := by decide

/-! ### auto traits: the same conditions as `[T; N]`, `&[T]`, `&mut [T]` -/
theorem C15_buffer_send : structAuto structs "CircularBuffer" false = some { send := true } := by decide
theorem C15_buffer_sync : structAuto structs "CircularBuffer" true = some { sync := true } := by decide
theorem C15_into_iter_send : structAuto structs "IntoIter" false = some { send := true } := by decide
theorem C15_into_iter_sync : structAuto structs "IntoIter" true = some { sync := true } := by decide
theorem C15_iter_send : structAuto structs "Iter" false = some { sync := true } := by decide
theorem C15_iter_sync : structAuto structs "Iter" true = some { sync := true } := by decide
theorem C15_iter_mut_send : structAuto structs "IterMut" false = some { send := true } := by decide
theorem C15_iter_mut_sync : structAuto structs "IterMut" true = some { sync := true } := by decide

/-! ### every view-returning method borrows `self` for as long as the view lives, with the right
mutability -/
def sharedViews : List String :=
  ["iter", "range", "as_slices", "back", "front", "get", "nth_front", "nth_back"]
def exclusiveViews : List String :=
  ["iter_mut", "range_mut", "drain", "make_contiguous", "as_mut_slices", "back_mut", "front_mut",
   "get_mut", "nth_front_mut", "nth_back_mut"]

theorem C15_shared_views :
    sharedViews.all (fun n => (methodSig methods n).any fun m => m.recv = "ref" ∧ m.retBorrowsSelf)
      = true := by decide

theorem C15_exclusive_views :
    exclusiveViews.all (fun n => (methodSig methods n).any fun m => m.recv = "refmut" ∧ m.retBorrowsSelf)
      = true := by decide

/-! ### const-ness and impl bounds -/
theorem C15_new_const : (methodSig methods "new").any (fun m => m.isConst ∧ m.recv = "none") = true := by
  decide

/-- `Iter: Clone` without any bound on `T` -/
theorem C15_iter_clone_unbounded : implBounds impls "Clone" "Iter" = some [] := by decide

end CircBuf.Ty
