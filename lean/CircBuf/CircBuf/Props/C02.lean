import CircBuf.Lemmas.Ops
/-!
# C02 — single-element insertion never loses an element silently

For every capacity (0 included), every layout and every length:
* `push_back x` / `push_front x` return **the very element** (same `id`) they displaced — the
  opposite end's element when full, `x` itself when the capacity is zero, nothing when there was
  room — and the contents afterwards are the specification's;
* `try_push_back x` / `try_push_front x` return `Err x` (same `id`) exactly when the buffer is full
  (which includes capacity zero) and then leave the buffer untouched; otherwise `Ok`, the length
  grows by one and `x` is at that end;
* none of the four calls touches the ledger: the post-state differs from the pre-state in the buffer
  only (`{ s with buf := b' }`), so no destructor runs and nothing is created.
-/
namespace CircBuf

/-- what `push_back` hands back -/
def displacedBack (cap : Nat) (xs : List Elem) (x : Elem) : Option Elem :=
  if cap = 0 then some x else if xs.length = cap then xs.head? else none

def displacedFront (cap : Nat) (xs : List Elem) (x : Elem) : Option Elem :=
  if cap = 0 then some x else if xs.length = cap then xs.getLast? else none

theorem C02_push_back (s : Sys) (x : Elem) (h : Inv s.buf) :
    ∃ b', pushBack x s = (.ok (displacedBack s.buf.cap (abs s.buf) x), { s with buf := b' }) ∧
      Inv b' ∧ b'.cap = s.buf.cap ∧
      abs b' = (if s.buf.cap = 0 then abs s.buf
                else if (abs s.buf).length = s.buf.cap then (abs s.buf).tail ++ [x]
                else abs s.buf ++ [x]) := by
  obtain ⟨b', h1, h2, h3, h4⟩ := pushBack_spec s x h
  have hlen := abs_length s.buf h
  have hsz := h.size_le
  refine ⟨b', ?_, h2, h4, ?_⟩
  · rw [h1]; congr 2
    unfold Spec.pushBack displacedBack
    by_cases hc : s.buf.cap = 0
    · simp [hc]
    · by_cases hf : (abs s.buf).length = s.buf.cap
      · have : ¬ (abs s.buf).length < s.buf.cap := by omega
        simp [hc, hf]
      · have : (abs s.buf).length < s.buf.cap := by omega
        simp [hc, hf, this]
  · rw [h3]; unfold Spec.pushBack
    by_cases hc : s.buf.cap = 0
    · simp [hc]
    · by_cases hf : (abs s.buf).length = s.buf.cap
      · simp [hc, hf]
      · have : (abs s.buf).length < s.buf.cap := by omega
        simp [hc, hf, this]

theorem C02_push_front (s : Sys) (x : Elem) (h : Inv s.buf) :
    ∃ b', pushFront x s = (.ok (displacedFront s.buf.cap (abs s.buf) x), { s with buf := b' }) ∧
      Inv b' ∧ b'.cap = s.buf.cap ∧
      abs b' = (if s.buf.cap = 0 then abs s.buf
                else if (abs s.buf).length = s.buf.cap then x :: (abs s.buf).dropLast
                else x :: abs s.buf) := by
  obtain ⟨b', h1, h2, h3, h4⟩ := pushFront_spec s x h
  have hlen := abs_length s.buf h
  have hsz := h.size_le
  refine ⟨b', ?_, h2, h4, ?_⟩
  · rw [h1]; congr 2
    unfold Spec.pushFront displacedFront
    by_cases hc : s.buf.cap = 0
    · simp [hc]
    · by_cases hf : (abs s.buf).length = s.buf.cap
      · simp [hc, hf]
      · have : (abs s.buf).length < s.buf.cap := by omega
        simp [hc, hf, this]
  · rw [h3]; unfold Spec.pushFront
    by_cases hc : s.buf.cap = 0
    · simp [hc]
    · by_cases hf : (abs s.buf).length = s.buf.cap
      · simp [hc, hf]
      · have : (abs s.buf).length < s.buf.cap := by omega
        simp [hc, hf, this]

/-- `try_push_back`: `Err x` **iff** full; then the state is exactly the pre-state -/
theorem C02_try_push_back (s : Sys) (x : Elem) (h : Inv s.buf) :
    (s.buf.size = s.buf.cap → tryPushBack x s = (.ok (.error x), s)) ∧
    (s.buf.size ≠ s.buf.cap → ∃ b', tryPushBack x s = (.ok (.ok ()), { s with buf := b' }) ∧
        Inv b' ∧ b'.cap = s.buf.cap ∧ abs b' = abs s.buf ++ [x] ∧ b'.size = s.buf.size + 1) := by
  obtain ⟨b', h1, h2, h3, h4⟩ := tryPushBack_spec s x h
  have hlen := abs_length s.buf h
  have hsz := h.size_le
  unfold Spec.tryPushBack at h1 h3
  constructor
  · intro hf
    have : ¬ (abs s.buf).length < s.buf.cap := by omega
    simp only [this, if_false] at h1 h3
    by_cases hc : s.buf.cap = 0
    · mrun [tryPushBack, hc]
    · have : s.buf.cap ≤ s.buf.size := by omega
      mrun [tryPushBack, hc, this]
  · intro hf
    have : (abs s.buf).length < s.buf.cap := by omega
    simp only [this, if_true] at h1 h3
    refine ⟨b', h1, h2, h4, h3, ?_⟩
    have := abs_length b' h2
    rw [h3] at this; simp [hlen] at this; omega

theorem C02_try_push_front (s : Sys) (x : Elem) (h : Inv s.buf) :
    (s.buf.size = s.buf.cap → tryPushFront x s = (.ok (.error x), s)) ∧
    (s.buf.size ≠ s.buf.cap → ∃ b', tryPushFront x s = (.ok (.ok ()), { s with buf := b' }) ∧
        Inv b' ∧ b'.cap = s.buf.cap ∧ abs b' = x :: abs s.buf ∧ b'.size = s.buf.size + 1) := by
  obtain ⟨b', h1, h2, h3, h4⟩ := tryPushFront_spec s x h
  have hlen := abs_length s.buf h
  have hsz := h.size_le
  unfold Spec.tryPushFront at h1 h3
  constructor
  · intro hf
    by_cases hc : s.buf.cap = 0
    · mrun [tryPushFront, hc]
    · have : s.buf.cap ≤ s.buf.size := by omega
      mrun [tryPushFront, hc, this]
  · intro hf
    have : (abs s.buf).length < s.buf.cap := by omega
    simp only [this, if_true] at h1 h3
    refine ⟨b', h1, h2, h4, h3, ?_⟩
    have := abs_length b' h2
    rw [h3] at this; simp [hlen] at this; omega

/-- non-vacuity: the empty buffer of any capacity below `2^64` satisfies the invariant
(capacity 0 included), so the theorems above apply from `new()` on. -/
theorem inv_new (cap : Nat) (hc : cap < W) : Inv (CB.new cap) := by
  refine ⟨by simp [CB.new], ?_, hc, by intro i hi; simp [CB.new] at hi⟩
  by_cases h : cap = 0
  · right; simp [CB.new, h]
  · left; simp [CB.new]; omega

example : Inv (CB.new 0) ∧ (CB.new 0).size = (CB.new 0).cap := ⟨inv_new 0 W_pos, rfl⟩

end CircBuf
