import CircBuf.Lemmas.Ctor
import CircBuf.Lemmas.Ops
import CircBuf.Lemmas.ToVec
/-!
# C12 — constructors and conversions give the specified contents, independently owned

* `new` / `default` (and `boxed`, which is `new` behind one allocation): an empty buffer satisfying
  the invariant, for every capacity `< 2^64`;
* `From<[T; M]>` for every `M` (shorter than, equal to, longer than the capacity): the buffer holds
  the **last `cap` elements of the array — the same elements, not copies** — and the other
  `M - cap` are destroyed exactly once (one `dropped` event each, in order);
* `from_iter`: the last `cap` of the produced items;
* `clone`: a new buffer whose contents are `cloneList` of the source's (element-wise clones in
  order: same values, fresh identities `next, next+1, …` for element types that have one, hence
  disjoint from the source's); the source buffer is returned untouched (`s'.buf = s.buf`);
* `clone_from(other)`: the old contents are destroyed, the buffer holds the last `cap` clones of
  `other`'s elements;
* `into_iter` is the buffer itself consumed by `pop_front` / `pop_back` (C01/C08), so collecting it
  returns the original elements in order.
* `to_vec` (`C12_to_vec`): the returned vector is `cloneList` of the contents — element-wise clones,
  oldest first — the buffer itself is only read, and at most one allocation happens;
* `boxed` (`C12_boxed`): an empty valid buffer of the same capacity behind exactly one allocation.
-/
namespace CircBuf

theorem C12_new (cap : Nat) (hc : cap < W) : Inv (CB.new cap) ∧ abs (CB.new cap) = [] :=
  inv_new' cap hc

theorem C12_from_array (s : Sys) (arr : List Elem) (hW : s.buf.cap < W) (hf : s.faults.drop = 0) :
    ∃ b', fromArray arr s = (.ok (), { s with
        buf := b'
        log := dropEvents s.kind (arr.take (arr.length - s.buf.cap)) ++ s.log }) ∧
      Inv b' ∧ abs b' = Spec.lastN s.buf.cap arr ∧ b'.cap = s.buf.cap ∧ b'.start = 0 :=
  fromArray_spec s arr hW hf

theorem C12_from_iter (m : Nat) (s : Sys) (hW : s.buf.cap < W) (hd : s.faults.drop = 0)
    (hn : s.faults.next = 0) (hk : s.kind = .tracked) :
    ∃ s', fromIter m s = (.ok (), s') ∧ Inv s'.buf ∧ s'.buf.cap = s.buf.cap ∧
      abs s'.buf = Spec.lastN s.buf.cap (newElems s.next m) ∧ s'.next = s.next + m :=
  fromIter_runs m s hW hd hn hk

theorem C12_clone (s : Sys) (h : Inv s.buf) (hd : s.faults.drop = 0) (hc : s.faults.clone = 0) :
    ∃ nb s', cloneBuf s = (.ok nb, s') ∧ s'.buf = s.buf ∧ Inv nb ∧ nb.cap = s.buf.cap ∧
      abs nb = cloneList s.kind s.next (abs s.buf) ∧
      s'.next = s.next + cloneCount s.kind (abs s.buf).length := cloneBuf_spec s h hd hc

theorem C12_clone_from (other : List Elem) (s : Sys) (h : Inv s.buf) (hd : s.faults.drop = 0)
    (hc : s.faults.clone = 0) :
    ∃ evs, Runs (cloneFrom other) s () (Spec.lastN s.buf.cap (cloneList s.kind s.next other)) evs
      (cloneCount s.kind other.length) := cloneFrom_runs other s h hd hc

/-- clones have the same values, in order … -/
theorem C12_to_vec (s : Sys) (h : Inv s.buf) (hc : s.faults.clone = 0) :
    ∃ s', toVec s = (.ok (cloneList s.kind s.next (abs s.buf)), s') ∧ s'.buf = s.buf ∧
      s'.next = s.next + cloneCount s.kind s.buf.size ∧
      s'.log = cloneLog s.kind s.next (abs s.buf) ++
        ((if s.buf.size > 0 ∧ s.kind ≠ .zst then [Event.alloc] else []) ++ s.log) :=
  toVec_spec s h hc

theorem C12_boxed (s : Sys) (hW : s.buf.cap < W) :
    ∃ s', boxed s = (.ok (), s') ∧ Inv s'.buf ∧ abs s'.buf = [] ∧ s'.buf.cap = s.buf.cap ∧
      s'.log = Event.alloc :: s.log := boxed_spec s hW

theorem C12_clone_values (n : Nat) (l : List Elem) :
    (cloneList .tracked n l).map (·.val) = l.map (·.val) := by
  induction l generalizing n with
  | nil => rfl
  | cons e rest ih => simp [cloneList, ih]

/-- … and fresh identities `n, n+1, …` -/
theorem C12_clone_ids (n : Nat) (l : List Elem) :
    (cloneList .tracked n l).map (·.id) = List.range' n l.length := by
  induction l generalizing n with
  | nil => rfl
  | cons e rest ih => simp [cloneList, ih, List.range'_succ]

end CircBuf
