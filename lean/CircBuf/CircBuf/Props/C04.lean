import CircBuf.Props.C01
import CircBuf.Lemmas.Cmp
import CircBuf.Lemmas.HistoryFull
/-!
# C04 — unoccupied storage is never observed

Every refinement theorem has the shape "for every state `s` with `Inv s.buf`, the call returns
`.ok (R cap (abs s.buf) args)` and leaves a buffer with `abs = X cap (abs s.buf) args`".  The cells
outside the window are universally quantified there: `Inv` says nothing about them, so they may hold
`none` (never initialised), stale copies of moved-out elements, decoys or copies of live elements.
Consequently (`C04_indep`) two states that agree on capacity and abstract contents — whatever lies in
their unoccupied cells, whatever their front position, whatever history produced them — get the
**same return value** and the **same abstract contents** from the same call, and both end in states
satisfying `Inv`, so this holds for every continuation (induction over histories).  Reading a cell
that holds no element is an error in the model (`Panic.ub`); every theorem yields `.ok`, so no
operation reads one.  The comparison / hashing / formatting results are functions of `abs` by
C13; the element behind a returned reference is `(abs b)[i]` by C07; only the split point of
`as_slices` (and the slot numbers, which are addresses) depend on the layout.
-/
namespace CircBuf

/-- any operation that refines a function of `(capacity, abstract contents)` cannot distinguish two
buffers with the same capacity and contents -/
theorem C04_indep {α : Type} (op : M α) (R : Nat → List Elem → α) (X : Nat → List Elem → List Elem)
    (hspec : ∀ s : Sys, Inv s.buf → Refines op s (R s.buf.cap (abs s.buf)) (X s.buf.cap (abs s.buf)))
    (s1 s2 : Sys) (h1 : Inv s1.buf) (h2 : Inv s2.buf) (hcap : s1.buf.cap = s2.buf.cap)
    (habs : abs s1.buf = abs s2.buf) :
    ∃ r b1 b2, op s1 = (.ok r, { s1 with buf := b1 }) ∧ op s2 = (.ok r, { s2 with buf := b2 }) ∧
      Inv b1 ∧ Inv b2 ∧ abs b1 = abs b2 ∧ b1.cap = b2.cap := by
  obtain ⟨b1, e1, i1, a1, c1⟩ := hspec s1 h1
  obtain ⟨b2, e2, i2, a2, c2⟩ := hspec s2 h2
  rw [← hcap, ← habs] at e2 a2
  exact ⟨_, b1, b2, e1, e2, i1, i2, a1.trans a2.symm, by rw [c1, c2, hcap]⟩

theorem C04_push_back (x : Elem) (s1 s2 : Sys) (h1 : Inv s1.buf) (h2 : Inv s2.buf)
    (hcap : s1.buf.cap = s2.buf.cap) (habs : abs s1.buf = abs s2.buf) :
    ∃ r b1 b2, pushBack x s1 = (.ok r, { s1 with buf := b1 }) ∧
      pushBack x s2 = (.ok r, { s2 with buf := b2 }) ∧
      Inv b1 ∧ Inv b2 ∧ abs b1 = abs b2 ∧ b1.cap = b2.cap :=
  C04_indep (pushBack x) (fun c xs => (Spec.pushBack c xs x).2) (fun c xs => (Spec.pushBack c xs x).1)
    (fun s h => pushBack_spec s x h) s1 s2 h1 h2 hcap habs

theorem C04_push_front (x : Elem) (s1 s2 : Sys) (h1 : Inv s1.buf) (h2 : Inv s2.buf)
    (hcap : s1.buf.cap = s2.buf.cap) (habs : abs s1.buf = abs s2.buf) :
    ∃ r b1 b2, pushFront x s1 = (.ok r, { s1 with buf := b1 }) ∧
      pushFront x s2 = (.ok r, { s2 with buf := b2 }) ∧
      Inv b1 ∧ Inv b2 ∧ abs b1 = abs b2 ∧ b1.cap = b2.cap :=
  C04_indep (pushFront x) (fun c xs => (Spec.pushFront c xs x).2) (fun c xs => (Spec.pushFront c xs x).1)
    (fun s h => pushFront_spec s x h) s1 s2 h1 h2 hcap habs

theorem C04_pop_back (s1 s2 : Sys) (h1 : Inv s1.buf) (h2 : Inv s2.buf)
    (hcap : s1.buf.cap = s2.buf.cap) (habs : abs s1.buf = abs s2.buf) :
    ∃ r b1 b2, popBack s1 = (.ok r, { s1 with buf := b1 }) ∧ popBack s2 = (.ok r, { s2 with buf := b2 }) ∧
      Inv b1 ∧ Inv b2 ∧ abs b1 = abs b2 ∧ b1.cap = b2.cap :=
  C04_indep popBack (fun _ xs => (Spec.popBack xs).2) (fun _ xs => (Spec.popBack xs).1)
    (fun s h => popBack_spec s h) s1 s2 h1 h2 hcap habs

theorem C04_pop_front (s1 s2 : Sys) (h1 : Inv s1.buf) (h2 : Inv s2.buf)
    (hcap : s1.buf.cap = s2.buf.cap) (habs : abs s1.buf = abs s2.buf) :
    ∃ r b1 b2, popFront s1 = (.ok r, { s1 with buf := b1 }) ∧ popFront s2 = (.ok r, { s2 with buf := b2 }) ∧
      Inv b1 ∧ Inv b2 ∧ abs b1 = abs b2 ∧ b1.cap = b2.cap :=
  C04_indep popFront (fun _ xs => (Spec.popFront xs).2) (fun _ xs => (Spec.popFront xs).1)
    (fun s h => popFront_spec s h) s1 s2 h1 h2 hcap habs

theorem C04_remove (i : Nat) (s1 s2 : Sys) (h1 : Inv s1.buf) (h2 : Inv s2.buf)
    (hcap : s1.buf.cap = s2.buf.cap) (habs : abs s1.buf = abs s2.buf) :
    ∃ r b1 b2, remove i s1 = (.ok r, { s1 with buf := b1 }) ∧ remove i s2 = (.ok r, { s2 with buf := b2 }) ∧
      Inv b1 ∧ Inv b2 ∧ abs b1 = abs b2 ∧ b1.cap = b2.cap :=
  C04_indep (remove i) (fun _ xs => (Spec.remove xs i).2) (fun _ xs => (Spec.remove xs i).1)
    (fun s h => remove_spec s i h) s1 s2 h1 h2 hcap habs

theorem C04_swap_remove_back (i : Nat) (s1 s2 : Sys) (h1 : Inv s1.buf) (h2 : Inv s2.buf)
    (hcap : s1.buf.cap = s2.buf.cap) (habs : abs s1.buf = abs s2.buf) :
    ∃ r b1 b2, swapRemoveBack i s1 = (.ok r, { s1 with buf := b1 }) ∧
      swapRemoveBack i s2 = (.ok r, { s2 with buf := b2 }) ∧
      Inv b1 ∧ Inv b2 ∧ abs b1 = abs b2 ∧ b1.cap = b2.cap :=
  C04_indep (swapRemoveBack i) (fun _ xs => (Spec.swapRemoveBack xs i).2)
    (fun _ xs => (Spec.swapRemoveBack xs i).1) (fun s h => swapRemoveBack_spec s i h) s1 s2 h1 h2 hcap habs

/-- equality cannot tell apart layouts or capacities: it is a function of the two `abs` -/
theorem C04_eq (s1 s2 : Sys) (o1 o2 : CB) (h1 : Inv s1.buf) (h2 : Inv s2.buf) (ho1 : Inv o1)
    (ho2 : Inv o2) (hf1 : s1.faults.eq = 0) (hf2 : s2.faults.eq = 0)
    (ha : abs s1.buf = abs s2.buf) (hb : abs o1 = abs o2) :
    (eqBuf o1 s1).1 = (eqBuf o2 s2).1 := by
  obtain ⟨_, e1, _⟩ := eqBuf_spec s1 o1 h1 ho1 hf1
  obtain ⟨_, e2, _⟩ := eqBuf_spec s2 o2 h2 ho2 hf2
  rw [e1, e2, ha, hb]

/-- non-vacuity: two buffers of capacity 2 with equal contents, different front positions and
different junk in the unoccupied cell -/
example : abs (⟨2, 1, 0, fun i => if i = 0 then some ⟨1, 5⟩ else some ⟨900001, 7⟩⟩ : CB)
        = abs (⟨2, 1, 1, fun i => if i = 1 then some ⟨1, 5⟩ else none⟩ : CB) := by
  simp [abs, phys]

/-- **two buffers with equal logical contents are indistinguishable under any subsequent operations**:
whatever their front positions, whatever lies in their unoccupied slots and however they were reached,
any finite history over the whole mutator API (user code that does not panic) produces the same
outputs and ends with the same logical contents on both -/
theorem C04_history (cap : Nat) (ops : List OpX) (s1 s2 : Sys) (g1 : GoodX cap s1) (g2 : GoodX cap s2)
    (habs : abs s1.buf = abs s2.buf) (hnext : s1.next = s2.next) :
    (runOpsX ops s1).1 = (runOpsX ops s2).1 ∧
    abs (runOpsX ops s1).2.buf = abs (runOpsX ops s2).2.buf := by
  obtain ⟨a1, b1, _⟩ := historyX_refines cap ops s1 g1
  obtain ⟨a2, b2, _⟩ := historyX_refines cap ops s2 g2
  rw [habs, hnext] at a1 b1
  exact ⟨a1.trans a2.symm, b1.trans b2.symm⟩

end CircBuf
