import CircBuf.Lemmas.Frame
import CircBuf.Lemmas.Contig
import CircBuf.Lemmas.Drain
/-!
# C20 — documented constant-time operations move O(1) elements

An element is *relocated* when its storage cell changes.  `Frames op s changed` says that `op`
leaves every storage cell outside the list `changed` exactly as it was; an element whose cell is not
in `changed` therefore keeps its address, so at most `changed.length` surviving elements are
relocated:
* `push_back` / `push_front` (hence `try_push_*`, same code on the non-full branch): one cell;
* `pop_back` / `pop_front`, `truncate_*`, `clear`: no cell at all (the storage is not written);
* `swap`: two cells; `swap_remove_*` = `swap` + `pop`: two cells;
* `remove(i)`: the cells of logical positions `< i` are untouched and the front does not move, so
  only the `len - i - 1 ≤ len - i` elements behind `i` can be relocated;
* `drain(a..b)` + drop: the cells of logical positions `< a` are untouched and the front does not
  move; the `len - b` elements behind the range are the only ones that can be relocated;
* `make_contiguous` on contents that are already contiguous (`start + len ≤ cap`, which includes
  ending exactly at the array end) changes nothing at all.
Element access and `as_slices` do not modify the state (C07).
-/
namespace CircBuf

theorem C20_push_back (s : Sys) (x : Elem) (h : Inv s.buf) :
    Frames (pushBack x) s
      [if s.buf.size < s.buf.cap then phys s.buf.start s.buf.cap s.buf.size else s.buf.start] :=
  pushBack_frame s x h

theorem C20_push_front (s : Sys) (x : Elem) (h : Inv s.buf) :
    Frames (pushFront x) s [phys s.buf.start s.buf.cap (s.buf.cap - 1)] := pushFront_frame s x h

theorem C20_pop_back (s : Sys) (h : Inv s.buf) : Frames popBack s [] := popBack_frame s h
theorem C20_pop_front (s : Sys) (h : Inv s.buf) : Frames popFront s [] := popFront_frame s h

theorem C20_swap (s : Sys) (i j : Nat) (h : Inv s.buf) (hi : i < s.buf.size) (hj : j < s.buf.size) :
    Frames (swap i j) s [phys s.buf.start s.buf.cap i, phys s.buf.start s.buf.cap j] :=
  swap_frame s i j h hi hj

theorem C20_remove (s : Sys) (index : Nat) (h : Inv s.buf) (hidx : index < s.buf.size) :
    ∃ r b', remove index s = (.ok r, { s with buf := b' }) ∧ b'.start = s.buf.start ∧
      ∀ i, i < index → b'.items (phys s.buf.start s.buf.cap i) = s.buf.items (phys s.buf.start s.buf.cap i) :=
  remove_frame s index h hidx

theorem C20_truncate (s : Sys) (rs re : Nat) (h : Inv s.buf) (hf : s.faults.drop = 0)
    (h1 : rs < re) (h2 : re ≤ s.buf.size) (h3 : rs = 0 ∨ re = s.buf.size) :
    ∃ s', dropRange rs re s = (.ok (), s') ∧ s'.buf.items = s.buf.items :=
  dropRange_frame s rs re h hf h1 h2 h3

theorem C20_drain (b0 : CB) (d : Drain) (s : Sys) (hd : DrainInv b0 d s) (hf : s.faults.drop = 0) :
    ∃ b', (d.drop s).2.buf = b' ∧ b'.start = b0.start ∧
      (∀ i, i < d.rs → b'.items (phys b0.start b0.cap i) = b0.items (phys b0.start b0.cap i)) := by
  obtain ⟨b', h1, _, _, _, h5, h6⟩ := Drain.drop_spec b0 d s hd hf
  exact ⟨b', by rw [h1], h5, h6⟩

theorem C20_make_contiguous (s : Sys) (h : Inv s.buf) (hc : s.buf.start + s.buf.size ≤ s.buf.cap) :
    ∃ v, makeContiguous s = (.ok v, s) := by
  obtain ⟨b', v, h1, _, _, _, _, _, _, h8⟩ := makeContiguous_spec s h
  have := h8 hc
  subst this
  exact ⟨v, h1⟩

end CircBuf
