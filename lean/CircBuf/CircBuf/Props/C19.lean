import CircBuf.Lemmas.AddModSpec
/-!
# C19 — zero-sized elements and extreme capacities

The index helpers `add_mod` / `sub_mod`, **as translated from the current source by T1**, compute
`(x + y) mod m` resp. `(x - y) mod m` for every modulus `0 < m < 2^64` — including
`m = usize::MAX` and the inputs for which `x + y` exceeds the machine word — and none of their
`debug_assert!`s, additions, multiplications or remainders fails.  Every other theorem of the
development is stated for every `cap < 2^64` and every `start < cap` and relies on arithmetic only
through these two, so "no overflow / division by zero / bounds panic at `cap = usize::MAX` with
`start = cap - 1`" is the same statement, not a special case.  Element size occurs nowhere in the
model, so the statements are the same for zero-sized types.
-/
namespace CircBuf

theorem C19_add_mod (x y m : Nat) (hm : 0 < m) (hmW : m < W) (hx : x ≤ m) (hy : y ≤ m) :
    addMod x y m = .ok ((x + y) % m) := addMod_spec x y m hm hmW hx hy

theorem C19_sub_mod (x y m : Nat) (hm : 0 < m) (hmW : m < W) (hx : x ≤ m) (hy : y ≤ m) :
    subMod x y m = .ok ((x + (m - y)) % m) := subMod_spec x y m hm hmW hx hy

/-- non-vacuity: front position right below `usize::MAX`, the sum exceeds the machine word -/
example : addMod (W - 2) (W - 3) (W - 1) = .ok (W - 4) := by
  have h := C19_add_mod (W - 2) (W - 3) (W - 1)
    (by have := W_pos; unfold W at *; omega) (by have := W_pos; omega) (by omega) (by omega)
  rw [h]; congr 1

end CircBuf
