import CircBuf.Lemmas.CloneFault
import CircBuf.Lemmas.UserFault
import CircBuf.Lemmas.FillFault
import CircBuf.Lemmas.CloneFault2
/-!
# C06 — a panic in user code (Clone, closure, iterator, eq) leaves a valid buffer

The fault plan is "the `k+1`-th call of that kind panics", for **every** `k`, capacity and layout:
* **`T::clone` in `extend_from_slice`** (`C06_clone_in_extend_from_slice`): the buffer stays valid;
  each of the `k` clones made before the panic is either in the buffer — appended behind the old
  contents, because the length is committed after each of the two free segments — or has been
  destroyed by the unwinding `Guard`: `kept ++ destroyed` is exactly the list of clones made, the
  ledger records one `dropped` event per destroyed clone and nothing else.  (This is the leak of the
  unrepaired code, F5, as a theorem about the repaired code; free space wrapping around the array
  end is the case `k ≥ first segment length`.)
* **`T::clone` in `fill_spare` / `fill`** (`C06_clone_in_fill_spare`, `C06_clone_in_fill`): the buffer
  stays valid and holds the old contents (for `fill`: nothing, they were destroyed once each)
  followed by the `k` clones made before the panic; the value handed in, which the callee owns, is
  destroyed exactly once; no clone is lost or destroyed.
* **`T::clone` in `clone_from`** (`C06_clone_in_clone_from`): the old contents were destroyed once each,
  the buffer is valid and holds the clones made so far.
* **`T::clone` in `Clone::clone`** (`C06_clone_in_clone`): the source buffer is literally untouched; the
  partially built copy is dropped during unwinding, destroying each clone made exactly once.
* **closure of `fill_with` / `fill_spare_with`** (`C06_closure`): the buffer holds the old contents
  followed by the `k` elements produced before the panic — every created element is in the buffer.
* **iterator given to `extend` / `from_iter`** (`C06_iterator`): the buffer holds what pushing the
  `k` items produced before gives (the displaced elements were destroyed once each, as usual).
* **element comparison** (`C06_eq_readonly`): `==` never writes to the buffer, so after a panic in
  *any* comparison call the buffer is literally the one before.
In each case the post-state satisfies `Inv`, so it behaves normally afterwards (all theorems only
assume `Inv`), and C03/C05 apply to the final drop.
-/
namespace CircBuf

theorem C06_clone_in_extend_from_slice (s : Sys) (other : List Elem) (k : Nat) (h : Inv s.buf)
    (hc : 0 < s.buf.cap) (hk : s.faults.clone = k + 1) (hkm : k < other.length)
    (hd : s.faults.drop = 0) (hfit : s.buf.size + other.length ≤ s.buf.cap) :
    ∃ s' kept destroyed, cloneIntoFree other s = (.error (.user "clone"), s') ∧ Inv s'.buf ∧
      s'.buf.cap = s.buf.cap ∧ kept ++ destroyed = cloneList s.kind s.next (other.take k) ∧
      abs s'.buf = abs s.buf ++ kept ∧
      s'.log = dropEvents s.kind destroyed ++ (cloneLog s.kind s.next (other.take k) ++ s.log) :=
  cloneIntoFree_fault s other k h hc hk hkm hd hfit

theorem C06_clone_in_fill_spare (s : Sys) (value : Elem) (k : Nat) (h : Inv s.buf)
    (hd : s.faults.drop = 0) (hc : s.faults.clone = k + 1) (hk : k < s.buf.cap - 1 - s.buf.size) :
    ∃ s', fillSpare value s = (.error (.user "clone"), s') ∧ Inv s'.buf ∧
      abs s'.buf = abs s.buf ++ cloneList s.kind s.next (List.replicate k value) ∧
      s'.buf.cap = s.buf.cap ∧
      s'.log = dropEvents s.kind [value] ++ cloneLog s.kind s.next (List.replicate k value) ++ s.log :=
  fillSpare_clone_fault s value k h hd hc hk

theorem C06_clone_in_fill (s : Sys) (value : Elem) (k : Nat) (h : Inv s.buf)
    (hd : s.faults.drop = 0) (hc : s.faults.clone = k + 1) (hk : k < s.buf.cap - 1) :
    ∃ s', fill value s = (.error (.user "clone"), s') ∧ Inv s'.buf ∧
      abs s'.buf = cloneList s.kind s.next (List.replicate k value) ∧ s'.buf.cap = s.buf.cap ∧
      s'.log = dropEvents s.kind [value] ++ cloneLog s.kind s.next (List.replicate k value)
        ++ dropEvents s.kind (abs s.buf) ++ s.log :=
  fill_clone_fault s value k h hd hc hk

/-- non-vacuity: an empty capacity-4 buffer of tracked elements, the 2nd clone armed to panic -/
example : let s : Sys := { buf := CB.new 4, faults := { clone := 2 } }
    Inv s.buf ∧ s.faults.drop = 0 ∧ s.faults.clone = 1 + 1 ∧ 1 < s.buf.cap - 1 - s.buf.size := by
  refine ⟨(inv_new' 4 (by unfold W; omega)).1, rfl, rfl, by decide⟩

theorem C06_clone_in_clone_from (other : List Elem) (s : Sys) (k : Nat) (h : Inv s.buf)
    (hd : s.faults.drop = 0) (hc : s.faults.clone = k + 1) (hk : k < other.length) :
    ∃ s', cloneFrom other s = (.error (.user "clone"), s') ∧ Inv s'.buf ∧ s'.buf.cap = s.buf.cap ∧
      abs s'.buf = Spec.lastN s.buf.cap (cloneList s.kind s.next (other.take k)) :=
  cloneFrom_clone_fault other s k h hd hc hk

theorem C06_clone_in_clone (s : Sys) (k : Nat) (h : Inv s.buf)
    (hd : s.faults.drop = 0) (hc : s.faults.clone = k + 1) (hk : k < s.buf.size) :
    ∃ s' pre, cloneBuf s = (.error (.user "clone"), s') ∧ s'.buf = s.buf ∧
      s'.log = dropEvents s.kind (cloneList s.kind s.next ((abs s.buf).take k)) ++ pre :=
  cloneBuf_clone_fault s k h hd hc hk

theorem C06_closure (fuel : Nat) (s : Sys) (k : Nat) (h : Inv s.buf)
    (hd : s.faults.drop = 0) (hc : s.faults.call = k + 1) (hk : s.kind = .tracked)
    (hfuel : fuel = s.buf.cap - s.buf.size) (hkf : k < fuel) :
    ∃ s', fillSpareWithLoop fuel s = (.error (.user "call"), s') ∧ Inv s'.buf ∧
      abs s'.buf = abs s.buf ++ newElems s.next k ∧ s'.buf.cap = s.buf.cap ∧ s'.next = s.next + k :=
  fillSpareWithLoop_fault fuel s k h hd hc hk hfuel hkf

theorem C06_iterator (m : Nat) (s : Sys) (k : Nat) (h : Inv s.buf)
    (hd : s.faults.drop = 0) (hn : s.faults.next = k + 1) (hk : s.kind = .tracked) (hkm : k ≤ m) :
    ∃ s', extendIter m s = (.error (.user "next"), s') ∧ Inv s'.buf ∧
      abs s'.buf = (Spec.pushMany s.buf.cap (abs s.buf) (newElems s.next k)).1 ∧
      s'.buf.cap = s.buf.cap ∧ s'.next = s.next + k := extendIter_fault m s k h hd hn hk hkm

theorem C06_eq_readonly (other : CB) (s : Sys) : (eqBuf other s).2.buf = s.buf :=
  eqBuf_readonly other s

end CircBuf
