import CircBuf.Lemmas.IO
/-!
# C14 — byte-stream I/O: write keeps the newest N bytes, read consumes from the front

On `CircularBuffer<N, u8>` (element kind `byte`: no identity, no destructor), for every capacity
(0 included), every layout and every argument:
* `write(src)` accepts the whole input, reports `src.len()` and leaves the last `N` bytes of
  `old contents ++ src`;
* `read(dst)` with `|dst| = k` copies `min k len` bytes from the front, in order, and removes exactly
  those;
* `fill_buf()` returns a prefix of the contents that is non-empty whenever the buffer is non-empty;
* `consume(k)` removes the first `min k len` bytes;
* none of them fails: each theorem is an equation with an `.ok` result.
(`flush` is `Ok(())` without touching anything; `<&[u8] as Read>::read` is modelled as `take`.)
The same model functions describe the `embedded-io` / `embedded-io-async` impls (C16).
-/
namespace CircBuf

theorem C14_write (s : Sys) (src : List Elem) (h : Inv s.buf) (hk : s.kind = .byte)
    (hd : s.faults.drop = 0) (hcl : s.faults.clone = 0) :
    ∃ evs, Runs (ioWrite src) s src.length (Spec.lastN s.buf.cap (abs s.buf ++ src)) evs 0 :=
  ioWrite_spec s src h hk hd hcl

theorem C14_read (s : Sys) (k : Nat) (h : Inv s.buf) (hd : s.faults.drop = 0) :
    ∃ evs, Runs (ioRead k) s (min k (abs s.buf).length, (abs s.buf).take (min k (abs s.buf).length))
      ((abs s.buf).drop (min k (abs s.buf).length)) evs 0 := ioRead_spec s k h hd

theorem C14_fill_buf (s : Sys) (h : Inv s.buf) :
    ∃ v, ioFillBuf s = (.ok v, s) ∧ (∃ rest, viewElems s.buf v ++ rest = abs s.buf) ∧
      (abs s.buf ≠ [] → viewElems s.buf v ≠ []) := ioFillBuf_spec s h

theorem C14_consume (s : Sys) (k : Nat) (h : Inv s.buf) (hd : s.faults.drop = 0) :
    ∃ b' evs, ioConsume k s = (.ok (), { s with buf := b', log := evs ++ s.log }) ∧ Inv b' ∧
      abs b' = (abs s.buf).drop (min k (abs s.buf).length) ∧ b'.cap = s.buf.cap :=
  ioConsume_spec s k h hd

end CircBuf
