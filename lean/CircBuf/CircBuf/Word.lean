/-
  Machine words and panics.

  `usize` is modelled as `Nat` together with *checked* operations that fail exactly where a debug
  build of the Rust code would panic (overflow, underflow, division by zero).  Theorems show that no
  arithmetic site of the model ever fails, hence a release build (wrapping arithmetic) computes the
  same values.
-/
namespace CircBuf

/-- Why a call unwinds. `user k` is a panic raised by user code (`drop`, `clone`, `call`, `next`,
`eq`); `doc k` is a panic the crate documents (`range_end`, `swap_i`, …); the others are defects. -/
inductive Panic where
  | overflow            -- `attempt to add/subtract/multiply with overflow`
  | divZero             -- remainder / division by zero
  | oob                 -- slice index / `split_at` out of bounds
  | ub                  -- read of a slot that holds no live element (undefined behaviour)
  | assert (msg : String)   -- a `debug_assert!` failed
  | user (kind : String)    -- injected panic in user code
  | doc (kind : String)     -- documented panic
  | abort               -- panic while panicking
  deriving Repr, DecidableEq, Inhabited

/-- `usize::MAX + 1`. -/
def W : Nat := 2 ^ 64

theorem W_pos : 0 < W := by unfold W; exact Nat.pow_pos (by decide)

def uadd (x y : Nat) : Except Panic Nat :=
  if x + y < W then .ok (x + y) else .error .overflow

def usub (x y : Nat) : Except Panic Nat :=
  if y ≤ x then .ok (x - y) else .error .overflow

def umul (x y : Nat) : Except Panic Nat :=
  if x * y < W then .ok (x * y) else .error .overflow

def umod (x m : Nat) : Except Panic Nat :=
  if m = 0 then .error .divZero else .ok (x % m)

/-- `usize::overflowing_add`. -/
def overflowingAdd (x y : Nat) : Nat × Bool :=
  ((x + y) % W, decide (W ≤ x + y))

/-- `debug_assert!(c)`. -/
def dassertE (c : Bool) (_msg : String := "") : Except Panic Unit :=
  if c then .ok () else .error (.assert "")

/-- `usize::checked_add`. -/
def checkedAdd (x y : Nat) : Option Nat := if x + y < W then some (x + y) else none

/-- `usize::checked_sub`. -/
def checkedSub (x y : Nat) : Option Nat := if y ≤ x then some (x - y) else none

end CircBuf
