/-!
  A small model of the part of Rust's type system that property C15 is about: variance inference,
  auto-trait (`Send` / `Sync`) derivation, "the result borrows `self`", `const fn`, impl bounds —
  computed from the *translated* type definitions (`Generated/TypeDefs.lean`, produced by T2).

  The calculus follows the Rust Reference (Subtyping and Variance; Special types and traits):
  `&'a T` is covariant in `'a` and `T`; `&'a mut T` is covariant in `'a` and invariant in `T`;
  `[T]`, `[T; N]`, `MaybeUninit<T>`, `PhantomData<T>`, `NonNull<T>`, `Range<T>`, `*const T`, tuples
  are covariant; `*mut T` is invariant; a user struct's variance is the meet over its fields.
  `&T: Send ⇔ T: Sync`, `&T: Sync ⇔ T: Sync`, `&mut T: Send ⇔ T: Send`, `&mut T: Sync ⇔ T: Sync`,
  raw pointers and `NonNull` are neither, everything else is structural.
  It is validated against rustc by the witness programs (`/verif/witnesses`), not verified.
-/
namespace CircBuf.Ty

inductive Ty where
  | prim                                   -- usize, u8, const generic arguments
  | param (name : String)
  | lifetime (name : String)               -- only as a generic argument
  | ref (lt : String) (t : Ty)
  | refMut (lt : String) (t : Ty)
  | slice (t : Ty)
  | array (t : Ty)
  | rawMut (t : Ty)
  | rawConst (t : Ty)
  | tuple (ts : List Ty)
  | app (name : String) (args : List Ty)
  deriving Repr, Inhabited

structure StructDef where
  name : String
  lifetimes : List String
  tparams : List String
  fields : List (String × Ty)
  deriving Repr

structure MethodSig where
  name : String
  recv : String          -- "ref" | "refmut" | "value" | "none"
  isConst : Bool
  retBorrowsSelf : Bool  -- the return type carries an elided lifetime and `self` is the only reference argument
  deriving Repr, DecidableEq

structure ImplDef where
  trait : String
  target : String
  bounds : List (String × String)
  deriving Repr, DecidableEq

inductive Variance where
  | bi | co | contra | inv
  deriving DecidableEq, Repr

/-- composition: the variance of `F<G<X>>` in `X` -/
def Variance.xform : Variance → Variance → Variance
  | .bi, _ => .bi
  | _, .bi => .bi
  | .inv, _ => .inv
  | _, .inv => .inv
  | .co, v => v
  | .contra, .co => .contra
  | .contra, .contra => .co

/-- greatest lower bound: the variance of a struct with two fields -/
def Variance.meet : Variance → Variance → Variance
  | .bi, v => v
  | v, .bi => v
  | .co, .co => .co
  | .contra, .contra => .contra
  | _, _ => .inv

def meetAll (vs : List Variance) : Variance := vs.foldl Variance.meet .bi

/-- std constructors that are covariant in their (single) type argument -/
def covariantStd : List String := ["MaybeUninit", "PhantomData", "NonNull", "Range", "ManuallyDrop", "Option"]

mutual
/-- variance of a type expression in the parameter (type parameter or lifetime) `x` -/
def varOf (defs : List StructDef) (x : String) : Nat → Ty → Variance
  | 0, _ => .inv
  | _, .prim => .bi
  | _, .param n => if n = x then .co else .bi
  | _, .lifetime n => if n = x then .co else .bi
  | f + 1, .ref lt t => Variance.meet (if lt = x then .co else .bi) (varOf defs x f t)
  | f + 1, .refMut lt t =>
      Variance.meet (if lt = x then .co else .bi) (Variance.xform .inv (varOf defs x f t))
  | f + 1, .slice t => varOf defs x f t
  | f + 1, .array t => varOf defs x f t
  | f + 1, .rawConst t => varOf defs x f t
  | f + 1, .rawMut t => Variance.xform .inv (varOf defs x f t)
  | f + 1, .tuple ts => varOfList defs x f ts
  | f + 1, .app name args =>
      match defs.find? (·.name = name) with
      | some d =>
        -- position-wise: variance of the struct in its i-th parameter, composed with the argument
        varOfArgs defs x f d (d.lifetimes ++ d.tparams) args
      | none =>
        if covariantStd.contains name then varOfList defs x f args else
          Variance.xform .inv (varOfList defs x f args)

def varOfList (defs : List StructDef) (x : String) : Nat → List Ty → Variance
  | _, [] => .bi
  | 0, _ => .inv
  | f + 1, t :: ts => Variance.meet (varOf defs x f t) (varOfList defs x f ts)

def varOfArgs (defs : List StructDef) (x : String) : Nat → StructDef → List String → List Ty → Variance
  | _, _, [], _ => .bi
  | _, _, _, [] => .bi
  | 0, _, _, _ => .inv
  | f + 1, d, p :: ps, a :: as =>
      Variance.meet
        (Variance.xform (meetAll (d.fields.map fun fld => varOf defs p f fld.2)) (varOf defs x f a))
        (varOfArgs defs x f d ps as)
end

/-- variance of the struct `name` in its parameter `p` -/
def structVariance (defs : List StructDef) (name p : String) : Option Variance :=
  (defs.find? (·.name = name)).map fun d => meetAll (d.fields.map fun fld => varOf defs p 12 fld.2)

/-- a requirement on the element type: needs `T: Send`, needs `T: Sync`, or can never hold -/
structure Req where
  send : Bool := false
  sync : Bool := false
  never : Bool := false
  deriving DecidableEq, Repr

def Req.and (a b : Req) : Req := ⟨a.send || b.send, a.sync || b.sync, a.never || b.never⟩

mutual
/-- what `ty: Send` (`wantSync = false`) resp. `ty: Sync` (`wantSync = true`) requires of the type
parameters -/
def autoReq (defs : List StructDef) (wantSync : Bool) : Nat → Ty → Req
  | 0, _ => { never := true }
  | _, .prim => {}
  | _, .lifetime _ => {}
  | _, .param _ => if wantSync then { sync := true } else { send := true }
  | f + 1, .ref _ t => autoReq defs true f t                      -- &T: Send ⇔ T: Sync; &T: Sync ⇔ T: Sync
  | f + 1, .refMut _ t => autoReq defs wantSync f t               -- &mut T: Send ⇔ T: Send; Sync ⇔ T: Sync
  | f + 1, .slice t => autoReq defs wantSync f t
  | f + 1, .array t => autoReq defs wantSync f t
  | _, .rawConst _ => { never := true }
  | _, .rawMut _ => { never := true }
  | f + 1, .tuple ts => autoReqList defs wantSync f ts
  | f + 1, .app name args =>
      match defs.find? (·.name = name) with
      | some d => autoReqList defs wantSync f (d.fields.map (·.2))   -- parameters are passed through unchanged
      | none =>
        if name = "NonNull" then { never := true }
        else autoReqList defs wantSync f args

def autoReqList (defs : List StructDef) (wantSync : Bool) : Nat → List Ty → Req
  | _, [] => {}
  | 0, _ => { never := true }
  | f + 1, t :: ts => (autoReq defs wantSync f t).and (autoReqList defs wantSync f ts)
end

def structAuto (defs : List StructDef) (name : String) (wantSync : Bool) : Option Req :=
  (defs.find? (·.name = name)).map fun d => autoReqList defs wantSync 12 (d.fields.map (·.2))

def methodSig (ms : List MethodSig) (name : String) : Option MethodSig := ms.find? (·.name = name)

/-- bounds the impl of `trait` for `target` puts on its parameters -/
def implBounds (is : List ImplDef) (trait target : String) : Option (List (String × String)) :=
  (is.find? fun i => i.trait = trait ∧ i.target = target).map (·.bounds)

end CircBuf.Ty
