import CircBuf.Driver
import CircBuf.Generated.Core
/-!
  The same driver with the element-level core taken from `Generated/Core.lean` — the definitions
  translated from `/repo/src/lib.rs`, `iter.rs` and `drain.rs` on this run by `/verif/translate/t3_core.py`.  Running it next to
  the real crate on the same scripts validates the translator (and the primitives of `Mem.lean` /
  `GenPrelude.lean` it targets): the two must agree whatever the source says.
-/
namespace CircBuf.Driver

def srcOps : CoreOps where
  pushBack := Gen.push_back
  pushFront := Gen.push_front
  tryPushBack := Gen.try_push_back
  tryPushFront := Gen.try_push_front
  popBack := Gen.pop_back
  popFront := Gen.pop_front
  swap := Gen.swap
  swapRemoveBack := Gen.swap_remove_back
  swapRemoveFront := Gen.swap_remove_front
  truncateBack := Gen.truncate_back
  truncateFront := Gen.truncate_front
  clear := Gen.clear
  get := Gen.get
  nthBack := Gen.nth_back
  front := Gen.front
  back := Gen.back
  asSlices := Gen.as_slices
  remove := Gen.remove
  makeContiguous := Gen.make_contiguous
  iterNew := Gen.Iter_new
  iterOverRange := Gen.Iter_over_range
  iterNext := Gen.Iter_next
  iterNextBack := Gen.Iter_next_back
  iterLen := Gen.Iter_len
  iterMutNew := Gen.IterMut_new
  iterMutOverRange := Gen.IterMut_over_range
  iterMutNext := Gen.IterMut_next
  iterMutNextBack := Gen.IterMut_next_back
  iterMutLen := Gen.IterMut_len
  fillSpareWith := Gen.fill_spare_with
  fillWith := Gen.fill_with
  drainNew := Gen.Drain_over_range
  drainNext := Gen.Drain_next
  drainNextBack := Gen.Drain_next_back
  drainLen := Gen.Drain_len
  drainAsSlices := Gen.Drain_as_slices
  drainDrop := Gen.Drain_drop

end CircBuf.Driver

def main : IO Unit := do
  let stdin ← IO.getStdin
  let stdout ← IO.getStdout
  CircBuf.Driver.loop CircBuf.Driver.srcOps stdin stdout { buf := CircBuf.CB.new 0 }
