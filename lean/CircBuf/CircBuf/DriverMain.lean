import CircBuf.Driver
/-! The model driver: the line protocol of `/verif/PROTOCOL.md` on the hand-written model. -/

def main : IO Unit := do
  let stdin ← IO.getStdin
  let stdout ← IO.getStdout
  CircBuf.Driver.loop CircBuf.Driver.modelOps stdin stdout { buf := CircBuf.CB.new 0 }
