// expect: fail:E0502
// fact: as_slices borrows self shared
#![allow(unused, dead_code)]
use circular_buffer::{CircularBuffer, Iter, IterMut, IntoIter, Drain};
fn g() { let mut b = CircularBuffer::<4, u32>::new(); let (x, y) = b.as_slices(); b.push_back(1); let _ = x.len(); }
