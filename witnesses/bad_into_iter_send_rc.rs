// expect: fail:E0277
// fact: IntoIter Send iff T Send
#![allow(unused, dead_code)]
use circular_buffer::{CircularBuffer, Iter, IterMut, IntoIter, Drain};
fn send<T: Send>() {}
fn g() { send::<IntoIter<4, std::rc::Rc<u32>>>(); }
