// expect: fail:E0515|E0597
// fact: drain tied to self borrow
#![allow(unused, dead_code)]
use circular_buffer::{CircularBuffer, Iter, IterMut, IntoIter, Drain};
fn f<'a>() -> Drain<'a, 4, u32> { let mut b = CircularBuffer::<4, u32>::new(); b.drain(..) }
