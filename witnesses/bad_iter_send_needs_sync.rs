// expect: fail:E0277
// fact: Iter Send iff T Sync
#![allow(unused, dead_code)]
use circular_buffer::{CircularBuffer, Iter, IterMut, IntoIter, Drain};
fn send<T: Send>() {}
fn g() { send::<Iter<'static, std::cell::Cell<u32>>>(); }
