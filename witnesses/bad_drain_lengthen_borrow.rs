// expect: fail:lifetime
// fact: variance Drain 'a covariant (not bivariant)
#![allow(unused, dead_code)]
use circular_buffer::{CircularBuffer, Iter, IterMut, IntoIter, Drain};
fn f<'a>(d: Drain<'a, 4, u32>) -> Drain<'static, 4, u32> { d }
