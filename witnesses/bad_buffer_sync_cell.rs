// expect: fail:E0277
// fact: CircularBuffer Sync iff T Sync
#![allow(unused, dead_code)]
use circular_buffer::{CircularBuffer, Iter, IterMut, IntoIter, Drain};
fn sync<T: Sync>() {}
fn g() { sync::<CircularBuffer<4, std::cell::Cell<u32>>>(); }
