// expect: fail:lifetime
// fact: variance IterMut T invariant
#![allow(unused, dead_code)]
use circular_buffer::{CircularBuffer, Iter, IterMut, IntoIter, Drain};
fn f<'a, 'b>(i: IterMut<'b, &'static str>) -> IterMut<'b, &'a str> { i }
