// expect: pass
// fact: autotrait Send/Sync structural
#![allow(unused, dead_code)]
use circular_buffer::{CircularBuffer, Iter, IterMut, IntoIter, Drain};
fn send<T: Send>() {}
fn sync<T: Sync>() {}
fn g() {
    send::<CircularBuffer<4, u32>>(); sync::<CircularBuffer<4, u32>>();
    send::<Iter<'static, u32>>(); sync::<Iter<'static, u32>>();
    send::<IterMut<'static, u32>>(); sync::<IterMut<'static, u32>>();
    send::<IntoIter<4, u32>>(); sync::<IntoIter<4, u32>>();
    // &mut [T]: Send needs only T: Send; [T; N]: Send needs only T: Send
    send::<IterMut<'static, std::cell::Cell<u32>>>();
    send::<CircularBuffer<4, std::cell::Cell<u32>>>();
    send::<IntoIter<4, std::cell::Cell<u32>>>();
}
