// expect: fail:lifetime
// fact: variance Iter 'a covariant
#![allow(unused, dead_code)]
use circular_buffer::{CircularBuffer, Iter, IterMut, IntoIter, Drain};
fn f<'a>(i: Iter<'a, u32>) -> Iter<'static, u32> { i }
