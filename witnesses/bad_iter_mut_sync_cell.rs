// expect: fail:E0277
// fact: IterMut Sync iff T Sync
#![allow(unused, dead_code)]
use circular_buffer::{CircularBuffer, Iter, IterMut, IntoIter, Drain};
fn sync<T: Sync>() {}
fn g() { sync::<IterMut<'static, std::cell::Cell<u32>>>(); }
