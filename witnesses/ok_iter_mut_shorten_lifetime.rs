// expect: pass
// fact: variance IterMut 'a covariant
#![allow(unused, dead_code)]
use circular_buffer::{CircularBuffer, Iter, IterMut, IntoIter, Drain};
fn f<'a, 'b: 'a>(i: IterMut<'b, u32>) -> IterMut<'a, u32> { i }
