// expect: pass
// fact: impl Clone for Iter has no bound on T
#![allow(unused, dead_code)]
use circular_buffer::{CircularBuffer, Iter, IterMut, IntoIter, Drain};
struct NoClone;
fn f<'a>(i: &Iter<'a, NoClone>) -> Iter<'a, NoClone> { i.clone() }
