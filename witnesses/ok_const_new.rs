// expect: pass
// fact: const new
#![allow(unused, dead_code)]
use circular_buffer::{CircularBuffer, Iter, IterMut, IntoIter, Drain};
static S: CircularBuffer<4, u32> = CircularBuffer::new();
const C: CircularBuffer<0, String> = CircularBuffer::new();
const fn mk<T>() -> CircularBuffer<8, T> { CircularBuffer::new() }
struct W { b: CircularBuffer<2, u8> }
static WS: W = W { b: CircularBuffer::new() };
