// expect: fail:E0499
// fact: iter_mut borrows self exclusive
#![allow(unused, dead_code)]
use circular_buffer::{CircularBuffer, Iter, IterMut, IntoIter, Drain};
fn g() { let mut b = CircularBuffer::<4, u32>::new(); let mut a = b.iter_mut(); let mut c = b.iter_mut(); a.next(); c.next(); }
