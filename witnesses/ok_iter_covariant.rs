// expect: pass
// fact: variance Iter T covariant; variance Iter 'a covariant
#![allow(unused, dead_code)]
use circular_buffer::{CircularBuffer, Iter, IterMut, IntoIter, Drain};
fn f<'a, 'b: 'a>(i: Iter<'b, &'static str>) -> Iter<'a, &'a str> { i }
