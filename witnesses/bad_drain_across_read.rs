// expect: fail:E0502
// fact: drain borrows self exclusive
#![allow(unused, dead_code)]
use circular_buffer::{CircularBuffer, Iter, IterMut, IntoIter, Drain};
fn g() { let mut b = CircularBuffer::<4, u32>::new(); let d = b.drain(..); let n = b.len(); drop(d); }
