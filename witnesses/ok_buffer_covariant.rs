// expect: pass
// fact: variance CircularBuffer T covariant
#![allow(unused, dead_code)]
use circular_buffer::{CircularBuffer, Iter, IterMut, IntoIter, Drain};
fn f<'a>(b: CircularBuffer<4, &'static str>) -> CircularBuffer<4, &'a str> { b }
