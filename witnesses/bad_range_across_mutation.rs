// expect: fail:E0502
// fact: range borrows self shared
#![allow(unused, dead_code)]
use circular_buffer::{CircularBuffer, Iter, IterMut, IntoIter, Drain};
fn g() { let mut b = CircularBuffer::<4, u32>::new(); let mut it = b.range(..); b.clear(); it.next(); }
