// expect: pass
// fact: variance Drain T covariant; variance Drain 'a covariant
#![allow(unused, dead_code)]
use circular_buffer::{CircularBuffer, Iter, IterMut, IntoIter, Drain};
fn f<'a, 'b: 'a>(d: Drain<'b, 4, &'static str>) -> Drain<'a, 4, &'a str> { d }
