// expect: fail:E0499
// fact: as_mut_slices borrows self exclusive
#![allow(unused, dead_code)]
use circular_buffer::{CircularBuffer, Iter, IterMut, IntoIter, Drain};
fn g() { let mut b = CircularBuffer::<4, u32>::new(); let (x, _) = b.as_mut_slices(); let (y, _) = b.as_mut_slices(); x[0] = 1; y[0] = 2; }
