// expect: fail:lifetime
// fact: variance Drain T covariant (not contravariant)
#![allow(unused, dead_code)]
use circular_buffer::{CircularBuffer, Iter, IterMut, IntoIter, Drain};
fn f<'a, 'b>(d: Drain<'b, 4, &'a str>) -> Drain<'b, 4, &'static str> { d }
