// expect: fail:E0499
// fact: make_contiguous borrows self exclusive
#![allow(unused, dead_code)]
use circular_buffer::{CircularBuffer, Iter, IterMut, IntoIter, Drain};
fn g() { let mut b = CircularBuffer::<4, u32>::new(); let s = b.make_contiguous(); b.push_back(1); s[0] = 1; }
