// expect: fail:E0515|E0597
// fact: iter tied to self borrow
#![allow(unused, dead_code)]
use circular_buffer::{CircularBuffer, Iter, IterMut, IntoIter, Drain};
fn f<'a>() -> Iter<'a, u32> { let b = CircularBuffer::<4, u32>::new(); b.iter() }
