// expect: fail:E0502
// fact: range_mut borrows self exclusive
#![allow(unused, dead_code)]
use circular_buffer::{CircularBuffer, Iter, IterMut, IntoIter, Drain};
fn g() { let mut b = CircularBuffer::<4, u32>::new(); let mut a = b.range_mut(..); let x = b.get(0); a.next(); }
