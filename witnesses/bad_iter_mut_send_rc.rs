// expect: fail:E0277
// fact: IterMut Send iff T Send
#![allow(unused, dead_code)]
use circular_buffer::{CircularBuffer, Iter, IterMut, IntoIter, Drain};
fn send<T: Send>() {}
fn g() { send::<IterMut<'static, std::rc::Rc<u32>>>(); }
