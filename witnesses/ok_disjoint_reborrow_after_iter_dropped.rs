// expect: pass
// fact: borrows end with the view
#![allow(unused, dead_code)]
use circular_buffer::{CircularBuffer, Iter, IterMut, IntoIter, Drain};
fn g() { let mut b = CircularBuffer::<4, u32>::new(); { let it = b.iter(); let _ = it.len(); } b.push_back(1); { let d = b.drain(..); drop(d); } b.push_back(2); }
