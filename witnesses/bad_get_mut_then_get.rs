// expect: fail:E0502
// fact: get_mut borrows self exclusive
#![allow(unused, dead_code)]
use circular_buffer::{CircularBuffer, Iter, IterMut, IntoIter, Drain};
fn g() { let mut b = CircularBuffer::<4, u32>::new(); let x = b.get_mut(0); let y = b.get(0); *x.unwrap() = 1; }
