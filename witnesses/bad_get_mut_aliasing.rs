// expect: fail:E0499
// fact: front_mut borrows self exclusive
#![allow(unused, dead_code)]
use circular_buffer::{CircularBuffer, Iter, IterMut, IntoIter, Drain};
fn g() { let mut b = CircularBuffer::<4, u32>::new(); let x = b.front_mut(); let y = b.back_mut(); *x.unwrap() = 1; *y.unwrap() = 2; }
