// expect: pass
// fact: variance IntoIter T covariant
#![allow(unused, dead_code)]
use circular_buffer::{CircularBuffer, Iter, IterMut, IntoIter, Drain};
fn f<'a>(i: IntoIter<4, &'static str>) -> IntoIter<4, &'a str> { i }
