"""Per-property case sets, projections and implementation-side oracles."""
import random, re
from . import gen
from .gen import MAX, layout_prefix, layouts, idx_args
from .engine import Line, ledger_check, leak_check, proj_behaviour, proj_physical, strip_slots


def ns_for(tier, quick=(0, 1, 2, 3, 4), thorough=(0, 1, 2, 3, 4, 5, 6, 7, 8)):
    return thorough if tier == "thorough" else quick


def all_layouts(ns):
    for n in ns:
        for st, sz in layouts(n):
            yield n, st, sz


# ----------------------------------------------------------------------------- generic oracles

def o_views(case, out):
    return [f"observers disagree with the stored window after `{op}`: {Line(r).views}"
            for op, r in zip(case, out) if not Line(r).crash and Line(r).views != "ok"]


def o_ledger(case, out):
    return ledger_check(case, out)[0]


def o_leak(case, out):
    return leak_check(case, out)[0]


def o_spec(case, out):
    """the documented sequence semantics (vlib/pyspec.py) evaluated on the implementation trace"""
    from . import pyspec
    if case and case[0].split()[-1] == "u":
        return []
    return pyspec.check_case(case, out, Line)


DOC_PANICS = {"P:doc"}       # the parser canonicalises every documented panic (engine.canon_panic)
INJECTED = {"P:drop", "P:clone", "P:call", "P:next", "P:eq"}


def o_no_defect_panic(case, out):
    pr = []
    for op, r in zip(case, out):
        l = Line(r)
        if l.crash:
            pr.append(f"crash/abort at `{op}`: {l.raw}")
        elif l.ret.startswith("P:") and l.ret not in DOC_PANICS and l.ret not in INJECTED:
            pr.append(f"undocumented panic {l.ret} at `{op}`")
        elif l.ret in INJECTED and "!" + l.ret[2:] + "=" not in op:
            pr.append(f"panic {l.ret} without an injected fault at `{op}`")
    return pr


def parse_bound(b, size, is_start):
    if b == "u":
        return 0 if is_start else size
    k = int(b[1:])
    if b[0] == "i":
        return k if is_start else k + 1
    return k + 1 if is_start else k


def expected_range_panic(sb, eb, size):
    """documented panic of range/range_mut/drain, as unbounded naturals"""
    s = parse_bound(sb, size, True)
    e = parse_bound(eb, size, False)
    if sb[0] == "x" and int(sb[1:]) == MAX:
        return "P:range_start_overflow"
    if eb[0] == "i" and int(eb[1:]) == MAX:
        return "P:range_end_overflow"
    if e > size:
        return "P:range_end"
    if s > e:
        return "P:range_order"
    return None


def o_documented_panics(case, out):
    """C11: panics exactly when documented; a documented panic leaves the buffer unchanged"""
    pr = o_no_defect_panic(case, out)
    prev = None
    for op, r in zip(case, out):
        l = Line(r)
        if l.crash:
            break
        t = op.split()
        exp = None
        if prev is not None:
            size = prev.size
            if t[0] in ("range", "range_mut", "drain"):
                exp = expected_range_panic(t[1], t[2], size)
                exp = "P:doc" if exp else None
            elif t[0] == "swap":
                i, j = int(t[1]), int(t[2])
                exp = "P:doc" if (i >= size or j >= size) else None
            elif t[0] in ("index", "index_mut"):
                exp = "P:doc" if int(t[1]) >= size else None
            faulted = any(x.startswith("!") for x in t)
            got = l.ret if l.ret.startswith("P:") else None
            if not faulted and got != exp:
                pr.append(f"`{op}` on length {size}: expected {exp or 'normal return'}, got {got or 'normal return'}")
            if got in DOC_PANICS and (l.size, l.window, l.start) != (prev.size, prev.window, prev.start):
                pr.append(f"`{op}` panicked ({got}) but changed the buffer")
        prev = l
    return pr


def o_push_identity(case, out):
    """C02 on the implementation trace alone"""
    pr = []
    prev = None
    for op, r in zip(case, out):
        l = Line(r)
        if l.crash:
            pr.append(f"crash at `{op}`"); break
        t = op.split()
        if prev is not None and t[0] in ("push_back", "push_front", "try_push_back", "try_push_front"):
            cap = int(case[0].split()[1])
            before = prev.logical()
            g = [e for e in l.events if e.startswith("G")]
            newid = g[0][1:] if g else None
            if any(e.startswith("D") for e in l.events):
                pr.append(f"`{op}` destroyed an element: {l.events}")
            if t[0].startswith("push"):
                if cap == 0:
                    exp = f"S({newid}:{t[1]})"
                elif len(before) == cap:
                    v = before[0] if t[0] == "push_back" else before[-1]
                    exp = f"S({v[0]}:{v[1]})"
                else:
                    exp = "N"
                if l.ret != exp:
                    pr.append(f"`{op}` on {before} (cap {cap}) returned {l.ret}, expected {exp}")
            else:
                full = len(before) == cap
                exp = f"Err({newid}:{t[1]})" if full else "Ok"
                if l.ret != exp:
                    pr.append(f"`{op}` on {before} (cap {cap}) returned {l.ret}, expected {exp}")
                after = l.logical()
                if full and after != before:
                    pr.append(f"`{op}` returned Err but changed the buffer")
                if not full:
                    want = before + [(newid, t[1])] if t[0] == "try_push_back" else [(newid, t[1])] + before
                    if after != want:
                        pr.append(f"`{op}`: contents {after}, expected {want}")
        prev = l
    return pr


def o_no_alloc(case, out):
    pr = []
    for op, r in zip(case, out):
        l = Line(r)
        if l.crash:
            continue
        t = op.split()[0]
        allowed = 1 if t in ("to_vec", "boxed") else 0
        if l.allocs > allowed:
            pr.append(f"`{op}` performed {l.allocs} heap allocation(s)")
    return pr


def reloc_count(prev, cur):
    before = {w[1]: w[0] for w in prev.window if len(w) == 3}
    n = 0
    for w in cur.window:
        if len(w) == 3 and w[1] in before and before[w[1]] != w[0]:
            n += 1
    return n


def o_reloc(case, out):
    """C20: relocation bounds, from slot numbers of surviving ids before/after each call"""
    pr = []
    prev = None
    for op, r in zip(case, out):
        l = Line(r)
        if l.crash:
            break
        t = op.split()
        if prev is not None and not l.ret.startswith("P:"):
            n = reloc_count(prev, l)
            ln = prev.size
            bound = None
            if t[0] in ("push_back", "push_front", "try_push_back", "try_push_front", "pop_back", "pop_front",
                        "swap", "swap_remove_back", "swap_remove_front", "get", "get_mut", "nth_front", "nth_back",
                        "nth_front_mut", "nth_back_mut", "front", "back", "front_mut", "back_mut", "index",
                        "index_mut", "as_slices", "as_mut_slices", "truncate_back", "truncate_front", "clear",
                        "len", "iter", "iter_mut", "range", "range_mut"):
                bound = 2
            elif t[0] == "remove":
                i = int(t[1]); bound = max(ln - i, 0) if i < ln else 0
            elif t[0] == "drain" and t[-1] == "drop":
                e = parse_bound(t[2], ln, False); bound = max(ln - e, 0)
            elif t[0] == "make_contiguous":
                contiguous = prev.start + prev.size <= int(case[0].split()[1])
                bound = 0 if contiguous else None
            if bound is not None and n > bound:
                pr.append(f"`{op}` on length {ln} relocated {n} surviving element(s), bound {bound}")
        prev = l
    return pr


# ----------------------------------------------------------------------------- case sets

def with_tail(prefix, ops, tail=("drop",)):
    return prefix + list(ops) + list(tail)


def cases_C01(tier, seed):
    cases = []
    for n, st, sz in all_layouts(ns_for(tier)):
        pre = layout_prefix(n, st, sz)
        for op in gen.mutator_ops(n, sz):
            cases.append(with_tail(pre, [op]))
    if tier == "thorough":
        for n, st, sz in all_layouts((1, 2, 3, 4)):
            pre = layout_prefix(n, st, sz)
            ops = [o for o in gen.mutator_ops(n, sz) if not o.startswith("swap ")]
            for a in ops:
                for b in ops[::2]:
                    cases.append(with_tail(pre, [a, b]))
    # `Extend<&T> for T: Copy` (bytes): every layout, every number of items up to twice the capacity
    for n in ns_for(tier):
        for st, sz in layouts(n):
            pre = [f"case {n} b"] + ["write 1 0", "read 1"] * st + ([f"write {sz} 100"] if sz else [])
            for m in range(0, 2 * n + 2):
                cases.append(pre + [f"extend_ref {m} 200", "fill_buf", "len", f"read {n + 1}"])
    rng = random.Random(seed)
    nh = 20000 if tier == "thorough" else 400
    for k in range(nh):
        n = rng.choice([5, 7, 8, 16] if tier == "quick" else [5, 6, 7, 8, 16, 64])
        cases.append(gen.rand_history(rng, n, rng.randrange(5, 40)))
    return cases


def cases_C02(tier, seed):
    cases = []
    for n, st, sz in all_layouts(ns_for(tier, thorough=(0, 1, 2, 3, 4, 5, 6, 7, 8))):
        pre = layout_prefix(n, st, sz)
        for op in ("push_back 9", "push_front 9", "try_push_back 9", "try_push_front 9"):
            cases.append(with_tail(pre, [op, op, "len"]))
    return cases


def consume_ops(n, sz):
    ops = []
    for a in range(sz + 1):
        for b in range(a, sz + 1):
            for sc in gen.fb_scripts(min(b - a + 1, 4)):
                ops.append(f"drain i{a} x{b} {sc} drop")
    for sc in gen.fb_scripts(min(sz + 1, 4)):
        ops.append(f"into_iter {sc}")
    return ops


def zst_lifecycle_cases():
    """zero-sized elements *with* a destructor (kind `z`: the ledger counts destructor runs): code paths chosen by
    `size_of::<T>() == 0` / `needs_drop` (seeded changes C03-I, C09-I: `Drop for Drain` returning early for ZSTs)"""
    cases = []
    for n in (1, 2, 3, 4294967296, 18446744073709551615):
        for nf in (0, 1):
            for nb in range(0, 4):
                sz = min(nf + nb, n)
                pre = [f"case {n} z"] + ["push_front 0"] * nf + ["push_back 0"] * nb
                ops = ["clear", "drop", "into_iter -", "into_iter F", "into_iter FB", "truncate_back 0",
                       f"truncate_back {max(sz - 1, 0)}", f"truncate_front {max(sz - 1, 0)}", "pop_front", "pop_back"]
                for a in range(sz + 1):
                    for b in range(a, sz + 1):
                        ops += [f"drain i{a} x{b} - drop", f"drain i{a} x{b} F drop", f"drain i{a} x{b} B drop",
                                f"drain i{a} x{b} FB drop"]
                for op in ops:
                    cases.append(pre + [op, "len", "push_back 0", "pop_front", "drop"])
    return cases


def cases_C03(tier, seed):
    cases = zst_lifecycle_cases()
    for n, st, sz in all_layouts(ns_for(tier)):
        pre = layout_prefix(n, st, sz)
        ops = [o for o in gen.mutator_ops(n, sz) if not o.startswith("swap ") and not o.startswith("drain")]
        ops += consume_ops(n, sz) + ["clone", "to_vec", f"clone_from 1 5 6", "clone_from 0"]
        for op in ops:
            cases.append(with_tail(pre, [op]))
    for n in ns_for(tier):
        if n <= 5:
            for m in range(0, min(2 * n + 2, 12)):
                cases.append([f"case {n} t", "from_array " + " ".join(str(10 + i) for i in range(m)), "drop"])
                cases.append([f"case {n} t", f"from_iter {m}", "drop"])
    rng = random.Random(seed + 3)
    for k in range(2000 if tier == "thorough" else 300):
        cases.append(gen.rand_history(rng, rng.choice([3, 5, 8, 16]), rng.randrange(5, 40)))
    return cases


JUNKS = ["decoy", "00", "ff", "5a", "stale"]


def cases_C04(tier, seed):
    """each base case is emitted once per junk fill (same lines otherwise)"""
    cases = []
    for n, st, sz in all_layouts(ns_for(tier, quick=(1, 2, 3, 4), thorough=(1, 2, 3, 4, 5, 6))):
        pre = layout_prefix(n, st, sz)
        ops = [o for o in gen.mutator_ops(n, sz) if not o.startswith("swap ")]
        ops += gen.view_ops(n, sz)[:40] + ["eq %d 1 1 2" % n, "hash", "debug", "clone", "to_vec",
                                           "drain u u FB forget", "into_iter FB"]
        ops = ops[::2] if tier == "quick" else ops
        for op in ops:
            for j in JUNKS:
                cases.append(pre + [f"junk {j}", op, "len", "drop"])
    return cases


def big_layouts(tier):
    """sampled layouts of the larger capacities the harness has (8, 16; thorough: 64 too): code that works in
    blocks (of 8, 16, ...) or switches strategy at a threshold behaves like the plain loop on every capacity
    of the exhaustive small scope (seeded change C06-H: clones counted once per block of eight)"""
    for n in ((8, 16, 64) if tier == "thorough" else (8, 16)):
        for st in sorted({0, n // 3, n - 1}):
            for sz in sorted({0, 1, n // 2, n - 1, n}):
                yield n, st, sz


def cases_C05(tier, seed):
    cases = []
    for n, st, sz in big_layouts(tier):
        pre = layout_prefix(n, st, sz)
        ops = ["clear", "fill 9", "drop", "clone_from 1 5 6", f"truncate_back {sz // 2}", f"truncate_front {sz // 3}",
               f"extend_from_slice {n}", f"extend_from_slice {n + 1}", f"extend_from_slice {n // 2 + 1}", "into_iter F"]
        if sz >= 2:
            ops += [f"drain i1 x{sz} - drop", f"drain i0 x{sz - 1} F drop", f"drain i{sz // 3} x{sz - sz // 4} B drop"]
        ks = range(1, sz + 2) if n <= 16 else sorted({1, 2, 7, 8, 9, 16, 17, sz // 2, sz - 1, sz, sz + 1} - {0, -1})
        for op in ops:
            for k in ks:
                cases.append(pre + [f"{op} !drop={k}", "len", "push_back 77", "pop_front", "drop"])
    for n, st, sz in all_layouts(ns_for(tier, quick=(1, 2, 3, 4), thorough=(1, 2, 3, 4, 5))):
        pre = layout_prefix(n, st, sz)
        ops = ["clear", "fill 9", "fill_with", "drop", f"clone_from 1 5 6"]
        ops += [f"truncate_back {k}" for k in range(sz)] + [f"truncate_front {k}" for k in range(sz)]
        ops += [f"extend_from_slice {m}" for m in range(1, 2 * n + 2)]
        ops += [f"extend {m}" for m in range(1, n + 2)]
        for a in range(sz + 1):
            for b in range(a + 1, sz + 1):
                ops += [f"drain i{a} x{b} - drop", f"drain i{a} x{b} F drop", f"drain i{a} x{b} B drop"]
        ops += ["into_iter -", "into_iter F", "into_iter B"]
        for op in ops:
            for k in range(1, sz + 2):
                cases.append(pre + [f"{op} !drop={k}", "len", "push_back 77", "pop_front", "drop"])
    for n in (0, 1, 2, 3, 4):
        for m in range(1, min(2 * n + 2, 12)):
            for k in range(1, m + 1):
                cases.append([f"case {n} t", "from_array " + " ".join(str(10 + i) for i in range(m)) + f" !drop={k}",
                              "len", "drop"])
    return cases


def cases_C06(tier, seed):
    cases = []
    for n, st, sz in big_layouts(tier):
        pre = layout_prefix(n, st, sz)
        tail = ["len", "push_back 77", "pop_front", "drop"]
        free = n - sz
        for m in sorted({1, 7, 8, 9, 15, 16, 17, free, free + 1, n, n + 1, 2 * n + 1} - {0}):
            top = min(m, n)
            ks = range(1, top + 1) if n <= 16 else sorted({1, 2, 7, 8, 9, 10, 15, 16, 17, 24, 33, top // 2, top - 1, top} - {0, -1})
            for k in ks:
                if k <= top:
                    cases.append(pre + [f"extend_from_slice {m} !clone={k}"] + tail)
            for k in sorted({1, 2, 8, 9, m, m + 1}):
                if k <= m + 1:
                    cases.append(pre + [f"extend {m} !next={k}"] + tail)
        for k in sorted({1, 2, 7, 8, 9, 10, n // 2, n - 1, n}):
            if k <= n:
                cases.append(pre + [f"fill 9 !clone={k}"] + tail)
                cases.append(pre + [f"fill_spare 9 !clone={k}"] + tail)
                cases.append(pre + [f"fill_with !call={k}"] + tail)
                cases.append(pre + [f"fill_spare_with !call={k}"] + tail)
            if 1 <= k <= sz:
                cases.append(pre + [f"clone !clone={k}"] + tail)
                cases.append(pre + [f"to_vec !clone={k}"] + tail)
                cases.append(pre + ["clone_from 1 5 5 5 " + f"!clone={k}"] + tail)
    for n, st, sz in all_layouts(ns_for(tier, quick=(1, 2, 3, 4), thorough=(1, 2, 3, 4, 5))):
        pre = layout_prefix(n, st, sz)
        tail = ["len", "push_back 77", "pop_front", "drop"]
        for m in range(1, 2 * n + 2):
            for k in range(1, m + 1):
                cases.append(pre + [f"extend_from_slice {m} !clone={k}"] + tail)
            for k in range(1, m + 2):
                cases.append(pre + [f"extend {m} !next={k}"] + tail)
        for k in range(1, n + 1):
            cases.append(pre + [f"fill 9 !clone={k}"] + tail)
            cases.append(pre + [f"fill_spare 9 !clone={k}"] + tail)
            cases.append(pre + [f"fill_with !call={k}"] + tail)
            cases.append(pre + [f"fill_spare_with !call={k}"] + tail)
        for k in range(1, sz + 1):
            cases.append(pre + [f"clone !clone={k}"] + tail)
            cases.append(pre + [f"to_vec !clone={k}"] + tail)
            cases.append(pre + [f"clone_from 1 " + " ".join(["5"] * min(n, 3)) + f" !clone={k}"] + tail)
            vals = " ".join(str(1 + i) for i in range(sz))
            for rot in range(min(n, 3)):
                cases.append(pre + [f"eq {n} {rot} {vals} !eq={k}"] + tail)
            cases.append(pre + [f"eq_slice {vals} !eq={k}"] + tail)
    for n in (0, 1, 2, 3, 4):
        for m in range(0, 2 * n + 2):
            for k in range(1, m + 2):
                cases.append([f"case {n} t", f"from_iter {m} !next={k}", "len", "drop"])
    return cases


def cases_C07(tier, seed):
    cases = []
    for n, st, sz in all_layouts(ns_for(tier)):
        pre = layout_prefix(n, st, sz)
        for op in gen.view_ops(n, sz):
            cases.append(with_tail(pre, [op, "as_slices"]))
        cases.append(pre + ["make_contiguous", "as_slices", "get 0", "drop"])
    return cases


def cases_C08(tier, seed):
    cases = []
    for n, st, sz in all_layouts(ns_for(tier)):
        pre = layout_prefix(n, st, sz)
        for a in range(sz + 1):
            for b in range(a, sz + 1):
                forms = gen.range_forms(a, b, sz)
                maxl = b - a + 2
                scs = list(gen.scripts('FB', min(maxl, 5)))
                for (s, e) in forms[:1]:
                    for sc in scs:
                        cases.append(pre + [f"range {s} {e} {sc}", "drop"])
                        cases.append(pre + [f"range_mut {s} {e} {sc}", "drop"])
                for (s, e) in forms[1:]:
                    cases.append(pre + [f"range {s} {e} " + "FB" * (maxl // 2 + 1), "drop"])
                    cases.append(pre + [f"range_mut {s} {e} " + "BF" * (maxl // 2 + 1), "drop"])
                cases.append(pre + [f"range i{a} x{b} LFLCBLCFLDL", "drop"])
                cases.append(pre + [f"range_mut i{a} x{b} LFLBLFLDL", "drop"])
        for op in (f"range x{MAX} u FL", f"range_mut x{MAX} u FL", f"range u i{MAX} FL", f"range_mut u i{MAX} BL",
                   f"range i{MAX} u F", f"range_mut u x{MAX} B"):
            cases.append(pre + [op, "len", "drop"])
        for sc in gen.scripts('FB', min(sz + 2, 5)):
            cases.append(pre + [f"iter {sc}", "drop"])
            cases.append(pre + [f"iter_mut {sc}", "drop"])
            cases.append(pre + [f"into_iter {sc}", "drop"])
        cases.append(pre + ["iter LFLCBLDL", "iter_mut LFLBLDL", "into_iter LFLBLDL", "iter_default", "drop"])
    return cases


def cases_C09(tier, seed):
    cases = [c for c in zst_lifecycle_cases() if any(l.startswith("drain") for l in c)]
    for n, st, sz in all_layouts(ns_for(tier)):
        pre = layout_prefix(n, st, sz)
        for a in range(sz + 1):
            for b in range(a, sz + 1):
                forms = gen.range_forms(a, b, sz)
                scs = list(gen.scripts('FB', min(b - a + 1, 5)))
                for sc in scs:
                    s, e = forms[0]
                    cases.append(pre + [f"drain {s} {e} {sc} drop", "len", "drop"])
                for (s, e) in forms[1:]:
                    cases.append(pre + [f"drain {s} {e} FLB drop", "drop"])
                cases.append(pre + [f"drain i{a} x{b} LFLDBL drop", "drop"])
    rng = random.Random(seed + 9)
    for k in range(1500 if tier == "thorough" else 200):
        n = rng.choice([5, 6, 7, 8, 16])
        st = rng.randrange(n); sz = rng.randrange(n + 1)
        a = rng.randrange(sz + 1); b = rng.randrange(a, sz + 1)
        sc = ''.join(rng.choice('FB') for _ in range(rng.randrange(0, b - a + 2))) or '-'
        cases.append(layout_prefix(n, st, sz) + [f"drain i{a} x{b} {sc} drop", "len", "drop"])
    return cases


def cases_C10(tier, seed):
    cases = []
    follow = [["push_back 50", "push_front 51", "pop_back", "drop"], ["extend 3", "clear", "drop"],
              ["fill 9", "drain u u F drop", "drop"], ["drop"]]
    for n, st, sz in all_layouts(ns_for(tier)):
        pre = layout_prefix(n, st, sz)
        for a in range(sz + 1):
            for b in range(a, sz + 1):
                for sc in gen.scripts('FB', min(b - a + 1, 4)):
                    for f in follow:
                        cases.append(pre + [f"drain i{a} x{b} {sc} forget", "len"] + f)
    # element type without a destructor (mem::needs_drop is false)
    for n, st, sz in all_layouts((1, 2, 3)):
        pre = layout_prefix(n, st, sz, kind='p')
        for a in range(sz + 1):
            for b in range(a, sz + 1):
                for sc in gen.scripts('FB', min(b - a + 1, 3)):
                    cases.append(pre + [f"drain i{a} x{b} {sc} forget", "len", "push_back 50", "pop_front", "drop"])
                    cases.append(pre + [f"drain i{a} x{b} {sc} drop", "len", "drop"])
    return cases


def cases_C11(tier, seed):
    cases = []
    for n, st, sz in all_layouts(ns_for(tier)):
        pre = layout_prefix(n, st, sz)
        ops = []
        for i in idx_args(sz) + [n, n + 1]:
            ops += [f"get {i}", f"get_mut {i}", f"nth_front {i}", f"nth_back {i}", f"nth_front_mut {i}",
                    f"nth_back_mut {i}", f"index {i}", f"index_mut {i}", f"remove {i}", f"swap_remove_back {i}",
                    f"swap_remove_front {i}", f"truncate_back {i}", f"truncate_front {i}"]
            for j in idx_args(sz):
                ops.append(f"swap {i} {j}")
        for a in range(sz + 1):
            for b in range(a, sz + 1):
                for (s, e) in gen.range_forms(a, b, sz):
                    ops += [f"range {s} {e} F", f"range_mut {s} {e} B", f"drain {s} {e} F drop"]
        for (s, e) in gen.invalid_ranges(sz):
            ops += [f"range {s} {e} F", f"range_mut {s} {e} F", f"drain {s} {e} F drop"]
        ops += ["front", "back", "front_mut", "back_mut", "pop_back", "pop_front", "push_back 1", "push_front 1",
                "try_push_back 1", "try_push_front 1", "clear", "fill 1", "fill_with", "fill_spare 1",
                "fill_spare_with", "make_contiguous", "as_slices", "as_mut_slices", "clone", "to_vec", "hash",
                "debug", "len", "iter FB", "iter_mut FB", "into_iter FB", "extend 0", "extend_from_slice 0",
                f"extend {n}", f"extend_from_slice {n}", f"extend {2*n+1}", f"extend_from_slice {2*n+1}"]
        for op in ops:
            cases.append(pre + [op, "len", "drop"])
    # completely full buffers of zero-sized elements at the extreme capacities
    for n in ZST_NS[3:]:
        pre = [f"case {n} u", "fill_all"]
        ops = [f"range u i{MAX} F", f"range_mut u i{MAX} F", f"drain u i{MAX} F drop", f"range x{MAX} u F",
               f"drain x{MAX} u - drop", f"range i{MAX} i{MAX} F", "range i0 x5 FBL", "range u u FBL",
               f"range i{n-1} u FBL", f"range i{n} u FBL", f"range i{n} x{n-1} F", f"drain i{n} x{n-1} F drop",
               f"get {MAX}", f"get {n-1}", f"get {n}", "nth_back 0", f"nth_back {n-1}", f"nth_back {n}",
               f"index {n-1}", f"index {n}", f"swap 0 {n-1}", f"swap 0 {n}", f"swap {n} 0", "pop_back",
               "pop_front", "push_back 0", "push_front 0", "try_push_back 0", f"remove {n}", f"remove {n-1}",
               f"swap_remove_back {n-1}", f"swap_remove_front {n-1}", "front", "back", "len"]
        for op in ops:
            cases.append(pre + [op, "len"])
    return cases


def cases_C12(tier, seed):
    cases = []
    for n in ns_for(tier, thorough=(0, 1, 2, 3, 4, 5)):
        cases.append([f"case {n} t", "len", "boxed", "default", "drop"])
        for m in range(0, min(2 * n + 2, 12)):
            cases.append([f"case {n} t", "from_array " + " ".join(str(10 + i) for i in range(m)), "len", "into_iter " + "F" * (n + 1), "drop"])
            cases.append([f"case {n} t", f"from_iter {m}", "len", "into_iter " + "B" * (n + 1), "drop"])
    for n, st, sz in all_layouts(ns_for(tier)):
        pre = layout_prefix(n, st, sz)
        cases.append(pre + ["clone", "len", "drop"])
        cases.append(pre + ["to_vec", "len", "drop"])
        cases.append(pre + ["into_iter " + "F" * (sz + 1), "drop"])
        cases.append(pre + ["into_iter " + "B" * (sz + 1), "drop"])
        for rot in range(max(n, 1)):
            for m in range(0, n + 1):
                vals = " ".join(str(20 + i) for i in range(m))
                cases.append(pre + [f"clone_from {rot} {vals}".rstrip(), "len", "drop"])
    for n, st, sz in big_layouts(tier):         # capacities above the exhaustive scope (block-wise copies, thresholds)
        pre = layout_prefix(n, st, sz)
        cases.append(pre + ["clone", "len", "to_vec", "into_iter " + "F" * (sz + 1), "drop"])
        cases.append(pre + ["clone", "into_iter " + "B" * (sz + 1), "drop"])
        cases.append(pre + ["into_iter " + "FB" * (sz // 2 + 1), "drop"])
        for rot in sorted({0, 1, n // 2, n - 1}):
            for m in sorted({0, 1, 7, 8, 9, n // 2, n - 1, n}):
                if m <= n:
                    vals = " ".join(str(20 + i) for i in range(m))
                    cases.append(pre + [f"clone_from {rot} {vals}".rstrip(), "len", "into_iter " + "F" * (m + 1), "drop"])
        for m in sorted({n - 1, n, n + 1, n + 7, n + 8, n + 9, 2 * n + 1}):
            cases.append([f"case {n} t", f"from_iter {m}", "len", "into_iter " + "F" * (n + 1), "drop"])
            cases.append(pre + [f"extend {m}", "len", "into_iter " + "B" * (n + 1), "drop"])
    return cases


def cases_C13(tier, seed):
    cases = []
    ns = (0, 1, 2, 3, 4) if tier == "quick" else (0, 1, 2, 3, 4, 5)
    import itertools
    for n, st, sz in all_layouts(ns):
        pre = layout_prefix(n, st, sz, first_val=1)
        # own contents are 1..sz; replace them by a 2-letter word through get_mut? simpler: push words
        for word in itertools.product((1, 2), repeat=sz):
            pre2 = [f"case {n} t"] + ["push_back 0", "pop_front"] * st + [f"push_back {v}" for v in word]
            ops = ["hash", "debug"]
            for m in ns:
                if tier == "quick" and (n + m) > 6:
                    continue
                for rot in range(max(m, 1)):
                    for l2 in range(0, m + 1):
                        others = [word[:l2]] if l2 <= sz else []
                        others += [tuple(list(word[:l2 - 1]) + [3 - word[l2 - 1]])] if 0 < l2 <= sz else []
                        others += [tuple(list(word) + [1] * (l2 - sz))] if l2 > sz else []
                        for w2 in others:
                            vals = " ".join(str(v) for v in w2)
                            ops.append(f"eq {m} {rot} {vals}".rstrip())
                            ops.append(f"cmp {m} {rot} {vals}".rstrip())
            ops.append("eq_slice " + " ".join(str(v) for v in word))
            ops.append(("eq_slice " + " ".join(str(v) for v in word[:-1])).rstrip())
            if sz:
                ops.append("eq_slice " + " ".join(str(v) for v in (list(word[:-1]) + [3 - word[-1]])))
            cases.append(pre2 + ops + ["drop"])
    # primitive elements (bytes): `Hash::hash_slice` is one `write` call per slice for them, so hashing the two
    # segments instead of the elements is visible to a hasher that sees the call boundaries — and only to it
    for n, st, sz in list(all_layouts((1, 2, 3, 4))) + list(big_layouts(tier)):
        cases.append([f"case {n} b"] + ["push_back 0", "pop_front"] * st + [f"push_back {1 + i % 5}" for i in range(sz)]
                     + ["hash", "debug", "drop"])
    for n, st, sz in big_layouts(tier):         # same-capacity comparisons above the exhaustive scope
        word = [1 + (i * 7 % 3 > 0) for i in range(sz)]
        pre2 = [f"case {n} t"] + ["push_back 0", "pop_front"] * st + [f"push_back {v}" for v in word]
        ops = ["hash", "debug"]
        variants = [list(word)]
        for j in sorted({0, 6, 7, 8, 9, 15, 16, sz // 2, sz - 1}):
            if 0 <= j < sz:
                w = list(word); w[j] = 3 - w[j]; variants.append(w)
        if sz:
            variants.append(word[:-1])
            variants.append(word[:sz // 2])
        if sz < n:
            variants.append(word + [1])
        for rot in sorted({0, 1, n // 2, n - 1}):
            for w in variants:
                vals = " ".join(str(v) for v in w)
                ops.append(f"eq {n} {rot} {vals}".rstrip())
                ops.append(f"cmp {n} {rot} {vals}".rstrip())
        for w in variants:
            ops.append(("eq_slice " + " ".join(str(v) for v in w)).rstrip())
        cases.append(pre2 + ops + ["drop"])
    return cases


def cases_io(tier, seed, ns=None):
    cases = []
    ns = ns or ns_for(tier)
    for n in ns:
        for st, sz in layouts(n):
            pre = [f"case {n} b"] + ["write 1 0", "read 1"] * st + ([f"write {sz} 100"] if sz else [])
            ops = [f"write {m} 200" for m in range(0, 2 * n + 2)]
            ops += [f"read {k}" for k in range(0, n + 3)]
            ops += [f"consume {k}" for k in list(range(0, n + 3)) + [MAX]]
            ops += ["fill_buf", "flush"]
            for a in ops:
                cases.append(pre + [a, "fill_buf", "len"])
            for a in ops[::2]:
                for b in ops[1::3]:
                    cases.append(pre + [a, b, "fill_buf", "read %d" % (n + 2)])
    # capacities above the exhaustive scope, sampled layouts, argument lengths around 8 / 16 / 32 and the capacity
    # (seeded change C14-I: a separate copy path for destinations of 16 bytes and more, wrong when wrapped)
    if True:
        for n in ((16, 64, 1000) if tier == "thorough" else (16, 64)):
            for st in sorted({0, 1, n // 3, n - 5, n - 1}):
                for sz in sorted({1, n // 2, n - 1, n}):
                    pre = [f"case {n} b"] + ([f"write {st} 0", f"read {st}"] if st else []) + [f"write {sz} 100"]
                    ops = [f"read {k}" for k in sorted({1, 7, 8, 9, 15, 16, 17, 31, 32, 33, n - 1, n, n + 1})]
                    ops += [f"write {m} 200" for m in sorted({1, 8, 15, 16, 17, 32, 33, n - 1, n, n + 1, 2 * n + 1})]
                    ops += [f"consume {k}" for k in sorted({1, 15, 16, 17, n - 1, n, n + 1})] + ["fill_buf"]
                    for a in ops:
                        cases.append(pre + [a, "fill_buf", "len", "read %d" % (n + 2)])
    rng = random.Random(seed + 14)
    for k in range(1500 if tier == "thorough" else 200):
        n = rng.choice([5, 8, 16, 64, 1000])
        c = [f"case {n} b"]
        for _ in range(rng.randrange(3, 25)):
            r = rng.random()
            if r < 0.4:
                c.append(f"write {rng.randrange(0, min(2 * n + 2, 40))} {rng.randrange(256)}")
            elif r < 0.7:
                c.append(f"read {rng.randrange(0, 30)}")
            elif r < 0.85:
                c.append(f"consume {rng.choice([0, 1, 2, 5, 50, MAX])}")
            else:
                c.append("fill_buf")
        cases.append(c)
    return cases


def cases_C14(tier, seed):
    return cases_io(tier, seed)


ZST_NS = [1, 2, 3, 4294967295, 4294967296, 4294967297, 9223372036854775807, 9223372036854775808,
          9223372036854775809, 18446744073709551614, 18446744073709551615]


def cases_C19(tier, seed):
    cases = []
    for n in ZST_NS:
        for nf in range(0, 4):        # pushes at the front: start goes right below the capacity
            for nb in range(0, 4):
                pre = [f"case {n} z"] + ["push_front 0"] * nf + ["push_back 0"] * nb
                sz = min(nf + nb, n)
                ops = ["pop_back", "pop_front", "push_back 0", "push_front 0", "try_push_back 0",
                       "try_push_front 0", "front", "back", "len", "clear", "drop",
                       f"truncate_back {max(sz - 1, 0)}", f"truncate_front {max(sz - 1, 0)}",
                       "iter " + "FB" * 3, "range i1 u FBL" if sz >= 1 else "range u u F",
                       f"drain i0 x{min(sz, 2)} F drop", f"drain i{min(sz,1)} x{sz} B drop", "drain u u - forget"]
                for i in [0, 1, sz - 1 if sz else 0, sz, sz + 1, n - 1, n, MAX]:
                    ops += [f"get {i}", f"nth_back {i}", f"remove {i}", f"swap_remove_back {i}",
                            f"swap_remove_front {i}", f"index {i}", f"get_mut {i}"]
                if sz >= 2:
                    ops += ["swap 0 1", f"swap {sz-1} 0", f"swap 0 {sz}", f"swap {MAX} 0"]
                for op in ops:
                    cases.append(pre + [op, "len", "pop_front", "drop"])
    lat = addmod_lattice()
    rng = random.Random(seed + 19)
    for _ in range(2000 if tier == "quick" else 20000):
        m = rng.choice([rng.randrange(1, 2**64), 2**64 - 1 - rng.randrange(0, 1000), 2**63 + rng.randrange(-1000, 1000)])
        lat.append((rng.randrange(0, m + 1), rng.randrange(0, m + 1), m))
    for k in range(0, len(lat), 50):
        chunk = lat[k:k + 50]
        cases.append(["case 1 z"] + [f"add_mod {x} {y} {m}" for x, y, m in chunk] + [f"sub_mod {x} {y} {m}" for x, y, m in chunk])
    return cases


def addmod_lattice():
    """boundary lattice for the index helpers: (x, y, m) with x, y <= m"""
    ms = [1, 2, 3, 4, 5, 7, 8, 4294967295, 4294967296, 4294967297, 9223372036854775807, 9223372036854775808,
          9223372036854775809, 18446744073709551613, 18446744073709551614, 18446744073709551615]
    out = []
    for m in ms:
        pts = sorted(set(v for v in [0, 1, 2, m // 2 - 1, m // 2, m // 2 + 1, m - 2, m - 1, m] if 0 <= v <= m))
        for x in pts:
            for y in pts:
                out.append((x, y, m))
    return out


def o_addmod(case, out):
    """add_mod / sub_mod against (x + y) mod m resp. (x - y) mod m on unbounded integers"""
    pr = []
    for op, raw in zip(case, out):
        t = op.split()
        if t[0] not in ("add_mod", "sub_mod"):
            continue
        l = Line(raw)
        x, y, m = int(t[1]), int(t[2]), int(t[3])
        exp = (x + y) % m if t[0] == "add_mod" else (x - y) % m
        if l.crash or l.ret != str(exp):
            pr.append(f"`{op}` = {l.ret if not l.crash else l.raw}, expected {exp}")
    return pr


def cases_C20(tier, seed):
    cases = []
    for n, st, sz in all_layouts(ns_for(tier, quick=(1, 2, 3, 4, 5), thorough=(1, 2, 3, 4, 5, 6, 7, 8))):
        pre = layout_prefix(n, st, sz)
        ops = ["push_back 9", "push_front 9", "try_push_back 9", "try_push_front 9", "pop_back", "pop_front",
               "as_slices", "as_mut_slices", "front", "back", "clear", "make_contiguous"]
        for i in range(sz + 1):
            ops += [f"remove {i}", f"swap_remove_back {i}", f"swap_remove_front {i}", f"get {i}", f"get_mut {i}",
                    f"truncate_back {i}", f"truncate_front {i}"]
            for j in range(sz):
                if i < sz:
                    ops.append(f"swap {i} {j}")
        for a in range(sz + 1):
            for b in range(a, sz + 1):
                ops.append(f"drain i{a} x{b} - drop")
                ops.append(f"drain i{a} x{b} FB drop")
        for op in ops:
            cases.append(pre + [op, "len"])
    # every layout of capacity 16 (thorough: 64 sampled too) for the O(1) operations: a "tidy up when almost empty /
    # almost full" step (seeded change C20-I: `pop_front` calling `make_contiguous` when `size <= N / 4`) moves at
    # most two elements on every capacity of the exhaustive scope
    big = [(16, st, sz) for st in range(16) for sz in range(17)]
    if tier == "thorough":
        big += [(64, st, sz) for st in (0, 1, 21, 40, 59, 63) for sz in (0, 1, 2, 5, 15, 16, 17, 32, 48, 62, 63, 64)]
    for n, st, sz in big:
        pre = layout_prefix(n, st, sz)
        ops = ["push_back 9", "push_front 9", "try_push_back 9", "try_push_front 9", "pop_back", "pop_front",
               "as_mut_slices", "clear", "make_contiguous"]
        for i in sorted({0, 1, sz // 2, sz - 1} - {-1}):
            if i < sz:
                ops += [f"swap_remove_back {i}", f"swap_remove_front {i}", f"remove {i}", f"swap {i} {sz - 1 - i}",
                        f"truncate_back {i}", f"truncate_front {i}", f"get_mut {i}"]
        if sz >= 2:
            ops += [f"drain i1 x{sz - 1} - drop", f"drain i0 x{sz // 2} F drop"]
        for op in ops:
            cases.append(pre + [op, "len"])
    return cases


# ----------------------------------------------------------------------------- C16 / C17 / C18

def cases_C16(tier, seed):
    return cases_io(tier, seed)


def cases_C17(tier, seed):
    """the non-panicking calls of C01/C07/C08/C12 with the allocation column"""
    cs = cases_C01(tier, seed)[::2] + cases_C07(tier, seed)[::2] + cases_C08(tier, seed)[::4] + cases_C12(tier, seed)
    cs += [c for c in cases_io(tier, seed)[::3]]
    return cs


def cases_C18(tier, seed):
    cs = []
    for f in (cases_C01, cases_C02, cases_C03, cases_C05, cases_C06, cases_C07, cases_C08, cases_C09,
              cases_C10, cases_C11, cases_C12, cases_C13):
        cs += f(tier, seed)
    cs += cases_C04(tier, seed)[::5]
    return cs


def build_checks_C17():
    """the crate must build without std and without an allocator; only boxed()/to_vec() may name Box/Vec"""
    import subprocess, os, re
    from .engine import REPO, WORK
    problems, notes = [], []
    for feats in (["--no-default-features"], ["--no-default-features", "--features", "alloc"], []):
        import hashlib
        tdir = os.path.join(WORK, "c17-target" + ("" if REPO == "/repo" else "-" + hashlib.sha1(REPO.encode()).hexdigest()[:8]))
        p = subprocess.run(["cargo", "build", "--offline", "--quiet", "--lib"] + feats, cwd=REPO,
                           env=dict(os.environ, CARGO_TARGET_DIR=tdir, CARGO_NET_OFFLINE="true"),
                           capture_output=True, text=True)
        notes.append(f"cargo build {' '.join(feats) or '(default features)'}: rc={p.returncode}")
        if p.returncode != 0:
            problems.append(f"`cargo build --lib {' '.join(feats)}` fails: " + p.stderr.strip()[-600:])
    # source scan: heap types may only be named inside boxed()/to_vec() (and the cfg(alloc) imports)
    for fn in ("lib.rs", "iter.rs", "drain.rs"):
        src = open(os.path.join(REPO, "src", fn)).read()
        src = re.sub(r"//[^\n]*", "", src)
        # split into fn bodies
        for m in re.finditer(r"fn\s+(\w+)[^{;]*\{", src):
            name = m.group(1)
            i = m.end(); depth = 1
            while depth and i < len(src):
                depth += (src[i] == "{") - (src[i] == "}")
                i += 1
            body = src[m.end():i]
            if re.search(r"\b(Box|Vec|String|Rc|Arc|BTreeMap|VecDeque|to_vec|to_owned|collect::<Vec)\b", body) and name not in ("boxed", "to_vec"):
                if fn == "lib.rs" and name in ("main",):
                    continue
                problems.append(f"src/{fn}: fn {name} names a heap type / allocating call")
    notes.append("source scan: heap types named only in boxed()/to_vec()")
    return problems, "; ".join(notes)


def x_hash_layout_independent(cases, outs):
    """C13: equal contents in the same capacity must feed the hasher identically, whatever the layout.
    returns [(case index, problem)]"""
    seen = {}
    res = []
    for ci, (case, out) in enumerate(zip(cases, outs)):
        for op, raw in zip(case, out):
            if op.split()[0] != "hash":
                continue
            l = Line(raw)
            if l.crash or l.ret.startswith("P:"):
                continue
            key = (case[0], tuple(v for _, v in l.logical()))
            if key in seen and seen[key][0] != l.ret:
                res.append((ci, f"`hash` of contents {list(key[1])} in `{case[0]}` feeds {l.ret} in this layout "
                                f"(front position {l.start}) but {seen[key][0]} in another (front position {seen[key][1]})"))
            seen.setdefault(key, (l.ret, l.start))
    return res
