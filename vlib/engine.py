"""Shared machinery of the checks: builds, running model and implementation on the same scripts,
trace parsing, projections, oracles, minimisation, replay and evidence files."""
import fcntl, hashlib, json, os, re, subprocess, sys, time

VERIF = os.path.dirname(os.path.dirname(os.path.abspath(__file__)))
REPO = os.environ.get("VERIF_REPO", "/repo")
WORK = os.path.join(VERIF, ".work")
LEAN = os.path.join(VERIF, "lean", "CircBuf")
DRIVER = os.path.join(LEAN, ".lake", "build", "bin", "driver")
DRIVER_SRC = os.path.join(LEAN, ".lake", "build", "bin", "driver_src")
HARNESS_DIR = os.path.join(VERIF, "harness")
TARGET = os.path.join(WORK, "target")
if REPO != "/repo":
    EVIDENCE_DIR_OVERRIDE = os.path.join(WORK, "selftest-evidence")
    # self-test mode: the same harness sources built against a scratch copy of the repository
    _tag = hashlib.sha1(REPO.encode()).hexdigest()[:8]
    TARGET = os.path.join(WORK, "alt-target-" + _tag)
    _alt = os.path.join(WORK, "alt-harness-" + _tag)
FORBIDDEN = re.compile(r"\b(sorry|admit|native_decide|bv_decide|implemented_by|unsafe)\b|^\s*axiom\s|maxHeartbeats\s+0", re.M)
ALLOWED_AXIOMS = {"propext", "Quot.sound", "Classical.choice"}


class Infra(Exception):
    """infrastructure failure: not a statement about the property"""


def sh(cmd, cwd=None, env=None, timeout=3600, inp=None):
    e = dict(os.environ)
    e.update({"CARGO_NET_OFFLINE": "true"})
    if env:
        e.update(env)
    p = subprocess.run(cmd, cwd=cwd, env=e, input=inp, capture_output=True, text=True, timeout=timeout)
    return p.returncode, p.stdout, p.stderr


class Lock:
    def __init__(self, name):
        os.makedirs(WORK, exist_ok=True)
        self.path = os.path.join(WORK, name + ".lock")
    def __enter__(self):
        self.f = open(self.path, "w")
        fcntl.flock(self.f, fcntl.LOCK_EX)
    def __exit__(self, *a):
        fcntl.flock(self.f, fcntl.LOCK_UN)
        self.f.close()


# ----------------------------------------------------------------------------- builds

def run_t1():
    """regenerate Generated/AddMod.lean from the current source; returns (ok, message)"""
    rc, out, err = sh([sys.executable, os.path.join(VERIF, "translate", "t1_addmod.py"),
                       os.path.join(REPO, "src", "lib.rs"),
                       os.path.join(LEAN, "CircBuf", "Generated", "AddMod.lean")])
    return rc == 0, (out + err).strip()


def run_t3():
    """regenerate Generated/Core.lean (the element-level core of lib.rs) from the current source;
    returns (ok, message, [(function, why)] that could not be translated)"""
    cmd = [sys.executable, os.path.join(VERIF, "translate", "t3_core.py"),
           os.path.join(REPO, "src", "lib.rs"),
           os.path.join(LEAN, "CircBuf", "Generated", "Core.lean")]
    rc, out, err = sh(cmd)
    note = ""
    if rc != 0:
        # the translator itself failed (not: a function is outside its subset — that is handled per function).
        # `Generated/Core.lean` must never be left over from another tree: regenerate it with every function
        # taken from the hand model (each is then tied to the source by the correspondence only)
        note = "T3 failed (" + ((out + err).strip().split("\n")[-1][:200] if (out + err).strip() else "no output") + "); "
        rc, out, err = sh(cmd, env=dict(os.environ, T3_FORCE_FALLBACK="all"))
    failed = re.findall(r"cannot translate `(\w+)`: (.*)", out + err)
    last = (out + err).strip().split("\n")[-1] if (out + err).strip() else "T3: no output"
    return rc == 0, note + last, failed


def lake_build(targets):
    """returns (ok, log). A failure names the modules / theorems that no longer check."""
    with Lock("lake"):
        rc, out, err = sh(["lake", "build"] + targets, cwd=LEAN, timeout=3600)
    return rc == 0, out + err


def failed_modules_of(log, mods):
    """which of `mods` cannot have been built: the modules lake names as failed, and everything that
    imports one of them (read from the `import` lines; lake does not attempt those)"""
    direct = set(re.findall(r"^- (CircBuf[\w.]*)\s*$", log, re.M)) | \
        set(re.findall(r"✖ \[\d+/\d+\] Building (CircBuf[\w.]*)", log))
    if not direct:
        return None
    cache = {}

    def closure(m):
        if m in cache:
            return cache[m]
        cache[m] = set()
        path = os.path.join(LEAN, *m.split(".")) + ".lean"
        out = set()
        try:
            for line in open(path):
                mm = re.match(r"import (CircBuf[\w.]*)", line)
                if mm:
                    out.add(mm.group(1))
                    out |= closure(mm.group(1))
                elif line.strip() and not line.startswith("import"):
                    break
        except OSError:
            pass
        cache[m] = out
        return out
    return [m for m in mods if m in direct or closure(m) & direct]


def failed_decls(log):
    """best-effort: names of files/lines that failed in a lake log"""
    return sorted(set(re.findall(r"error: (CircBuf/[\w/]+\.lean:\d+)", log)))


def grep_forbidden():
    hits = []
    for root, _, files in os.walk(os.path.join(LEAN, "CircBuf")):
        for f in files:
            if not f.endswith(".lean"):
                continue
            p = os.path.join(root, f)
            txt = open(p).read()
            # strip comments
            txt2 = re.sub(r"/-.*?-/", lambda m: "\n" * m.group(0).count("\n"), txt, flags=re.S)
            txt2 = re.sub(r"--[^\n]*", "", txt2)
            for m in FORBIDDEN.finditer(txt2):
                line = txt2.count("\n", 0, m.start()) + 1
                hits.append(f"{os.path.relpath(p, LEAN)}:{line}:{m.group(0).strip()}")
    return hits


def audit_axioms(theorems):
    """`#print axioms` on every listed theorem; returns {theorem: [axioms]} (raises Infra on failure)"""
    os.makedirs(WORK, exist_ok=True)
    mods = sorted(set(m for m, _ in theorems))
    src = "".join(f"import {m}\n" for m in mods) + "open CircBuf\n" + \
        "".join(f"#print axioms {t}\n" for _, t in theorems)
    path = os.path.join(WORK, f"audit_{os.getpid()}.lean")
    open(path, "w").write(src)
    try:
        with Lock("lake"):
            rc, out, err = sh(["lake", "env", "lean", path], cwd=LEAN, timeout=1800)
    finally:
        os.unlink(path)
    res = {}
    txt = out + err
    for _, t in theorems:
        m = re.search(r"'(?:CircBuf\.)?%s' depends on axioms: \[([^\]]*)\]" % re.escape(t), txt, re.S)
        if m:
            res[t] = [a.strip() for a in m.group(1).replace("\n", " ").split(",") if a.strip()]
        elif re.search(r"'(?:CircBuf\.)?%s' does not depend on any axioms" % re.escape(t), txt):
            res[t] = []
        else:
            res[t] = None  # theorem missing / failed
    return res, txt


def build_harness(features=(), nightly=False):
    """build the Rust harness against /repo's current working tree with the hooks on"""
    global HARNESS_DIR
    if REPO != "/repo":
        import shutil
        src = os.path.join(VERIF, "harness")
        if os.path.exists(_alt):
            shutil.rmtree(_alt)
        shutil.copytree(src, _alt, ignore=shutil.ignore_patterns("target", "scripts"))
        ct = open(os.path.join(_alt, "Cargo.toml")).read().replace('path = "/repo"', f'path = "{REPO}"')
        open(os.path.join(_alt, "Cargo.toml"), "w").write(ct)
        HARNESS_DIR = _alt
    cmd = ["cargo"] + (["+nightly"] if nightly else []) + ["build", "--offline", "--quiet"]
    tdir = TARGET
    if features or nightly:
        tag = "-".join(sorted(features)) + ("-nightly" if nightly else "")
        tdir = TARGET + "-" + tag
        if features:
            cmd += ["--features", ",".join(features)]
    with Lock("cargo-" + os.path.basename(tdir)):
        rc, out, err = sh(cmd, cwd=HARNESS_DIR, env={"CARGO_TARGET_DIR": tdir}, timeout=3600)
    binp = os.path.join(tdir, "debug", "cbharness")
    if rc != 0 or not os.path.exists(binp):
        raise Infra("harness build failed:\n" + (out + err)[-3000:])
    return binp


# ----------------------------------------------------------------------------- running

def run_driver(lines):
    rc, out, err = sh([DRIVER], inp="\n".join(lines) + "\n", timeout=3600)
    if rc != 0:
        raise Infra("model driver failed: " + err[-500:])
    return out.split("\n")[:-1] if out.endswith("\n") else out.split("\n")


import shutil as _sh
_PRLIMIT = _sh.which("prlimit")


def _limits():
    import resource
    # a defective tree must not be able to eat the machine: 6 GiB of address space, 10 min of CPU
    resource.setrlimit(resource.RLIMIT_AS, (6 << 30, 6 << 30))
    resource.setrlimit(resource.RLIMIT_CPU, (600, 600))


def run_impl(binp, cases, extra_args=(), timeout_per_batch=None):
    """run the cases through the harness; a crash (abort / timeout) inside a case yields
    the lines printed so far followed by a `CRASH:<why>` marker for that case."""
    results = [None] * len(cases)
    start = 0
    crashes = 0
    while start < len(cases):
        if crashes >= 6:
            # circuit breaker: the tree is badly broken; the crashes found so far are reported, the
            # remaining cases are marked as not run (they count as neither agreement nor failure)
            for j in range(start, len(cases)):
                results[j] = ["NOT-RUN"] * len(cases[j])
            break
        lines = [l for c in cases[start:] for l in c]
        # watchdog: the harness does > 50 000 lines/s; a batch that needs 20x longer is hung
        tmo = timeout_per_batch or (max(20, len(lines) // 2500) if crashes == 0 else 15)
        try:
            if _PRLIMIT:
                # same limits as _limits(), without forking this (large) process through a preexec_fn
                p = subprocess.run([_PRLIMIT, f"--as={6 << 30}", "--cpu=600", binp] + list(extra_args),
                                   input="\n".join(lines) + "\n", capture_output=True, text=True, timeout=tmo)
            else:
                p = subprocess.run([binp] + list(extra_args), input="\n".join(lines) + "\n",
                                   capture_output=True, text=True, timeout=tmo, preexec_fn=_limits)
            out, rc, why = p.stdout, p.returncode, None
            if rc != 0:
                why = f"exit{rc}"
        except subprocess.TimeoutExpired as e:
            out = e.stdout.decode() if isinstance(e.stdout, bytes) else (e.stdout or "")
            rc, why = -1, "timeout"
        outl = out.split("\n")
        if outl and outl[-1] == "":
            outl.pop()
        pos = 0
        i = start
        while i < len(cases):
            need = len(cases[i])
            if pos + need <= len(outl):
                results[i] = outl[pos:pos + need]
                pos += need
                i += 1
            else:
                break
        if i >= len(cases):
            break
        # case i is where the process died
        partial = outl[pos:]
        results[i] = partial + [f"CRASH:{why or 'truncated'}"]
        crashes += 1
        start = i + 1
    return results


def run_miri(cases, features=(), extra_args=(), timeout=1500):
    """run a (small) batch of cases through the harness under Miri (nightly); returns
    (per-case output or None, problem or None).  A search aid for undefined behaviour in the real
    code (use of a dead element, aliasing, reads of uninitialised slots) — it decides nothing else."""
    lines = [l for c in cases for l in c]
    env = dict(os.environ, MIRIFLAGS="-Zmiri-disable-isolation", RUSTFLAGS="--cfg circular_buffer_verif",
               CARGO_TARGET_DIR=os.path.join(WORK, "miri-target" + ("" if REPO == "/repo" else "-alt")),
               CARGO_NET_OFFLINE="true")
    cmd = ["cargo", "+nightly", "miri", "run", "--offline", "--quiet"]
    if features:
        cmd += ["--features", ",".join(features)]
    cmd += ["--"] + list(extra_args) if extra_args else []
    try:
        p = subprocess.run(cmd, cwd=HARNESS_DIR, env=env, input="\n".join(lines) + "\n", capture_output=True,
                           text=True, timeout=timeout)
        out, err, rc = p.stdout, p.stderr, p.returncode
    except subprocess.TimeoutExpired as e:
        out = e.stdout.decode() if isinstance(e.stdout, bytes) else (e.stdout or "")
        err, rc = "timeout", -1
    outl = out.split("\n")
    if outl and outl[-1] == "":
        outl.pop()
    res, pos, bad = [], 0, None
    for i, c in enumerate(cases):
        if pos + len(c) <= len(outl):
            res.append(outl[pos:pos + len(c)]); pos += len(c)
        else:
            res.append(None)
            if bad is None:
                bad = i
    problem = None
    if rc != 0 and err != "timeout":
        m = re.search(r"error: (Undefined Behavior|unsupported operation|memory leaked)[^\n]*", err)
        problem = dict(case=bad, what=(m.group(0) if m else "miri exited with status %d" % rc), stderr=err[-1500:])
    return res, problem


def run_model_src(cases, timeout_per_batch=None):
    """the same driver with the element-level core taken from the *translated* source"""
    res = run_impl(DRIVER_SRC, cases, timeout_per_batch=timeout_per_batch)
    return [None if (r and (r[-1].startswith("CRASH:") or r[0] == "NOT-RUN")) else r for r in res]


def run_model(cases, timeout_per_batch=None):
    """run the cases through the model driver.  The model contains the *translated* index helpers, so
    on a defective tree it can misbehave too (e.g. enumerate a 2^64-element range): it runs under the
    same watchdog as the harness; a case on which it crashes gets the trace `None`."""
    res = run_impl(DRIVER, cases, timeout_per_batch=timeout_per_batch)
    out = []
    for c, r in zip(cases, res):
        if r and (r[-1].startswith("CRASH:") or r[0] == "NOT-RUN"):
            out.append(None)
        else:
            out.append(r)
    return out


# ----------------------------------------------------------------------------- traces

_DOC = {"P:range_end", "P:range_order", "P:range_start_overflow", "P:range_end_overflow",
        "P:swap_i", "P:swap_j", "P:index", "P:other"}


def canon_panic(ret):
    """the *text* of a documented panic is not part of any property (only when it happens, and that
    the buffer is unchanged): every documented panic — and any panic the harness cannot attribute to
    the standard library's arithmetic / bounds / assertion messages — is `P:doc`"""
    return "P:doc" if ret in _DOC else ret


class Line:
    __slots__ = ("raw", "ret", "events", "start", "size", "window", "allocs", "views", "crash")
    def __init__(self, raw):
        self.raw = raw
        self.crash = raw.startswith("CRASH:") or raw == "bad-op"
        parts = raw.split("|")
        if self.crash or len(parts) != 6:
            self.crash = True
            self.ret, self.events, self.start, self.size, self.window, self.allocs, self.views = raw, [], -1, -1, [], 0, "ok"
            return
        self.ret = canon_panic(parts[0])
        self.events = parts[1].split() if parts[1] else []
        ss = parts[2].split()
        self.start, self.size = int(ss[0]), int(ss[1])
        self.window = [tuple(w.split(":")) for w in parts[3].split()] if parts[3] else []
        self.allocs = int(parts[4])
        self.views = parts[5]

    def logical(self):
        return [(w[1], w[2]) if len(w) == 3 else w for w in self.window]

    def ids(self):
        return [int(w[1]) for w in self.window if len(w) == 3]


_slot = re.compile(r"@\d+\(")
_slot2 = re.compile(r"(?<=[\[ ])\d+:(?=\d+:\d+)")


def strip_slots(ret):
    """remove physical slot numbers from a ret field (S@3(1:5) -> S(1:5); [3:1:5 …] -> [1:5 …])"""
    r = _slot.sub("(", ret)
    r = _slot2.sub("", r)
    return r


def proj_behaviour(l, op=""):
    """return value, logical contents with ids, length, views; events as a multiset without compare events"""
    ev = sorted(e for e in l.events if not e.startswith("Q"))
    ret = strip_slots(l.ret)
    if op.startswith("hash"):
        # what exactly is fed to the hasher is not part of any property (only that it is a function of
        # the contents: the cross-case layout-independence oracle of C13 / C04 decides that)
        ret = "H"
    if op.startswith("as_slices") or op.startswith("as_mut_slices") or op.startswith("fill_buf"):
        # where the contents are split is a physical detail
        ret = ret.replace("]/[", " ").replace("[ ", "[").replace(" ]", "]")
    if op.startswith("clone") and not op.startswith("clone_from"):
        ret = " ".join(ret.split(" ")[1:])  # drop the clone's front position
    return (ret, tuple(ev), l.size, tuple(l.logical()), l.views, l.crash)


def proj_physical(l, op=""):
    """everything, including front position and slot numbers; the order of the lifecycle events within
    one call is not part of any property (only C18 compares it, against the other build)"""
    ev = sorted(e for e in l.events if not e.startswith("Q"))
    ret = "H" if op.startswith("hash") else l.ret
    return (ret, tuple(ev), l.start, l.size, tuple(l.window), l.allocs, l.views, l.crash)


def proj_ownership(l, op=""):
    """what the ownership properties (C03, C05, C06, C10) speak about: which elements are created, cloned
    and destroyed by the call (as a multiset), which elements the buffer holds afterwards (as a set — their
    order and the value returned are C01's business), its length, the views being consistent, a crash"""
    ev = sorted(e for e in l.events if not e.startswith("Q"))
    held = tuple(sorted(l.ids())) if l.window and len(l.window[0]) == 3 else len(l.window)
    panicked = l.ret if l.ret.startswith("P:") else ""
    return (tuple(ev), l.size, held, l.views, l.crash, panicked)


def proj_alloc(l, op=""):
    """only what C17 speaks about: the number of heap allocations (and whether the call crashed)"""
    return (l.allocs, l.crash)


def proj_ordered(l, op=""):
    """behaviour with the event order kept"""
    b = proj_behaviour(l, op)
    return b + (tuple(l.events),)


# ----------------------------------------------------------------------------- ledger oracle

def ledger_check(case, out, allow_leak_after_panic=False):
    """ownership oracle on an implementation trace alone.
    returns list of problems (strings). Tracks, per element id: created (G/C), returned to caller
    (appears in a ret as owned), destroyed (D)."""
    problems = []
    created, dropped, returned = set(), {}, set()
    panicked = False
    forgot = False
    kind = case[0].split()[2] if case and case[0].startswith("case") else "t"
    if kind not in ("t", "p"):
        # no identities: only crashes, zombies and (for the zero-sized kind) destructor counts
        ng = nd = nr = 0
        last = None
        for op, raw in zip(case, out):
            l = raw if isinstance(raw, Line) else Line(raw)
            if l.crash:
                problems.append(f"crash at `{op}`: {l.raw}")
                break
            ng += sum(1 for e in l.events if e[0] == "G")
            nd += sum(1 for e in l.events if e[0] == "D")
            problems += [f"zombie {e} at `{op}`" for e in l.events if e[0] == "Z"]
            nr += len(re.findall(r"(?:S|Err|F|B)\(\d+:\d+\)", l.ret))
            if l.ret.startswith("P:"):
                panicked = True
            if " forget" in op:
                forgot = True
            last = l
            if kind == "z" and nd + nr + l.size > ng:
                problems.append(f"more elements destroyed/returned/stored ({nd}+{nr}+{l.size}) than created ({ng}) after `{op}`")
            if kind == "z" and not forgot and not panicked and nd + nr + l.size != ng:
                problems.append(f"element count not conserved after `{op}`: created {ng}, destroyed {nd}, returned {nr}, stored {l.size}")
        return problems, dict(created=set(), dropped={}, returned=set(), panicked=panicked, forgot=forgot)
    for op, raw in zip(case, out):
        l = raw if isinstance(raw, Line) else Line(raw)
        if l.crash:
            problems.append(f"crash at `{op}`: {l.raw}")
            break
        for e in l.events:
            if e[0] == "Z":
                problems.append(f"zombie {e} at `{op}`")
            elif e[0] == "G":
                created.add(int(e[1:]))
            elif e[0] == "C":
                created.add(int(e[1:].split("<")[0]))
            elif e[0] == "D":
                i = int(e[1:])
                dropped[i] = dropped.get(i, 0) + 1
                if dropped[i] > 1:
                    problems.append(f"element {i} destroyed twice (at `{op}`)")
                if i in returned:
                    problems.append(f"element {i} destroyed after being handed to the caller (at `{op}`)")
        if l.ret.startswith("P:"):
            panicked = True
        if " forget" in op:
            forgot = True
        for m in re.finditer(r"(?:S|Err|F|B)\((\d+):\d+\)", l.ret):
            i = int(m.group(1))
            if i in dropped:
                problems.append(f"element {i} handed to the caller after being destroyed (at `{op}`)")
            returned.add(i)
        for i in l.ids():
            if i in dropped and i < 900000:
                problems.append(f"element {i} is in the buffer but was destroyed (after `{op}`)")
            if i in returned:
                problems.append(f"element {i} is in the buffer but was handed to the caller (after `{op}`)")
            if i >= 900000:
                problems.append(f"decoy/garbage element {i} inside the window (after `{op}`)")
        ids = l.ids()
        if len(set(ids)) != len(ids):
            problems.append(f"duplicate element in the buffer after `{op}`: {ids}")
    return problems, dict(created=created, dropped=dropped, returned=returned, panicked=panicked, forgot=forgot)


def leak_check(case, out):
    """after the final `drop` every created element must be destroyed or with the caller"""
    problems, st = ledger_check(case, out)
    kind = case[0].split()[2] if case and case[0].startswith("case") else "t"
    if kind == "t" and case and case[-1].startswith("drop") and not any(p.startswith("crash") for p in problems):
        last = Line(out[-1])
        inbuf = set(last.ids())
        for i in sorted(st["created"]):
            if i not in st["dropped"] and i not in st["returned"] and i not in inbuf:
                problems.append(f"element {i} leaked (never destroyed, not in the buffer, not with the caller)")
    return problems, st


# ----------------------------------------------------------------------------- evidence / replay

def write_replay(pid, kind, payload):
    os.makedirs(os.path.join(VERIF, "replays"), exist_ok=True)
    h = hashlib.sha1(json.dumps(payload, sort_keys=True).encode()).hexdigest()[:10]
    path = os.path.join(VERIF, "replays", f"{pid}-{h}.json")
    payload = dict(payload)
    payload["property"] = pid
    payload["kind"] = kind
    json.dump(payload, open(path, "w"), indent=1)
    return path


EVIDENCE_DIR = os.path.join(VERIF, "evidence") if REPO == "/repo" else os.path.join(WORK, "selftest-evidence")


def write_evidence(pid, ev):
    """evidence of development / self-test runs (--skip-lean, VERIF_REPO) goes to .work, never to evidence/"""
    d = EVIDENCE_DIR
    os.makedirs(d, exist_ok=True)
    json.dump(ev, open(os.path.join(d, f"{pid}.json"), "w"), indent=1)


def known_findings():
    fixed, opened = [], []
    p = os.path.join(VERIF, "KNOWN_FINDINGS.txt")
    if os.path.exists(p):
        for l in open(p):
            l = l.strip()
            if l.startswith("open:"):
                opened.append(l)
            elif l.startswith("fixed:"):
                fixed.append(l)
    return fixed, opened
