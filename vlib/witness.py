"""C15: compile the witness programs against the current tree and compare with the expected verdict."""
import os, re, subprocess, glob
from .engine import REPO, WORK, VERIF


def build_rlib():
    import hashlib
    tdir = os.path.join(WORK, "c15-target" + ("" if REPO == "/repo" else "-" + hashlib.sha1(REPO.encode()).hexdigest()[:8]))
    p = subprocess.run(["cargo", "build", "--offline", "--quiet", "--lib", "--message-format=json"], cwd=REPO,
                       env=dict(os.environ, CARGO_TARGET_DIR=tdir, CARGO_NET_OFFLINE="true"),
                       capture_output=True, text=True)
    rlib = None
    import json
    for line in p.stdout.splitlines():
        try:
            m = json.loads(line)
        except ValueError:
            continue
        if m.get("reason") == "compiler-artifact" and m.get("target", {}).get("name") in ("circular_buffer", "circular-buffer"):
            for f in m.get("filenames", []):
                if f.endswith(".rlib"):
                    rlib = f
    if p.returncode != 0 or not rlib or not os.path.exists(rlib):
        return None, (p.stderr or p.stdout)[-2000:]
    return rlib, ""


def run_witness(path, rlib):
    out = os.path.join(WORK, "c15-out")
    os.makedirs(out, exist_ok=True)
    p = subprocess.run(["rustc", "--edition", "2021", "--crate-type", "lib", "--emit=metadata",
                        "--out-dir", out, "--extern", f"circular_buffer={rlib}", "--error-format=short", path],
                       capture_output=True, text=True)
    codes = sorted(set(re.findall(r"error\[(E\d+)\]", p.stderr)))
    lifetime = "lifetime may not live long enough" in p.stderr or "E0308" in p.stderr or "lifetime mismatch" in p.stderr
    return p.returncode, codes, lifetime, p.stderr


def check_all():
    """returns (results, problems). results: list of dict(name, expect, got, fact)"""
    rlib, err = build_rlib()
    if rlib is None:
        return [], [f"the crate does not build: {err}"]
    results, problems = [], []
    for path in sorted(glob.glob(os.path.join(VERIF, "witnesses", "*.rs"))):
        head = open(path).read().split("\n")[:2]
        expect = head[0].replace("// expect:", "").strip()
        fact = head[1].replace("// fact:", "").strip()
        rc, codes, lifetime, stderr = run_witness(path, rlib)
        if expect == "pass":
            ok = rc == 0
            got = "pass" if rc == 0 else "fail:" + ",".join(codes or ["lifetime" if lifetime else "?"])
        else:
            want = expect.split(":", 1)[1]
            if rc == 0:
                ok, got = False, "pass"
            elif want == "lifetime":
                ok, got = lifetime, "fail:" + ("lifetime" if lifetime else ",".join(codes))
            else:
                ok = any(c in want.split("|") for c in codes)
                got = "fail:" + ",".join(codes or ["lifetime" if lifetime else "?"])
        name = os.path.basename(path)
        results.append(dict(name=name, expect=expect, got=got, fact=fact, ok=ok))
        if not ok:
            problems.append(dict(witness=f"witnesses/{name}", fact=fact, expected=expect, got=got,
                                 diagnostics=stderr.strip()[:800]))
    return results, problems
