"""Which theorems, cases, projection and oracles decide each property."""
from . import props as P
from .engine import proj_behaviour, proj_physical, proj_ordered


def T(mod, *names):
    return [(f"CircBuf.Props.{mod}", n) for n in names]


REGISTRY = {}

REGISTRY["C01"] = dict(
    level="proof",
    theorems=T("C01", "C01_push_back", "C01_push_front", "C01_try_push_back", "C01_try_push_front",
               "C01_pop_back", "C01_pop_front", "C01_remove", "C01_swap", "C01_swap_remove_back",
               "C01_swap_remove_front", "C01_truncate_back", "C01_truncate_front", "C01_clear"),
    cases=P.cases_C01, projection=proj_behaviour, oracles=[P.o_spec, P.o_views, P.o_ledger, P.o_no_defect_panic],
)

REGISTRY["C02"] = dict(
    level="proof",
    theorems=T("C02", "C02_push_back", "C02_push_front", "C02_try_push_back", "C02_try_push_front", "inv_new"),
    cases=P.cases_C02, projection=proj_behaviour, oracles=[P.o_push_identity, P.o_views, P.o_ledger],
)

REGISTRY["C19"] = dict(
    level="proof",
    theorems=T("C19", "C19_add_mod", "C19_sub_mod"),
    cases=P.cases_C19, projection=proj_physical, oracles=[P.o_spec, P.o_no_defect_panic, P.o_ledger],
)

REGISTRY["C03"] = dict(level="proof", theorems=[], cases=P.cases_C03, projection=proj_behaviour,
                       oracles=[P.o_spec, P.o_leak, P.o_no_defect_panic])
REGISTRY["C04"] = dict(level="proof", theorems=[], cases=P.cases_C04, projection=proj_physical,
                       oracles=[P.o_spec, P.o_ledger, P.o_views, P.o_no_defect_panic])
REGISTRY["C05"] = dict(level="proof", theorems=[], cases=P.cases_C05, projection=proj_behaviour,
                       oracles=[P.o_ledger, P.o_views, P.o_no_defect_panic])
REGISTRY["C06"] = dict(level="proof", theorems=[], cases=P.cases_C06, projection=proj_behaviour,
                       oracles=[P.o_leak, P.o_views, P.o_no_defect_panic])
REGISTRY["C07"] = dict(level="proof", theorems=[], cases=P.cases_C07, projection=proj_physical,
                       oracles=[P.o_spec, P.o_views, P.o_ledger, P.o_documented_panics])
REGISTRY["C08"] = dict(level="proof", theorems=[], cases=P.cases_C08, projection=proj_behaviour,
                       oracles=[P.o_spec, P.o_views, P.o_leak, P.o_no_defect_panic])
REGISTRY["C09"] = dict(level="proof", theorems=[], cases=P.cases_C09, projection=proj_behaviour,
                       oracles=[P.o_spec, P.o_views, P.o_leak, P.o_no_defect_panic])
REGISTRY["C10"] = dict(level="proof", theorems=[], cases=P.cases_C10, projection=proj_behaviour,
                       oracles=[P.o_spec, P.o_views, P.o_ledger, P.o_no_defect_panic])
REGISTRY["C11"] = dict(level="proof", theorems=[], cases=P.cases_C11, projection=proj_behaviour,
                       oracles=[P.o_spec, P.o_documented_panics, P.o_views])
REGISTRY["C12"] = dict(level="proof", theorems=[], cases=P.cases_C12, projection=proj_behaviour,
                       oracles=[P.o_spec, P.o_leak, P.o_views, P.o_no_defect_panic])
REGISTRY["C13"] = dict(level="proof", theorems=[], cases=P.cases_C13, projection=proj_behaviour,
                       oracles=[P.o_spec, P.o_views, P.o_no_defect_panic])
REGISTRY["C14"] = dict(level="proof", theorems=[], cases=P.cases_C14, projection=proj_behaviour,
                       oracles=[P.o_spec, P.o_views, P.o_no_defect_panic])
REGISTRY["C20"] = dict(level="proof", theorems=[], cases=P.cases_C20, projection=proj_physical,
                       oracles=[P.o_spec, P.o_reloc, P.o_views])
