"""Which theorems, cases, projection and oracles decide each property."""
from . import props as P
from .engine import proj_behaviour, proj_physical, proj_ordered, proj_alloc, proj_ownership


def T(mod, *names):
    return [(f"CircBuf.Props.{mod}", n) for n in names]


def S(mod, *names):
    """theorems restated about the translated source (Props/Src/<mod>.lean)"""
    return [(f"CircBuf.Props.Src.{mod}", n + "_src") for n in names]


REGISTRY = {}

REGISTRY["C01"] = dict(
    level="proof",
    theorems=T("C01", "C01_push_back", "C01_push_front", "C01_try_push_back", "C01_try_push_front",
               "C01_pop_back", "C01_pop_front", "C01_remove", "C01_swap", "C01_swap_remove_back",
               "C01_swap_remove_front", "C01_truncate_back", "C01_truncate_front", "C01_clear",
               "C01_make_contiguous", "C01_extend", "C01_extend_from_slice", "C01_fill_spare_with", "C01_fill_with", "C01_drain",
               "C01_write", "C01_history", "C01_history_from_new", "C01_fill_spare", "C01_fill", "C01_history_full"),
    cases=P.cases_C01, projection=proj_behaviour, oracles=[P.o_spec, P.o_views, P.o_ledger, P.o_no_defect_panic],
)

REGISTRY["C02"] = dict(
    level="proof",
    theorems=T("C02", "C02_push_back", "C02_push_front", "C02_try_push_back", "C02_try_push_front", "inv_new"),
    cases=P.cases_C02, projection=proj_behaviour, oracles=[P.o_push_identity, P.o_views, P.o_ledger],
)

REGISTRY["C19"] = dict(
    level="proof",
    theorems=T("C19", "C19_add_mod", "C19_sub_mod"),
    cases=P.cases_C19, projection=proj_physical, oracles=[P.o_addmod, P.o_spec, P.o_no_defect_panic, P.o_ledger],
)

REGISTRY["C03"] = dict(level="proof", theorems=T("C03", "C03_push_back", "C03_push_front", "C03_pop_back", "C03_pop_front", "C03_remove", "C03_truncate_back", "C03_truncate_front", "C03_push_many", "C03_drain", "C03_consequences", "C03_final_drop", "C03_history", "C03_history_ledger", "C03_history_full"), cases=P.cases_C03, projection=proj_ownership,
                       oracles=[P.o_spec, P.o_leak, P.o_no_defect_panic])
REGISTRY["C04"] = dict(level="proof", cross_oracles=[P.x_hash_layout_independent], theorems=T("C04", "C04_indep", "C04_push_back", "C04_push_front", "C04_pop_back", "C04_pop_front", "C04_remove", "C04_swap_remove_back", "C04_eq", "C04_history"), cases=P.cases_C04, projection=proj_behaviour,
                       oracles=[P.o_spec, P.o_ledger, P.o_views, P.o_no_defect_panic])
REGISTRY["C05"] = dict(level="proof", theorems=T("C05", "C05_drop_range", "C05_truncate_back", "C05_truncate_front", "C05_clear", "C05_drain_drop", "C05_fill", "C05_clone_from", "C05_from_array"), cases=P.cases_C05, projection=proj_ownership,
                       oracles=[P.o_ledger, P.o_views, P.o_no_defect_panic])
REGISTRY["C06"] = dict(level="proof", theorems=T("C06", "C06_clone_in_extend_from_slice", "C06_closure", "C06_iterator", "C06_eq_readonly", "C06_clone_in_fill_spare", "C06_clone_in_fill", "C06_clone_in_clone_from", "C06_clone_in_clone"), cases=P.cases_C06, projection=proj_ownership,
                       oracles=[P.o_leak, P.o_views, P.o_no_defect_panic])
REGISTRY["C07"] = dict(level="proof", theorems=T("C07", "C07_get", "C07_front", "C07_back", "C07_nth_back", "C07_index", "C07_slot_holds", "C07_slots_distinct", "C07_as_slices", "C07_contents", "C07_write", "C07_make_contiguous"), cases=P.cases_C07, projection=proj_behaviour,
                       oracles=[P.o_spec, P.o_views, P.o_ledger, P.o_documented_panics])
REGISTRY["C08"] = dict(level="proof", theorems=T("C08", "C08_over_range", "C08_whole", "C08_next", "C08_next_back", "C08_len", "C08_default", "C08_consume_front", "C08_consume_back", "C08_exhausted", "C08_len_exact", "C08_into_iter_next", "C08_into_iter_next_back"), cases=P.cases_C08, projection=proj_behaviour,
                       oracles=[P.o_spec, P.o_views, P.o_leak, P.o_no_defect_panic])
REGISTRY["C09"] = dict(level="proof", theorems=T("C09", "C09_new", "C09_next", "C09_next_back", "C09_len", "C09_drop"), cases=P.cases_C09, projection=proj_behaviour,
                       oracles=[P.o_spec, P.o_views, P.o_leak, P.o_no_defect_panic])
REGISTRY["C10"] = dict(level="proof", theorems=T("C10", "C10_forget_safe"), cases=P.cases_C10, projection=proj_ownership,
                       oracles=[P.o_spec, P.o_views, P.o_ledger, P.o_no_defect_panic])
REGISTRY["C11"] = dict(level="proof", theorems=T("C11", "C11_swap_ok", "C11_swap_panics_i", "C11_swap_panics_j", "C11_index", "C11_range_ok", "C11_range_panics", "C11_drain_panics", "C11_backfill_total"), cases=P.cases_C11, projection=proj_behaviour,
                       oracles=[P.o_spec, P.o_documented_panics, P.o_views])
REGISTRY["C12"] = dict(level="proof", theorems=T("C12", "C12_new", "C12_from_array", "C12_from_iter", "C12_clone", "C12_clone_from", "C12_clone_values", "C12_clone_ids", "C12_to_vec", "C12_boxed"), cases=P.cases_C12, projection=proj_behaviour,
                       oracles=[P.o_spec, P.o_leak, P.o_views, P.o_no_defect_panic])
REGISTRY["C13"] = dict(level="proof", cross_oracles=[P.x_hash_layout_independent], theorems=T("C13", "C13_eq", "C13_eq_slice", "C13_cmp", "C13_lex_eq", "C13_lex_lt", "C13_hash", "C13_debug", "C13_readonly"), cases=P.cases_C13, projection=proj_behaviour,
                       oracles=[P.o_spec, P.o_views, P.o_no_defect_panic])
REGISTRY["C14"] = dict(level="proof", theorems=T("C14", "C14_write", "C14_read", "C14_fill_buf", "C14_consume"), cases=P.cases_C14, projection=proj_behaviour,
                       oracles=[P.o_spec, P.o_views, P.o_no_defect_panic])
REGISTRY["C20"] = dict(level="proof", theorems=T("C20", "C20_push_back", "C20_push_front", "C20_pop_back", "C20_pop_front", "C20_swap", "C20_remove", "C20_truncate", "C20_drain", "C20_make_contiguous"), cases=P.cases_C20, projection=proj_physical,
                       oracles=[P.o_spec, P.o_reloc, P.o_views])

IO_THEOREMS = T("C14", "C14_write", "C14_read", "C14_fill_buf", "C14_consume")
REGISTRY["C16"] = dict(level="translation_validation", theorems=IO_THEOREMS, cases=P.cases_C16, projection=proj_behaviour,
                       oracles=[P.o_spec, P.o_views, P.o_no_defect_panic],
                       variants=[dict(features=("eio", "eioa"), harness_args=("--io", "eio"), label="embedded-io"),
                                 dict(features=("eio", "eioa"), harness_args=("--io", "eioa"), label="embedded-io-async"),
                                 dict(features=("eio", "eioa"), harness_args=("--io", "std"), label="std::io (same build)"),
                                 dict(features=("eio",), harness_args=("--io", "eio"), label="embedded-io only"),
                                 dict(features=("eioa",), harness_args=("--io", "eioa"), label="embedded-io-async only")])
REGISTRY["C17"] = dict(level="other", theorems=T("C17", "C17_refines_no_event", "C17_drop_events", "C17_clone_log", "C17_boxed"), cases=P.cases_C17, projection=proj_alloc,
                       oracles=[P.o_no_alloc], extra_checks=[P.build_checks_C17],
                       explanation="runtime half: counting global allocator in the harness, allocation column compared with the model (which emits alloc only in boxed/to_vec) for every non-panicking call of the C01/C07/C08/C12/C14 case sets; build half: cargo build --no-default-features / --features alloc / default on the current tree plus a source scan that only boxed()/to_vec() name heap types (a build fact, outside any model)")
REGISTRY["C18"] = dict(level="translation_validation", theorems=[], lean_not_decisive=True, cases=P.cases_C18, projection=proj_behaviour,
                       oracles=[P.o_views, P.o_ledger, P.o_no_defect_panic],
                       reference_default_build=True,
                       variants=[dict(features=("unstable",), nightly=True, label="nightly+unstable")])

from . import c15 as _c15
REGISTRY["C15"] = dict(level="other", theorems=_c15.THEOREMS, custom=_c15.run)

REGISTRY["C01"]["theorems"] += S("C01", "C01_push_back", "C01_push_front", "C01_try_push_back", "C01_try_push_front",
                                  "C01_pop_back", "C01_pop_front", "C01_swap", "C01_swap_remove_back",
                                  "C01_swap_remove_front", "C01_truncate_back", "C01_truncate_front", "C01_clear",
                                  "C01_remove", "C01_make_contiguous")
REGISTRY["C01"]["theorems"] += [("CircBuf.Props.Src.History", "C01_history_src")]
REGISTRY["C03"]["theorems"] += [("CircBuf.Props.Src.History", "C03_history_ledger_src")]
REGISTRY["C05"]["theorems"] += S("C05", "C05_drop_range", "C05_truncate_back", "C05_truncate_front", "C05_clear")
REGISTRY["C02"]["theorems"] += S("C02", "C02_push_back", "C02_push_front", "C02_try_push_back", "C02_try_push_front")
REGISTRY["C04"]["theorems"] += S("C04", "C04_push_back", "C04_push_front", "C04_pop_back", "C04_pop_front", "C04_swap_remove_back", "C04_remove")
REGISTRY["C07"]["theorems"] += S("C07", "C07_get", "C07_front", "C07_back", "C07_nth_back", "C07_make_contiguous")
REGISTRY["C11"]["theorems"] += S("C11", "C11_swap_ok", "C11_swap_panics_i", "C11_swap_panics_j", "C11_range_ok", "C11_range_panics")
REGISTRY["C08"]["theorems"] += S("C08", "C08_over_range", "C08_whole")
REGISTRY["C08"]["theorems"] += S("C08Step", "C08_next", "C08_next_back", "C08_len", "C08_over_range_mut", "C08_whole_mut", "C08_next_mut", "C08_next_back_mut", "C08_len_mut")
REGISTRY["C01"]["theorems"] += S("C01Fill", "C01_fill_spare_with", "C01_fill_with")
REGISTRY["C06"]["theorems"] += S("C01Fill", "C06_closure")
REGISTRY["C09"]["theorems"] += S("C09", "C09_new", "C09_next", "C09_next_back", "C09_len", "C09_as_mut_slices", "C09_as_slices")
REGISTRY["C10"]["theorems"] += S("C09", "C10_forget_safe")
REGISTRY["C09"]["theorems"] += S("C09", "C09_drop")
REGISTRY["C01"]["theorems"] += S("C09", "C01_drain")
REGISTRY["C05"]["theorems"] += S("C09", "C05_drain_drop")
REGISTRY["C20"]["theorems"] += S("C09", "C20_drain")
REGISTRY["C20"]["theorems"] += S("C20", "C20_push_back", "C20_push_front", "C20_pop_back", "C20_pop_front", "C20_swap", "C20_remove", "C20_truncate", "C20_make_contiguous")

# properties about ownership / memory safety: the thorough tier also runs a sample of their cases under Miri
for _p in ("C03", "C05", "C06", "C07", "C09", "C10"):
    REGISTRY[_p]["miri"] = True

# C18: the theorems of C01-C13 are what holds for both builds through the same correspondence
REGISTRY["C18"]["theorems"] = [t for p in ("C01", "C02", "C03", "C04", "C05", "C06", "C07", "C08", "C09", "C10",
                                           "C11", "C12", "C13") for t in REGISTRY[p]["theorems"]]
