"""Case generators: every case is a list of protocol lines whose first line is `case N kind`.

All random choices derive from the seed passed in; exhaustive parts ignore it.
"""
import itertools, random

MAX = 18446744073709551615


def layout_prefix(n, start, size, kind='t', first_val=1):
    """lines that bring a fresh buffer of capacity n to front position `start` holding `size` elements"""
    lines = [f"case {n} {kind}"]
    for _ in range(start):
        lines.append("push_back 0")
        lines.append("pop_front")
    for i in range(size):
        lines.append(f"push_back {first_val + i}")
    return lines


def layouts(n):
    if n == 0:
        return [(0, 0)]
    return [(st, sz) for st in range(n) for sz in range(n + 1)]


def idx_args(size):
    """index arguments: everything in range, the two just outside, usize::MAX"""
    return list(range(size + 2)) + [MAX]


BOUND_FORMS = ['u', 'i', 'x']


def range_forms(a, b, size):
    """every RangeBounds spelling of the half-open range a..b on a buffer of length `size`"""
    out = []
    starts = [f"i{a}"] + ([f"x{a-1}"] if a >= 1 else []) + (["u"] if a == 0 else [])
    ends = [f"x{b}"] + ([f"i{b-1}"] if b >= 1 else []) + (["u"] if b == size else [])
    for s in starts:
        for e in ends:
            out.append((s, e))
    return out


def invalid_ranges(size):
    out = [(f"i{size+1}", "u"), ("u", f"x{size+1}"), ("u", f"i{size}"), (f"x{size}", "u"),
           (f"x{MAX}", "u"), ("u", f"i{MAX}"), (f"i{MAX}", f"x{MAX}"), (f"i0", f"x{MAX}")]
    if size >= 1:
        out += [(f"i{size}", f"x{size-1}"), ("i1", "x0"), (f"x0", "x0")]
    out += [("i1", "x0")] if size == 0 else []
    return out


def scripts(alphabet, maxlen):
    for l in range(maxlen + 1):
        for t in itertools.product(alphabet, repeat=l):
            yield ''.join(t) if t else '-'


def fb_scripts(n):
    """all next/next_back interleavings of length 0..n"""
    return list(scripts('FB', n))


def mutator_ops(n, size):
    """single mutating operations with every interesting argument, for a buffer of capacity n holding `size`"""
    ops = ["push_back 9", "push_front 9", "try_push_back 9", "try_push_front 9", "pop_back", "pop_front"]
    for i in idx_args(size):
        ops += [f"remove {i}", f"swap_remove_back {i}", f"swap_remove_front {i}",
                f"truncate_back {i}", f"truncate_front {i}"]
    for i in idx_args(size):
        for j in idx_args(size):
            ops.append(f"swap {i} {j}")
    ops += ["clear", "fill 9", "fill_spare 9", "fill_with", "fill_spare_with", "make_contiguous"]
    for m in range(2 * n + 2):
        ops += [f"extend {m}", f"extend_from_slice {m}"]
    for i in idx_args(size):
        ops += [f"get_mut {i}", f"nth_front_mut {i}", f"nth_back_mut {i}", f"index_mut {i}"]
    ops += ["front_mut", "back_mut", "as_mut_slices", "iter_mut FBFB"]
    for a in range(size + 1):
        for b in range(a, size + 1):
            ops.append(f"drain i{a} x{b} - drop")
            ops.append(f"drain i{a} x{b} F drop")
            ops.append(f"drain i{a} x{b} BF drop")
    return ops


def view_ops(n, size):
    ops = ["front", "back", "as_slices", "len", "to_vec", "debug", "hash", "clone",
           "iter " + "F" * (size + 1), "iter " + "B" * (size + 1), "make_contiguous"]
    for i in idx_args(size):
        ops += [f"get {i}", f"nth_front {i}", f"nth_back {i}", f"index {i}",
                f"get_mut {i}", f"nth_front_mut {i}", f"nth_back_mut {i}", f"index_mut {i}"]
    ops += ["front_mut", "back_mut", "as_mut_slices", "iter_mut " + "F" * (size + 1),
            "iter_mut " + "B" * (size + 1)]
    for a in range(size + 1):
        for b in range(a, size + 1):
            ops.append(f"range i{a} x{b} " + "F" * (b - a + 1))
            ops.append(f"range_mut i{a} x{b} " + "B" * (b - a + 1))
    # the two bounds whose `+ 1` leaves the machine word (seeded changes C07-I / C08-I / C11-B: `wrapping_add`,
    # `saturating_add` in `translate_range_bounds` — wrong for exactly these)
    ops += [f"range x{MAX} u F", f"range_mut x{MAX} u F", f"range u i{MAX} F", f"range_mut u i{MAX} F",
            f"range i{MAX} u F", f"range u x{MAX} F"]
    return ops


def rand_history(rng, n, length, kind='t'):
    """a mostly-valid random history"""
    lines = [f"case {n} {kind}"]
    size = 0
    for _ in range(length):
        r = rng.random()
        big = rng.random() < 0.05
        def idx():
            if big:
                return rng.choice([size, size + 1, MAX])
            return rng.randrange(size) if size else 0
        if r < 0.22:
            lines.append(f"push_back {rng.randrange(1, 50)}"); size = min(n, size + 1)
        elif r < 0.34:
            lines.append(f"push_front {rng.randrange(1, 50)}"); size = min(n, size + 1)
        elif r < 0.40:
            lines.append(rng.choice(["try_push_back 7", "try_push_front 7"])); size = min(n, size + 1)
        elif r < 0.50:
            lines.append(rng.choice(["pop_back", "pop_front"])); size = max(0, size - 1)
        elif r < 0.56:
            i = idx(); lines.append(f"remove {i}")
            if i < size: size -= 1
        elif r < 0.60:
            i = idx(); lines.append(rng.choice(["swap_remove_back", "swap_remove_front"]) + f" {i}")
            if i < size: size -= 1
        elif r < 0.64:
            if size:
                lines.append(f"swap {idx()} {idx()}")
        elif r < 0.68:
            k = rng.randrange(size + 2)
            lines.append(rng.choice(["truncate_back", "truncate_front"]) + f" {k}"); size = min(size, k)
        elif r < 0.73:
            m = rng.randrange(0, 2 * n + 2) if n <= 8 else rng.randrange(0, 12)
            lines.append(rng.choice(["extend", "extend_from_slice"]) + f" {m}"); size = min(n, size + m)
        elif r < 0.80:
            a = rng.randrange(size + 1); b = rng.randrange(a, size + 1)
            sc = ''.join(rng.choice('FB') for _ in range(rng.randrange(0, b - a + 2))) or '-'
            lines.append(f"drain i{a} x{b} {sc} drop"); size -= (b - a)
        elif r < 0.83:
            lines.append("make_contiguous")
        elif r < 0.86:
            lines.append(rng.choice(["as_slices", "len", "front", "back", "iter FBFB", "clone"]))
        elif r < 0.89:
            lines.append(f"get_mut {idx()}")
        elif r < 0.91 and n <= 16:
            lines.append(rng.choice(["fill_spare 5", "fill_spare_with"])); size = n
        elif r < 0.92:
            lines.append("clear"); size = 0
        else:
            i = idx(); lines.append(rng.choice([f"get {i}", f"nth_back {i}", f"nth_front {i}"]))
    lines.append("drop")
    return lines
