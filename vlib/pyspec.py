"""The documented abstract semantics of the crate, written directly on Python lists: a deque of at
most `cap` elements (each an (id, val) pair) plus the element-id counter of the protocol.

This is the implementation-side *oracle* for the behavioural properties: it predicts, for every
un-faulted protocol line, the return value (without physical slot numbers), the logical contents
afterwards and the multiset of lifecycle events.  It knows nothing about front positions, slots or
modular arithmetic.  After a line with an injected fault (whose outcome the properties only
constrain, not determine) it re-synchronises with the observed contents.
"""
import re
from .gen import MAX


def show(e):
    return f"{e[0]}:{e[1]}"


def owned(o):
    return "N" if o is None else f"S({show(o)})"


def bound_start(b):
    if b == "u":
        return 0
    k = int(b[1:])
    return k if b[0] == "i" else k + 1


def bound_end(b, n):
    if b == "u":
        return n
    k = int(b[1:])
    return k + 1 if b[0] == "i" else k


def range_panic(sb, eb, n):
    if sb[0] == "x" and int(sb[1:]) >= MAX:
        return "P:range_start_overflow"
    if eb[0] == "i" and int(eb[1:]) >= MAX:
        return "P:range_end_overflow"
    s, e = bound_start(sb), bound_end(eb, n)
    if e > n:
        return "P:range_end"
    if s > e:
        return "P:range_order"
    return None


class Spec:
    def __init__(self, cap, kind):
        self.cap, self.kind = cap, kind
        self.xs = []
        self.next = 1

    # ---- ids / events
    def fresh(self):
        if self.kind not in ("t", "p"):
            return 0
        i = self.next
        self.next += 1
        return i

    def given(self, val, ev):
        i = self.fresh()
        if self.kind not in ("b", "u"):
            ev.append(f"G{i}")
        return (i, 0 if self.kind == "z" else val)

    def silent(self, val):
        return (self.fresh(), 0 if self.kind == "z" else val)

    def produced(self, ev):
        if self.kind not in ("t", "p"):
            return (0, 0)
        i = self.fresh()
        ev.append(f"G{i}")
        return (i, i)

    def clone(self, e, ev):
        if self.kind not in ("t", "p"):
            return e
        i = self.fresh()
        ev.append(f"C{i}<{e[0]}")
        return (i, e[1])

    def drop(self, e, ev):
        if self.kind in ("t", "z"):
            ev.append(f"D{e[0]}")

    # ---- core
    def push_back(self, e, ev, discard=False):
        if self.cap == 0:
            r = e
        elif len(self.xs) >= self.cap:
            r = self.xs.pop(0)
            self.xs.append(e)
        else:
            self.xs.append(e)
            r = None
        if discard and r is not None:
            self.drop(r, ev)
        return r

    def push_front(self, e):
        if self.cap == 0:
            return e
        if len(self.xs) >= self.cap:
            r = self.xs.pop()
            self.xs.insert(0, e)
            return r
        self.xs.insert(0, e)
        return None

    def consume(self, items, script, ev, ref=True, fmt_events=True, mut=False):
        """double-ended consumption of `items` (a list) by a script; returns tokens and the rest"""
        toks = []
        items = list(items)
        for c in script:
            if c == "F":
                if items:
                    e = items.pop(0); toks.append(f"F({show(e)})")
                else:
                    toks.append("F-")
            elif c == "B":
                if items:
                    e = items.pop(); toks.append(f"B({show(e)})")
                else:
                    toks.append("B-")
            elif c == "L":
                toks.append(f"L{len(items)}")
            elif c == "C":
                toks.append("C[" + " ".join(show(e) for e in items) + "]")
            elif c == "D":
                toks.append("D[" + ",".join(f"T{e[0]}:{e[1]}" for e in items) + "]")
                if self.kind != "b":
                    ev += [f"F{e[0]}" for e in items]
            else:
                toks.append("?")
        return toks, items

    def step(self, line):
        """returns (ret, events) or None when the line's outcome is not determined by the abstract
        semantics (then the caller re-synchronises)"""
        t = [x for x in line.split() if not x.startswith("!")]
        if any(x.startswith("!") for x in line.split()):
            return None
        op, a = t[0], t[1:]
        ev = []
        xs = self.xs
        n = len(xs)
        bump = (lambda v: v) if self.kind == "z" else ((lambda v: (v + 1000) % 256) if self.kind == "b" else (lambda v: v + 1000))
        if op == "push_back":
            e = self.given(int(a[0]), ev); return owned(self.push_back(e, ev)), ev
        if op == "push_front":
            e = self.given(int(a[0]), ev); return owned(self.push_front(e)), ev
        if op in ("try_push_back", "try_push_front"):
            e = self.given(int(a[0]), ev)
            if n >= self.cap:
                return f"Err({show(e)})", ev
            if op == "try_push_back": xs.append(e)
            else: xs.insert(0, e)
            return "Ok", ev
        if op == "pop_back":
            return owned(xs.pop() if xs else None), ev
        if op == "pop_front":
            return owned(xs.pop(0) if xs else None), ev
        if op == "remove":
            i = int(a[0]); return owned(xs.pop(i) if i < n else None), ev
        if op == "swap":
            i, j = int(a[0]), int(a[1])
            if i >= n: return "P:swap_i", ev
            if j >= n: return "P:swap_j", ev
            xs[i], xs[j] = xs[j], xs[i]; return "-", ev
        if op == "swap_remove_back":
            i = int(a[0])
            if i >= n: return "N", ev
            xs[i], xs[n - 1] = xs[n - 1], xs[i]; return owned(xs.pop()), ev
        if op == "swap_remove_front":
            i = int(a[0])
            if i >= n: return "N", ev
            xs[i], xs[0] = xs[0], xs[i]; return owned(xs.pop(0)), ev
        if op == "truncate_back":
            k = int(a[0])
            for e in xs[k:]: self.drop(e, ev)
            del xs[k:]; return "-", ev
        if op == "truncate_front":
            k = int(a[0])
            d = max(n - k, 0)
            for e in xs[:d]: self.drop(e, ev)
            del xs[:d]; return "-", ev
        if op == "clear":
            for e in xs: self.drop(e, ev)
            xs.clear(); return "-", ev
        if op in ("fill", "fill_spare"):
            v = self.given(int(a[0]), ev)
            if op == "fill":
                for e in xs: self.drop(e, ev)
                xs.clear()
            if self.cap == 0 or len(xs) == self.cap:
                self.drop(v, ev)
            else:
                while len(xs) < self.cap - 1:
                    xs.append(self.clone(v, ev))
                xs.append(v)
            return "-", ev
        if op in ("fill_with", "fill_spare_with"):
            if op == "fill_with":
                for e in xs: self.drop(e, ev)
                xs.clear()
            if self.cap:
                while len(xs) < self.cap:
                    xs.append(self.produced(ev))
            return "-", ev
        if op == "extend":
            for _ in range(int(a[0])):
                self.push_back(self.produced(ev), ev, discard=True)
            return "-", ev
        if op == "extend_from_slice":
            src = [self.silent(70 + i) for i in range(int(a[0]))]
            if self.cap:
                m = len(src)
                if m >= self.cap:
                    for e in xs: self.drop(e, ev)
                    xs.clear(); src = src[m - self.cap:]
                else:
                    over = max(len(xs) + m - self.cap, 0)
                    for e in xs[:over]: self.drop(e, ev)
                    del xs[:over]
                for e in src:
                    xs.append(self.clone(e, ev))
            return "-", ev
        if op == "make_contiguous":
            return "[" + " ".join(show(e) for e in xs) + "]", ev
        if op in ("get", "nth_front", "index", "get_mut", "nth_front_mut", "index_mut", "nth_back", "nth_back_mut"):
            i = int(a[0])
            if op.startswith("nth_back"):
                i = n - 1 - i if i < n else n
            if i >= n:
                return ("P:index" if op.startswith("index") else "N"), ev
            r = f"S({show(xs[i])})"
            if op.endswith("_mut"):
                xs[i] = (xs[i][0], bump(xs[i][1]))
            return r, ev
        if op in ("front", "front_mut", "back", "back_mut"):
            if not xs: return "N", ev
            i = 0 if op.startswith("front") else n - 1
            r = f"S({show(xs[i])})"
            if op.endswith("_mut"):
                xs[i] = (xs[i][0], bump(xs[i][1]))
            return r, ev
        if op == "fill_buf":
            return ("PREFIX", [show(e) for e in xs]), ev
        if op in ("as_slices", "as_mut_slices"):
            r = "[" + " ".join(show(e) for e in xs) + "]"
            if op == "as_mut_slices":
                self.xs = [(e[0], bump(e[1])) for e in xs]
            return ("SPLIT", r), ev
        if op in ("iter", "iter_mut", "range", "range_mut"):
            if op.startswith("range"):
                p = range_panic(a[0], a[1], n)
                if p: return p, ev
                lo, hi = bound_start(a[0]), bound_end(a[1], n)
                sc = a[2]
            else:
                lo, hi, sc = 0, n, a[0]
            sc = "" if sc == "-" else sc
            idx = list(range(lo, hi))
            toks = []
            for c in sc:
                if c in "FB":
                    if idx:
                        i = idx.pop(0) if c == "F" else idx.pop()
                        toks.append(f"{c}({show(self.xs[i])})")
                        if op.endswith("_mut"):
                            self.xs[i] = (self.xs[i][0], bump(self.xs[i][1]))
                    else:
                        toks.append(c + "-")
                elif c == "L":
                    toks.append(f"L{len(idx)}")
                elif c == "C":
                    toks.append("C[" + " ".join(show(self.xs[i]) for i in idx) + "]" if not op.endswith("_mut") else "?")
                elif c == "D":
                    toks.append("D[" + ",".join(f"T{self.xs[i][0]}:{self.xs[i][1]}" for i in idx) + "]")
                    if self.kind != "b":
                        ev += [f"F{self.xs[i][0]}" for i in idx]
            return ";".join(toks), ev
        if op == "iter_default":
            return "L0;F-;B-", ev
        if op == "drain":
            p = range_panic(a[0], a[1], n)
            if p: return p, ev
            lo, hi = bound_start(a[0]), bound_end(a[1], n)
            sc = "" if a[2] == "-" else a[2]
            toks, rest = self.consume(xs[lo:hi], sc, ev)
            if a[3] == "drop":
                for e in rest: self.drop(e, ev)
                self.xs = xs[:lo] + xs[hi:]
            else:
                self.xs = []          # a leaked drain leaves an empty (but valid) buffer
            return ";".join(toks), ev
        if op == "into_iter":
            sc = "" if a[0] == "-" else a[0]
            toks, rest = self.consume(xs, sc, ev)
            for e in rest: self.drop(e, ev)
            self.xs = []
            return ";".join(toks), ev
        if op == "clone":
            c = [self.clone(e, ev) for e in xs]
            for e in c: self.drop(e, ev)
            return ("CLONE", "[" + " ".join(show(e) for e in c) + "]"), ev
        if op == "clone_from":
            for _ in range(int(a[0])): self.fresh()
            src = [self.silent(int(v)) for v in a[1:]]
            src = src[max(len(src) - self.cap, 0):]
            for e in xs: self.drop(e, ev)
            self.xs = [self.clone(e, ev) for e in src]
            return "-", ev
        if op == "to_vec":
            c = [self.clone(e, ev) for e in xs]
            for e in c: self.drop(e, ev)
            return "[" + " ".join(show(e) for e in c) + "]", ev
        if op == "from_array":
            es = [self.given(int(v), ev) for v in a]
            k = max(len(es) - self.cap, 0)
            for e in es[:k]: self.drop(e, ev)
            self.xs = es[k:]
            return "-", ev
        if op == "from_iter":
            self.xs = []
            for _ in range(int(a[0])):
                self.push_back(self.produced(ev), ev, discard=True)
            return "-", ev
        if op in ("eq", "cmp"):
            m = int(a[0])
            for _ in range(int(a[1])): self.fresh()
            other = [self.silent(int(v)) for v in a[2:]]
            other = other[max(len(other) - m, 0):]
            mine = [e[1] for e in xs]; theirs = [e[1] for e in other]
            if op == "eq":
                return ("true" if mine == theirs else "false"), None   # compare events are not predicted
            return ("L" if mine < theirs else ("G" if mine > theirs else "E")), None
        if op == "eq_slice":
            other = [self.silent(int(v)) for v in a]
            return ("true" if [e[1] for e in xs] == [e[1] for e in other] else "false"), None
        if op == "hash":
            # what is fed to the hasher must be a function of the contents (checked across layouts by
            # the C13 cross-case oracle); its exact shape is not part of any property
            return ("ANY", None), None
        if op == "debug":
            if self.kind != "b":
                ev += [f"F{e[0]}" for e in xs]
            return "[" + ",".join(f"T{e[0]}:{e[1]}" for e in xs) + "]", ev
        if op == "write":
            m, v0 = int(a[0]), int(a[1])
            src = [(0, (v0 + i) % 256) for i in range(m)]
            if self.cap:
                self.xs = (xs + src)[max(n + m - self.cap, 0):] if m < self.cap else src[m - self.cap:]
            return str(m), ev
        if op == "read":
            k = min(int(a[0]), n)
            out = xs[:k]; del xs[:k]
            return f"{k}:[" + " ".join(str(e[1]) for e in out) + "]", ev
        if op == "consume":
            k = min(int(a[0]), n); del xs[:k]; return "-", ev
        if op == "flush":
            return "-", ev
        if op == "extend_ref":
            m, v0 = int(a[0]), int(a[1])
            src = [(0, (v0 + i) % 256) for i in range(m)]
            if self.cap:
                self.xs = (xs + src)[-self.cap:]
            return "-", ev
        if op == "default":
            return f"0 0 true {self.cap}", ev
        if op == "boxed":
            return ("BOXED", "0"), ev
        if op == "junk":
            return "-", ev
        if op == "drop":
            for e in xs: self.drop(e, ev)
            self.xs = []; return "-", ev
        if op == "len":
            return f"{n} {'true' if n == 0 else 'false'} {'true' if n == self.cap else 'false'} {self.cap}", ev
        return None


_slot = re.compile(r"@\d+\(")
_slot2 = re.compile(r"(?<=[\[ ])\d+:(?=\d+:\d+)")


def strip(ret):
    return _slot2.sub("", _slot.sub("(", ret))


def check_case(case, out, Line):
    """compare an implementation trace with the abstract semantics; returns problems"""
    problems = []
    t = case[0].split()
    if t[0] != "case":
        return problems
    sp = Spec(int(t[1]), t[2])
    for op, raw in zip(case[1:], out[1:]):
        l = Line(raw)
        if l.crash:
            problems.append(f"crash at `{op}`: {l.raw}")
            break
        before = list(sp.xs)
        r = sp.step(op)
        got_contents = [(int(w[1]), int(w[2])) for w in l.window if len(w) == 3]
        if r is None or l.ret in ("P:drop", "P:clone", "P:call", "P:next", "P:eq"):
            # faulted / undetermined: resynchronise ids and contents with what was observed
            sp.xs = got_contents
            ids = [int(x) for x in re.findall(r"[GC](\d+)", " ".join(l.events))]
            if ids:
                sp.next = max(sp.next, max(ids) + 1)
            sp.next = max([sp.next] + [i + 1 for i, _ in got_contents if i < 900000])
            continue
        ret, ev = r
        got = strip(l.ret)
        if isinstance(ret, tuple):
            tag, val = ret
            if tag == "SPLIT":
                got = got.replace("]/[", " ").replace("[ ", "[").replace(" ]", "]")
                ret = val
            elif tag == "PREFIX":
                items = got[1:-1].split(" ") if got != "[]" else []
                okp = items == val[:len(items)] and (bool(items) == bool(val))
                if not okp:
                    problems.append(f"`{op}` on contents {before}: returned {got}, expected a non-empty prefix of {val}")
                ret = got
            elif tag == "ANY":
                ret = got
            elif tag == "CLONE":
                got = " ".join(got.split(" ")[2:]); ret = val
            elif tag == "BOXED":
                got = got.split(" ")[1] if " " in got else got; ret = val
        if isinstance(ret, str) and ret.startswith("P:"):
            from .engine import canon_panic
            ret = canon_panic(ret)
        if got != ret:
            problems.append(f"`{op}` on contents {before} (cap {sp.cap}): returned {got}, the sequence semantics give {ret}")
        if got_contents != sp.xs:
            problems.append(f"`{op}` on contents {before} (cap {sp.cap}): contents afterwards {got_contents}, the sequence semantics give {sp.xs}")
            sp.xs = got_contents
        if ev is not None:
            ge = sorted(e for e in l.events if e[0] in "GCD")
            ee = sorted(e for e in ev if e[0] in "GCD")
            if ge != ee:
                problems.append(f"`{op}` on contents {before}: lifecycle events {ge}, expected {ee}")
        if len(problems) > 3:
            break
    return problems
