"""C15: type-level contracts. Lean theorems (decide) on T2-translated definitions + rustc witnesses."""
import json, os, sys, time
from . import engine as E
from . import witness

THEOREMS = [("CircBuf.Props.C15", "Ty." + n) for n in [
    "C15_buffer_covariant", "C15_into_iter_covariant", "C15_iter_covariant_T", "C15_iter_covariant_lt",
    "C15_iter_mut_invariant_T", "C15_iter_mut_covariant_lt", "C15_drain_covariant_T", "C15_drain_covariant_lt",
    "C15_buffer_send", "C15_buffer_sync", "C15_into_iter_send", "C15_into_iter_sync", "C15_iter_send",
    "C15_iter_sync", "C15_iter_mut_send", "C15_iter_mut_sync", "C15_shared_views", "C15_exclusive_views",
    "C15_new_const", "C15_iter_clone_unbounded"]]


def run(pid, tier, seed, args):
    t0 = time.time()
    broken, notes = [], []
    rc, out, err = E.sh([sys.executable, os.path.join(E.VERIF, "translate", "t2_typedefs.py"),
                         os.path.join(E.REPO, "src"),
                         os.path.join(E.LEAN, "CircBuf", "Generated", "TypeDefs.lean")])
    notes.append((out + err).strip())
    if rc != 0:
        broken.append("translator:T2(type definitions): " + (out + err).strip())
    discharged = 0
    axioms = {}
    ok, log = E.lake_build(["CircBuf.Props.C15"])
    if not ok:
        import re
        failed = sorted(set(re.findall(r"error: (CircBuf/[\w/]+\.lean:\d+)", log)))
        # name the theorems at those lines
        src = open(os.path.join(E.LEAN, "CircBuf", "Props", "C15.lean")).read().split("\n")
        names = []
        for f in failed:
            if "Props/C15.lean" in f:
                ln = int(f.split(":")[1])
                for k in range(ln - 1, -1, -1):
                    m = re.match(r"theorem (\w+)", src[k]) if k < len(src) else None
                    if m:
                        names.append("theorem:" + m.group(1)); break
        broken.append("lake build CircBuf.Props.C15 failed: " + ", ".join(names or failed or ["see log"]))
    else:
        hits = E.grep_forbidden()
        if hits:
            broken.append("forbidden construct: " + "; ".join(hits[:5]))
        axioms, _ = E.audit_axioms(THEOREMS)
        for t, a in axioms.items():
            if a is None:
                broken.append(f"theorem:{t} missing")
            elif not set(a) <= E.ALLOWED_AXIOMS:
                broken.append(f"theorem:{t} uses axioms {a}")
            else:
                discharged += 1
    results, problems = witness.check_all()
    violations = []
    if problems:
        path = E.write_replay(pid, "witness", dict(
            failing_witnesses=problems, broken_obligations=broken,
            replay_cmd="rustc --edition 2021 --crate-type lib --emit=metadata --extern circular_buffer=<rlib of /repo> <witness file>"))
        violations.append((path, ""))
    elif broken:
        path = E.write_replay(pid, "proof-obligation", dict(broken=broken, log=log[-3000:] if not ok else "",
                                                            note="all witness programs still behave as expected"))
        violations.append((path, " no-failing-input-found"))
    ev = dict(property_id=pid, tier=tier, seed=seed, level="other", coverage=dict(
        explanation="The contracts are facts of the type definitions and signatures. T2 (translate/t2_typedefs.py) re-translates every pub struct, impl header and pub fn signature of src/{lib,iter,drain}.rs into Lean data on every run; 20 theorems (Props/C15.lean) decide variance, Send/Sync conditions, borrow ties of all view-returning methods, const-ness of new() and the bound-free Clone impl of Iter on that data by kernel evaluation (decide). The variance/auto-trait calculus (Types.lean) is a model of rustc that is validated, not verified: 32 witness programs (witnesses/*.rs), each naming the fact it exercises, are compiled against the current tree with rustc --emit=metadata and must be accepted / rejected with the expected diagnostic.",
        obligations=len(THEOREMS), discharged=discharged,
        checker_cmd="cd lean/CircBuf && lake build CircBuf.Props.C15 && #print axioms on each theorem",
        trusted_base=["Lean 4.33.0 kernel", "axioms: " + json.dumps(axioms), "T2 translator", "variance / auto-trait calculus of CircBuf/Types.lean (validated by the witnesses)", "rustc as the oracle for the witnesses"],
        programs=len(results), disagreements_checked=len(problems),
        evaluations=len(results), distinct_nontrivial=len(results),
        rule="one witness program per contract (accept or reject with a given diagnostic); all are distinct source files",
        samples=[r for r in results[:3]], witnesses=results, proof_obligations_broken=broken, notes=notes),
        assumptions=["rustc's borrow checker and trait solver are the ground truth for the witnesses"],
        wall_s=round(time.time() - t0, 2), violations=len(violations))
    E.write_evidence(pid, ev)
    for path, suffix in violations:
        print(f"VIOLATION property={pid} replay={os.path.relpath(path, E.VERIF)}{suffix}")
    if not violations:
        print(f"{pid}: ok — {discharged}/{len(THEOREMS)} theorems checked on the translated definitions, {len(results)} witness programs behave as predicted, {time.time()-t0:.1f}s")
    return 1 if violations else 0
