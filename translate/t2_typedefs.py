#!/usr/bin/env python3
"""T2: translate the public type definitions, impl headers and method signatures of
/repo/src/{lib,iter,drain}.rs into Lean data (CircBuf/Generated/TypeDefs.lean).

The theorems of CircBuf/Props/C15.lean (variance, auto traits, borrow ties, const-ness, Clone bounds)
are decided on this *regenerated* data, so a change to a struct field, an impl header or a signature
changes what the theorems are about.

usage: t2_typedefs.py <repo/src dir> <out.lean>      exit 0 ok, 3 = cannot translate
"""
import re, sys, os


class TErr(Exception):
    pass


def strip_comments(src):
    src = re.sub(r"//[^\n]*", "", src)
    src = re.sub(r"/\*.*?\*/", "", src, flags=re.S)
    return src


# ------------------------------------------------------------------ type parser
class TP:
    def __init__(self, s):
        self.s = s.strip()
        self.i = 0

    def ws(self):
        while self.i < len(self.s) and self.s[self.i].isspace():
            self.i += 1

    def peek(self, k=1):
        self.ws()
        return self.s[self.i:self.i + k]

    def eat(self, t):
        self.ws()
        if not self.s.startswith(t, self.i):
            raise TErr(f"expected {t!r} at {self.s[self.i:self.i+20]!r} in {self.s!r}")
        self.i += len(t)

    def ident(self):
        self.ws()
        m = re.match(r"[A-Za-z_][A-Za-z0-9_]*", self.s[self.i:])
        if not m:
            raise TErr(f"identifier expected at {self.s[self.i:self.i+20]!r}")
        self.i += m.end()
        return m.group(0)

    def lifetime(self):
        self.ws()
        m = re.match(r"'[A-Za-z_][A-Za-z0-9_]*", self.s[self.i:])
        if not m:
            return None
        self.i += m.end()
        return m.group(0)

    def ty(self):
        self.ws()
        if self.peek() == "&":
            self.eat("&")
            lt = self.lifetime() or "'_"
            self.ws()
            mut = False
            if re.match(r"mut\b", self.s[self.i:]):
                self.i += 3
                mut = True
            inner = self.ty()
            return ("refmut" if mut else "ref", lt, inner)
        if self.peek() == "[":
            self.eat("[")
            inner = self.ty()
            self.ws()
            if self.peek() == ";":
                # array length expression: skip to the matching bracket
                depth = 0
                while self.i < len(self.s):
                    c = self.s[self.i]
                    if c == "[": depth += 1
                    if c == "]":
                        if depth == 0: break
                        depth -= 1
                    self.i += 1
                self.eat("]")
                return ("array", inner)
            self.eat("]")
            return ("slice", inner)
        if self.peek() == "*":
            self.eat("*")
            self.ws()
            if re.match(r"mut\b", self.s[self.i:]):
                self.i += 3
                return ("rawmut", self.ty())
            self.eat("const")
            return ("rawconst", self.ty())
        if self.peek() == "(":
            self.eat("(")
            items = []
            self.ws()
            while self.peek() != ")":
                items.append(self.ty())
                self.ws()
                if self.peek() == ",":
                    self.eat(",")
            self.eat(")")
            return ("tuple", items)
        # path
        name = self.ident()
        while self.peek(2) == "::":
            self.eat("::")
            name = self.ident()          # keep the last segment
        args = []
        self.ws()
        if self.peek() == "<":
            self.eat("<")
            while True:
                self.ws()
                if self.peek() == ">":
                    break
                lt = self.lifetime()
                if lt:
                    args.append(("lt", lt))
                elif self.peek() == "{":
                    depth = 0
                    while True:
                        c = self.s[self.i]
                        depth += (c == "{") - (c == "}")
                        self.i += 1
                        if depth == 0: break
                    args.append(("const",))
                else:
                    t = self.ty()
                    args.append(t)
                self.ws()
                if self.peek() == ",":
                    self.eat(",")
            self.eat(">")
        return ("path", name, args)


def parse_ty(s):
    p = TP(s)
    t = p.ty()
    p.ws()
    if p.i != len(p.s):
        raise TErr(f"trailing text in type {s!r}")
    return t


def split_top(s, sep=","):
    out, depth, cur = [], 0, ""
    for c in s:
        if c in "<([{": depth += 1
        if c in ">)]}": depth -= 1
        if c == sep and depth == 0:
            out.append(cur); cur = ""
        else:
            cur += c
    if cur.strip():
        out.append(cur)
    return [x.strip() for x in out]


def generics(g):
    """'a, const N: usize, T  ->  (lifetimes, consts, type params)"""
    lts, consts, tps = [], [], []
    for item in split_top(g or ""):
        if not item: continue
        if item.startswith("'"):
            lts.append(item.split(":")[0].strip())
        elif item.startswith("const "):
            consts.append(item[6:].split(":")[0].strip())
        else:
            tps.append(item.split(":")[0].strip())
    return lts, consts, tps


# ------------------------------------------------------------------ Lean emission
def lean_str(s):
    return '"' + s.replace("\\", "\\\\").replace('"', '\\"') + '"'


def lean_ty(t, consts, tparams):
    k = t[0]
    if k in ("ref", "refmut"):
        return f"(.{'refMut' if k == 'refmut' else 'ref'} {lean_str(t[1])} {lean_ty(t[2], consts, tparams)})"
    if k in ("array", "slice", "rawmut", "rawconst"):
        c = {"array": "array", "slice": "slice", "rawmut": "rawMut", "rawconst": "rawConst"}[k]
        return f"(.{c} {lean_ty(t[1], consts, tparams)})"
    if k == "tuple":
        return "(.tuple [" + ", ".join(lean_ty(x, consts, tparams) for x in t[1]) + "])"
    if k == "path":
        name, args = t[1], t[2]
        if name in ("usize", "u8", "bool", "u32", "u64", "isize") and not args:
            return ".prim"
        if name in tparams and not args:
            return f"(.param {lean_str(name)})"
        if name in consts and not args:
            return ".prim"
        largs = []
        for a in args:
            if a[0] == "lt":
                largs.append(f"(.lifetime {lean_str(a[1])})")
            elif a[0] == "const":
                largs.append(".prim")
            elif a[0] == "path" and a[1] in consts and not a[2]:
                continue          # const generic argument: not a type
            else:
                largs.append(lean_ty(a, consts, tparams))
        return f"(.app {lean_str(name)} [" + ", ".join(largs) + "])"
    raise TErr(f"cannot emit {t}")


def ret_borrows(t):
    """does the return type mention an elided / anonymous lifetime (so that it borrows from self)?"""
    k = t[0]
    if k in ("ref", "refmut"):
        return t[1] == "'_" or ret_borrows(t[2])
    if k in ("array", "slice", "rawmut", "rawconst"):
        return ret_borrows(t[1])
    if k == "tuple":
        return any(ret_borrows(x) for x in t[1])
    if k == "path":
        return any((a[0] == "lt" and a[1] == "'_") or (a[0] not in ("lt", "const") and ret_borrows(a)) for a in t[2])
    return False


def main():
    srcdir, out = sys.argv[1], sys.argv[2]
    structs, methods, impls = [], [], []
    try:
        for fn in ("lib.rs", "iter.rs", "drain.rs"):
            src = strip_comments(open(os.path.join(srcdir, fn)).read())
            # public structs
            for m in re.finditer(r"pub\s+struct\s+(\w+)\s*(?:<([^{>]*(?:<[^>]*>[^{>]*)*)>)?\s*\{([^}]*)\}", src):
                name, g, body = m.group(1), m.group(2), m.group(3)
                lts, consts, tps = generics(g)
                fields = []
                for f in split_top(body):
                    if not f: continue
                    f = re.sub(r"^pub(\([^)]*\))?\s+", "", f)
                    fname, fty = f.split(":", 1)
                    fields.append((fname.strip(), parse_ty(fty)))
                structs.append((name, lts, consts, tps, fields))
            # impl headers
            for m in re.finditer(r"\bimpl\s*(?:<([^{]*?)>)?\s+([\w:]+(?:<[^{]*?>)?)\s+for\s+(\w+)[^{]*?(?:where([^{]*))?\{", src):
                g, trait, target, where = m.group(1), m.group(2), m.group(3), m.group(4)
                bounds = []
                for item in split_top(g or ""):
                    if ":" in item and not item.startswith("const ") and not item.startswith("'"):
                        p, b = item.split(":", 1)
                        bounds += [(p.strip(), x.strip()) for x in b.split("+")]
                for item in split_top(where or ""):
                    if ":" in item:
                        p, b = item.split(":", 1)
                        bounds += [(p.strip(), x.strip()) for x in b.split("+")]
                tname = re.sub(r"<.*", "", trait).split("::")[-1]
                impls.append((tname, target, bounds))
            # inherent public methods of CircularBuffer (lib.rs) with a self receiver or none
            if fn == "lib.rs":
                for m in re.finditer(r"pub\s+(const\s+)?(unsafe\s+)?fn\s+(\w+)\s*(?:<[^>]*>)?\s*\(([^)]*)\)\s*(?:->\s*([^{;]+?))?\s*(?:where[^{]*)?\{", src):
                    isconst, name, params, ret = bool(m.group(1)), m.group(3), m.group(4), m.group(5)
                    if name.startswith("verif_"):
                        continue
                    ps = split_top(params)
                    recv = "none"
                    if ps:
                        p0 = ps[0].replace(" ", "")
                        if p0 == "&self": recv = "ref"
                        elif p0 == "&mutself": recv = "refmut"
                        elif p0 in ("self", "mutself"): recv = "value"
                    other_refs = any("&" in p for p in ps[1:])
                    rt = parse_ty(ret) if ret else ("tuple", [])
                    methods.append((name, recv, isconst, ret_borrows(rt) and not other_refs, rt))
    except TErr as e:
        print(f"T2: cannot translate: {e}", file=sys.stderr)
        sys.exit(3)
    L = ["-- GENERATED by /verif/translate/t2_typedefs.py from /repo/src/{lib,iter,drain}.rs — do not edit.",
         "import CircBuf.Types", "namespace CircBuf.Ty", "", "def structs : List StructDef := ["]
    rows = []
    for name, lts, consts, tps, fields in structs:
        fs = ", ".join(f"({lean_str(f)}, {lean_ty(t, consts, tps)})" for f, t in fields)
        rows.append(f"  ⟨{lean_str(name)}, [{', '.join(lean_str(x) for x in lts)}], [{', '.join(lean_str(x) for x in tps)}], [{fs}]⟩")
    L.append(",\n".join(rows) + "]")
    L += ["", "def methods : List MethodSig := ["]
    rows = []
    for name, recv, isconst, rb, rt in methods:
        rows.append(f"  ⟨{lean_str(name)}, {lean_str(recv)}, {'true' if isconst else 'false'}, {'true' if rb else 'false'}⟩")
    L.append(",\n".join(rows) + "]")
    L += ["", "def impls : List ImplDef := ["]
    rows = []
    for tr, target, bounds in impls:
        bs = ", ".join(f"({lean_str(p)}, {lean_str(b)})" for p, b in bounds)
        rows.append(f"  ⟨{lean_str(tr)}, {lean_str(target)}, [{bs}]⟩")
    L.append(",\n".join(rows) + "]")
    L += ["", "end CircBuf.Ty", ""]
    text = "\n".join(L)
    try:
        old = open(out).read()
    except FileNotFoundError:
        old = None
    if old != text:
        open(out, "w").write(text)
    print("T2: ok" + (" (unchanged)" if old == text else " (regenerated)") + f": {len(structs)} structs, {len(methods)} methods, {len(impls)} impls")


if __name__ == "__main__":
    main()
