#!/usr/bin/env python3
"""Source-drift sentinel: hash of the comment- and whitespace-free text of every function of
/repo/src/{lib,iter,drain,io,embedded_io}.rs, compared with the hashes recorded when the model was
written (model_map.json).  A differing hash is NOT a violation; it tells the checks which source
items changed since they were modelled, so that they explore more (and say so in the evidence).

usage: fingerprint.py <src dir> [--write model_map.json]"""
import hashlib, json, os, re, sys

FILES = ["lib.rs", "iter.rs", "drain.rs", "io.rs", "embedded_io.rs"]


def strip(src):
    src = re.sub(r"//[^\n]*", "", src)
    src = re.sub(r"/\*.*?\*/", "", src, flags=re.S)
    return src


def functions(src):
    out = {}
    for m in re.finditer(r"\bfn\s+(\w+)", src):
        name = m.group(1)
        i = src.find("{", m.end())
        semi = src.find(";", m.end())
        if i < 0 or (0 <= semi < i):
            continue
        depth, j = 1, i + 1
        while depth and j < len(src):
            depth += (src[j] == "{") - (src[j] == "}")
            j += 1
        body = re.sub(r"\s+", "", src[m.start():j])
        key = name
        k = 2
        while key in out:
            key = f"{name}#{k}"; k += 1
        out[key] = hashlib.sha256(body.encode()).hexdigest()[:16]
    return out


def fingerprint(srcdir):
    fp = {}
    for f in FILES:
        p = os.path.join(srcdir, f)
        if not os.path.exists(p):
            continue
        src = strip(open(p).read())
        if f == "lib.rs":
            src = re.sub(r"#\[cfg\(circular_buffer_verif\)\][^\n]*\n[^\n]*\n", "", src)
        for k, v in functions(src).items():
            fp[f"{f}::{k}"] = v
    return fp


def drift(srcdir, recorded):
    cur = fingerprint(srcdir)
    changed = sorted(k for k in set(cur) | set(recorded) if cur.get(k) != recorded.get(k))
    return changed


if __name__ == "__main__":
    fp = fingerprint(sys.argv[1])
    if "--write" in sys.argv:
        out = sys.argv[sys.argv.index("--write") + 1]
        json.dump(dict(note="token-stream hashes of the source items as they were when the model was written", functions=fp),
                  open(out, "w"), indent=1, sort_keys=True)
        print(f"{len(fp)} functions recorded")
    else:
        print(json.dumps(fp, indent=1))
