#!/usr/bin/env python3
"""T3: translate the index layer and the element-level core of `impl CircularBuffer` in
/repo/src/lib.rs into Lean (CircBuf/Generated/Core.lean).

Translated (the list FRAGMENT below): the private index helpers (`inc_start`, `dec_size`,
`front_maybe_uninit`, `slices_uninit_mut`, ...), the queries, element access, push / pop, `swap`,
`swap_remove_*`, `truncate_*`, `clear`, `as_slices`.  Each Rust body is parsed by a small
recursive-descent parser for the subset of Rust these functions use and emitted as a definition in
the model monad `M` of CircBuf/Mem.lean:

  * `self.size`, `self.start`, `N`            -> `(<- getBuf).size/.start/.cap`, re-read at every use
  * `+ - ` on usize                           -> the *checked* word operations (`uadd`, `usub`), in
                                                 Rust's evaluation order (A-normal form)
  * `debug_assert!(c, msg)` / `assert!`       -> `dassert` / documented panic
  * `&self.items[i]`, `&mut self.items[i]`    -> a bounds check and the slot number `i`
  * `.assume_init_ref()/_mut()` on a slot     -> a read that is UB on an empty slot; yields the slot
  * `.assume_init_read()`                     -> the element in the slot (UB on an empty slot)
  * `.write(x)`, `mem::replace(slot, x)`      -> `writeCell` (no destructor runs)
  * `ptr::swap_nonoverlapping(&mut a, &mut b, 1)` -> `swapCells`
  * slices of `self.items` (`[a..b]`, `split_at(_mut)`, `[..e]`, `&[][..]`) -> the view algebra of
    CircBuf/GenPrelude.lean (offset, length, with Rust's bounds checks)
  * `if c { return e; }` guards, `if/else`, `let`, tuple patterns, `?` on `checked_sub`
  * calls to other methods of the fragment -> the generated definition; calls to methods outside the
    fragment (`drop_range`) -> the hand model's definition (table EXTERN)

Anything else is "cannot translate": the function is reported, its definition is *not* emitted, and
the tie theorem about it (CircBuf/Lemmas/CoreTie.lean) stops checking — a broken proof obligation.

usage: t3_core.py <lib.rs> <out.lean>     exit 0 ok (possibly with untranslatable functions listed),
                                          exit 3 = nothing could be translated
"""
import re, sys

FRAGMENT = [
    "len", "is_empty", "is_full",
    "inc_start", "dec_start", "inc_size", "dec_size",
    "front_maybe_uninit_mut", "front_maybe_uninit", "back_maybe_uninit", "back_maybe_uninit_mut",
    "get_maybe_uninit", "get_maybe_uninit_mut", "slices_uninit_mut", "as_slices", "as_mut_slices",
    "front", "back", "get", "front_mut", "back_mut", "get_mut", "nth_front", "nth_back",
    "push_back", "push_front", "try_push_back", "try_push_front", "pop_back", "pop_front",
    "swap", "swap_remove_back", "swap_remove_front",
    "drop_range", "truncate_back", "truncate_front", "clear",
    "remove", "make_contiguous",
    "fill_spare_with", "fill_with",
]
# methods outside the fragment that fragment functions call: hand-model name, argument shape
EXTERN = {}
# hand-model counterpart of every function of the fragment.  When a body cannot be translated the
# generated definition *is* this counterpart (recorded in `Gen.fallback`): that function is then tied to
# the source by the correspondence run only, exactly like every function outside the fragment.
FALLBACK = {
    "len": "do pure (← getBuf).size", "is_empty": "do pure (decide ((← getBuf).size = 0))",
    "is_full": "do pure (decide ((← getBuf).size = (← getBuf).cap))",
    "inc_start": "_root_.CircBuf.incStart", "dec_start": "_root_.CircBuf.decStart", "inc_size": "_root_.CircBuf.incSize", "dec_size": "_root_.CircBuf.decSize",
    "front_maybe_uninit_mut": "_root_.CircBuf.frontSlot", "front_maybe_uninit": "_root_.CircBuf.frontSlot",
    "back_maybe_uninit": "_root_.CircBuf.backSlot", "back_maybe_uninit_mut": "_root_.CircBuf.backSlot",
    "get_maybe_uninit": "_root_.CircBuf.getSlot", "get_maybe_uninit_mut": "_root_.CircBuf.getSlot",
    "slices_uninit_mut": "_root_.CircBuf.slicesUninitMut", "as_slices": "_root_.CircBuf.asSlices", "as_mut_slices": "_root_.CircBuf.asSlices",
    "front": "_root_.CircBuf.front?", "back": "_root_.CircBuf.back?", "get": "_root_.CircBuf.get?", "front_mut": "_root_.CircBuf.front?", "back_mut": "_root_.CircBuf.back?",
    "get_mut": "_root_.CircBuf.get?", "nth_front": "_root_.CircBuf.nthFront?", "nth_back": "_root_.CircBuf.nthBack?",
    "push_back": "_root_.CircBuf.pushBack", "push_front": "_root_.CircBuf.pushFront", "try_push_back": "_root_.CircBuf.tryPushBack",
    "try_push_front": "_root_.CircBuf.tryPushFront", "pop_back": "_root_.CircBuf.popBack", "pop_front": "_root_.CircBuf.popFront",
    "swap": "_root_.CircBuf.swap", "swap_remove_back": "_root_.CircBuf.swapRemoveBack", "swap_remove_front": "_root_.CircBuf.swapRemoveFront",
    "drop_range": "fun r => _root_.CircBuf.dropRange r.1 r.2", "truncate_back": "_root_.CircBuf.truncateBack",
    "truncate_front": "_root_.CircBuf.truncateFront", "clear": "_root_.CircBuf.clear", "remove": "_root_.CircBuf.remove",
    "make_contiguous": "_root_.CircBuf.makeContiguous",
    "fill_spare_with": "_root_.CircBuf.fillSpareWith", "fill_with": "_root_.CircBuf.fillWith",
}
# fragment functions that return an *owned* `Option<T>`: a call whose value is discarded destroys it
OWNED_OPT = set()
# the iterator layer (`src/iter.rs`): free function / methods of `impl Iter`, as (generated name,
# regex of the enclosing impl header or None, Rust fn name, hand-model counterpart)
ITER_FRAGMENT = [
    ("translate_range_bounds", None, "translate_range_bounds", "_root_.CircBuf.translateRange"),
    ("Iter_empty", r"impl<'a, T> Iter<'a, T>", "empty", "pure _root_.CircBuf.Iter.empty"),
    ("Iter_new", r"impl<'a, T> Iter<'a, T>", "new", "_root_.CircBuf.Iter.new"),
    ("Iter_advance_front_by", r"impl<'a, T> Iter<'a, T>", "advance_front_by", "_root_.CircBuf.Iter.advanceFrontBy"),
    ("Iter_advance_back_by", r"impl<'a, T> Iter<'a, T>", "advance_back_by", "_root_.CircBuf.Iter.advanceBackBy"),
    ("Iter_over_range", r"impl<'a, T> Iter<'a, T>", "over_range", "_root_.CircBuf.Iter.overRange"),
    ("Iter_len", r"impl<T> ExactSizeIterator for Iter<'_, T>", "len", "_root_.CircBuf.Iter.len"),
    ("Iter_next", r"impl<'a, T> Iterator for Iter<'a, T>", "next", "fun it => pure (_root_.CircBuf.Iter.next it)"),
    ("Iter_next_back", r"impl<T> DoubleEndedIterator for Iter<'_, T>", "next_back", "fun it => pure (_root_.CircBuf.Iter.nextBack it)"),
    # `IterMut` has its own copy of the same code (over `&mut` slices); the model has one iterator
    ("IterMut_empty", r"impl<'a, T> IterMut<'a, T>", "empty", "pure _root_.CircBuf.Iter.empty"),
    ("IterMut_new", r"impl<'a, T> IterMut<'a, T>", "new", "_root_.CircBuf.Iter.new"),
    ("IterMut_advance_front_by", r"impl<'a, T> IterMut<'a, T>", "advance_front_by", "_root_.CircBuf.Iter.advanceFrontBy"),
    ("IterMut_advance_back_by", r"impl<'a, T> IterMut<'a, T>", "advance_back_by", "_root_.CircBuf.Iter.advanceBackBy"),
    ("IterMut_over_range", r"impl<'a, T> IterMut<'a, T>", "over_range", "_root_.CircBuf.Iter.overRange"),
    ("IterMut_len", r"impl<T> ExactSizeIterator for IterMut<'_, T>", "len", "_root_.CircBuf.Iter.len"),
    ("IterMut_next", r"impl<'a, T> Iterator for IterMut<'a, T>", "next", "fun it => pure (_root_.CircBuf.Iter.next it)"),
    ("IterMut_next_back", r"impl<T> DoubleEndedIterator for IterMut<'_, T>", "next_back", "fun it => pure (_root_.CircBuf.Iter.nextBack it)"),
]
# the draining iterator (`src/drain.rs`): its constructor, `read`, and the stepping methods.  `self` is a
# `Drain { bufSize, rs, re, is, ie }` value named `d` (`buf_size`, `range.start/end`, `iter.start/end`); the
# buffer behind `self.buf` is the state.  (`Drop for Drain` — guards dropped explicitly, the back-fill
# `while` loop over `CircularSlicePtr` — is outside the subset: hand model + correspondence.)
DRAIN_IMPL = "impl<'a, const N: usize, T> Drain<'a, N, T>"
# `CircularSlicePtr { slice_start, slice_len, offset }`: `self` is a `CSP { sliceLen, offset }` value named `p`;
# a pointer `slice_start.add(k)` into the slice is the slot number `k` (the slice is the whole `items` array)
CSP_IMPL = "impl<'a, T> CircularSlicePtr<'a, T>"
DRAIN_FRAGMENT = [
    ("Drain_over_range", DRAIN_IMPL, "over_range", "_root_.CircBuf.Drain.new"),
    ("Drain_read", DRAIN_IMPL, "read", "_root_.CircBuf.Drain.read"),
    ("Drain_as_slices", DRAIN_IMPL, "as_slices", "_root_.CircBuf.Drain.asSlices"),
    ("Drain_as_mut_slices", DRAIN_IMPL, "as_mut_slices", "_root_.CircBuf.Drain.asSlices"),
    ("Drain_next", "impl<const N: usize, T> Iterator for Drain<'_, N, T>", "next", "_root_.CircBuf.Drain.next"),
    ("Drain_next_back", "impl<const N: usize, T> DoubleEndedIterator for Drain<'_, N, T>", "next_back", "_root_.CircBuf.Drain.nextBack"),
    ("Drain_len", "impl<const N: usize, T> ExactSizeIterator for Drain<'_, N, T>", "len", "fun d => pure (_root_.CircBuf.Drain.len d)"),
    ("CSP_as_ptr", CSP_IMPL, "as_ptr", "_root_.CircBuf.CSP.ptr"),
    ("CSP_as_mut_ptr", CSP_IMPL, "as_mut_ptr", "_root_.CircBuf.CSP.ptr"),
    ("CSP_available_len", CSP_IMPL, "available_len", "_root_.CircBuf.CSP.availableLen"),
    ("CSP_add", CSP_IMPL, "add", "_root_.CircBuf.CSP.add"),
    ("Drain_drop", "impl<const N: usize, T> Drop for Drain<'_, N, T>", "drop", "_root_.CircBuf.Drain.drop"),
]
# the `while v > 0 { .. }` loop of `Drop for Drain` becomes the fuelled loop `whileFuel` (Mem.lean) over a step
# function `Gen.Drain_drop_step` (one iteration on the tuple of the variables the body assigns), started
# with fuel `v + 1` (every iteration is shown to decrease `v`: `backfill_fuel_suffices`); its hand-model
# counterpart, used when the function is outside the subset
DRAIN_LOOP_FALLBACK = ("Drain_drop_step", "Drain → CSP × CSP × Nat → M (CSP × CSP × Nat)",
                       "fun _ => _root_.CircBuf.backfillStep")
DRAIN_SIG = {"Drain_over_range": "Bound → Bound → M (Drain)", "Drain_read": "Drain → Nat → M (Elem)",
             "Drain_as_slices": "Drain → M (View × View)", "Drain_as_mut_slices": "Drain → M (View × View)",
             "Drain_drop": "Drain → M (Unit)", "CSP_as_ptr": "CSP → M (Nat)", "CSP_as_mut_ptr": "CSP → M (Nat)",
             "CSP_available_len": "CSP → M (Nat)", "CSP_add": "CSP → Nat → M (CSP)",
             "Drain_next": "Drain → M (Option Elem × Drain)", "Drain_next_back": "Drain → M (Option Elem × Drain)",
             "Drain_len": "Drain → M (Nat)"}
PANIC_TAG = {
    "range start index exceeds maximum usize": "range_start_overflow",
    "range end index exceeds maximum usize": "range_end_overflow",
    "range end index {} out of range for buffer of length {}": "range_end",
    "range starts at index {start} but ends at index {end}": "range_order",
}
# documented panics are tagged by *position* (the n-th `assert!` / `.expect()` of the function, in source
# order), not by their message: the text of a panic message is not part of any property
DOC_TAGS = {"swap": ["swap_i", "swap_j"],
            "translate_range_bounds": ["range_start_overflow", "range_end_overflow", "range_end", "range_order"]}
ASSERT_TAG = {"i index out-of-bounds": "swap_i", "j index out-of-bounds": "swap_j"}
LEAN_KW = {"end", "from", "at", "in", "do", "then", "else", "fun", "let", "have", "show", "open", "by",
           "match", "with", "if", "where", "instance", "class", "structure", "def", "theorem", "this"}


class TErr(Exception):
    pass


# ----------------------------------------------------------------------------- source extraction
def strip_comments(src):
    out, i, n = [], 0, len(src)
    while i < n:
        c = src[i]
        if c == '"':
            j = i + 1
            while src[j] != '"':
                j += 2 if src[j] == "\\" else 1
            out.append(src[i:j + 1]); i = j + 1
        elif src.startswith("//", i):
            while i < n and src[i] != "\n":
                i += 1
        elif src.startswith("/*", i):
            i = src.index("*/", i) + 2
        else:
            out.append(c); i += 1
    return "".join(out)


def find_fn(src, name):
    """(signature text, body text) of the first `fn name` inside `impl<const N: usize, T> CircularBuffer<N, T>`"""
    m = re.search(r"\bfn\s+%s\s*(<[^>]*>)?\s*\(" % re.escape(name), src)
    if not m:
        raise TErr(f"fn {name} not found")
    i = src.index("{", m.end())
    sig = src[m.start():i]
    d, j = 1, i + 1
    while d:
        c = src[j]
        if c == '"':
            j += 1
            while src[j] != '"':
                j += 2 if src[j] == "\\" else 1
        d += (c == "{") - (c == "}")
        j += 1
    return sig, src[i:j]


def find_fn_in(src, impl_re, name):
    """like find_fn, restricted to the block of the first impl whose header matches `impl_re`"""
    if impl_re is None:
        return find_fn(src, name)
    m = re.search(re.escape(impl_re).replace("\\ ", r"\s+"), src)
    if not m:
        raise TErr(f"impl block `{impl_re}` not found")
    i = src.index("{", m.end())
    d, j = 1, i + 1
    while d:
        d += (src[j] == "{") - (src[j] == "}")
        j += 1
    return find_fn(src[i:j], name)


# ----------------------------------------------------------------------------- tokens
TOK = re.compile(r"""\s*(?:
    (?P<num>\d[\d_]*)
  | (?P<str>"(?:[^"\\]|\\.)*")
  | (?P<id>[A-Za-z_][A-Za-z0-9_]*(?:::[A-Za-z_][A-Za-z0-9_]*)*!?)
  | (?P<op>\.\.=|\.\.|::<|->|=>|==|!=|<=|>=|&&|\|\||\+=|-=|[-+*/%=<>!&|.,;:(){}\[\]?'])
)""", re.X)


def tokenize(s):
    out, i = [], 0
    s = s.rstrip()
    while i < len(s):
        m = TOK.match(s, i)
        if not m:
            raise TErr(f"cannot tokenize at {s[i:i+25]!r}")
        k = m.lastgroup
        out.append((k, m.group(k)))
        i = m.end()
    return out


# ----------------------------------------------------------------------------- parser -> AST
class Parser:
    def __init__(self, toks):
        self.t, self.i = toks, 0

    def peek(self, k=0):
        return self.t[self.i + k] if self.i + k < len(self.t) else (None, None)

    def at(self, v):
        return self.peek()[1] == v and self.peek()[0] in ("op", "id")

    def eat(self, v=None, kind=None):
        k, x = self.peek()
        if (v is not None and x != v) or (kind and k != kind):
            raise TErr(f"expected {v or kind}, got {x!r}")
        self.i += 1
        return x

    # block := '{' stmt* expr? '}'
    def block(self):
        self.eat("{")
        stmts, tail = [], None
        while not self.at("}"):
            if self.at("struct") or self.at("impl"):
                stmts.append(self.local_item())
                continue
            if self.at("while"):
                self.eat()
                c = self.expr_nostruct()
                b = self.block()
                stmts.append(("while", c, b))
                continue
            if self.at("let"):
                self.eat()
                pat = self.pattern()
                if self.at(":"):
                    raise TErr("typed let")
                self.eat("=")
                e = self.expr()
                self.eat(";")
                stmts.append(("let", pat, e))
                continue
            e = self.expr()
            if self.peek()[0] == "op" and self.peek()[1] in ("=", "+=", "-="):
                op = self.eat()
                rhs = self.expr()
                self.eat(";")
                stmts.append(("assign", op, e, rhs))
                continue
            if self.at(";"):
                self.eat()
                stmts.append(("expr", e))
            elif self.at("}"):
                tail = e
            elif e[0] in ("if", "block", "unsafe", "match"):
                # block-like expression statement without a semicolon
                stmts.append(("expr", e))
            else:
                raise TErr(f"unexpected token {self.peek()[1]!r} after expression")
        self.eat("}")
        return ("block", stmts, tail)

    def local_item(self):
        """`struct Name<..>(..);` or `impl<..> Drop for Name<..> { fn drop(&mut self) { body } }` inside a body"""
        kw = self.eat()
        toks = []
        if kw == "struct":
            name = self.eat(kind="id")
            while not self.at(";"):
                toks.append(self.eat())
            self.eat(";")
            return ("item_struct", name, toks)
        # impl ... { ... } : collect the token text up to the matching brace
        while not self.at("{"):
            toks.append(self.eat())
        depth = 0
        body = []
        while True:
            v = self.eat()
            body.append(v)
            depth += (v == "{") - (v == "}")
            if depth == 0:
                break
        return ("item_impl", toks, body)

    def pattern(self):
        if self.at("("):
            self.eat()
            names = []
            while not self.at(")"):
                names.append(self.pattern())
                if self.at(","):
                    self.eat()
            self.eat(")")
            return ("ptuple", names)
        if self.at("mut"):
            self.eat()
        return ("pvar", self.eat(kind="id"))   # `_` included

    def expr(self):
        return self.range_()

    def range_(self):
        if self.at(".."):
            self.eat()
            hi = None if self.peek()[1] in ("]", ")", ";", ",", "}") else self.oror()
            return ("range", None, hi)
        lo = self.oror()
        if self.at(".."):
            self.eat()
            hi = None if self.peek()[1] in ("]", ")", ";", ",", "}") else self.oror()
            return ("range", lo, hi)
        return lo

    def oror(self):
        l = self.andand()
        while self.at("||"):
            self.eat(); l = ("or", l, self.andand())
        return l

    def andand(self):
        l = self.cmp()
        while self.at("&&"):
            self.eat(); l = ("and", l, self.cmp())
        return l

    def cmp(self):
        l = self.add()
        if self.peek()[0] == "op" and self.peek()[1] in ("==", "!=", "<", "<=", ">", ">="):
            op = self.eat()
            return ("cmp", op, l, self.add())
        return l

    def add(self):
        l = self.mul()
        while self.peek()[0] == "op" and self.peek()[1] in ("+", "-"):
            op = self.eat(); l = ("bin", op, l, self.mul())
        return l

    def mul(self):
        l = self.unary()
        while self.peek()[0] == "op" and self.peek()[1] in ("*", "%", "/"):
            op = self.eat(); l = ("bin", op, l, self.unary())
        return l

    def unary(self):
        if self.at("&"):
            self.eat()
            mut = False
            if self.at("mut"):
                self.eat(); mut = True
            return ("ref", mut, self.unary())
        if self.at("!"):
            self.eat()
            return ("not", self.unary())
        if self.at("*"):
            self.eat()
            return ("deref", self.unary())
        return self.postfix()

    def args(self):
        self.eat("(")
        a = []
        while not self.at(")"):
            a.append(self.expr())
            if self.at(","):
                self.eat()
        self.eat(")")
        return a

    def postfix(self):
        e = self.atom()
        while True:
            if self.at("."):
                self.eat()
                name = self.eat()
                if self.at("("):
                    e = ("mcall", e, name, self.args())
                else:
                    e = ("field", e, name)
            elif self.at("["):
                self.eat()
                idx = self.expr()
                self.eat("]")
                e = ("index", e, idx)
            elif self.at("?"):
                self.eat()
                e = ("try", e)
            else:
                return e

    def atom(self):
        k, v = self.peek()
        if k == "num":
            self.eat(); return ("num", v.replace("_", ""))
        if k == "str":
            self.eat(); return ("str", v[1:-1])
        if v == "(":
            self.eat()
            items = []
            trailing = False
            while not self.at(")"):
                items.append(self.expr())
                trailing = False
                if self.at(","):
                    self.eat(); trailing = True
            self.eat(")")
            if len(items) == 1 and not trailing:
                return items[0]
            return ("tuple", items)
        if v == "[":
            self.eat()
            if not self.at("]"):
                raise TErr("non-empty array literal")
            self.eat("]")
            return ("emptyarr",)
        if v == "{":
            return self.block()
        if v == "unsafe":
            self.eat()
            b = self.block()
            return ("unsafe", b)
        if v == "|":
            # closure `|x| expr`
            self.eat()
            names = []
            while not self.at("|"):
                names.append(self.eat(kind="id"))
                if self.at(","):
                    self.eat()
            self.eat("|")
            return ("closure", names, self.expr())
        if v == "match":
            self.eat()
            scrut = self.expr_nostruct()
            self.eat("{")
            arms = []
            while not self.at("}"):
                pat = self.mpattern()
                self.eat("=>")
                if self.at("{"):
                    body = self.block()
                else:
                    body = ("block", [], self.expr())
                if self.at(","):
                    self.eat()
                arms.append((pat, body))
            self.eat("}")
            return ("match", scrut, arms)
        if v == "if" and self.peek(1)[1] == "let":
            self.eat(); self.eat()
            pat = self.mpattern()
            self.eat("=")
            scrut = self.expr_nostruct()
            th = self.block()
            el = ("block", [], None)
            if self.at("else"):
                self.eat()
                el = self.block() if not self.at("if") else ("block", [], self.atom())
            return ("match", scrut, [(pat, th), (("mwild",), el)])
        if v == "if":
            self.eat()
            c = self.expr_nostruct()
            th = self.block()
            el = None
            if self.at("else"):
                self.eat()
                if self.at("if"):
                    el = ("block", [], self.atom())
                else:
                    el = self.block()
            return ("if", c, th, el)
        if v == "return":
            self.eat()
            if self.at(";") or self.at("}"):
                return ("return", None)
            return ("return", self.expr())
        if k == "id":
            self.eat()
            if v.endswith("!"):
                return ("macro", v[:-1], self.args())
            if v == "Self" and self.at("{"):
                self.eat("{")
                fields = []
                while not self.at("}"):
                    fname = self.eat(kind="id")
                    if self.at(":"):
                        self.eat()
                        fields.append((fname, self.expr()))
                    else:
                        fields.append((fname, ("path", fname)))
                    if self.at(","):
                        self.eat()
                self.eat("}")
                return ("selflit", fields)
            if self.at("("):
                return ("call", v, self.args())
            return ("path", v)
        raise TErr(f"unexpected token {v!r}")

    def mpattern(self):
        """patterns of `match` arms: `_`, `()`, `x`, `None`, `Some(p)`, `Ok(p)`, `Err(p)`"""
        if self.at("("):
            self.eat(); self.eat(")")
            return ("munit",)
        name = self.eat(kind="id")
        if name == "_":
            return ("mwild",)
        if self.at("("):
            self.eat()
            sub = self.mpattern()
            self.eat(")")
            return ("mctor", name, sub)
        if name in ("None", "Bound::Unbounded"):
            return ("mctor", name, None)
        return ("mvar", name)

    def expr_nostruct(self):
        return self.expr()


# ----------------------------------------------------------------------------- emitter
def lean_name(n):
    return f"«{n}»" if n in LEAN_KW else n


class Emit:
    def __init__(self, fname, fragment):
        self.fname = fname
        self.fragment = fragment
        self.tmp = 0
        self.ndoc = 0            # documented panics seen so far in this function
        self.iter_mode = False   # `self` is an `Iter { right, left }` value named `it`
        self.iter_prefix = "Iter_"   # or "IterMut_": which family `Self::new`, `it.advance_front_by` refer to
        self.drain_mode = False  # `self` is a `Drain` value named `d`
        self.csp_mode = False    # `self` is a `CSP` value named `p`
        self.live_guards = {}    # drain mode: guard values that are dropped explicitly (`drop(g)`), by name
        self.aux_defs = []       # definitions emitted before the function (the loop of `Drop for Drain`)
        self.guards = set()   # local structs whose Drop impl drops a slice in place
        self.scope_guards = []  # guard values declared in the function body, in declaration order
        self.kinds = {}       # variable -> kind ('nat','slot','elem','view','range','pair:view','opt:nat',...)

    def is_items(self, base):
        """`self.items`, or `buf.items` for a reference `buf` to the buffer"""
        return base == ("field", ("path", "self"), "items") or (
            base[0] == "field" and base[2] == "items" and base[1][0] == "path" and self.kinds.get(base[1][1]) == "bufref")

    def doc_tag(self):
        tags = DOC_TAGS.get(self.fname, [])
        tag = tags[self.ndoc] if self.ndoc < len(tags) else f"{self.fname}_doc{self.ndoc}"
        self.ndoc += 1
        return tag

    def fresh(self, p="t"):
        self.tmp += 1
        return f"{p}{self.tmp}"

    # expression -> (pre statements, lean term, kind)
    def ex(self, e, want=None):
        k = e[0]
        if k == "num":
            return [], e[1], "nat"
        if k == "path":
            n = e[1]
            if n == "N":
                return [], "(← getBuf).cap", "nat"
            if n == "None":
                return [], "none", "opt"
            if n == "self" and self.csp_mode:
                return [], "p", "csp"
            if n in self.kinds:
                return [], lean_name(n), self.kinds[n]
            raise TErr(f"unknown name {n}")
        if k == "deref":
            return self.ex(e[1])
        if k == "closure":
            raise TErr("closure outside `.map(..)` on a range step")
        if k == "selflit" and self.drain_mode:
            vals, pre = {}, []
            for fname, fe in e[1]:
                if fname in ("buf", "phantom"):
                    continue                      # the buffer is the state; `PhantomData`
                if fe[0] == "range" and fe[1] is not None and fe[2] is not None:
                    pa, a, _ = self.ex(fe[1])
                    pb, b, _ = self.ex(fe[2])
                    pre += pa + pb
                    vals[fname] = (a, b)
                else:
                    p, v, kk = self.ex(fe)
                    pre += p
                    vals[fname] = (f"{par(v)}.1", f"{par(v)}.2") if kk == "range" else v
            if set(vals) != {"buf_size", "range", "iter"} or isinstance(vals["buf_size"], tuple) \
                    or not isinstance(vals["range"], tuple) or not isinstance(vals["iter"], tuple):
                raise TErr("struct literal of an unknown shape")
            return pre, (f"(⟨{vals['buf_size']}, {vals['range'][0]}, {vals['range'][1]}, "
                         f"{vals['iter'][0]}, {vals['iter'][1]}⟩ : Drain)"), "drain"
        if k == "path" and e[1] == "self" and self.csp_mode:
            return [], "p", "csp"
        if k == "field" and self.csp_mode and e[1] == ("path", "self") and e[2] in ("offset", "slice_len"):
            return [], "p.offset" if e[2] == "offset" else "p.sliceLen", "nat"
        if k == "field" and self.drain_mode:
            if e[1] == ("path", "self") and e[2] == "buf_size":
                return [], "d.bufSize", "nat"
            if e[1] in (("field", ("path", "self"), "range"), ("field", ("path", "self"), "iter")) and e[2] in ("start", "end"):
                return [], {"range": {"start": "d.rs", "end": "d.re"}, "iter": {"start": "d.is", "end": "d.ie"}}[e[1][2]][e[2]], "nat"
        if k == "field" and e[1][0] == "path" and self.kinds.get(e[1][1]) == "bufref" and e[2] in ("size", "start"):
            return [], f"(← getBuf).{e[2]}", "nat"
        if k == "index" and self.is_items(e[1]) and e[2][0] != "range":
            return self.ex_ref(("ref", True, ("index", ("field", ("path", "self"), "items"), e[2])))
        if k == "selflit":
            vals = {}
            pre = []
            for fname, fe in e[1]:
                p, v, kk = self.ex(fe)
                pre += p
                vals[fname] = v
            if set(vals) != {"right", "left"}:
                raise TErr("struct literal of an unknown shape")
            return pre, f"(⟨{vals['right']}, {vals['left']}⟩ : Iter)", "iter"
        if k == "field" and self.iter_mode and e[1] == ("path", "self") and e[2] in ("right", "left"):
            return [], f"it.{e[2]}", "view"
        if k == "field":
            if e[1] == ("path", "self") and e[2] in ("size", "start"):
                return [], f"(← getBuf).{e[2]}", "nat"
            if e[1][0] == "path" and self.kinds.get(e[1][1]) == "range" and e[2] in ("start", "end"):
                return [], f"{lean_name(e[1][1])}.{1 if e[2] == 'start' else 2}", "nat"
            raise TErr(f"unsupported field access .{e[2]}")
        if k == "bin":
            pa, a, ka = self.ex(e[2])
            pb, b, kb = self.ex(e[3])
            if ka != "nat" or kb != "nat":
                raise TErr("arithmetic on non-integers")
            op = {"+": "uadd", "-": "usub", "*": "umul", "%": "umod"}.get(e[1])
            if not op:
                raise TErr(f"operator {e[1]}")
            t = self.fresh()
            return pa + pb + [f"let {t} ← liftE ({op} {par(a)} {par(b)})"], t, "nat"
        if k == "cmp":
            pa, a, ka = self.ex(e[2])
            pb, b, kb = self.ex(e[3])
            op = {"==": "=", "!=": "≠", "<": "<", "<=": "≤", ">": ">", ">=": "≥"}[e[1]]
            return pa + pb, f"{a} {op} {b}", "prop"
        if k in ("or", "and"):
            pa, a, _ = self.ex(e[1])
            pb, b, _ = self.ex(e[2])
            if pb:
                raise TErr("effects on the right of a short-circuit operator")
            return pa, f"{par(a)} {'∨' if k == 'or' else '∧'} {par(b)}", "prop"
        if k == "not":
            pa, a, _ = self.ex(e[1])
            return pa, f"¬ {par(a)}", "prop"
        if k == "unsafe":
            return self.ex_block_value(e[1])
        if k == "block":
            return self.ex_block_value(e)
        if k == "tuple":
            pre, vals, kinds = [], [], []
            for x in e[1]:
                p, v, kk = self.ex(x)
                pre += p; vals.append(v); kinds.append(kk)
            if not vals:
                return [], "()", "unit"
            return pre, "(" + ", ".join(vals) + ")", "tuple:" + ",".join(kinds)
        if k == "range":
            if e[1] is None or e[2] is None:
                raise TErr("open range as a value")
            pa, a, _ = self.ex(e[1])
            pb, b, _ = self.ex(e[2])
            return pa + pb, f"({a}, {b})", "range"
        if k == "ref":
            return self.ex_ref(e)
        if k == "call":
            return self.ex_call(e)
        if k == "mcall":
            return self.ex_mcall(e)
        if k == "index" and e[1] == ("field", ("path", "self"), "items") and e[2][0] != "range":
            # place expression `self.items[i]` (auto-referenced by a method call)
            return self.ex_ref(("ref", True, e))
        if k == "try":
            raise TErr("`?` outside a let")
        if k == "match":
            pre, lines = self.emit_match(e)
            t = self.fresh("r")
            return pre + [f"let {t} ← (" + lines[0]] + lines[1:-1] + [lines[-1] + ")"], t, "any"
        if k == "if":
            # value-producing if
            body = self.emit_if_value(e)
            cp = self.cond_pre
            t = self.fresh("r")
            return cp + [f"let {t} ← (" + body[0]] + body[1:-1] + [body[-1] + ")"], t, "any"
        raise TErr(f"unsupported expression {k}")

    def ex_block_value(self, b):
        _, stmts, tail = b
        if tail is None:
            raise TErr("block without a value")
        pre = []
        for s in stmts:
            pre += self.stmt(s)
        p, v, kk = self.ex(tail)
        return pre + p, v, kk

    def ex_ref(self, e):
        inner = e[2]
        # &[] / &[][..] / &mut [][..]
        if inner == ("emptyarr",) or (inner[0] == "index" and inner[1] == ("emptyarr",)
                                      and inner[2] == ("range", None, None)):
            return [], "View.empty", "view"
        if inner[0] == "index":
            base, idx = inner[1], inner[2]
            if self.is_items(base):
                if idx[0] == "range":
                    if idx[2] is None:
                        raise TErr("slice of items without an upper bound")
                    pa, a, _ = self.ex(idx[1]) if idx[1] is not None else ([], "0", "nat")
                    pb, b, _ = self.ex(idx[2])
                    t = self.fresh("v")
                    return pa + pb + [f"let {t} ← liftE (View.sub (View.all (← getBuf).cap) {par(a)} {par(b)})"], t, "view"
                p, i, _ = self.ex(idx)
                t = self.fresh("i")
                return p + [f"let {t} := {i}", f"checkIdx {t}"], t, "slot"
            if base[0] == "path" and self.kinds.get(base[1]) == "view" and idx[0] == "range":
                lo, hi = idx[1], idx[2]
                pa, a, _ = self.ex(lo) if lo else ([], "0", "nat")
                if hi is None:
                    pb, b = [], f"{lean_name(base[1])}.len"          # `&v[a..]`
                else:
                    pb, b, _ = self.ex(hi)
                t = self.fresh("v")
                return pa + pb + [f"let {t} ← liftE (View.sub {lean_name(base[1])} {par(a)} {par(b)})"], t, "view"
        raise TErr("unsupported reference expression")

    def ex_call(self, e):
        name, args = e[1], e[2]
        if self.kinds.get(name) == "producer" and not args:
            t = self.fresh("e")
            return [f"let {t} ← produceElem \"call\""], t, "elem"
        if name in ("add_mod", "sub_mod"):
            pre, vals = [], []
            for a in args:
                p, v, _ = self.ex(a)
                pre += p; vals.append(par(v))
            t = self.fresh()
            f = "amod" if name == "add_mod" else "smod"
            return pre + [f"let {t} ← {f} {' '.join(vals)}"], t, "nat"
        if name == "Self::empty" and not args:
            return [], "Iter.empty" if (self.iter_prefix + "empty") not in self.fragment else f"(← Gen.{self.iter_prefix}empty)", "iter"
        if name == "Self::new":
            return [], f"(← Gen.{self.iter_prefix}new)", "iter"
        if name == "translate_range_bounds":
            if len(args) != 2 or self.kinds.get(args[1][1] if args[1][0] == "path" else None) != "rangebounds":
                raise TErr("translate_range_bounds: unexpected arguments")
            t = self.fresh("r")
            return [f"let {t} ← Gen.translate_range_bounds sb eb"], t, "tuple:nat,nat"
        if name in ("slice_take", "slice_take_mut"):
            # slice_take(&mut self.right, ..n) / (&mut self.left, n..): the slice keeps the other part
            a0, a1 = args
            if not (self.iter_mode and a0[0] == "ref" and a0[1] and a0[2][0] == "field"
                    and a0[2][1] == ("path", "self") and a0[2][2] in ("right", "left") and a1[0] == "range"):
                raise TErr("slice_take: unexpected arguments")
            fld = a0[2][2]
            if a1[1] is None and a1[2] is not None:
                p, n, _ = self.ex(a1[2]); fn = "takeTo"
            elif a1[1] is not None and a1[2] is None:
                p, n, _ = self.ex(a1[1]); fn = "takeFrom"
            else:
                raise TErr("slice_take: unsupported range")
            return p + [f"let it : Iter := {{ it with {fld} := (View.{fn} it.{fld} {par(n)}).2 }}"], "()", "unit"
        if name == "CircularSlicePtr::new" and len(args) == 1 and self.drain_mode:
            a = args[0]
            if not (a[0] == "ref" and self.is_items(a[2])):
                raise TErr("CircularSlicePtr::new of something other than the items array")
            return [], "(CSP.mk (← getBuf).cap 0)", "csp"
        if name == "NonNull::from" and len(args) == 1:
            p, v, kk = self.ex(args[0])
            if kk != "bufref":
                raise TErr("NonNull::from of something other than the buffer reference")
            return p, "()", "bufref"
        if name == "ptr::read" and len(args) == 1:
            p, v, kk = self.ex(args[0])
            if kk != "slot":
                raise TErr("ptr::read of something other than a slot")
            t = self.fresh("x")
            return p + [f"let {t} ← readInit {v}"], t, "elem"
        if name in ("slice_take_first", "slice_take_last", "slice_take_first_mut", "slice_take_last_mut") and self.iter_mode:
            # slice_take_first(&mut self.right): `None`, slice untouched, when it is empty; otherwise the first
            # element is returned and the slice keeps the rest
            a0 = args[0] if len(args) == 1 else None
            if not (a0 and a0[0] == "ref" and a0[1] and a0[2][0] == "field" and a0[2][1] == ("path", "self")
                    and a0[2][2] in ("right", "left")):
                raise TErr(f"{name}: unexpected arguments")
            fld = a0[2][2]
            fn = "takeFirst" if "first" in name else "takeLast"
            t = self.fresh("r")
            return [f"let {t} := View.{fn} it.{fld}", f"let it : Iter := {{ it with {fld} := {t}.2 }}"], f"{t}.1", "optnat"
        if name == "Some":
            p, v, kk = self.ex(args[0])
            return p, f"some {par(v)}", "opt"
        if name == "Ok":
            p, v, kk = self.ex(args[0])
            return p, f"Except.ok {par(v)}", "res"
        if name == "Err":
            p, v, kk = self.ex(args[0])
            return p, f"Except.error {par(v)}", "res"
        if name == "mem::replace":
            p, slot, kk = self.ex(args[0])
            if kk != "slot":
                raise TErr("mem::replace target is not a slot")
            p2, item, _ = self.ex(args[1])
            t = self.fresh("old")
            return p + p2 + [f"let {t} ← readInit {slot}", f"writeCell {slot} {par(item)}"], t, "elem"
        if name in ("slice_assume_init_ref", "slice_assume_init_mut"):
            p, v, kk = self.ex(args[0])
            if kk != "view":
                raise TErr("slice_assume_init on a non-slice")
            return p, v, "view"
        if name == "ptr::copy":
            pa, a, ka = self.ex(args[0])
            pb, b, kb = self.ex(args[1])
            pc, c, kc = self.ex(args[2])
            if ka != "ptr" or kb != "ptr":
                raise TErr("ptr::copy on something other than pointers into items")
            return pa + pb + pc + [f"setItems (copy (← getBuf).items {par(a)} {par(b)} {par(c)})"], "()", "unit"
        if name in self.guards:
            # `Dropper(slice)`: a value whose destructor drops the elements of the slice in place
            p, v, kk = self.ex(args[0])
            if kk != "view":
                raise TErr(f"{name}(..) on a non-slice")
            return p, v, "guard"
        if name == "ptr::swap_nonoverlapping":
            if args[2] != ("num", "1"):
                raise TErr("swap_nonoverlapping count")
            pa, a, ka = self.ex(args[0])
            pb, b, kb = self.ex(args[1])
            if ka != "slot" or kb != "slot":
                raise TErr("swap_nonoverlapping on non-slots")
            return pa + pb + [f"setItems (swapCells (← getBuf).items {a} {b})"], "()", "unit"
        raise TErr(f"unsupported call {name}")

    def ex_mcall(self, e):
        recv, name, args = e[1], e[2], e[3]
        if self.csp_mode and recv == ("field", ("path", "self"), "slice_start") and name == "add" and len(args) == 1:
            p, v, kk = self.ex(args[0])
            return p, v, "ptr"
        if self.drain_mode:
            if recv == ("field", ("path", "self"), "buf") and name in ("as_ref", "as_mut") and not args:
                return [], "()", "bufref"
            if recv == ("field", ("path", "self"), "iter") and name == "is_empty" and not args:
                return [], "¬ (d.is < d.ie)", "prop"
            if recv == ("path", "self") and name in ("as_slices", "as_mut_slices") and not args \
                    and ("Drain_" + name) in self.fragment:
                t = self.fresh("r")
                return [f"let {t} ← Gen.Drain_{name} d"], t, "tuple:view,view"
            if recv == ("field", ("path", "self"), "iter") and name == "len" and not args:
                return [], "d.ie - d.is", "nat"          # `Range<usize>::len` (saturating)
            if recv == ("field", ("path", "self"), "range") and name == "len" and not args:
                return [], "d.re - d.rs", "nat"
            if recv == ("path", "self") and name == "read" and len(args) == 1:
                p, v, _ = self.ex(args[0])
                t = self.fresh("r")
                return p + [f"let {t} ← Gen.Drain_read d {par(v)}"], t, "elem"
            if (name == "map" and len(args) == 1 and args[0][0] == "closure" and len(args[0][1]) == 1
                    and recv[0] == "mcall" and recv[1] == ("field", ("path", "self"), "iter")
                    and recv[2] in ("next", "next_back") and not recv[3]):
                # `self.iter.next().map(|i| f(i))`: the range is stepped first (`self` is updated), then the
                # closure runs on the index it produced
                step = "Drain.stepFront" if recv[2] == "next" else "Drain.stepBack"
                st = self.fresh("st")
                var = args[0][1][0]
                saved = dict(self.kinds)
                self.kinds[var] = "nat"
                p, v, kk = self.ex(args[0][2])
                self.kinds = saved
                r = self.fresh("r")
                lines = [f"let {st} := {step} d", f"let d := {st}.2",
                         f"let {r} ← (match {st}.1 with", f"  | some {lean_name(var)} => do"]
                lines += ["      " + l for l in p] + [f"      pure (some {par(v)})", "  | none => pure none)"]
                return lines, r, "opt"
        if recv == ("path", "self"):
            pre, vals = [], []
            if name in EXTERN:
                lname, shape = EXTERN[name]
                p, v, kk = self.ex(args[0])
                if kk != "range":
                    raise TErr(f"{name}: argument is not a range")
                t = self.fresh()
                return p + [f"let {t} := {v}", f"{lname} {t}.1 {t}.2"], "()", "unit"
            if name not in self.fragment:
                raise TErr(f"call to self.{name} which is outside the translated fragment")
            for a in args:
                p, v, ka = self.ex(a)
                pre += p
                if ka != "producer":
                    vals.append(par(v))
            ret = self.fragment[name]
            call = " ".join([f"Gen.{name}"] + vals)
            if ret == "unit":
                return pre + [call], "()", "unit"
            t = self.fresh("r")
            return pre + [f"let {t} ← {call}"], t, ret
        if recv == ("field", ("path", "self"), "items"):
            if name == "as_mut_ptr" and not args:
                return [], "0", "ptr"
            if name == "rotate_left":
                p, k, _ = self.ex(args[0])
                t = self.fresh("k")
                # `rotate_left(mid)` asserts `mid <= len`
                return p + [f"let {t} := {k}", f"if {t} ≤ (← getBuf).cap then pure () else raise .oob",
                            f"setItems (rotl (← getBuf).items (← getBuf).cap {t})"], "()", "unit"
            raise TErr(f"unsupported method .{name}() on items")
        if recv[0] == "path" and self.kinds.get(recv[1]) == "bufref":
            if name == "len" and not args:
                return [], "(← getBuf).size", "nat"
            if name in ("as_slices", "as_mut_slices") and not args:
                t = self.fresh("r")
                return [f"let {t} ← Gen.{name}"], t, "tuple:view,view"
            raise TErr(f"unsupported method .{name}() on the buffer reference")
        if recv[0] == "path" and self.kinds.get(recv[1]) == "rangebounds" and not args:
            if name == "start_bound":
                return [], "sb", "bound"
            if name == "end_bound":
                return [], "eb", "bound"
        if recv[0] == "path" and self.kinds.get(recv[1]) == "iter" and (self.iter_prefix + name) in self.fragment:
            pre, vals = [], []
            for a in args:
                p, v, _ = self.ex(a)
                pre += p; vals.append(par(v))
            n = lean_name(recv[1])
            return pre + [f"let {n} ← Gen.{self.iter_prefix}{name} {n} {' '.join(vals)}"], "()", "unit"
        if recv == ("path", "self") and self.iter_mode:
            raise TErr(f"call to self.{name} in the iterator layer")
        if recv[0] == "path" and self.kinds.get(recv[1]) == "range" and name == "is_empty" and not args:
            n = lean_name(recv[1])
            return [], f"¬ ({n}.1 < {n}.2)", "prop"
        # methods on values
        p, v, kk = self.ex(recv)
        if self.drain_mode and kk == "csp":
            if name == "add" and len(args) == 1:
                p2, b, _ = self.ex(args[0])
                t = self.fresh("c")
                return p + p2 + [f"let {t} ← Gen.CSP_add {par(v)} {par(b)}"], t, "csp"
            if name == "available_len" and not args:
                t = self.fresh("n")
                return p + [f"let {t} ← Gen.CSP_available_len {par(v)}"], t, "nat"
            if name in ("as_ptr", "as_mut_ptr") and not args:
                t = self.fresh("q")
                return p + [f"let {t} ← Gen.CSP_{name} {par(v)}"], t, "ptr"
        if self.drain_mode and name == "min" and kk == "nat" and len(args) == 1:
            p2, b, kb = self.ex(args[0])
            if kb != "nat":
                raise TErr(".min() of a non-integer")
            return p + p2, f"min {par(v)} {par(b)}", "nat"
        if name == "add" and kk == "ptr":
            p2, b, _ = self.ex(args[0])
            return p + p2, f"{par(v)} + {par(b)}", "ptr"
        if name in ("assume_init_ref", "assume_init_mut"):
            if kk != "slot":
                raise TErr(f".{name}() on a non-slot")
            return p + [f"let _ ← readInit {v}"], v, "slot"
        if name == "assume_init_read":
            if kk != "slot":
                raise TErr(".assume_init_read() on a non-slot")
            t = self.fresh("x")
            return p + [f"let {t} ← readInit {v}"], t, "elem"
        if name == "write":
            if kk != "slot":
                raise TErr(".write() on a non-slot")
            p2, item, _ = self.ex(args[0])
            return p + p2 + [f"writeCell {v} {par(item)}"], "()", "unit"
        if name == "checked_sub":
            p2, b, _ = self.ex(args[0])
            return p + p2, f"checkedSub {par(v)} {par(b)}", "opt"
        if name == "checked_add":
            p2, b, _ = self.ex(args[0])
            return p + p2, f"checkedAdd {par(v)} {par(b)}", "optnat"
        if name in ("saturating_add", "saturating_sub", "wrapping_add", "wrapping_sub") and kk == "nat" and len(args) == 1:
            p2, b, _ = self.ex(args[0])
            term = {"saturating_add": f"min ({v} + {b}) (W - 1)", "saturating_sub": f"{par(v)} - {par(b)}",
                    "wrapping_add": f"({v} + {b}) % W", "wrapping_sub": f"({v} + W - {b}) % W"}[name]
            return p + p2, term, "nat"
        if name == "expect" and kk == "optnat" and args and args[0][0] == "str":
            tag = self.doc_tag()
            t = self.fresh("x")
            return p + [f"let {t} ← (match {v} with | some v => pure v | none => raise (.doc \"{tag}\"))"], t, "nat"
        if name == "len" and kk == "view" and not args:
            return p, f"{par(v)}.len", "nat"
        if name in ("split_at", "split_at_mut"):
            p2, b, _ = self.ex(args[0])
            t = self.fresh("sp")
            return p + p2 + [f"let {t} ← liftE (View.splitAt {par(v)} {par(b)})"], t, "tuple:view,view"
        raise TErr(f"unsupported method .{name}()")

    # statements -> list of do-lines
    def stmt(self, s):
        if s[0] == "item_struct":
            self.pending_struct = s[1]
            return []
        if s[0] == "item_impl":
            head, body = " ".join(s[1]), " ".join(s[2])
            m = re.search(r"Drop for (\w+)", head)
            if not m:
                raise TErr("local impl other than Drop")
            want = ("ptr::drop_in_place ( slice_assume_init_mut ( self . 0 ) )", "ptr::drop_in_place ( self . 0 )")
            if not any(w in body for w in want):
                raise TErr("unrecognised Drop impl of a local guard struct")
            self.guards.add(m.group(1))
            return []
        if s[0] == "let":
            pat, e = s[1], s[2]
            if e[0] == "call" and e[1] in self.guards and self.drain_mode and pat[0] == "pvar" and not pat[1].startswith("_"):
                # a guard that the body drops explicitly (`drop(g)`)
                p, v, kk = self.ex(e)
                self.live_guards[pat[1]] = v
                self.kinds[pat[1]] = "guard"
                return p
            if e[0] == "call" and e[1] in self.guards:
                p, v, kk = self.ex(e)
                if pat[0] != "pvar" or not pat[1].startswith("_"):
                    raise TErr("guard bound to a used name")
                self.scope_guards.append((pat[1], v))
                return p
            if e[0] == "try":
                raise TErr("`?` must be handled by the caller")
            if e[0] == "if":
                body = self.emit_if_value(e)
                cp = self.cond_pre
                lhs = self.bind_pat(pat, "any", e)
                return cp + [f"let {lhs} ← (" + body[0]] + body[1:-1] + [body[-1] + ")"]
            if e == ("field", ("path", "self"), "items"):
                raise TErr("alias of items")
            # `self.items.split_at(k)`
            if e[0] == "mcall" and self.is_items(e[1]) and e[2] in ("split_at", "split_at_mut"):
                p, b, _ = self.ex(e[3][0])
                lhs = self.bind_pat(pat, "tuple:view,view", e)
                return p + [f"let {lhs} ← liftE (View.splitAt (View.all (← getBuf).cap) {par(b)})"]
            p, v, kk = self.ex(e)
            lhs = self.bind_pat(pat, kk, e)
            return p + [f"let {lhs} := {v}"]
        if s[0] == "expr":
            e = s[1]
            if e[0] == "macro":
                return self.macro(e)
            if e[0] == "if":
                return self.emit_if_stmt(e)
            if e[0] == "match":
                pre, lines = self.emit_match(e)
                return pre + lines
            if e[0] == "unsafe" or e[0] == "block":
                out = []
                for x in e[1][1] if e[0] == "unsafe" else e[1]:
                    out += self.stmt(x)
                tail = e[1][2] if e[0] == "unsafe" else e[2]
                if tail is not None:
                    p, v, kk = self.ex(tail)
                    out += p
                return out
            if e[0] == "assign":
                raise TErr("assign")
            p, v, kk = self.ex(e)
            if e[0] == "mcall" and e[1] == ("path", "self") and e[2] in OWNED_OPT:
                return p + [f"dropOpt {v}"]      # the `Option<T>` that is not used is destroyed here
            return p
        if s[0] == "assign":
            op, lhs, rhs = s[1], s[2], s[3]
            if self.iter_mode and op == "=" and lhs[0] == "field" and lhs[1] == ("path", "self") and lhs[2] in ("right", "left"):
                p, v, kk = self.ex(rhs)
                if kk != "view":
                    raise TErr("assignment of a non-slice to an iterator field")
                return p + [f"let it : Iter := {{ it with {lhs[2]} := {v} }}"]
            if self.csp_mode and op == "=" and lhs == ("field", ("path", "self"), "offset"):
                p, v, _ = self.ex(rhs)
                return p + [f"let p : CSP := {{ p with offset := {v} }}"]
            if self.drain_mode and lhs[0] == "path" and self.kinds.get(lhs[1]) in ("nat", "csp"):
                # assignment to a local (`let mut`): the name is rebound
                if op == "=":
                    p, v, kk = self.ex(rhs)
                    if kk != self.kinds[lhs[1]]:
                        raise TErr("assignment changes the type of a local")
                    return p + [f"let {lean_name(lhs[1])} := {v}"]
                p, v, _ = self.ex(("bin", op[0], lhs, rhs))
                return p + [f"let {lean_name(lhs[1])} := {v}"]
            via_ref = lhs[0] == "field" and lhs[1][0] == "path" and self.kinds.get(lhs[1][1]) == "bufref"
            if not (lhs[0] == "field" and (lhs[1] == ("path", "self") or via_ref) and lhs[2] in ("size", "start")):
                raise TErr("assignment to something other than self.size / self.start")
            setter = "setSize" if lhs[2] == "size" else "setStart"
            if op == "=":
                p, v, _ = self.ex(rhs)
                return p + [f"{setter} {par(v)}"]
            p, v, _ = self.ex(("bin", op[0], lhs, rhs))
            return p + [f"{setter} {par(v)}"]
        raise TErr(f"statement {s[0]}")

    def emit_while(self, s):
        """`while v > 0 { body }` (drain mode): a recursive definition on a fuel argument over the variables
        the body assigns (in name order), called with fuel `v + 1`"""
        _, c, b = s
        if (not self.drain_mode and not self.iter_mode and c[0] == "cmp" and c[1] == "<"
                and c[2] == ("field", ("path", "self"), "size") and c[3] == ("path", "N") and b[2] is None):
            # `while self.size < N { body }`: the fuelled loop `whileM` of Mem.lean, with fuel `N - size`
            saved = dict(self.kinds)
            lines = []
            for x in b[1]:
                lines += self.stmt(x)
            self.kinds = saved
            # (the message is the one the model's loop of this shape reports when its fuel runs out — it never does)
            out = ["whileM \"fill_spare_with: fuel exhausted\" (do pure (decide ((← getBuf).size < (← getBuf).cap))) (do"]
            out += ["    " + l for l in lines] + ["    pure ()) ((← getBuf).cap - (← getBuf).size)"]
            return out
        if not (self.drain_mode and c[0] == "cmp" and c[1] == ">" and c[2][0] == "path" and c[3] == ("num", "0")
                and self.kinds.get(c[2][1]) == "nat"):
            raise TErr("loop of an unsupported shape")
        if self.aux_defs:
            raise TErr("more than one loop")
        v = c[2][1]
        assigned = sorted({x[2][1] for x in b[1] if x[0] == "assign" and x[2][0] == "path"})
        if v not in assigned or b[2] is not None:
            raise TErr("loop of an unsupported shape")
        tys = {"nat": "Nat", "csp": "CSP"}
        for x in assigned:
            if self.kinds.get(x) not in tys:
                raise TErr(f"loop variable {x} of an unsupported type")
        saved = dict(self.kinds)
        lines = []
        for x in b[1]:
            lines += self.stmt(x)
        self.kinds = saved
        n = len(assigned)

        def proj(i):
            return "x" + ".2" * i + (".1" if i < n - 1 else "")
        if n == 1:
            raise TErr("loop over a single variable")
        sty = " × ".join(tys[self.kinds[x]] for x in assigned)
        tup = "(" + ", ".join(lean_name(x) for x in assigned) + ")"
        lname = f"Gen.{self.fname}_step"
        d = [f"/-- one iteration of the `while {v} > 0` loop of `{self.fname}`, on the loop state {tup} -/",
             f"def {lname} (d : Drain) (x : {sty}) : M ({sty}) := do"]
        d += [f"  let {lean_name(y)} := {proj(i)}" for i, y in enumerate(assigned)]
        d += ["  " + l for l in lines] + [f"  pure {tup}"]
        self.aux_defs.append("\n".join(d))
        self.loop_type = sty
        return [f"whileFuel (fun x : {sty} => decide ({proj(assigned.index(v))} > 0)) ({lname} d) ({lean_name(v)} + 1) {tup}"]

    def bind_pat(self, pat, kind, e):
        if pat[0] == "pvar":
            self.kinds[pat[1]] = kind if kind != "any" else self.guess_kind(e)
            return lean_name(pat[1])
        names = []
        sub = kind.split(":", 1)[1].split(",") if kind.startswith("tuple:") else None
        for i, p in enumerate(pat[1]):
            if p[0] != "pvar":
                raise TErr("nested pattern")
            self.kinds[p[1]] = sub[i] if sub and i < len(sub) else "view"
            names.append(lean_name(p[1]))
        return "(" + ", ".join(names) + ")"

    def guess_kind(self, e):
        return "view"

    def macro(self, e):
        name, args = e[1], e[2]
        if name in ("debug_assert", "assert"):
            p, c, _ = self.ex(args[0])
            msg = args[1][1] if len(args) > 1 and args[1][0] == "str" else ""
            if name == "debug_assert":
                return p + [f'dassert (decide ({c})) "{msg}"']
            tag = self.doc_tag()
            return p + [f'if {c} then pure () else raise (.doc "{tag}")']
        if name == "debug_assert_eq":
            pa, a, _ = self.ex(args[0])
            pb, b, _ = self.ex(args[1])
            return pa + pb + [f"dassert (decide ({a} = {b}))"]
        raise TErr(f"macro {name}!")

    def lean_pat(self, pat, skind):
        k = pat[0]
        if k == "mwild":
            return "_"
        if k == "munit":
            return "()"
        if k == "mvar":
            self.kinds[pat[1]] = "elem" if skind in ("opt", "res") else "nat"
            if skind == "bound":
                self.kinds[pat[1]] = "nat"
            return lean_name(pat[1])
        name, sub = pat[1], pat[2]
        ctor = {"Some": "some", "None": "none", "Ok": "Except.ok", "Err": "Except.error",
                "Bound::Included": "Bound.incl", "Bound::Excluded": "Bound.excl", "Bound::Unbounded": "Bound.unb"}.get(name)
        if not ctor:
            raise TErr(f"pattern {name}(..)")
        if sub is None:
            return ctor
        return f"{ctor} {self.lean_pat(sub, skind)}"

    def emit_match(self, e):
        """(pre statements, lines) of a `match` whose arms are blocks ending in a value"""
        _, scrut, arms = e
        p, v, kk = self.ex(scrut)
        lines = [f"match {v} with"]
        for pat, body in arms:
            saved = dict(self.kinds)
            lp = self.lean_pat(pat, kk)
            lines.append(f"| {lp} => do")
            lines += ind(self.body(body[1], body[2]))
            self.kinds = saved
        return p, lines

    def emit_if_stmt(self, e):
        """an `if` in statement position whose value is unit"""
        _, c, th, el = e
        p, cv, _ = self.ex(c)
        tb = self.block_unit(th)
        eb = self.block_unit(el) if el else ["pure ()"]
        if self.iter_mode and any("let it" in l for l in tb + eb):
            raise TErr("the iterator is updated inside a conditional that is not the end of the body")
        return p + [f"if {cv} then do"] + ind(tb) + ["else do"] + ind(eb)

    def block_unit(self, b):
        out = []
        for s in b[1]:
            out += self.stmt(s)
        if b[2] is not None:
            p, v, kk = self.ex(b[2])
            out += p
        return out + ["pure ()"]

    def emit_if_value(self, e):
        _, c, th, el = e
        if el is None:
            raise TErr("value `if` without else")
        p, cv, _ = self.ex(c)
        self.cond_pre = p
        return [f"if {cv} then do"] + ind(self.block_value(th)) + ["else do"] + ind(self.block_value(el))

    def block_value(self, b):
        saved = dict(self.kinds)
        out = self.body(b[1], b[2])
        self.kinds = saved
        return out

    # function / block body with early returns: statements + tail -> do-lines ending in a value
    def body(self, stmts, tail):
        out = []
        skip = 0
        for idx, s in enumerate(stmts):
            if skip:
                skip -= 1
                continue
            rest = stmts[idx + 1:]
            if self.drain_mode and is_drop_call(s) and self.live_guards:
                # `drop(g1); drop(g2); ..` over all the live guards: each one is destroyed even if an earlier
                # one panicked (the others are still live locals then, and unwinding drops them)
                run = []
                for x in stmts[idx:]:
                    if not is_drop_call(x):
                        break
                    run.append(x[1][2][0][1])
                if sorted(run) != sorted(self.live_guards):
                    raise TErr("explicit drops that do not cover the live guards exactly once")
                term = f"dropInPlace {self.live_guards[run[-1]]}.slots"
                for g in reversed(run[:-1]):
                    term = f"tryFinally (dropInPlace {self.live_guards[g]}.slots) ({term})"
                out.append(term)
                self.live_guards = {}
                skip = len(run) - 1
                continue
            if s[0] == "while":
                out += self.emit_while(s)
                continue
            # guard: if c { ...; return e; }
            if s[0] == "expr" and s[1][0] == "if" and s[1][3] is None and ends_in_return(s[1][2]):
                _, c, th, _ = s[1]
                p, cv, _ = self.ex(c)
                saved = dict(self.kinds)
                tb = self.returning_block(th)
                self.kinds = saved
                eb = self.body(rest, tail)
                return out + p + [f"if {cv} then do"] + ind(tb) + ["else do"] + ind(eb)
            # let x = match e { P => return v, Q => expr };  — an arm may leave the function
            if s[0] == "let" and s[2][0] == "match" and any(arm_returns(b) for _, b in s[2][2]):
                _, scrut, arms = s[2]
                p, v, kk = self.ex(scrut)
                lines = [f"match {v} with"]
                for pat, b in arms:
                    saved = dict(self.kinds)
                    lp = self.lean_pat(pat, kk)
                    lines.append(f"| {lp} => do")
                    if arm_returns(b):
                        lines += ind(self.body(b[1], b[2]))
                    else:
                        # the arm's value is bound to the pattern of the `let`, then the rest of the body runs
                        cont = [("let", s[1], ("block", b[1], b[2]) if b[1] else b[2])] + list(rest)
                        lines += ind(self.body(cont, tail))
                    self.kinds = saved
                return out + p + lines
            # let x = e?;  /  let x = a.m()?.n()?;
            if s[0] == "let" and s[2][0] == "try":
                return out + self.try_chain(s[1], s[2], rest, tail)
            if s[0] == "expr" and s[1][0] == "return":
                return out + self.ret_value(s[1][1])
            out += self.stmt(s)
        if tail is None:
            return out + ["pure ()"]
        if tail[0] == "return":
            return out + self.ret_value(tail[1])
        if tail[0] == "if" and tail[3] is not None:
            _, c, th, el = tail
            p, cv, _ = self.ex(c)
            saved = dict(self.kinds)
            tb = self.body(th[1], th[2])
            self.kinds = dict(saved)
            eb = self.body(el[1], el[2])
            self.kinds = saved
            return out + p + [f"if {cv} then do"] + ind(tb) + ["else do"] + ind(eb)
        if tail[0] == "if" and tail[3] is None:
            return out + self.emit_if_stmt(tail) + ["pure ()"]
        if tail[0] == "match":
            pre, lines = self.emit_match(tail)
            return out + pre + lines
        if tail[0] in ("unsafe",):
            inner = tail[1]
            return out + self.body(inner[1], inner[2])
        if tail[0] == "macro":
            return out + self.macro(tail) + ["pure ()"]
        p, v, kk = self.ex(tail)
        if kk == "unit":
            return out + p + ["pure ()"]
        return out + p + [f"pure ({v})"]

    def ret_value(self, e):
        if e is None:
            return ["pure ()"]
        p, v, kk = self.ex(e)
        return p + [f"pure ({v})"]

    def returning_block(self, b):
        stmts, tail = list(b[1]), b[2]
        last = tail if tail is not None else stmts.pop()[1]
        out = []
        for s in stmts:
            out += self.stmt(s)
        return out + self.ret_value(last[1])

    def try_chain(self, pat, e, rest, tail):
        """let pat = <e>?; rest   where <e> is Option-valued; `None` returns `None` from the function"""
        inner = e[1]
        # a.checked_sub(b)?.checked_sub(c)?  : the receiver itself may be a `try`
        if inner[0] == "mcall" and inner[1][0] == "try":
            t = self.fresh("q")
            first = self.try_chain(("pvar", t), inner[1], [("let", pat, ("try", ("mcall", ("path", t), inner[2], inner[3])))] + list(rest), tail)
            return first
        p, v, kk = self.ex(inner)
        if kk != "opt":
            raise TErr("`?` on a non-Option")
        name = self.bind_pat(pat, "nat", inner)
        cont = self.body(rest, tail)
        return p + [f"match {v} with", "| none => pure none", f"| some {name} => do"] + ind(cont)


def is_drop_call(s):
    return (s[0] == "expr" and s[1][0] == "call" and s[1][1] == "drop" and len(s[1][2]) == 1
            and s[1][2][0][0] == "path")


def arm_returns(b):
    """does this match arm (a block) end in `return ...`?"""
    if b[2] is not None:
        return b[2][0] == "return"
    return bool(b[1]) and b[1][-1][0] == "expr" and b[1][-1][1][0] == "return"


def ends_in_return(b):
    if b[2] is not None:
        return b[2][0] == "return"
    return bool(b[1]) and b[1][-1][0] == "expr" and b[1][-1][1][0] == "return"


def ind(lines):
    return ["  " + l for l in lines]


def par(v):
    v = v.strip()
    if re.fullmatch(r"[\w«».]+|\(.*\)", v) and (not v.startswith("(") or balanced(v)):
        return v
    return f"({v})"


def balanced(v):
    d = 0
    for i, c in enumerate(v):
        d += (c == "(") - (c == ")")
        if d == 0 and i < len(v) - 1:
            return False
    return True


# ----------------------------------------------------------------------------- signatures
def lean_type(rt):
    rt = (rt or "()").strip()
    rt = re.sub(r"\s+", " ", rt)
    table = {
        "()": ("Unit", "unit"), "usize": ("Nat", "nat"), "bool": ("Bool", "bool"),
        "Option<T>": ("Option Elem", "opt"), "Option<&T>": ("Option Nat", "opt"), "Option<&mut T>": ("Option Nat", "opt"),
        "Result<(), T>": ("Except Elem Unit", "res"),
        "&MaybeUninit<T>": ("Nat", "slot"), "&mut MaybeUninit<T>": ("Nat", "slot"),
        "&mut [T]": ("View", "view"), "&[T]": ("View", "view"),
        "(&[T], &[T])": ("View × View", "tuple:view,view"), "(&mut [T], &mut [T])": ("View × View", "tuple:view,view"),
        "(&mut [MaybeUninit<T>], &mut [MaybeUninit<T>])": ("View × View", "tuple:view,view"),
    }
    if rt not in table:
        raise TErr(f"return type {rt}")
    return table[rt]


def parse_sig(sig, iter_mode=False):
    recv_mut = False
    sig = sig.strip()
    i = sig.index("(")
    d, j = 1, i + 1
    while d:
        d += (sig[j] == "(") - (sig[j] == ")")
        j += 1
    plist, rest = sig[i + 1:j - 1], sig[j:].strip()
    ret = None
    if re.match(r"where\b", rest):
        rest = ""
    if rest.startswith("->"):
        ret = rest[2:].strip()
    elif rest:
        raise TErr(f"signature tail {rest!r}")
    params = []
    if ret and re.search(r"\bwhere\b", ret):
        ret = re.split(r"\bwhere\b", ret)[0].strip()
    plist_items, depth, cur = [], 0, ""
    for ch in plist:
        depth += (ch in "<([") - (ch in ">)]")
        if ch == "," and depth == 0:
            plist_items.append(cur); cur = ""
        else:
            cur += ch
    plist_items.append(cur)
    for p in [x.strip() for x in plist_items if x.strip()]:
        if p in ("&self", "&mut self", "self", "mut self"):
            if iter_mode == "csp":
                params.append(("p", "CSP", "csp"))
            elif iter_mode == "drain":
                params.append(("d", "Drain", "drain"))
                recv_mut = p == "&mut self"
            elif iter_mode:
                params.append(("it", "Iter", "iter"))
                recv_mut = p == "&mut self"
            continue
        n, t = [x.strip() for x in p.split(":", 1)]
        n = n.replace("mut ", "")
        if t == "usize":
            params.append((n, "Nat", "nat"))
        elif t == "T":
            params.append((n, "Elem", "elem"))
        elif t == "Range<usize>":
            params.append((n, "Nat × Nat", "range"))
        elif t == "F" and re.search(r"\bF\s*:\s*FnMut\(\)\s*->\s*T\b", sig):
            params.append((n, None, "producer"))     # a closure producing elements: user code, `produceElem "call"`
        elif iter_mode and re.fullmatch(r"&('\w+ )?(mut )?CircularBuffer<N, T>", t):
            params.append((n, None, "bufref"))
        elif iter_mode and t == "R":
            params.append((n, None, "rangebounds"))
        else:
            raise TErr(f"parameter type {t}")
    if iter_mode is True and ret == "Option<Self::Item>" and recv_mut:
        return params, ("Option Nat × Iter", "optit!")     # `&mut self`: the updated iterator is returned too
    if iter_mode == "csp":
        if ret == "Self":
            return params, ("CSP", "csp")
        if ret in ("*const T", "*mut T"):
            return params, ("Nat", "ptr")
    elif iter_mode == "drain":
        if ret == "Self":
            return params, ("Drain", "drain")
        if ret == "T":
            return params, ("Elem", "elem")
        if ret == "Option<Self::Item>" and recv_mut:
            return params, ("Option Elem × Drain", "opt!")     # `&mut self`: the updated value is returned too
    elif iter_mode:
        if ret == "Self":
            return params, ("Iter", "iter")
        if ret in (None, "()") and recv_mut:
            return params, ("Iter", "iter!")         # `&mut self`, unit: the updated iterator is returned
        if ret and re.sub(r"\s+", "", ret) == "(usize,usize)":
            return params, ("Nat × Nat", "tuple:nat,nat")
    return params, lean_type(ret)


def translate_iter(src, gname, impl_re, fname, fragment):
    """a function of the iterator layer: `self` (if any) is an `Iter` value `it`; the buffer reference
    is the state; a `RangeBounds` argument is the pair of bounds `sb eb`"""
    sig, body = find_fn_in(src, impl_re, fname)
    body = re.sub(r"#!?\[[^\]]*\]", "", body)
    params, (rty, rkind) = parse_sig(sig, iter_mode=True)
    ast = Parser(tokenize(body)).block()
    em = Emit(gname, fragment)
    em.iter_mode = True
    em.iter_prefix = "IterMut_" if gname.startswith("IterMut_") else "Iter_"
    lean_params = []
    for n, t, kk in params:
        em.kinds[n] = kk
        if kk == "rangebounds":
            lean_params += [("sb", "Bound"), ("eb", "Bound")]
        elif kk != "bufref":
            lean_params.append((n, t))
    lines = em.body(ast[1], ast[2])
    if rkind == "iter!":
        # tails in the body are unit: hand the updated iterator back
        lines = [re.sub(r"^(\s*)pure \(\)$", r"\1pure it", l) for l in lines]
        rkind = "iter"
    if rkind == "optit!":
        # every `pure (v)` of these bodies is a result: hand the updated iterator back with it
        lines = [re.sub(r"^(\s*)pure \((.*)\)$", r"\1pure (\2, it)", l) for l in lines]
        rkind = "opt"
    ps = "".join(f" ({lean_name(n)} : {t})" for n, t in lean_params)
    head = f"/-- translated from `fn {fname}` ({impl_re or 'free function of iter.rs'}) -/\ndef Gen.{gname}{ps} : M ({rty}) := do"
    return head + "\n" + "\n".join(ind(lines)), rkind, [t for _, t in lean_params], rty


def drop_unstable_alternative(body):
    """the checks build the crate without the `unstable` feature (C18 compares the two builds): of
    `#[cfg(feature = "unstable")] unsafe { A }  #[cfg(not(feature = "unstable"))] unsafe { B }` keep B"""
    out, i = "", 0
    pat = re.compile(r'#\[cfg\(feature\s*=\s*"unstable"\)\]\s*(unsafe\s*)?\{')
    while True:
        m = pat.search(body, i)
        if not m:
            return out + body[i:]
        out += body[i:m.start()]
        d, j = 1, m.end()
        while d:
            d += (body[j] == "{") - (body[j] == "}")
            j += 1
        i = j


def translate_drain(src, gname, impl_re, fname, fragment):
    """a function of `drain.rs`: `self` (if any) is a `Drain` value `d`; the buffer is the state; a
    `RangeBounds` argument is the pair of bounds `sb eb`"""
    sig, body = find_fn_in(src, impl_re, fname)
    body = drop_unstable_alternative(body)
    body = re.sub(r"#!?\[[^\]]*\]", "", body)
    # `&*(s as *const [MaybeUninit<T>] as *const [T])` is `slice_assume_init_ref(s)` spelled with casts
    body = re.sub(r"&\s*\*\s*\(\s*(\w+)\s+as\s+\*const\s+\[MaybeUninit<T>\]\s+as\s+\*const\s+\[T\]\s*\)", r"slice_assume_init_ref(\1)", body)
    body = re.sub(r"&mut\s*\*\s*\(\s*(\w+)\s+as\s+\*mut\s+\[MaybeUninit<T>\]\s+as\s+\*mut\s+\[T\]\s*\)", r"slice_assume_init_mut(\1)", body)
    csp = impl_re == CSP_IMPL
    params, (rty, rkind) = parse_sig(sig, iter_mode="csp" if csp else "drain")
    ast = Parser(tokenize(body)).block()
    em = Emit(gname, fragment)
    em.drain_mode = True
    em.csp_mode = csp
    lean_params = []
    for n, t, kk in params:
        em.kinds[n] = kk
        if kk == "rangebounds":
            lean_params += [("sb", "Bound"), ("eb", "Bound")]
        elif kk != "bufref":
            lean_params.append((n, t))
    lines = em.body(ast[1], ast[2])
    if em.scope_guards or em.live_guards:
        raise TErr("guards that are not dropped explicitly")
    if rkind == "opt!":
        m = re.fullmatch(r"(\s*)pure \((.*)\)", lines[-1])
        if not m:
            raise TErr("`&mut self` method whose result is not the tail of the body")
        lines[-1] = f"{m.group(1)}pure ({m.group(2)}, d)"
    ps = "".join(f" ({lean_name(n)} : {t})" for n, t in lean_params)
    head = f"/-- translated from `fn {fname}` ({impl_re}) -/\ndef Gen.{gname}{ps} : M ({rty}) := do"
    aux = "".join(a + "\n\n" for a in em.aux_defs)
    if gname == "Drain_drop" and not em.aux_defs:
        # the tie theorems speak of `Gen.Drain_drop_step`: keep the name defined
        n, ty, model = DRAIN_LOOP_FALLBACK
        aux = f"def Gen.{n} : {ty} := {model}\n\n"
    return aux + head + "\n" + "\n".join(ind(lines)), rkind, [t for _, t in lean_params], rty


def translate(src, name, fragment):
    sig, body = find_fn(src, name)
    body = re.sub(r"#!?\[[^\]]*\]", "", body)          # attributes inside the body
    params, (rty, rkind) = parse_sig(sig)
    ast = Parser(tokenize(body)).block()
    em = Emit(name, fragment)
    for n, _, kk in params:
        em.kinds[n] = kk
    # Bool-valued tail (is_empty, is_full): decide
    lines = em.body(ast[1], ast[2])
    if em.scope_guards:
        # only the shape "guards declared at the end of the body, unit result" is supported
        if rty != "Unit" or not lines or lines[-1].strip() != "pure ()":
            raise TErr("scope guards in a function of unsupported shape")
        # Rust runs the guards in reverse declaration order.  The order in which two guards of one
        # function run is not part of any property (every guard runs, whatever the others do), and the
        # model fixes one order: the guards are therefore taken in *name* order, not declaration order.
        g = [v for _, v in sorted(em.scope_guards, key=lambda nv: nv[0], reverse=True)]
        term = f"dropInPlace {g[-1]}.slots"
        for v in reversed(g[:-1]):
            term = f"tryFinally (dropInPlace {v}.slots) ({term})"
        indent = re.match(r"\s*", lines[-1]).group(0)
        lines = lines[:-1] + [indent + term]
    if rty == "Bool":
        lines = [re.sub(r"^pure \((.*)\)$", r"pure (decide (\1))", l) if l.startswith("pure (") else l for l in lines]
    ps = "".join(f" ({lean_name(n)} : {t})" for n, t, _ in params if t is not None)
    head = f"/-- translated from `fn {name}` -/\ndef Gen.{name}{ps} : M ({rty}) := do"
    return head + "\n" + "\n".join(ind(lines)), rkind


# signatures as translated from the pinned source (used only when a signature itself cannot be parsed)
REF_SIG = {}


def elaboration_failures(out):
    """names of generated definitions that Lean rejects (type errors in emitted code); [] if the file
    cannot be checked here (no lake project around it, or its imports are not built yet)"""
    import os, subprocess
    d = os.path.dirname(os.path.abspath(out))
    root = None
    while d != "/":
        if os.path.exists(os.path.join(d, "lakefile.toml")) or os.path.exists(os.path.join(d, "lakefile.lean")):
            root = d; break
        d = os.path.dirname(d)
    if root is None:
        return []
    try:
        p = subprocess.run(["lake", "env", "lean", os.path.abspath(out)], cwd=root, capture_output=True, text=True, timeout=600)
    except Exception:
        return []
    txt = p.stdout + p.stderr
    if p.returncode == 0 or "object file" in txt or "unknown module prefix" in txt:
        return []
    lines = open(out).read().split("\n")
    starts = [(i + 1, m.group(1)) for i, l in enumerate(lines) for m in [re.match(r"def Gen\.(\w+)", l)] if m]
    bad = []
    for m in re.finditer(r":(\d+):\d+: error", txt):
        ln = int(m.group(1))
        owner = None
        for st, name in starts:
            if st <= ln:
                owner = name
        if owner and owner not in bad:
            bad.append(owner)
    return bad


def main():
    force_fallback = {}
    # self-test of the ties: T3_FORCE_FALLBACK="f,g" (or "all") treats these functions as outside the subset
    import os
    ff = os.environ.get("T3_FORCE_FALLBACK", "")
    if ff:
        names = (FRAGMENT + [g for g, _, _, _ in ITER_FRAGMENT] + [g for g, _, _, _ in DRAIN_FRAGMENT]) if ff == "all" else ff.split(",")
        force_fallback = {n: "forced (self-test)" for n in names}
    for _ in range(4):
        generate(force_fallback)
        bad = elaboration_failures(sys.argv[2])
        new = [b for b in bad if b not in force_fallback]
        if not new:
            break
        for b in new:
            force_fallback[b] = "the generated definition does not elaborate in Lean"
    report()


_REPORT = {}


def report():
    for n, why in _REPORT.get("failed", []):
        print(f"T3: cannot translate `{n}`: {why}")
    print(_REPORT.get("summary", "T3: nothing generated"))
    sys.exit(_REPORT.get("rc", 3))


def generate(force_fallback):
    src = strip_comments(open(sys.argv[1]).read())
    out = sys.argv[2]
    # result kinds must be known before bodies that call them are translated
    kinds = {}
    for n in FRAGMENT:
        try:
            sig, _ = find_fn(src, n)
            pr = parse_sig(sig)
            kinds[n] = pr[1][1]
            if pr[1][0] == "Option Elem":
                OWNED_OPT.add(n)
        except Exception:
            pass
    failed = []
    texts, rkinds = {}, {}
    for n in FRAGMENT:
        try:
            text, rk = translate(src, n, dict(kinds))
            texts[n], rkinds[n] = text, rk
            continue
        except TErr as e:
            failed.append((n, str(e)))
        except Exception as e:                       # a parser bug is a translation failure, not a crash
            failed.append((n, f"internal: {type(e).__name__}: {e}"))
    for n, why in force_fallback.items():
        if n in texts:
            texts.pop(n)
            failed.append((n, why))
    # definitions in dependency order (callees first); a call cycle cannot be emitted: fall back
    deps = {n: set(m for m in re.findall(r"\bGen\.(\w+)", t) if m != n and m in FALLBACK) for n, t in texts.items()}
    order, state = [], {}

    def visit(n, stack):
        if state.get(n) == 2 or n not in texts:
            return
        if state.get(n) == 1:
            raise TErr("call cycle " + " -> ".join(stack + [n]))
        state[n] = 1
        for m in sorted(deps[n], key=FRAGMENT.index):
            visit(m, stack + [n])
        state[n] = 2
        order.append(n)
    for n in FRAGMENT:
        try:
            visit(n, [])
        except TErr as e:
            failed.append((n, str(e)))
            texts.pop(n, None)
            state[n] = 2
    fb = {}
    for n, why in failed:
        # fall back to the hand model's definition, with the signature the translation would have had
        try:
            sig, _ = find_fn(src, n)
            params, (rty, rkind) = parse_sig(sig)
        except Exception:
            params, rty, rkind = REF_SIG.get(n, ([], "Unit", "unit"))
        ptys = " → ".join([t for _, t, _ in params if t is not None] + [f"M ({rty})"])
        why = why.replace("-/", "- /")
        fb[n] = (f"/-- `fn {n}` could not be translated on this run ({why}): the hand model\'s definition -/\n"
                 f"def Gen.{n} : {ptys} := {FALLBACK[n]}")
    defs = [fb[n] for n in FRAGMENT if n in fb] + [texts[n] for n in order if n in texts]
    done = {n: 1 for n in FRAGMENT}
    # ---- the iterator layer (src/iter.rs), in the order of ITER_FRAGMENT (callees first)
    import os
    ipath = os.path.join(os.path.dirname(os.path.abspath(sys.argv[1])), "iter.rs")
    ITER_SIG = {"translate_range_bounds": "Bound → Bound → M (Nat × Nat)", "Iter_empty": "M (Iter)", "Iter_new": "M (Iter)",
                "Iter_advance_front_by": "Iter → Nat → M (Iter)", "Iter_advance_back_by": "Iter → Nat → M (Iter)",
                "Iter_over_range": "Bound → Bound → M (Iter)", "Iter_len": "Iter → M (Nat)",
                "Iter_next": "Iter → M (Option Nat × Iter)", "Iter_next_back": "Iter → M (Option Nat × Iter)"}
    for k in ("empty", "new", "advance_front_by", "advance_back_by", "over_range", "len", "next", "next_back"):
        ITER_SIG["IterMut_" + k] = ITER_SIG["Iter_" + k]
    try:
        isrc = strip_comments(open(ipath).read())
    except OSError:
        isrc = ""
    iter_names = {g for g, _, _, _ in ITER_FRAGMENT}
    for gname, impl_re, fname, model in ITER_FRAGMENT:
        try:
            if gname in force_fallback:
                raise TErr(force_fallback[gname])
            text, rk, ptys, rty = translate_iter(isrc, gname, impl_re, fname, set(done) | iter_names)
            if " → ".join(ptys + [f"M ({rty})"]) != ITER_SIG[gname]:
                raise TErr(f"signature changed: {' → '.join(ptys + [rty])}")
            defs.append(text)
        except Exception as e:
            why = (str(e) if isinstance(e, TErr) else f"internal: {type(e).__name__}: {e}").replace("-/", "- /")
            failed.append((gname, why))
            defs.append(f"/-- `{gname}` could not be translated on this run ({why}): the hand model\'s definition -/\n"
                        f"def Gen.{gname} : {ITER_SIG[gname]} := {model}")
        done[gname] = 1
    # ---- the draining iterator (src/drain.rs)
    dpath = os.path.join(os.path.dirname(os.path.abspath(sys.argv[1])), "drain.rs")
    try:
        dsrc = strip_comments(open(dpath).read())
    except OSError:
        dsrc = ""
    drain_names = {g for g, _, _, _ in DRAIN_FRAGMENT}
    for gname, impl_re, fname, model in DRAIN_FRAGMENT:
        try:
            if gname in force_fallback:
                raise TErr(force_fallback[gname])
            text, rk, ptys, rty = translate_drain(dsrc, gname, impl_re, fname, set(done) | drain_names)
            if " → ".join(ptys + [f"M ({rty})"]) != DRAIN_SIG[gname]:
                raise TErr(f"signature changed: {' → '.join(ptys + [rty])}")
            defs.append(text)
        except Exception as e:
            why = (str(e) if isinstance(e, TErr) else f"internal: {type(e).__name__}: {e}").replace("-/", "- /")
            failed.append((gname, why))
            if gname == "Drain_drop":
                n, ty, lmodel = DRAIN_LOOP_FALLBACK
                defs.append(f"def Gen.{n} : {ty} := {lmodel}")
            defs.append(f"/-- `{gname}` could not be translated on this run ({why}): the hand model\'s definition -/\n"
                        f"def Gen.{gname} : {DRAIN_SIG[gname]} := {model}")
        done[gname] = 1
    L = ["-- GENERATED by /verif/translate/t3_core.py from /repo/src/lib.rs — do not edit.",
         "import CircBuf.GenPrelude", "import CircBuf.Model", "set_option linter.unusedVariables false", "namespace CircBuf", ""]
    L.append("\n\n".join(defs))
    L += ["", "/-- functions of the fragment that were translated on this run -/",
          "def Gen.translated : List String := [" + ", ".join(f'"{n}"' for n in done if n not in dict(failed)) + "]",
          "/-- functions whose body is outside the translated subset on this run: tied by the correspondence only -/",
          "def Gen.fallback : List String := [" + ", ".join(f'"{n}"' for n, _ in failed) + "]", "", "end CircBuf", ""]
    text = "\n".join(L)
    try:
        old = open(out).read()
    except FileNotFoundError:
        old = None
    if old != text:
        open(out, "w").write(text)
    ntr = len(done) - len(failed)
    _REPORT["failed"] = failed
    _REPORT["summary"] = f"T3: {'unchanged' if old == text else 'regenerated'}: {ntr}/{len(FRAGMENT) + len(ITER_FRAGMENT) + len(DRAIN_FRAGMENT)} functions translated"
    _REPORT["rc"] = 0 if ntr else 3


if __name__ == "__main__":
    main()
