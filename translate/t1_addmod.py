#!/usr/bin/env python3
"""T1: translate the integer helpers `add_mod` and `sub_mod` of /repo/src/lib.rs into Lean.

The Rust bodies are parsed (let bindings, tuple pattern from `overflowing_add`, `+ - * %`,
comparisons, `as usize`, `usize::MAX`, calls, `debug_assert!`) and emitted as Lean definitions over
the *checked* word operations of CircBuf/Word.lean, in Rust's evaluation order, each
`debug_assert!` becoming a model assertion.  The theorems in CircBuf/Lemmas/AddModSpec.lean are about
the emitted text, so they are re-checked against what the code says now on every run.

usage: t1_addmod.py <lib.rs> <out.lean>     exit 0 ok, exit 3 = cannot translate (obligation broken)
"""
import re, sys

class TErr(Exception): pass

TOK = re.compile(r"\s*(?:(\d+)|([A-Za-z_][A-Za-z0-9_]*(?:::[A-Za-z_][A-Za-z0-9_]*)*)|(<=|>=|==|!=|&&|\|\||[-+*%()<>,.!]))")

def tokenize(s):
    out, i = [], 0
    s = s.strip()
    while i < len(s):
        m = TOK.match(s, i)
        if not m: raise TErr(f"cannot tokenize at: {s[i:i+20]!r}")
        if m.group(1): out.append(('num', m.group(1)))
        elif m.group(2): out.append(('id', m.group(2)))
        else: out.append(('op', m.group(3)))
        i = m.end()
        while i < len(s) and s[i].isspace(): i += 1
    return out

class P:
    def __init__(s, toks): s.t, s.i = toks, 0
    def peek(s): return s.t[s.i] if s.i < len(s.t) else (None, None)
    def eat(s, kind=None, val=None):
        k, v = s.peek()
        if (kind and k != kind) or (val and v != val): raise TErr(f"expected {kind} {val}, got {k} {v}")
        s.i += 1; return v
    def expr(s): return s.cmp()
    def cmp(s):
        l = s.add()
        k, v = s.peek()
        if k == 'op' and v in ('<', '<=', '>', '>=', '==', '!='):
            s.eat(); r = s.add(); return ('cmp', v, l, r)
        return l
    def add(s):
        l = s.mul()
        while s.peek() in (('op', '+'), ('op', '-')):
            v = s.eat(); r = s.mul(); l = ('bin', v, l, r)
        return l
    def mul(s):
        l = s.cast()
        while s.peek() in (('op', '*'), ('op', '%')):
            v = s.eat(); r = s.cast(); l = ('bin', v, l, r)
        return l
    def cast(s):
        e = s.post()
        while s.peek() == ('id', 'as'):
            s.eat(); ty = s.eat('id')
            if ty != 'usize': raise TErr(f"unsupported cast to {ty}")
            e = ('cast', e)
        return e
    def post(s):
        e = s.atom()
        while s.peek() == ('op', '.'):
            s.eat(); name = s.eat('id'); s.eat('op', '('); args = s.args(); e = ('method', name, e, args)
        return e
    def args(s):
        a = []
        if s.peek() == ('op', ')'): s.eat(); return a
        while True:
            a.append(s.expr())
            if s.peek() == ('op', ','): s.eat(); continue
            s.eat('op', ')'); return a
    def atom(s):
        k, v = s.peek()
        if k == 'num': s.eat(); return ('num', v)
        if k == 'id':
            s.eat()
            if s.peek() == ('op', '('):
                s.eat(); return ('call', v, s.args())
            return ('var', v)
        if (k, v) == ('op', '('):
            s.eat(); e = s.expr(); s.eat('op', ')'); return e
        raise TErr(f"unexpected token {k} {v}")

def parse_expr(text):
    p = P(tokenize(text)); e = p.expr()
    if p.i != len(p.t): raise TErr(f"trailing tokens in {text!r}")
    return e

def fn_source(src, name):
    m = re.search(r"const\s+fn\s+%s\s*\(([^)]*)\)\s*->\s*usize\s*\{" % name, src) or \
        re.search(r"fn\s+%s\s*\(([^)]*)\)\s*->\s*usize\s*\{" % name, src)
    if not m: raise TErr(f"fn {name} not found")
    params = [p.split(':')[0].strip() for p in m.group(1).split(',') if p.strip()]
    for p in m.group(1).split(','):
        if p.strip() and p.split(':')[1].strip() != 'usize': raise TErr(f"{name}: non-usize parameter")
    i = m.end(); depth = 1; j = i
    while depth:
        if src[j] == '{': depth += 1
        elif src[j] == '}': depth -= 1
        j += 1
    body = src[i:j-1]
    body = re.sub(r"//[^\n]*", "", body)
    return params, body

NAMES = {'add_mod': 'addMod', 'sub_mod': 'subMod'}
CMP = {'<': '<', '<=': '≤', '>': '>', '>=': '≥', '==': '=', '!=': '≠'}

class Emit:
    def __init__(s): s.lines, s.n = [], 0
    def tmp(s): s.n += 1; return f"t{s.n}"
    def val(s, e):
        """emit statements computing e (a usize- or bool-valued expression); return a Lean atom"""
        k = e[0]
        if k == 'num': return e[1]
        if k == 'var':
            if e[1] == 'usize::MAX': return '(W - 1)'
            if '::' in e[1]: raise TErr(f"unsupported path {e[1]}")
            return e[1]
        if k == 'cast': return f"(AsUsize.asUsize {s.val(e[1])})"
        if k == 'bin':
            a = s.val(e[2]); b = s.val(e[3]); t = s.tmp()
            op = {'+': 'uadd', '-': 'usub', '*': 'umul', '%': 'umod'}[e[1]]
            s.lines.append(f"let {t} ← {op} {a} {b}"); return t
        if k == 'call':
            if e[1] not in NAMES: raise TErr(f"unsupported call {e[1]}")
            args = [s.val(a) for a in e[2]]; t = s.tmp()
            s.lines.append(f"let {t} ← {NAMES[e[1]]} {' '.join(args)}"); return t
        if k == 'cmp':
            a = s.val(e[2]); b = s.val(e[3]); return f"(decide ({a} {CMP[e[1]]} {b}))"
        raise TErr(f"unsupported expression {e}")

def translate_fn(src, name):
    params, body = fn_source(src, name)
    stmts = [x.strip() for x in body.split(';')]
    em = Emit()
    tail = stmts[-1]
    for st in stmts[:-1]:
        if not st: continue
        m = re.fullmatch(r"debug_assert!\s*\((.*)\)", st, re.S)
        if m:
            cond = m.group(1)
            # drop an optional message argument
            e = parse_expr(cond.split(',"')[0]) if ',"' in cond.replace(', "', ',"') else parse_expr(cond)
            em.lines.append(f"dassertE {em.val(e)}"); continue
        m = re.fullmatch(r"let\s*\(\s*(\w+)\s*,\s*(\w+)\s*\)\s*=\s*(\w+)\s*\.\s*overflowing_add\s*\(\s*(\w+)\s*\)", st)
        if m:
            em.lines.append(f"let ({m.group(1)}, {m.group(2)}) := overflowingAdd {m.group(3)} {m.group(4)}"); continue
        m = re.fullmatch(r"let\s+(\w+)\s*=\s*(.*)", st, re.S)
        if m:
            v = em.val(parse_expr(m.group(2))); em.lines.append(f"let {m.group(1)} := {v}"); continue
        raise TErr(f"{name}: unsupported statement {st!r}")
    if not tail: raise TErr(f"{name}: no tail expression")
    r = em.val(parse_expr(tail))
    em.lines.append(f"pure {r}")
    out = [f"/-- translated from `fn {name}` -/",
           f"def {NAMES[name]} ({' '.join(params)} : Nat) : Except Panic Nat := do"]
    out += ["  " + l for l in em.lines]
    return "\n".join(out)

def main():
    src = open(sys.argv[1]).read()
    try:
        defs = [translate_fn(src, 'add_mod'), translate_fn(src, 'sub_mod')]
    except TErr as e:
        print(f"T1: cannot translate: {e}", file=sys.stderr); sys.exit(3)
    text = ("-- GENERATED by /verif/translate/t1_addmod.py from /repo/src/lib.rs — do not edit.\n"
            "import CircBuf.Word\nnamespace CircBuf\n\n"
            "class AsUsize (α : Type) where\n  asUsize : α → Nat\n"
            "instance : AsUsize Bool := ⟨fun b => if b then 1 else 0⟩\n"
            "instance : AsUsize Nat := ⟨fun n => n⟩\n\n" + "\n\n".join(defs) + "\n\nend CircBuf\n")
    try:
        old = open(sys.argv[2]).read()
    except FileNotFoundError:
        old = None
    if old != text:
        open(sys.argv[2], 'w').write(text)
    print("T1: ok" + (" (unchanged)" if old == text else " (regenerated)"))

if __name__ == '__main__':
    main()
