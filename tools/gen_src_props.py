import re,sys,os
P='/verif/lean/CircBuf/CircBuf/Props/'
# model name -> (generated name, tie rewrite with {s} {h} placeholders)
MAP={'pushBack':('Gen.push_back','tie_push_back',1,'PushPop'),'pushFront':('Gen.push_front','tie_push_front',1,'PushPop'),
 'tryPushBack':('Gen.try_push_back','tie_try_push_back',1,'PushPop'),'tryPushFront':('Gen.try_push_front','tie_try_push_front',1,'PushPop'),
 'popBack':('Gen.pop_back','tie_pop_back',0,'PushPop'),'popFront':('Gen.pop_front','tie_pop_front',0,'PushPop'),
 'swap':('Gen.swap','tie_swap',2,'Swap'),'swapRemoveBack':('Gen.swap_remove_back','tie_swap_remove_back',1,'Swap'),
 'swapRemoveFront':('Gen.swap_remove_front','tie_swap_remove_front',1,'Swap'),
 'truncateBack':('Gen.truncate_back','tie_truncate_back',1,'Truncate'),'truncateFront':('Gen.truncate_front','tie_truncate_front',1,'Truncate'),
 'clear':('Gen.clear','tie_clear',0,'Truncate'),'get?':('Gen.get','tie_get',1,'Access'),'front?':('Gen.front','tie_front',0,'Access'),
 'back?':('Gen.back','tie_back',0,'Access'),
 'remove':('Gen.remove','tie_remove',1,'Remove'),'makeContiguous':('Gen.make_contiguous','tie_make_contiguous',0,'Remove'),
 'dropRange':('Gen.drop_range','tie_drop_range',2,'Truncate'),
 'IterOverRange':('Gen.Iter_over_range','tie_iter_over_range',2,'IterTie'),'IterNew':('Gen.Iter_new','tie_iter_new',0,'IterTie'),
 'translateRange':('Gen.translate_range_bounds','tie_translate_range_bounds',2,'IterTie'),'nthBack?':('Gen.nth_back','tie_nth_back',1,'Access'),
}
ND={'pushBack':'nd_pushBack _ {s} {h}','pushFront':'nd_pushFront _ {s} {h}','tryPushBack':'nd_tryPushBack _ {s} {h}',
 'tryPushFront':'nd_tryPushFront _ {s} {h}','popBack':'nd_popBack {s} {h}','popFront':'nd_popFront {s} {h}',
 'swap':'nd_swap _ _ {s} {h}','swapRemoveBack':'nd_swapRemoveBack _ {s} {h}','swapRemoveFront':'nd_swapRemoveFront _ {s} {h}',
 'truncateBack':'nd_truncateBack_{mode} _ {s} {h} {hx}','truncateFront':'nd_truncateFront_{mode} _ {s} {h} {hx}',
 'clear':'nd_clear_{mode} {s} {h} {hx}','get?':'nd_get _ {s} {h}','front?':'nd_front {s} {h}','back?':'nd_back {s} {h}',
 'nthBack?':'nd_nthBack _ {s} {h}','remove':'nd_remove _ {s} {h}','makeContiguous':'nd_makeContiguous {s} {h}',
 'dropRange':'nd_dropRange_{mode} _ _ {s} {h} {hx} h1 h2 h3'}
LIVE={'pushBack','pushFront','tryPushBack','tryPushFront','popBack','popFront','swap','swapRemoveBack','swapRemoveFront','remove'}
WANT={'C01':['C01_push_back','C01_push_front','C01_try_push_back','C01_try_push_front','C01_pop_back','C01_pop_front','C01_swap','C01_swap_remove_back','C01_swap_remove_front','C01_truncate_back','C01_truncate_front','C01_clear','C01_remove','C01_make_contiguous'],
 'C02':['C02_push_back','C02_push_front','C02_try_push_back','C02_try_push_front'],
 'C07':['C07_get','C07_front','C07_back','C07_nth_back','C07_make_contiguous'],
 'C08':['C08_over_range','C08_whole'],
 'C05':['C05_drop_range','C05_truncate_back','C05_truncate_front','C05_clear'],
 'C11':['C11_swap_ok','C11_swap_panics_i','C11_swap_panics_j','C11_range_ok','C11_range_panics'],
 'C20':['C20_push_back','C20_push_front','C20_pop_back','C20_pop_front','C20_swap','C20_remove','C20_truncate','C20_make_contiguous'],
 'C04':['C04_push_back','C04_push_front','C04_pop_back','C04_pop_front','C04_swap_remove_back','C04_remove'],
}
DOC = {
 'C01': 'queue semantics (contents, order, length, return value) of the element-level core',
 'C02': 'single-element insertion never loses an element silently',
 'C04': 'behaviour is independent of the physical layout',
 'C07': 'element access returns the element at that logical position',
 'C05': 'a panicking element destructor never causes a second drop or a corrupt buffer',
 'C11': 'documented panics of `swap` and of the range translation',
 'C08': 'iterators over a range / the whole buffer visit exactly the specified slots',
 'C20': 'O(1) operations touch O(1) slots',
}
for pid,names in WANT.items():
    src=open(P+pid+'.lean').read()
    out=[]; groups=set()
    for n in names:
        m=re.search(r'^theorem %s\b'%re.escape(n),src,re.M)
        if not m: print("missing",n); continue
        j=m.end(); d=0
        while True:
            c=src[j]
            d+=(c in '([{⟨')-(c in ')]}⟩')
            if d==0 and src.startswith(':=',j): break
            j+=1
        head=src[m.end():j]
        d=0
        for i,c in enumerate(head):
            d+=(c in '([{')-(c in ')]}')
            if c==':' and d==0: break
        binders,stmt=head[:i],head[i+1:]
        bn=[]
        for mo in re.finditer(r'([\(\{])([^\)\}]*)[\)\}]',binders):
            nm,ty=mo.group(2).split(':',1)
            for x in nm.split(): bn.append((x,ty.strip(), mo.group(1)=='{'))
        used=[]
        def rep(mo):
            w=mo.group(0)
            if w in MAP:
                if w not in used: used.append(w)
                return MAP[w][0]
            return w
        stmt=re.sub(r"(?<![\w.])dropRange (\w+) (\w+)", r"dropRange (\1, \2)", stmt)
        stmt=stmt.replace("Iter.overRange","IterOverRange").replace("Iter.new","IterNew")
        stmt2=re.sub(r"(?<![\w.])[A-Za-z][A-Za-z0-9]*\??(?![\w?])",rep,stmt)
        if not used: print("no model fn in",n); continue
        sys_vars=[x for x,ty,_ in bn if ty=='Sys']
        inv={}
        for x,ty,_ in bn:
            mm=re.fullmatch(r'Inv (\w+)\.buf',ty)
            if mm: inv[mm.group(1)]=x
        rws=[]
        for u in used:
            g,t,k,grp=MAP[u]; groups.add(grp)
            for sv in sys_vars:
                if t == 'tie_translate_range_bounds':
                    rws.append(f"{t} {'_ '*k}{sv}")
                elif sv in inv and u in ND:
                    # which kind of "no defect" evidence do the hypotheses of the theorem give?
                    hx, mode = '', 'nofault'
                    for x, ty, _ in bn:
                        if re.fullmatch(r'%s\.faults\.drop = 0' % sv, ty):
                            hx, mode = x, 'nofault'
                    if not hx:
                        for x, ty, _ in bn:
                            if ty.startswith('¬') and '.kind' in ty:
                                hx, mode = x, 'any'
                    nd = ND[u].format(s=sv, h=inv[sv], mode=mode, hx=hx)
                    rws.append(f"{t} {'_ '*k}{sv} {inv[sv]} ({nd})")
                elif sv in inv:
                    rws.append(f"{t} {'_ '*k}{sv} {inv[sv]}")
        args=' '.join(x for x,ty,impl in bn if not impl)
        rw=', '.join(rws)
        if not inv and 'translateRange' in used:
            out.append(f"maybe theorem {n}_src{binders.rstrip()} :{stmt2.rstrip()} := by\n  rw [{', '.join(rws)}]; exact {n} {args}")
            continue
        if not inv:
            # no invariant among the hypotheses (documented panics of `swap`): the tie on all states
            lemma = "gen_swap_panics_i" if n.endswith("_i") else "gen_swap_panics_j"
            out.append(f"maybe theorem {n}_src{binders.rstrip()} :{stmt2.rstrip()} :=\n  {lemma} {args}")
            continue
        alts=[f"  | (rw [{rw}]; exact {n} {args})"]
        for D in ("RefinesL","Refines","Frames"):
            if re.search(r"\b%s\b"%D, stmt2):
                alts.append(f"  | (have h0 := {n} {args}; unfold {D} at h0 ⊢; rw [{rw}]; exact h0)")
        # the weak ties (equal up to the dead slots, `Lemmas/Tie/Live.lean`) carry the statements that speak of
        # the state through `Inv` and `abs` only
        lties=[r.replace('tie_','ltie_',1) for r in rws]
        if len(used)==1 and used[0] in LIVE and all(sv in inv for sv in sys_vars):
            if re.match(r"\s*Refines \(?Gen\.", stmt2):
                alts.append(f"  | (exact Refines.of_liveEq ({lties[0]}) ({n} {args}))"); groups.add('Live')
            elif n in ('C02_push_back','C02_push_front'):
                alts.append(f"  | (exact LiveEq.ex4 ({lties[0]}) ({n} {args}))"); groups.add('Live')
            elif pid=='C04' and len(lties)==2:
                alts.append(f"  | (exact LiveEq.ex2 ({lties[0]}) ({lties[1]}) ({n} {args}))"); groups.add('Live')
        if os.environ.get("ONLY_WEAK") and any("ltie_" in a for a in alts):
            alts=[a for a in alts if "ltie_" in a]      # self-test of the weak alternatives
        out.append(f"maybe theorem {n}_src{binders.rstrip()} :{stmt2.rstrip()} := by\n  first\n"+"\n".join(alts))
    imports="".join(f"import CircBuf.Lemmas.Tie.{g}\n" for g in sorted(groups))
    os.makedirs(P+'Src',exist_ok=True)
    open(P+f'Src/{pid}.lean','w').write(imports+f"import CircBuf.Lemmas.NonDefect\nimport CircBuf.Props.{pid}\n"+f"""/-!
# {pid} — {DOC[pid]}: the theorems of `Props/{pid}.lean`, restated about the *translated source*

`Generated/Core.lean` is regenerated from `/repo/src/lib.rs` on every run (translator T3,
`/verif/translate/t3_core.py`).  Each theorem below is the property theorem of the same name
(without `_src`) with the hand-written model function replaced by the definition translated from
the Rust body (`Gen.push_back` for `pushBack`, ...), carried over along the tie theorems of
`Lemmas/Tie/*.lean`.  A change to one of these Rust functions changes `Gen.*`; the tie, and with it
the `_src` theorem, is then re-proved by Lean on that run — or stops checking.
-/
namespace CircBuf

"""+"\n\n".join(out)+"\n\nend CircBuf\n")
    print(pid, len(out), "theorems")
