#!/usr/bin/env python3
"""seeded/MATRIX.md from the logs of tools/run_seeds.py (one JSON object per seed and line).
usage: build_matrix.py <own-property log (full Lean)> <all-properties log (may be partial)> [<harmless log> ...]"""
import json, sys, os
V = os.path.dirname(os.path.dirname(os.path.abspath(__file__)))
ALL = [f"C{i:02d}" for i in range(1, 21)]


def load(path):
    rows = {}
    if not path or not os.path.exists(path):
        return rows
    for line in open(path):
        if " {" not in line:
            continue
        sid, js = line.split(" ", 1)
        try:
            rows[sid] = json.loads(js)
        except Exception:
            pass
    return rows


def cell(v):
    if v is None:
        return ""
    out = v["out"] if isinstance(v["out"], str) else (v["out"][0] if v["out"] else "")
    if out.startswith("VIOLATION"):
        return "nfi" if out.rstrip().endswith("no-failing-input-found") else "**X**"
    if out.startswith("INFRA"):
        return "infra"
    return "·"


own = load(sys.argv[1])
allp = load(sys.argv[2]) if len(sys.argv) > 2 else {}
harm = {}
for p in sys.argv[3:]:
    for sid, row in load(p).items():            # later logs override earlier ones cell by cell
        harm.setdefault(sid.replace("harmless/", ""), {}).update(row)
L = ["# Seeded changes × checks", "",
     "`**X**` = VIOLATION with a concrete failing input (replay script), `nfi` = VIOLATION ending in "
     "`no-failing-input-found` (a proof obligation or the correspondence broke, no input on which the property "
     "itself fails was found), `·` = check passed, empty = not run.", "",
     "## Each seed against the check of its own property (full Lean side: T1/T3 regenerated, theorems re-checked)", "",
     "| seed | own check | seconds |", "|---|---|---|"]
for sid in sorted(own):
    if sid.startswith("harmless") or sid.startswith("own-"):
        continue
    pid = sid.split("-")[0]
    v = own[sid].get(pid)
    L.append(f"| {sid} | {cell(v)} | {v['s'] if v else ''} |")
n_x = sum(1 for sid in own if not sid.startswith(("harmless", "own-")) and cell(own[sid].get(sid.split('-')[0])) == "**X**")
L += ["", f"{n_x} of {sum(1 for s in own if not s.startswith(('harmless', 'own-')))} seeds are caught by the check of their own property with a concrete failing input.", ""]
if allp:
    L += ["## Every check against each seed (correspondence and oracles only, `--skip-lean`; first-round seeds; run at commit 8d664da)", "",
          "| seed | " + " | ".join(p[1:] for p in ALL) + " |", "|---|" + "---|" * len(ALL)]
    for sid in sorted(allp):
        if sid.startswith(("harmless", "own-")):
            continue
        L.append(f"| {sid} | " + " | ".join(cell(allp[sid].get(p)) for p in ALL) + " |")
    L.append("")
if harm:
    props = sorted({p for r in harm.values() for p in r})
    L += ["## Harmless rewrites (must stay silent)", "",
          "Full Lean side (T1/T3 regenerated, every tie and theorem re-checked) plus correspondence and oracles, except the HN rows: "
          "correspondence and oracles only (`--skip-lean`). For *all* rewrites, including HN, the Lean side was also re-run on its "
          "own after the last change to the tie tactics (T3 + `lake build`, listing the declarations `maybe` skipped): no registered "
          "theorem is lost for any of them except HS5, HS9 and HS10 (DESIGN.md §9.5: three rewrites beyond the tie tactics, reported as `nfi` by C20 resp. C08; HS1-HS12 were otherwise only run on the Lean side).", "",
          "| rewrite | " + " | ".join(p[1:] for p in props) + " |", "|---|" + "---|" * len(props)]
    for sid in sorted(harm):
        L.append(f"| {sid.replace('harmless/', '')} | " + " | ".join(cell(harm[sid].get(p)) for p in props) + " |")
    L.append("")
open(os.path.join(V, "seeded", "MATRIX.md"), "w").write("\n".join(L) + "\n")
print("\n".join(L[:60]))
