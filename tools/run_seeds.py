#!/usr/bin/env python3
"""Self-test: apply each seeded change to a scratch worktree of /repo and run the checks against it.
usage: run_seeds.py <seeds dir> [--props C01,C02,...|target|all] [--only C01/A] [--skip-lean]"""
import json, os, subprocess, sys, time
V = os.path.dirname(os.path.dirname(os.path.abspath(__file__)))
seeds = os.path.abspath(sys.argv[1])
mode = "target"
only = None
skip = "--skip-lean" in sys.argv
match = None
for i, a in enumerate(sys.argv):
    if a == "--props": mode = sys.argv[i + 1]
    if a == "--only": only = sys.argv[i + 1]
    if a == "--match": match = sys.argv[i + 1]        # regular expression on the seed name
ALL = [f"C{i:02d}" for i in range(1, 21)]
wt = "/tmp/seedrun/repo"
for i, a in enumerate(sys.argv):
    if a == "--wt": wt = sys.argv[i + 1]
out_json = os.path.join(V, ".work", "seed_results.json" if wt == "/tmp/seedrun/repo" else "seed_results_%s.json" % os.path.basename(os.path.dirname(wt)))
subprocess.run(["git", "-C", "/repo", "worktree", "remove", "--force", wt], capture_output=True)
subprocess.run(["git", "-C", "/repo", "worktree", "prune"])
os.makedirs(os.path.dirname(wt), exist_ok=True)
subprocess.check_call(["git", "-C", "/repo", "worktree", "add", "-q", "--detach", wt, "HEAD"])
results = {}
try:
    entries = []
    for d in sorted(os.listdir(seeds)):
        full = os.path.join(seeds, d)
        if not os.path.isdir(full):
            continue
        if os.path.exists(os.path.join(full, "patch.diff")):        # seeded/<Cxx-A>/patch.diff layout
            entries.append((d, d.split("-")[0] if d[0] == "C" else d, os.path.join(full, "patch.diff")))
        else:                                                        # <Cxx>/<A>/patch.diff layout
            for v in sorted(os.listdir(full)):
                pth = os.path.join(full, v, "patch.diff")
                if os.path.exists(pth):
                    entries.append((f"{d}/{v}", d, pth))
    for name, pid, patch in entries:
        if True:
            if only and name != only: continue
            if match:
                import re
                if not re.search(match, name): continue
            subprocess.check_call(["git", "-C", wt, "checkout", "-q", "--", "."])
            r = subprocess.run(["git", "-C", wt, "apply", patch], capture_output=True, text=True)
            if r.returncode != 0:
                results[name] = {"apply": "FAILED " + r.stderr[:200]}; print(name, results[name]); continue
            props = ([pid] if pid in ALL else ALL) if mode == "target" else (ALL if mode == "all" else mode.split(","))
            res = {}
            for p in props:
                t0 = time.time()
                cmd = [sys.executable, os.path.join(V, "check.py"), p] + (["--skip-lean"] if skip else [])
                q = subprocess.run(cmd, cwd=V, env=dict(os.environ, VERIF_REPO=wt), capture_output=True, text=True)
                line = [l for l in q.stdout.splitlines() if l.startswith("VIOLATION") or l.startswith("INFRA")]
                res[p] = dict(rc=q.returncode, out=(line[0] if line else q.stdout.strip().splitlines()[-1:] ), s=round(time.time() - t0, 1))
            results[name] = res
            print(name, json.dumps(res), flush=True)
finally:
    subprocess.run(["git", "-C", "/repo", "worktree", "remove", "--force", wt], capture_output=True)
json.dump(results, open(out_json, "w"), indent=1)
