#!/usr/bin/env python3
"""How much of the crate do the case sets of the checks execute?

Builds the harness with `-C instrument-coverage` (nightly toolchain: it ships llvm-profdata/llvm-cov),
runs the case sets of all twenty properties (tier given on the command line) through it and writes
`coverage/REPORT.md`: per source file the lines / regions / functions executed, and the functions
never entered.  This measures the *generators* (what the correspondence run can see at all); it
decides nothing.

usage: tools/coverage.py [quick|thorough]"""
import json, os, subprocess, sys, glob, shutil
V = os.path.dirname(os.path.dirname(os.path.abspath(__file__)))
sys.path.insert(0, V)
from vlib.registry import REGISTRY
from vlib import engine as E

tier = sys.argv[1] if len(sys.argv) > 1 else "quick"
W = os.path.join(V, ".work", "cov")
T = os.path.expanduser("~/.rustup/toolchains/nightly-x86_64-unknown-linux-gnu/lib/rustlib/x86_64-unknown-linux-gnu/bin")
os.makedirs(W, exist_ok=True)
for f in glob.glob(os.path.join(W, "*.profraw")):
    os.remove(f)


def build(features, tag):
    tdir = os.path.join(W, "target-" + tag)
    cmd = ["cargo", "+nightly", "build", "--offline", "--quiet"] + (["--features", ",".join(features)] if features else [])
    env = dict(os.environ, RUSTFLAGS="--cfg circular_buffer_verif -C instrument-coverage", CARGO_TARGET_DIR=tdir,
               CARGO_NET_OFFLINE="true")
    subprocess.check_call(cmd, cwd=os.path.join(V, "harness"), env=env)
    return os.path.join(tdir, "debug", "cbharness")


def run(binp, cases, extra, tag):
    lines = "\n".join(l for c in cases for l in c) + "\n"
    env = dict(os.environ, LLVM_PROFILE_FILE=os.path.join(W, f"{tag}-%p.profraw"))
    p = subprocess.run([binp] + list(extra), input=lines, capture_output=True, text=True, env=env)
    return p.returncode


bins = {"default": build((), "default"), "eio": build(("eio", "eioa"), "eio")}
ncases = {}
for pid in sorted(REGISTRY):
    reg = REGISTRY[pid]
    if reg.get("custom"):
        continue
    cases = reg["cases"](tier, 1)
    ncases[pid] = len(cases)
    variants = reg.get("variants") or [dict(features=(), harness_args=())]
    for v in variants:
        if v.get("nightly"):
            continue            # same source; the `unstable` paths are cfg'd alternatives
        b = bins["eio"] if v.get("features") else bins["default"]
        # crashes inside a case end the process: run case by case only if needed
        rc = run(b, cases, v.get("harness_args", ()), pid)
        if rc != 0:
            for i in range(0, len(cases), 2000):
                run(b, cases[i:i + 2000], v.get("harness_args", ()), f"{pid}-{i}")

prof = os.path.join(W, "all.profdata")
subprocess.check_call([os.path.join(T, "llvm-profdata"), "merge", "-sparse"] + glob.glob(os.path.join(W, "*.profraw")) + ["-o", prof])
objs = [bins["default"], "-object", bins["eio"]]
out = subprocess.run([os.path.join(T, "llvm-cov"), "export", "-summary-only", objs[0], objs[1], objs[2],
                      f"-instr-profile={prof}", "--sources", "/repo/src"], capture_output=True, text=True).stdout
data = json.loads(out)["data"][0]
full = subprocess.run([os.path.join(T, "llvm-cov"), "export", objs[0], objs[1], objs[2], f"-instr-profile={prof}",
                       "--sources", "/repo/src"], capture_output=True, text=True).stdout
fdata = json.loads(full)["data"][0]
# functions never entered (demangled names are not available offline: keep the mangled tail)
import re
never = {}
for fn in fdata["functions"]:
    files = [os.path.basename(f) for f in fn["filenames"] if f.startswith("/repo/src")]
    if not files:
        continue
    if fn["count"] == 0:
        line = fn["regions"][0][0] if fn["regions"] else 0
        never.setdefault((files[0], line), fn["name"])
entered_lines = set()
for fn in fdata["functions"]:
    if fn["count"] > 0 and fn["regions"]:
        for f in fn["filenames"]:
            if f.startswith("/repo/src"):
                entered_lines.add((os.path.basename(f), fn["regions"][0][0]))
never = {k: v for k, v in never.items() if k not in entered_lines}   # other instantiations were entered


def src_line(fn, ln):
    try:
        return open(os.path.join("/repo/src", fn)).read().split("\n")[ln - 1].strip()
    except Exception:
        return "?"


os.makedirs(os.path.join(V, "coverage"), exist_ok=True)
L = [f"# What the case sets execute ({tier} tier, all twenty properties, seed 1)", "",
     "Measured with `-C instrument-coverage` on the harness (default build + the embedded-io build) by "
     "`tools/coverage.py`.  This is a statement about the *generators* of the correspondence run, not "
     "about any property.", "",
     f"Cases per property: " + ", ".join(f"{k} {v}" for k, v in ncases.items()), "",
     "| file | lines | executed | functions | entered | regions | executed |", "|---|---|---|---|---|---|---|"]
for f in data["files"]:
    s = f["summary"]
    L.append(f"| {os.path.basename(f['filename'])} | {s['lines']['count']} | {s['lines']['percent']:.1f}% | "
             f"{s['functions']['count']} | {s['functions']['percent']:.1f}% | {s['regions']['count']} | {s['regions']['percent']:.1f}% |")
t = data["totals"]
L.append(f"| **total** | {t['lines']['count']} | {t['lines']['percent']:.1f}% | {t['functions']['count']} | "
         f"{t['functions']['percent']:.1f}% | {t['regions']['count']} | {t['regions']['percent']:.1f}% |")
L += ["", "## Functions never entered (no instantiation of them was executed)", ""]
for (fn, ln), name in sorted(never.items()):
    L.append(f"* `{fn}:{ln}` — `{src_line(fn, ln)}`")
open(os.path.join(V, "coverage", f"REPORT-{tier}.md"), "w").write("\n".join(L) + "\n")
print("\n".join(L))
