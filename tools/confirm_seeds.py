#!/usr/bin/env python3
"""Confirm every seeded change independently: it applies, the crate builds, the existing suite passes
with it, the demonstration fails with it and passes without it.  Writes .work/seed_confirm.json.
usage: confirm_seeds.py <seeds dir> [-j N]"""
import json, os, shutil, subprocess, sys, concurrent.futures as cf
seeds = sys.argv[1]
J = int(sys.argv[sys.argv.index("-j") + 1]) if "-j" in sys.argv else 4
ENV = dict(os.environ, CARGO_NET_OFFLINE="true")


def sh(cmd, cwd, timeout=1800):
    p = subprocess.run(cmd, cwd=cwd, env=ENV, capture_output=True, text=True, timeout=timeout, shell=isinstance(cmd, str))
    return p.returncode, (p.stdout + p.stderr)[-1500:]


def demo_cmd(pid, v):
    if pid == "C16":
        return "cargo test --offline --features " + ("embedded-io" if v == "A" else "embedded-io-async") + " --test demo"
    if pid == "C18":
        return "cargo +nightly test --offline --features unstable --test demo"
    return "cargo test --offline --test demo"


def one(name):
    pid, v = name.split("/")
    d = os.path.join(seeds, pid, v)
    wt = f"/tmp/seedconf/{pid}{v}"
    subprocess.run(["git", "-C", "/repo", "worktree", "remove", "--force", wt], capture_output=True)
    os.makedirs("/tmp/seedconf", exist_ok=True)
    subprocess.check_call(["git", "-C", "/repo", "worktree", "add", "-q", "--detach", wt, "HEAD"])
    res = dict(name=name)
    try:
        shutil.copy(os.path.join(d, "demo.rs"), os.path.join(wt, "tests", "demo.rs"))
        rc, out = sh(demo_cmd(pid, v), wt)
        res["demo_without_change"] = "pass" if rc == 0 else "FAIL"
        if rc != 0: res["demo_without_log"] = out
        rc, out = sh(["git", "apply", os.path.join(d, "patch.diff")], wt)
        res["applies"] = rc == 0
        if rc != 0:
            res["apply_log"] = out; return res
        rc, out = sh("cargo build --offline --quiet", wt)
        res["builds"] = rc == 0
        rc, out = sh(demo_cmd(pid, v), wt)
        res["demo_with_change"] = "fail" if rc != 0 else "PASSES"
        res["demo_with_tail"] = out[-400:]
        os.remove(os.path.join(wt, "tests", "demo.rs"))
        rc, out = sh("cargo test --offline --workspace --no-fail-fast", wt, timeout=3000)
        res["suite_with_change"] = "pass" if rc == 0 else "FAIL"
        if rc != 0: res["suite_log"] = out
    except Exception as e:
        res["error"] = repr(e)
    finally:
        subprocess.run(["git", "-C", "/repo", "worktree", "remove", "--force", wt], capture_output=True)
    return res


names = [f"{p}/{v}" for p in sorted(os.listdir(seeds)) for v in sorted(os.listdir(os.path.join(seeds, p)))
         if os.path.exists(os.path.join(seeds, p, v, "patch.diff"))]
out = {}
with cf.ThreadPoolExecutor(J) as ex:
    for r in ex.map(one, names):
        out[r["name"]] = r
        print(json.dumps(r)[:400], flush=True)
json.dump(out, open("/verif/.work/seed_confirm.json", "w"), indent=1)
