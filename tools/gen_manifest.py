#!/usr/bin/env python3
"""regenerate MANIFEST.json from vlib/registry.py + tools/manifest_meta.json"""
import json, os, sys
sys.path.insert(0, os.path.dirname(os.path.dirname(os.path.abspath(__file__))))
from vlib.registry import REGISTRY
V = os.path.dirname(os.path.dirname(os.path.abspath(__file__)))
meta = json.load(open(os.path.join(V, "tools", "manifest_meta.json")))
ids = [json.loads(l)["id"] for l in open(os.path.join(V, "properties.jsonl"))]
checks = []
for pid in ids:
    if pid not in REGISTRY or pid not in meta["claims"]:
        continue
    m = meta["claims"][pid]
    reg = REGISTRY[pid]
    checks.append(dict(
        property_id=pid,
        quick_cmd=f"python3 check.py {pid} --tier quick",
        thorough_cmd=f"python3 check.py {pid} --tier thorough",
        evidence_file=f"/verif/evidence/{pid}.json",
        replay_cmd_template=f"python3 check.py {pid} --replay {{path}}",
        engine="lean4-model+correspondence",
        level_claimed=dict(category=reg["level"], text=m["text"], design_ref=m.get("design_ref", "DESIGN.md §5 " + pid)),
        level_note=m["note"],
        technique=m.get("technique", "Lean 4 theorems about an executable model + differential correspondence with the real crate"),
    ))
na = [dict(property_id=p, reason=meta["not_applicable"].get(p, "check not built yet (planned, see DESIGN.md section 5)"))
      for p in ids if p not in [c["property_id"] for c in checks]]
man = dict(
    version=1,
    setup_cmd="bash /verif/setup.sh",
    hooks=dict(guard="circular_buffer_verif",
               enable="harness/.cargo/config.toml sets rustflags = [\"--cfg\", \"circular_buffer_verif\"] for the harness build (path dependency on /repo)",
               baseline_off_cmd="cd /repo && cargo test --workspace --no-fail-fast --offline",
               source_commits=["76f2928"], add_only=True),
    engines=[dict(name="lean4-model+correspondence", path="/verif/check.py",
                  serves_properties=[c["property_id"] for c in checks],
                  kind_free_text="Lean 4 (core only) model of the crate with machine-checked theorems (lean/CircBuf), tied to /repo by a translator for add_mod/sub_mod (translate/t1_addmod.py) and by a differential correspondence run: the same operation scripts go through the real crate (harness/, hooks on) and through the model's executable definitions (lean_exe driver); traces are compared under the property's projection and the property's own oracle is evaluated on the implementation trace")],
    checks=checks,
    notes=meta.get("notes", ""),
    not_applicable=na)
json.dump(man, open(os.path.join(V, "MANIFEST.json"), "w"), indent=1)
print(f"{len(checks)} checks, {len(na)} not claimed")
