#!/usr/bin/env python3
"""Process the second round of agent-made changes under /tmp/mut2/<id>/out:
copy to .work/seeds_in2, confirm independently, run checks against them (VERIF_REPO).
usage: round2.py <id> [...] [--full-lean] [--props C01,C02]"""
import json, os, shutil, subprocess, sys, time
V = os.path.dirname(os.path.dirname(os.path.abspath(__file__)))
ENV = dict(os.environ, CARGO_NET_OFFLINE="true")
ids = [a for a in sys.argv[1:] if not a.startswith("--") and not a.startswith("C0") or len(a) == 3 or a.startswith("HL")]
ids = [a for a in sys.argv[1:] if a[0] in "CH" and "," not in a and "/" not in a]
full = "--full-lean" in sys.argv
props_arg = None
for i, a in enumerate(sys.argv):
    if a == "--props":
        props_arg = sys.argv[i + 1].split(",")
BASE = "/tmp/mut2"
DEST = "seeds_in2"
for i, a in enumerate(sys.argv):
    if a == "--base":
        BASE = sys.argv[i + 1]
    if a == "--dest":
        DEST = sys.argv[i + 1]
OUT = os.path.join(V, ".work", "round2.jsonl" if DEST == "seeds_in2" else DEST + ".jsonl")


def sh(cmd, cwd, timeout=3000, env=ENV):
    p = subprocess.run(cmd, cwd=cwd, env=env, capture_output=True, text=True, timeout=timeout, shell=isinstance(cmd, str))
    return p.returncode, (p.stdout + p.stderr)


for sid in ids:
    src = f"{BASE}/{sid}/out"
    dst = os.path.join(V, ".work", DEST, sid)
    if not os.path.exists(os.path.join(src, "patch.diff")):
        print(sid, "no patch yet"); continue
    os.makedirs(dst, exist_ok=True)
    for f in os.listdir(src):
        shutil.copy(os.path.join(src, f), os.path.join(dst, f))
    wt = f"/tmp/r2c/{sid}"
    subprocess.run(["git", "-C", "/repo", "worktree", "remove", "--force", wt], capture_output=True)
    os.makedirs("/tmp/r2c", exist_ok=True)
    subprocess.check_call(["git", "-C", "/repo", "worktree", "add", "-q", "--detach", wt, "HEAD"])
    res = dict(id=sid)
    try:
        harmless = sid.startswith("H")
        feat = " --features embedded-io,embedded-io-async" if sid.startswith("C16") else ""
        if not harmless and os.path.exists(os.path.join(dst, "demo.rs")):
            shutil.copy(os.path.join(dst, "demo.rs"), os.path.join(wt, "tests", "demo.rs"))
            rc, out = sh(f"cargo test --offline --test demo{feat}", wt)
            res["demo_without_change"] = "pass" if rc == 0 else "FAIL"
        rc, out = sh(["git", "apply", os.path.join(dst, "patch.diff")], wt)
        res["applies"] = rc == 0
        if rc != 0:
            res["apply_log"] = out[-300:]
            print(json.dumps(res)); open(OUT, "a").write(json.dumps(res) + "\n"); continue
        if not harmless and os.path.exists(os.path.join(wt, "tests", "demo.rs")):
            rc, out = sh(f"cargo test --offline --test demo{feat}", wt)
            res["demo_with_change"] = "fail" if rc != 0 else "PASSES"
            os.remove(os.path.join(wt, "tests", "demo.rs"))
        rc, out = sh("cargo test --offline --workspace --no-fail-fast", wt)
        res["suite_with_change"] = "pass" if rc == 0 else "FAIL"
        props = props_arg or ([sid[:3]] if not harmless else ["C01", "C02", "C03", "C04", "C05", "C07", "C08", "C09", "C11", "C20"])
        res["checks"] = {}
        for p in props:
            t0 = time.time()
            cmd = [sys.executable, os.path.join(V, "check.py"), p] + ([] if full else ["--skip-lean"])
            q = subprocess.run(cmd, cwd=V, env=dict(os.environ, VERIF_REPO=wt), capture_output=True, text=True)
            line = [l for l in q.stdout.splitlines() if l.startswith("VIOLATION") or l.startswith("INFRA")]
            res["checks"][p] = dict(rc=q.returncode, out=(line[0] if line else (q.stdout.strip().splitlines() or [""])[-1])[:160],
                                    s=round(time.time() - t0, 1))
    except Exception as e:
        res["error"] = repr(e)
    finally:
        subprocess.run(["git", "-C", "/repo", "worktree", "remove", "--force", wt], capture_output=True)
    print(json.dumps(res), flush=True)
    open(OUT, "a").write(json.dumps(res) + "\n")
