#!/bin/sh
# usage: cmp.sh script.txt [harness args…]  -- run driver and harness on a script and diff the outputs
s="$1"; shift
D=/verif/lean/CircBuf/.lake/build/bin/driver
H=/verif/.work/target/debug/cbharness
$D < "$s" > /tmp/cmp.$$.d
$H "$@" < "$s" > /tmp/cmp.$$.h
st=$?
if diff /tmp/cmp.$$.d /tmp/cmp.$$.h > /tmp/cmp.$$.diff; then
  echo "IDENTICAL $(wc -l < /tmp/cmp.$$.h) lines (harness exit $st)"
else
  echo "DIFFERENT (harness exit $st): $(grep -c '^[<>]' /tmp/cmp.$$.diff) diff lines"
  # show the first differences together with the input line
  paste -d'\n' /dev/null > /dev/null
  python3 - "$s" /tmp/cmp.$$.d /tmp/cmp.$$.h <<'PY'
import sys
src=[l.rstrip("\n") for l in open(sys.argv[1]) if l.strip()]
d=[l.rstrip("\n") for l in open(sys.argv[2])]
h=[l.rstrip("\n") for l in open(sys.argv[3])]
shown=0
case=0
for i,(a,b) in enumerate(zip(d,h)):
    if src[i].startswith("case "): case=i
    if a!=b:
        print(f"--- line {i+1}: {src[i]}   (case at {case+1}: {src[case]})")
        print("  driver : "+a[:300])
        print("  harness: "+b[:300])
        shown+=1
        if shown>=8: break
if len(d)!=len(h): print(f"line counts differ: driver {len(d)} harness {len(h)}")
PY
fi
rm -f /tmp/cmp.$$.*
