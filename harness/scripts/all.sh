#!/bin/sh
# run every script that is expected to be byte-identical between driver and harness
cd "$(dirname "$0")"
for s in protocol.txt edge_t.txt edge_p.txt edge_b.txt edge_z.txt edge_u_nostall.txt rand_t.txt rand_p.txt rand_b.txt rand_z.txt rand_u.txt rand_mixed.txt; do
  printf '%-16s ' "$s"; ./cmp.sh "$s" "$@" | head -20
done
