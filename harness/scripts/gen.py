#!/usr/bin/env python3
"""Random protocol-script generator used to compare the harness with the model driver.

usage: gen.py SEED NCASES [kinds]      (kinds: any of t p b z u, default "tbz")

Only generates lines both sides support (see PROTOCOL.md and the harness' design notes):
  * kinds b, u: no faults (the model ticks clone/eq faults for them), eq/cmp only with M == N
  * kinds z, u: capacity-proportional operations only for small N
  * kind u: only the value 0, no hash / to_vec / extend_from_slice or `*_mut` (the model treats u like b)
  * at most one fault per line (two could abort the process through a double panic)
"""
import random
import sys

UMAX = 18446744073709551615
T_N = [0, 1, 2, 3, 4, 5, 6, 7, 8, 16, 64]
B_N = T_N + [1000]
Z_N = [0, 1, 2, 3, 4294967295, 4294967296, 4294967297, 9223372036854775807, 9223372036854775808,
       9223372036854775809, 18446744073709551614, 18446744073709551615]


def main():
    seed = int(sys.argv[1])
    ncases = int(sys.argv[2])
    kinds = sys.argv[3] if len(sys.argv) > 3 else "tbz"
    rnd = random.Random(seed)
    out = []
    for _ in range(ncases):
        kind = rnd.choice(kinds)
        if kind in "tp":
            n = rnd.choice(T_N if rnd.random() < 0.3 else [0, 1, 2, 3, 4, 5])
        elif kind == "b":
            n = rnd.choice(B_N if rnd.random() < 0.3 else [0, 1, 2, 3, 4, 5])
        else:
            n = rnd.choice(Z_N)   # kinds z and u
        out.append(f"case {n} {kind}")
        gen_case(rnd, out, n, kind)
    sys.stdout.write("\n".join(out) + "\n")


def idx(rnd, n):
    r = rnd.random()
    small = min(n, 70)
    if r < 0.85:
        return rnd.randint(0, small + 2)
    if r < 0.9:
        return UMAX
    if r < 0.95:
        return UMAX - 1
    return rnd.randint(0, 3)


def bound(rnd, n):
    r = rnd.random()
    if r < 0.3:
        return "u"
    k = idx(rnd, n)
    return ("i" if rnd.random() < 0.5 else "x") + str(k)


def script(rnd, alphabet):
    ln = rnd.choice([0, 1, 2, 3, 4, 5, 6, 8, 12])
    if ln == 0:
        return "-"
    return "".join(rnd.choice(alphabet) for _ in range(ln))


ZERO_VALS = False   # kind u: the model (= kind b) would store the values


def vals(rnd, n, lo=0):
    small = min(n, 12)
    cnt = rnd.randint(lo, small + 2)
    return [("0" if ZERO_VALS else str(rnd.randint(0, 9))) for _ in range(cnt)]


def gen_case(rnd, out, n, kind):
    global ZERO_VALS
    ZERO_VALS = kind == "u"
    small = min(n, 70)
    huge = n > 4096
    nops = rnd.randint(3, 40)
    # start most cases with some content and often a rotated layout
    if rnd.random() < 0.7:
        for _ in range(rnd.randint(0, small + 1)):
            out.append(f"push_back {0 if ZERO_VALS else rnd.choice([rnd.randint(0, 3), rnd.randint(0, 99)])}")
            if rnd.random() < 0.4:
                out.append("pop_front")
    for _ in range(nops):
        line = gen_op(rnd, n, kind, small, huge)
        if line is None:
            continue
        if kind not in "bu" and rnd.random() < 0.2:
            f = rnd.choice(["drop", "drop", "clone", "call", "next", "eq"])
            # half of the time pick a fault that the operation can actually reach
            name = line.split(" ")[0]
            rel = {"fill": "clone", "fill_spare": "clone", "extend_from_slice": "clone", "clone": "clone",
                   "clone_from": "clone", "to_vec": "clone", "fill_with": "call", "fill_spare_with": "call",
                   "extend": "next", "from_iter": "next", "eq": "eq", "eq_slice": "eq"}.get(name)
            if rel and rnd.random() < 0.6:
                f = rel
            line += f" !{f}={rnd.randint(1, 4)}"
        out.append(line)


def gen_op(rnd, n, kind, small, huge):
    ops = [
        "push_back", "push_back", "push_back", "push_front", "push_front", "try_push_back", "try_push_front",
        "pop_back", "pop_front", "remove", "swap", "swap_remove_back", "swap_remove_front",
        "truncate_back", "truncate_front", "clear", "fill", "fill_spare", "fill_with", "fill_spare_with",
        "extend", "extend_from_slice", "make_contiguous", "get", "nth_front", "nth_back", "front", "back",
        "index", "get_mut", "nth_front_mut", "nth_back_mut", "front_mut", "back_mut", "index_mut",
        "as_slices", "as_mut_slices", "iter", "iter_mut", "range", "range_mut", "iter_default", "drain",
        "drain", "into_iter", "clone", "clone_from", "to_vec", "from_array", "from_iter", "eq", "cmp",
        "eq_slice", "hash", "debug", "write", "read", "fill_buf", "consume", "flush", "boxed", "junk",
        "drop", "len", "rot", "fill_all_slot",
    ]
    op = rnd.choice(ops)
    if op == "rot" or (op == "fill_all_slot" and kind != "u"):
        return None
    if kind == "u" and (op.endswith("_mut") or op in ("as_mut_slices", "hash", "to_vec", "extend_from_slice")):
        return None   # model = kind b: hashes/allocates/stores values; `()` does none of that
    if kind == "u" and op == "fill_all_slot":
        op = "fill_all"
    if kind != "b" and op in ("write", "read", "fill_buf", "consume", "flush"):
        return None
    if huge and op in ("fill", "fill_spare", "fill_with", "fill_spare_with"):
        return None
    if op == "fill_all":
        return None if huge else "fill_all"   # huge full buffers: see edge_u.txt
    if op in ("push_back", "push_front", "try_push_back", "try_push_front", "fill", "fill_spare"):
        return f"{op} {0 if ZERO_VALS else rnd.choice([rnd.randint(0, 3), rnd.randint(0, 99)])}"
    if op in ("pop_back", "pop_front", "clear", "fill_with", "fill_spare_with", "make_contiguous", "front",
              "back", "front_mut", "back_mut", "as_slices", "as_mut_slices", "iter_default", "clone", "to_vec",
              "hash", "debug", "fill_buf", "flush", "boxed", "drop", "len"):
        return op
    if op in ("remove", "swap_remove_back", "swap_remove_front", "truncate_back", "truncate_front", "get",
              "nth_front", "nth_back", "index", "get_mut", "nth_front_mut", "nth_back_mut", "index_mut"):
        return f"{op} {idx(rnd, n)}"
    if op == "swap":
        return f"swap {idx(rnd, n)} {idx(rnd, n)}"
    if op in ("extend", "extend_from_slice", "from_iter"):
        m = rnd.randint(0, 2 * small + 2)
        return f"{op} {m}"
    if op in ("iter", "iter_mut"):
        return f"{op} {script(rnd, 'FBLCD' if op == 'iter' else 'FBLD')}"
    if op in ("range", "range_mut"):
        return f"{op} {bound(rnd, n)} {bound(rnd, n)} {script(rnd, 'FBLCD' if op == 'range' else 'FBLD')}"
    if op == "drain":
        return f"drain {bound(rnd, n)} {bound(rnd, n)} {script(rnd, 'FBLD')} {rnd.choice(['drop', 'drop', 'forget'])}"
    if op == "into_iter":
        return f"into_iter {script(rnd, 'FBLD')}"
    if op == "clone_from":
        return "clone_from " + " ".join([str(rnd.randint(0, small + 2))] + vals(rnd, n))
    if op == "from_array":
        if kind not in "tp" or n > 5:
            return None
        cnt = rnd.randint(0, 11)
        return " ".join(["from_array"] + [str(rnd.randint(0, 9)) for _ in range(cnt)])
    if op in ("eq", "cmp"):
        if kind in "tp" and n <= 5 and rnd.random() < 0.7:
            m = rnd.randint(0, 5)
        else:
            m = n
        return " ".join([op, str(m), str(rnd.randint(0, min(m, 70) + 2))] + vals(rnd, m))
    if op == "eq_slice":
        return " ".join(["eq_slice"] + vals(rnd, n))
    if op == "write":
        return f"write {rnd.randint(0, 2 * small + 2)} {rnd.randint(0, 255)}"
    if op in ("read", "consume"):
        return f"{op} {rnd.randint(0, small + 3)}"
    if op == "junk":
        return f"junk {rnd.choice(['decoy', '00', 'ff', '5a', 'stale'])}"
    return None


if __name__ == "__main__":
    main()
