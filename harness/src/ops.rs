//! One protocol operation executed against the real crate.

use crate::cc;
use crate::elem::{closure_call, Elem, Gen};
use crate::ledger::*;
use circular_buffer::{CircularBuffer, Iter, IterMut};
use std::cmp::Ordering;
use std::fmt::{self, Write as _};
use std::hash::{Hash, Hasher};
use std::mem::{self, size_of};
use std::ops::Bound;

pub enum OpRes {
    /// a full output line is printed (`ret` has been filled in)
    Line,
    /// the harness does not support this operation here: bare `bad-op`
    Bare,
}

#[derive(Clone, Copy, PartialEq, Eq, Debug)]
pub enum Fam {
    Std,
    Eio,
    Eioa,
}

/// windows up to this size are printed in full (PROTOCOL.md)
const WINDOW_FULL: usize = 2048;
/// number of slots printed at either end of a longer window
const WINDOW_EDGE: usize = 4;
/// largest capacity for which capacity-proportional work (fill, junk, views) is done on kind z
const SMALL: usize = 4096;

// ---------------------------------------------------------------------------------------------
// parsing
// ---------------------------------------------------------------------------------------------

pub fn parse_usize(s: &str) -> Option<usize> {
    if s.is_empty() || !s.bytes().all(|b| b.is_ascii_digit()) {
        return None;
    }
    s.parse().ok()
}

pub fn parse_u64(s: &str) -> Option<u64> {
    if s.is_empty() || !s.bytes().all(|b| b.is_ascii_digit()) {
        return None;
    }
    s.parse().ok()
}

pub fn parse_u32(s: &str) -> Option<u32> {
    if s.is_empty() || !s.bytes().all(|b| b.is_ascii_digit()) {
        return None;
    }
    s.parse().ok()
}

pub fn parse_bound(s: &str) -> Option<Bound<usize>> {
    if s == "u" {
        Some(Bound::Unbounded)
    } else if let Some(r) = s.strip_prefix('i') {
        parse_usize(r).map(Bound::Included)
    } else if let Some(r) = s.strip_prefix('x') {
        parse_usize(r).map(Bound::Excluded)
    } else {
        None
    }
}

fn parse_vals(toks: &[&str]) -> Option<Vec<u32>> {
    toks.iter().map(|t| parse_u32(t)).collect()
}

// ---------------------------------------------------------------------------------------------
// raw access / formatting (generic over the element type only)
// ---------------------------------------------------------------------------------------------

/// what is needed to turn an element address into a slot number
pub struct Cx<T> {
    pub base: *const T,
    pub n: usize,
    pub start: usize,
}

impl<T> Cx<T> {
    #[inline]
    pub fn of<const N: usize>(buf: &CircularBuffer<N, T>) -> Cx<T> {
        let (start, _, p) = buf.verif_raw();
        Cx {
            base: p as *const T,
            n: N,
            start,
        }
    }

    /// slot of the element at address `p`; zero-sized elements carry no address information, for
    /// them the slot is derived from the logical position
    #[inline]
    pub fn slot(&self, p: *const T, logical: usize) -> usize {
        if size_of::<T>() == 0 {
            if self.n == 0 {
                0
            } else {
                ((self.start as u128 + logical as u128) % self.n as u128) as usize
            }
        } else {
            (p as usize).wrapping_sub(self.base as usize) / size_of::<T>()
        }
    }
}

#[inline]
fn push_elem<T: Elem>(out: &mut String, p: *const T) {
    let (id, val) = unsafe { T::raw(p) };
    let _ = write!(out, "{}:{}", id, val);
}

#[inline]
fn push_slot_elem<T: Elem>(out: &mut String, cx: &Cx<T>, p: *const T, logical: usize) {
    let (id, val) = unsafe { T::raw(p) };
    let _ = write!(out, "{}:{}:{}", cx.slot(p, logical), id, val);
}

/// `[slot:id:val …]` of the `len` elements starting at `ptr`
fn push_slice<T: Elem>(out: &mut String, cx: &Cx<T>, ptr: *const T, len: usize, logical0: usize) {
    out.push('[');
    for k in 0..len {
        if k > 0 {
            out.push(' ');
        }
        push_slot_elem(out, cx, unsafe { ptr.add(k) }, logical0.wrapping_add(k));
    }
    out.push(']');
}

/// `S@slot(id:val)` / `F@slot(id:val)` …
#[inline]
fn push_ref<T: Elem>(out: &mut String, tag: &str, cx: &Cx<T>, p: *const T, logical: usize) {
    let (id, val) = unsafe { T::raw(p) };
    let _ = write!(out, "{}@{}({}:{})", tag, cx.slot(p, logical), id, val);
}

#[inline]
fn slot_at(start: usize, i: usize, n: usize) -> usize {
    ((start as u128 + i as u128) % n as u128) as usize
}

/// the `size` slots `(start+i) % n` as `slot:id:val`, read raw.  A window of more than
/// `WINDOW_FULL` slots is abbreviated: first `WINDOW_EDGE` slots, `...`, last `WINDOW_EDGE` slots.
pub fn push_window<T: Elem>(out: &mut String, base: *const T, n: usize, start: usize, size: usize) {
    if n == 0 {
        return;
    }
    let one = |out: &mut String, i: usize, first: bool| {
        if !first {
            out.push(' ');
        }
        let slot = slot_at(start, i, n);
        let p = if size_of::<T>() == 0 {
            base
        } else {
            unsafe { base.add(slot) }
        };
        let (id, val) = unsafe { T::raw(p) };
        let _ = write!(out, "{}:{}:{}", slot, id, val);
    };
    if size <= WINDOW_FULL {
        for i in 0..size {
            one(out, i, i == 0);
        }
    } else {
        for i in 0..WINDOW_EDGE {
            one(out, i, i == 0);
        }
        out.push_str(" ...");
        for k in 0..WINDOW_EDGE {
            one(out, size - WINDOW_EDGE + k, false);
        }
    }
}

fn push_owned<T: Elem>(out: &mut String, r: Option<T>, held: &mut Vec<T>) {
    match r {
        None => out.push('N'),
        Some(x) => {
            out.push_str("S(");
            push_elem(out, &x as *const T);
            out.push(')');
            x.on_return();
            held.push(x);
        }
    }
}

// ---------------------------------------------------------------------------------------------
// iterator scripts
// ---------------------------------------------------------------------------------------------

/// uniform view of `Iter` and `IterMut` for the script runner
trait ScriptIt<T> {
    const MUT: bool;
    fn s_next(&mut self) -> Option<*mut T>;
    fn s_next_back(&mut self) -> Option<*mut T>;
    fn s_len(&self) -> usize;
    fn s_hint(&self) -> (usize, Option<usize>);
    fn s_clone_list(&self) -> Option<Vec<*const T>>;
    fn s_debug(&self) -> String;
}

impl<'a, T: Elem> ScriptIt<T> for Iter<'a, T> {
    const MUT: bool = false;
    fn s_next(&mut self) -> Option<*mut T> {
        self.next().map(|r| r as *const T as *mut T)
    }
    fn s_next_back(&mut self) -> Option<*mut T> {
        self.next_back().map(|r| r as *const T as *mut T)
    }
    fn s_len(&self) -> usize {
        self.len()
    }
    fn s_hint(&self) -> (usize, Option<usize>) {
        self.size_hint()
    }
    fn s_clone_list(&self) -> Option<Vec<*const T>> {
        let c = cc!(self.clone());
        Some(c.map(|r| r as *const T).collect())
    }
    fn s_debug(&self) -> String {
        format!("{:?}", self)
    }
}

impl<'a, T: Elem> ScriptIt<T> for IterMut<'a, T> {
    const MUT: bool = true;
    fn s_next(&mut self) -> Option<*mut T> {
        self.next().map(|r| r as *mut T)
    }
    fn s_next_back(&mut self) -> Option<*mut T> {
        self.next_back().map(|r| r as *mut T)
    }
    fn s_len(&self) -> usize {
        self.len()
    }
    fn s_hint(&self) -> (usize, Option<usize>) {
        self.size_hint()
    }
    fn s_clone_list(&self) -> Option<Vec<*const T>> {
        None
    }
    fn s_debug(&self) -> String {
        format!("{:?}", self)
    }
}

fn script_chars(s: &str) -> std::str::Chars<'_> {
    if s == "-" {
        "".chars()
    } else {
        s.chars()
    }
}

fn push_debug<T: Elem>(ret: &mut String, s: &str) {
    ret.push('D');
    T::fix_debug(s, ret);
}

/// `fi` = logical index (in the buffer) of the first element the iterator yields
fn run_iter_script<T: Elem, I: ScriptIt<T>>(
    mut it: I,
    script: &str,
    cx: &Cx<T>,
    mut fi: usize,
    ret: &mut String,
) {
    let mut bi = fi.wrapping_add(it.s_len());
    let mut first = true;
    for c in script_chars(script) {
        if !first {
            ret.push(';');
        }
        first = false;
        match c {
            'F' => {
                let r = cc!(it.s_next());
                match r {
                    None => ret.push_str("F-"),
                    Some(p) => {
                        push_ref(ret, "F", cx, p, fi);
                        fi = fi.wrapping_add(1);
                        if I::MUT {
                            unsafe { (*p).bump() };
                        }
                    }
                }
            }
            'B' => {
                let r = cc!(it.s_next_back());
                match r {
                    None => ret.push_str("B-"),
                    Some(p) => {
                        bi = bi.wrapping_sub(1);
                        push_ref(ret, "B", cx, p, bi);
                        if I::MUT {
                            unsafe { (*p).bump() };
                        }
                    }
                }
            }
            'L' => {
                let n = cc!(it.s_len());
                let _ = write!(ret, "L{}", n);
                if it.s_hint() != (n, Some(n)) {
                    ret.push_str("!hint");
                }
            }
            'C' => match it.s_clone_list() {
                None => ret.push('?'),
                Some(l) => {
                    ret.push_str("C[");
                    for (k, p) in l.iter().enumerate() {
                        if k > 0 {
                            ret.push(' ');
                        }
                        push_slot_elem(ret, cx, *p, fi.wrapping_add(k));
                    }
                    ret.push(']');
                }
            },
            'D' => {
                let s = it.s_debug();
                push_debug::<T>(ret, &s);
            }
            _ => ret.push('?'),
        }
    }
}

/// script over an owning iterator (`Drain`, `IntoIter`); yielded elements go to `held`
fn run_own_script<T, I>(it: &mut I, script: &str, held: &mut Vec<T>, ret: &mut String)
where
    T: Elem,
    I: DoubleEndedIterator<Item = T> + ExactSizeIterator + fmt::Debug,
{
    let mut first = true;
    for c in script_chars(script) {
        if !first {
            ret.push(';');
        }
        first = false;
        match c {
            'F' | 'B' => {
                let r = if c == 'F' {
                    cc!(it.next())
                } else {
                    cc!(it.next_back())
                };
                ret.push(c);
                match r {
                    None => ret.push('-'),
                    Some(x) => {
                        ret.push('(');
                        push_elem(ret, &x as *const T);
                        ret.push(')');
                        x.on_return();
                        held.push(x);
                    }
                }
            }
            'L' => {
                let n = cc!(it.len());
                let _ = write!(ret, "L{}", n);
                if it.size_hint() != (n, Some(n)) {
                    ret.push_str("!hint");
                }
            }
            'D' => {
                let s = format!("{:?}", it);
                push_debug::<T>(ret, &s);
            }
            _ => ret.push('?'),
        }
    }
}

/// logical index of the first element of a range with this start bound
fn range_first(sb: Bound<usize>) -> usize {
    match sb {
        Bound::Included(x) => x,
        Bound::Excluded(x) => x.wrapping_add(1),
        Bound::Unbounded => 0,
    }
}

// ---------------------------------------------------------------------------------------------
// second buffers
// ---------------------------------------------------------------------------------------------

/// another buffer of capacity `M`, built silently: `r` × (push_back + pop_front), then one
/// push_back per value.  Ids: `r` for the rotation elements first, then one per value.
fn build_other<const M: usize, T: Elem>(r: usize, vals: &[u32]) -> Quiet<CircularBuffer<M, T>> {
    let mut o = Quiet::new(CircularBuffer::<M, T>::new());
    silently(|| {
        for _ in 0..r {
            drop(o.push_back(T::silent(0)));
            drop(o.pop_front());
        }
        for v in vals {
            drop(o.push_back(T::silent(*v)));
        }
    });
    o
}

pub fn eq_nm<const N: usize, const M: usize, T: Elem>(
    buf: &CircularBuffer<N, T>,
    r: usize,
    vals: &[u32],
    ret: &mut String,
) {
    let res = guard(|| {
        let other = build_other::<M, T>(r, vals);
        let eq = cc!(*buf == *other);
        let ne = silently(|| *buf != *other);
        (eq, ne)
    });
    match res {
        Ok((eq, ne)) => {
            ret.push_str(if eq { "true" } else { "false" });
            if eq == ne {
                ret.push_str("!ne");
            }
        }
        Err(()) => panic_ret(ret),
    }
}

pub fn cmp_nm<const N: usize, const M: usize, T: Elem>(
    buf: &CircularBuffer<N, T>,
    r: usize,
    vals: &[u32],
    ret: &mut String,
    ord: Option<fn(&CircularBuffer<N, T>, &CircularBuffer<M, T>) -> Ordering>,
) {
    let res = guard(|| {
        let other = build_other::<M, T>(r, vals);
        let pc = cc!(buf.partial_cmp(&*other));
        let consistent = silently(|| {
            let lt = *buf < *other;
            let le = *buf <= *other;
            let gt = *buf > *other;
            let ge = *buf >= *other;
            let exp = match pc {
                Some(Ordering::Less) => (true, true, false, false),
                Some(Ordering::Equal) => (false, true, false, true),
                Some(Ordering::Greater) => (false, false, true, true),
                None => (false, false, false, false),
            };
            let mut ok = (lt, le, gt, ge) == exp;
            if let Some(f) = ord {
                ok = ok && Some(f(buf, &*other)) == pc;
            }
            ok
        });
        (pc, consistent)
    });
    match res {
        Ok((pc, consistent)) => {
            ret.push_str(match pc {
                Some(Ordering::Less) => "L",
                Some(Ordering::Equal) => "E",
                Some(Ordering::Greater) => "G",
                None => "None",
            });
            if !consistent {
                ret.push_str("!ord");
            }
        }
        Err(()) => panic_ret(ret),
    }
}

pub fn from_array_nm<const N: usize, const M: usize, T: Elem>(
    vals: &[u32],
) -> Result<CircularBuffer<N, T>, ()> {
    let mut i = 0;
    let arr: [T; M] = std::array::from_fn(|_| {
        let t = T::given(vals[i]);
        i += 1;
        t
    });
    guard(move || cc!(CircularBuffer::<N, T>::from(arr)))
}

/// `from_array` for the kinds with identity: N in 0..=5, M in 0..=11
pub fn from_array_table<const N: usize, T: Elem>(
    vals: &[u32],
) -> Option<Result<CircularBuffer<N, T>, ()>> {
    if N > 5 {
        return None;
    }
    macro_rules! go {
        ($($m:literal)*) => {
            match vals.len() {
                $( $m => Some(from_array_nm::<N, $m, T>(vals)), )*
                _ => None,
            }
        };
    }
    go!(0 1 2 3 4 5 6 7 8 9 10 11)
}

/// `eq M r v…` for the kinds with identity: M == N, or N and M in 0..=5
pub fn eq_table<const N: usize, T: Elem>(
    buf: &CircularBuffer<N, T>,
    m: usize,
    r: usize,
    vals: &[u32],
    ret: &mut String,
) -> bool {
    if m == N {
        eq_nm::<N, N, T>(buf, r, vals, ret);
        return true;
    }
    if N > 5 {
        return false;
    }
    macro_rules! go {
        ($($m:literal)*) => {
            match m {
                $( $m => { eq_nm::<N, $m, T>(buf, r, vals, ret); true } )*
                _ => false,
            }
        };
    }
    go!(0 1 2 3 4 5)
}

/// `cmp M r v…` for the kinds with identity: M == N, or N and M in 0..=5
pub fn cmp_table<const N: usize, T: Elem>(
    buf: &CircularBuffer<N, T>,
    m: usize,
    r: usize,
    vals: &[u32],
    ret: &mut String,
) -> bool {
    if m == N {
        cmp_nm::<N, N, T>(
            buf,
            r,
            vals,
            ret,
            Some(|a: &CircularBuffer<N, T>, b: &CircularBuffer<N, T>| Ord::cmp(a, b)),
        );
        return true;
    }
    if N > 5 {
        return false;
    }
    macro_rules! go {
        ($($m:literal)*) => {
            match m {
                $( $m => { cmp_nm::<N, $m, T>(buf, r, vals, ret, None); true } )*
                _ => false,
            }
        };
    }
    go!(0 1 2 3 4 5)
}

/// the array / reference flavours of `PartialEq` against a slice must agree with `expect`
fn eq_slice_extra<const N: usize, T: Elem>(
    buf: &CircularBuffer<N, T>,
    src: &mut Vec<T>,
    expect: bool,
) -> bool {
    let mut ok = true;
    ok &= (*buf == &src[..]) == expect;
    ok &= (*buf == &mut src[..]) == expect;
    ok &= (*buf != src[..]) != expect;
    macro_rules! arrays {
        ($($l:literal)*) => {
            match src.len() {
                $( $l => {
                    {
                        let a: &[T; $l] = (&src[..]).try_into().unwrap();
                        ok &= (*buf == *a) == expect;
                        ok &= (*buf == a) == expect;
                    }
                    let a: &mut [T; $l] = (&mut src[..]).try_into().unwrap();
                    ok &= (*buf == a) == expect;
                } )*
                _ => {}
            }
        };
    }
    arrays!(0 1 2 3 4 5 6 7 8 9);
    ok
}

// ---------------------------------------------------------------------------------------------
// hashing
// ---------------------------------------------------------------------------------------------

struct RecHasher {
    words: Vec<u64>,
}

impl RecHasher {
    #[inline]
    fn rec(&mut self, w: u64) {
        let prev = count_off();
        self.words.push(w);
        count_restore(prev);
    }
}

impl Hasher for RecHasher {
    fn finish(&self) -> u64 {
        0
    }
    fn write(&mut self, bytes: &[u8]) {
        // a hasher may depend on how the bytes are grouped into `write` calls (FxHash-style hashers do):
        // record the boundary, so that hashing the two segments as slices shows as layout-dependent
        // (seeded change C13-I: `Hash::hash_slice` on the halves of `as_slices()`)
        self.rec(0xFFFF_0000_0000_0000u64 | bytes.len() as u64);
        for b in bytes {
            self.rec(*b as u64);
        }
    }
    fn write_u8(&mut self, i: u8) {
        self.rec(i as u64)
    }
    fn write_u16(&mut self, i: u16) {
        self.rec(i as u64)
    }
    fn write_u32(&mut self, i: u32) {
        self.rec(i as u64)
    }
    fn write_u64(&mut self, i: u64) {
        self.rec(i)
    }
    fn write_usize(&mut self, i: usize) {
        self.rec(i as u64)
    }
}

// ---------------------------------------------------------------------------------------------
// the operation table
// ---------------------------------------------------------------------------------------------

pub fn run_op<const N: usize, T: Elem>(
    buf: &mut CircularBuffer<N, T>,
    held: &mut Vec<T>,
    toks: &[&str],
    ret: &mut String,
    fam: Fam,
) -> OpRes {
    macro_rules! bad {
        () => {{
            ret.clear();
            ret.push_str("bad-op");
            return OpRes::Line;
        }};
    }
    macro_rules! num {
        ($s:expr) => {
            match parse_usize($s) {
                Some(v) => v,
                None => bad!(),
            }
        };
    }
    macro_rules! val {
        ($s:expr) => {
            match parse_u32($s) {
                Some(v) => v,
                None => bad!(),
            }
        };
    }
    macro_rules! bound {
        ($s:expr) => {
            match parse_bound($s) {
                Some(v) => v,
                None => bad!(),
            }
        };
    }
    // result of a guarded call: on unwind print `P:<kind>`
    macro_rules! done {
        ($r:expr, |$v:pat_param| $body:expr) => {
            match $r {
                Ok($v) => {
                    $body;
                }
                Err(()) => panic_ret(ret),
            }
        };
    }
    // capacity-proportional operations are not run on huge zero-sized buffers
    macro_rules! small_only {
        () => {
            if N > SMALL {
                return OpRes::Bare;
            }
        };
    }

    // operations whose cost (in the crate or in the harness' printing) is proportional to the
    // length are not run on a zero-sized buffer holding more than SMALL elements (`fill_all`)
    macro_rules! short_only {
        () => {
            if size_of::<T>() == 0 && buf.verif_raw().1 > SMALL {
                return OpRes::Bare;
            }
        };
    }
    macro_rules! short_script {
        ($s:expr) => {
            if $s.contains('C') || $s.contains('D') {
                short_only!();
            }
        };
    }

    let op = toks.first().copied().unwrap_or("");
    let argc = toks.len().saturating_sub(1);

    match (op, argc) {
        // ---------------------------------------------------------------- push / pop
        ("push_back", 1) | ("push_front", 1) => {
            let v = val!(toks[1]);
            let e = T::given(v);
            let r = if op == "push_back" {
                guard(|| cc!(buf.push_back(e)))
            } else {
                guard(|| cc!(buf.push_front(e)))
            };
            done!(r, |r| push_owned(ret, r, held));
        }
        ("try_push_back", 1) | ("try_push_front", 1) => {
            let v = val!(toks[1]);
            let e = T::given(v);
            let r = if op == "try_push_back" {
                guard(|| cc!(buf.try_push_back(e)))
            } else {
                guard(|| cc!(buf.try_push_front(e)))
            };
            done!(r, |r| match r {
                Ok(()) => ret.push_str("Ok"),
                Err(x) => {
                    ret.push_str("Err(");
                    push_elem(ret, &x as *const T);
                    ret.push(')');
                    x.on_return();
                    held.push(x);
                }
            });
        }
        ("pop_back", 0) => {
            let r = guard(|| cc!(buf.pop_back()));
            done!(r, |r| push_owned(ret, r, held));
        }
        ("pop_front", 0) => {
            let r = guard(|| cc!(buf.pop_front()));
            done!(r, |r| push_owned(ret, r, held));
        }
        ("remove", 1) => {
            let i = num!(toks[1]);
            let r = guard(|| cc!(buf.remove(i)));
            done!(r, |r| push_owned(ret, r, held));
        }
        ("swap_remove_back", 1) => {
            let i = num!(toks[1]);
            let r = guard(|| cc!(buf.swap_remove_back(i)));
            done!(r, |r| push_owned(ret, r, held));
        }
        ("swap_remove_front", 1) => {
            let i = num!(toks[1]);
            let r = guard(|| cc!(buf.swap_remove_front(i)));
            done!(r, |r| push_owned(ret, r, held));
        }
        ("swap", 2) => {
            let i = num!(toks[1]);
            let j = num!(toks[2]);
            let r = guard(|| cc!(buf.swap(i, j)));
            done!(r, |()| ret.push('-'));
        }
        ("truncate_back", 1) => {
            let n = num!(toks[1]);
            let r = guard(|| cc!(buf.truncate_back(n)));
            done!(r, |()| ret.push('-'));
        }
        ("truncate_front", 1) => {
            let n = num!(toks[1]);
            let r = guard(|| cc!(buf.truncate_front(n)));
            done!(r, |()| ret.push('-'));
        }
        ("clear", 0) => {
            let r = guard(|| cc!(buf.clear()));
            done!(r, |()| ret.push('-'));
        }

        // ---------------------------------------------------------------- fill family
        ("fill", 1) | ("fill_spare", 1) => {
            let v = val!(toks[1]);
            small_only!();
            let e = T::given(v);
            let r = if op == "fill" {
                guard(|| cc!(buf.fill(e)))
            } else {
                guard(|| cc!(buf.fill_spare(e)))
            };
            done!(r, |()| ret.push('-'));
        }
        ("fill_with", 0) => {
            small_only!();
            let r = guard(|| cc!(buf.fill_with(closure_call::<T>)));
            done!(r, |()| ret.push('-'));
        }
        ("fill_spare_with", 0) => {
            small_only!();
            let r = guard(|| cc!(buf.fill_spare_with(closure_call::<T>)));
            done!(r, |()| ret.push('-'));
        }
        ("extend", 1) => {
            let m = num!(toks[1]);
            let r = guard(|| cc!(buf.extend(Gen::<T>::new(m))));
            done!(r, |()| ret.push('-'));
        }
        ("extend_from_slice", 1) => {
            let m = num!(toks[1]);
            let src = Quiet::new(
                (0..m)
                    .map(|i| T::silent(70u32.wrapping_add(i as u32)))
                    .collect::<Vec<T>>(),
            );
            let r = guard(|| cc!(buf.extend_from_slice(&src)));
            drop(src);
            done!(r, |()| ret.push('-'));
        }

        // ---------------------------------------------------------------- views
        ("make_contiguous", 0) => {
            short_only!();
            let r = guard(|| {
                let s = cc!(buf.make_contiguous());
                (s.as_ptr(), s.len())
            });
            done!(r, |(p, len)| {
                let cx = Cx::of(buf);
                push_slice(ret, &cx, p, len, 0);
            });
        }
        ("get", 1) | ("nth_front", 1) | ("nth_back", 1) | ("front", 0) | ("back", 0) | ("index", 1) => {
            let i = if argc == 1 { num!(toks[1]) } else { 0 };
            let (_, size, _) = buf.verif_raw();
            let r = guard(|| match op {
                "get" => cc!(buf.get(i)).map(|r| r as *const T),
                "nth_front" => cc!(buf.nth_front(i)).map(|r| r as *const T),
                "nth_back" => cc!(buf.nth_back(i)).map(|r| r as *const T),
                "front" => cc!(buf.front()).map(|r| r as *const T),
                "back" => cc!(buf.back()).map(|r| r as *const T),
                _ => Some(cc!(&buf[i]) as *const T),
            });
            let logical = match op {
                "nth_back" => size.wrapping_sub(1).wrapping_sub(i),
                "back" => size.wrapping_sub(1),
                "front" => 0,
                _ => i,
            };
            done!(r, |r| match r {
                None => ret.push('N'),
                Some(p) => push_ref(ret, "S", &Cx::of(buf), p, logical),
            });
        }
        ("get_mut", 1)
        | ("nth_front_mut", 1)
        | ("nth_back_mut", 1)
        | ("front_mut", 0)
        | ("back_mut", 0)
        | ("index_mut", 1) => {
            let i = if argc == 1 { num!(toks[1]) } else { 0 };
            let (_, size, _) = buf.verif_raw();
            let cx = Cx::of(buf);
            let logical = match op {
                "nth_back_mut" => size.wrapping_sub(1).wrapping_sub(i),
                "back_mut" => size.wrapping_sub(1),
                "front_mut" => 0,
                _ => i,
            };
            let r = guard(|| {
                let r: Option<&mut T> = match op {
                    "get_mut" => cc!(buf.get_mut(i)),
                    "nth_front_mut" => cc!(buf.nth_front_mut(i)),
                    "nth_back_mut" => cc!(buf.nth_back_mut(i)),
                    "front_mut" => cc!(buf.front_mut()),
                    "back_mut" => cc!(buf.back_mut()),
                    _ => Some(cc!(&mut buf[i])),
                };
                match r {
                    None => ret.push('N'),
                    Some(r) => {
                        push_ref(ret, "S", &cx, r as *const T, logical);
                        r.bump();
                    }
                }
            });
            done!(r, |()| ());
        }
        ("as_slices", 0) => {
            short_only!();
            let r = guard(|| {
                let (a, b) = cc!(buf.as_slices());
                (a.as_ptr(), a.len(), b.as_ptr(), b.len())
            });
            done!(r, |(pa, la, pb, lb)| {
                let cx = Cx::of(buf);
                push_slice(ret, &cx, pa, la, 0);
                ret.push('/');
                push_slice(ret, &cx, pb, lb, la);
            });
        }
        ("as_mut_slices", 0) => {
            short_only!();
            let cx = Cx::of(buf);
            let r = guard(|| {
                let (a, b) = cc!(buf.as_mut_slices());
                push_slice(ret, &cx, a.as_ptr(), a.len(), 0);
                ret.push('/');
                push_slice(ret, &cx, b.as_ptr(), b.len(), a.len());
                for x in a.iter_mut() {
                    x.bump();
                }
                for x in b.iter_mut() {
                    x.bump();
                }
            });
            done!(r, |()| ());
        }

        // ---------------------------------------------------------------- borrowing iterators
        ("iter", 1) => {
            short_script!(toks[1]);
            let cx = Cx::of(buf);
            let r = guard(|| {
                let it = cc!(buf.iter());
                run_iter_script(it, toks[1], &cx, 0, ret);
            });
            done!(r, |()| ());
        }
        ("iter_mut", 1) => {
            short_script!(toks[1]);
            let cx = Cx::of(buf);
            let r = guard(|| {
                let it = cc!(buf.iter_mut());
                run_iter_script(it, toks[1], &cx, 0, ret);
            });
            done!(r, |()| ());
        }
        ("range", 3) => {
            short_script!(toks[3]);
            let sb = bound!(toks[1]);
            let eb = bound!(toks[2]);
            let cx = Cx::of(buf);
            let r = guard(|| {
                let it = cc!(buf.range((sb, eb)));
                run_iter_script(it, toks[3], &cx, range_first(sb), ret);
            });
            done!(r, |()| ());
        }
        ("range_mut", 3) => {
            short_script!(toks[3]);
            let sb = bound!(toks[1]);
            let eb = bound!(toks[2]);
            let cx = Cx::of(buf);
            let r = guard(|| {
                let it = cc!(buf.range_mut((sb, eb)));
                run_iter_script(it, toks[3], &cx, range_first(sb), ret);
            });
            done!(r, |()| ());
        }
        ("iter_default", 0) => {
            let cx = Cx::of(buf);
            let r = guard(|| {
                let it: Iter<'_, T> = cc!(Default::default());
                run_iter_script(it, "LFB", &cx, 0, ret);
            });
            done!(r, |()| ());
        }

        // ---------------------------------------------------------------- owning iterators
        ("drain", 4) => {
            short_script!(toks[3]);
            let sb = bound!(toks[1]);
            let eb = bound!(toks[2]);
            let script = toks[3];
            let fin_drop = toks[4] == "drop";
            let r = guard(|| {
                let mut d = cc!(buf.drain((sb, eb)));
                run_own_script(&mut d, script, held, ret);
                if fin_drop {
                    cc!(drop(d));
                } else {
                    mem::forget(d);
                }
            });
            done!(r, |()| ());
        }
        ("into_iter", 1) => {
            short_script!(toks[1]);
            let b = mem::replace(buf, CircularBuffer::new());
            let r = guard(|| {
                let mut it = cc!(b.into_iter());
                run_own_script(&mut it, toks[1], held, ret);
                cc!(drop(it));
            });
            done!(r, |()| ());
        }

        // ---------------------------------------------------------------- cloning
        ("clone", 0) => {
            short_only!();
            let r = guard(|| {
                let c = cc!(buf.clone());
                let (start, size, p) = c.verif_raw();
                let _ = write!(ret, "{} {} [", start, size);
                push_window(ret, p as *const T, N, start, size);
                ret.push(']');
                cc!(drop(c));
            });
            done!(r, |()| ());
        }
        ("clone_from", _) if argc >= 1 => {
            let rot = num!(toks[1]);
            let vals = match parse_vals(&toks[2..]) {
                Some(v) => v,
                None => bad!(),
            };
            let r = guard(|| {
                let other = build_other::<N, T>(rot, &vals);
                cc!(buf.clone_from(&*other));
            });
            done!(r, |()| ret.push('-'));
        }
        ("to_vec", 0) => {
            short_only!();
            let r = guard(|| {
                let v = cc!(buf.to_vec());
                ret.push('[');
                for (k, x) in v.iter().enumerate() {
                    if k > 0 {
                        ret.push(' ');
                    }
                    push_elem(ret, x as *const T);
                }
                ret.push(']');
                cc!(drop(v));
            });
            done!(r, |()| ());
        }
        ("from_array", _) => {
            let vals = match parse_vals(&toks[1..]) {
                Some(v) => v,
                None => bad!(),
            };
            match T::from_array::<N>(&vals) {
                None => return OpRes::Bare,
                Some(Ok(nb)) => {
                    let old = Quiet::new(mem::replace(buf, nb));
                    drop(old);
                    ret.push('-');
                }
                Some(Err(())) => {
                    let old = Quiet::new(mem::replace(buf, CircularBuffer::new()));
                    drop(old);
                    panic_ret(ret);
                }
            }
        }
        ("from_iter", 1) => {
            let m = num!(toks[1]);
            let r = guard(|| cc!(CircularBuffer::<N, T>::from_iter(Gen::<T>::new(m))));
            let nb = match r {
                Ok(nb) => {
                    ret.push('-');
                    nb
                }
                Err(()) => {
                    panic_ret(ret);
                    CircularBuffer::new()
                }
            };
            let old = Quiet::new(mem::replace(buf, nb));
            drop(old);
        }

        // ---------------------------------------------------------------- comparisons
        ("eq", _) if argc >= 2 => {
            let m = num!(toks[1]);
            let rot = num!(toks[2]);
            let vals = match parse_vals(&toks[3..]) {
                Some(v) => v,
                None => bad!(),
            };
            if !T::eq_other::<N>(buf, m, rot, &vals, ret) {
                return OpRes::Bare;
            }
        }
        ("cmp", _) if argc >= 2 => {
            let m = num!(toks[1]);
            let rot = num!(toks[2]);
            let vals = match parse_vals(&toks[3..]) {
                Some(v) => v,
                None => bad!(),
            };
            if !T::cmp_other::<N>(buf, m, rot, &vals, ret) {
                return OpRes::Bare;
            }
        }
        ("eq_slice", _) => {
            let vals = match parse_vals(&toks[1..]) {
                Some(v) => v,
                None => bad!(),
            };
            let r = guard(|| {
                let mut src = Quiet::new(vals.iter().map(|v| T::silent(*v)).collect::<Vec<T>>());
                let eq = cc!(*buf == src[..]);
                let ok = silently(|| eq_slice_extra(buf, &mut src, eq));
                (eq, ok)
            });
            done!(r, |(eq, ok)| {
                ret.push_str(if eq { "true" } else { "false" });
                if !ok {
                    ret.push_str("!variants");
                }
            });
        }
        ("hash", 0) => {
            short_only!();
            let r = guard(|| {
                let mut h = RecHasher { words: Vec::new() };
                cc!(buf.hash(&mut h));
                h.words
            });
            done!(r, |w| {
                ret.push('[');
                for (k, x) in w.iter().enumerate() {
                    if k > 0 {
                        ret.push(' ');
                    }
                    let _ = write!(ret, "{}", x);
                }
                ret.push(']');
            });
        }
        ("debug", 0) => {
            short_only!();
            let r = guard(|| {
                // allocations of `format!` are the formatter's, not the crate's: not counted
                let s = format!("{:?}", buf);
                let ok = silently(|| {
                    let refs: Vec<&T> = buf.iter().collect();
                    format!("{:?}", buf) == format!("{:?}", refs)
                        && format!("{:#?}", buf) == format!("{:#?}", refs)
                        && format!("{:5?}", buf) == format!("{:5?}", refs)
                        && format!("{:<#08?}", buf) == format!("{:<#08?}", refs)
                });
                (s, ok)
            });
            done!(r, |(s, ok)| {
                T::fix_debug(&s, ret);
                if !ok {
                    ret.push_str("!fmt");
                }
            });
        }

        // ---------------------------------------------------------------- byte I/O
        ("write", 2) | ("read", 1) | ("consume", 1) | ("extend_ref", 2) => {
            for t in &toks[1..] {
                let _ = num!(t);
            }
            return T::io_op::<N>(buf, fam, toks, ret);
        }
        ("fill_buf", 0) | ("flush", 0) => {
            return T::io_op::<N>(buf, fam, toks, ret);
        }

        // ---------------------------------------------------------------- misc
        ("default", 0) => {
            // `Default::default()`: a second, empty buffer of the same type
            let r = guard(|| {
                let d: CircularBuffer<N, T> = cc!(Default::default());
                let (start, size, _) = d.verif_raw();
                let _ = write!(ret, "{} {} {} {}", start, size, d.is_empty(), d.capacity());
            });
            done!(r, |()| ());
        }
        ("boxed", 0) => {
            let r = guard(|| {
                let b = cc!(CircularBuffer::<N, T>::boxed());
                let (start, size, _) = b.verif_raw();
                let _ = write!(ret, "{} {}", start, size);
                cc!(drop(b));
            });
            done!(r, |()| ());
        }
        ("fill_all", 0) => {
            // kind u only: a completely full buffer, built in O(1)
            match guard(|| cc!(T::full_buffer::<N>())) {
                Ok(None) => return OpRes::Bare,
                Ok(Some(nb)) => {
                    let old = Quiet::new(mem::replace(buf, nb));
                    drop(old);
                    ret.push('-');
                }
                Err(()) => {
                    let old = Quiet::new(mem::replace(buf, CircularBuffer::new()));
                    drop(old);
                    panic_ret(ret);
                }
            }
        }
        ("junk", 1) => {
            junk(buf, toks[1]);
            ret.push('-');
        }
        // the private index helpers, through the hooks (C19)
        ("add_mod", 3) | ("sub_mod", 3) => {
            let (x, y, m) = (num!(toks[1]), num!(toks[2]), num!(toks[3]));
            let sub = toks[0] == "sub_mod";
            let r = guard(|| {
                if sub {
                    circular_buffer::verif_sub_mod(x, y, m)
                } else {
                    circular_buffer::verif_add_mod(x, y, m)
                }
            });
            done!(r, |v| {
                let _ = write!(ret, "{}", v);
            });
        }
        ("drop", 0) => {
            let b = mem::replace(buf, CircularBuffer::new());
            let r = guard(|| cc!(drop(b)));
            done!(r, |()| ret.push('-'));
        }
        ("len", 0) => {
            let r = guard(|| {
                (
                    cc!(buf.len()),
                    cc!(buf.is_empty()),
                    cc!(buf.is_full()),
                    cc!(buf.capacity()),
                )
            });
            done!(r, |(l, e, f, c)| {
                let _ = write!(ret, "{} {} {} {}", l, e, f, c);
            });
        }
        _ => bad!(),
    }
    OpRes::Line
}

/// scribble over every slot that is not in the current window
fn junk<const N: usize, T: Elem>(buf: &mut CircularBuffer<N, T>, mode: &str) {
    if size_of::<T>() == 0 || N == 0 || N > SMALL {
        return;
    }
    let (start, size, _) = buf.verif_raw();
    if start >= N || size > N {
        return;
    }
    let byte = match mode {
        "decoy" => None,
        "00" => Some(0x00u8),
        "ff" => Some(0xffu8),
        "5a" => Some(0x5au8),
        _ => return, // `stale` (and anything else): leave the memory alone
    };
    let base = buf.verif_items_mut() as *mut T;
    for j in 0..N {
        let k = (j + N - start) % N;
        if k < size {
            continue;
        }
        unsafe {
            let p = base.add(j);
            match byte {
                None => T::write_decoy(p, j),
                Some(b) => std::ptr::write_bytes(p, b, 1),
            }
        }
    }
}

// ---------------------------------------------------------------------------------------------
// the `views` field
// ---------------------------------------------------------------------------------------------

/// compare the public observers with the raw window; `None` = all agree
pub fn check_views<const N: usize, T: Elem>(buf: &CircularBuffer<N, T>) -> Option<&'static str> {
    if N > 64 || size_of::<T>() == 0 {
        return None;
    }
    let (start, size, base) = buf.verif_raw();
    let base = base as *const T;
    if N > 0 && start >= N {
        return Some("start>=N");
    }
    if size > N {
        return Some("size>N");
    }
    if T::HAS_ID {
        // every element in the window must be alive, owned by the buffer, and there only once
        for i in 0..size {
            let (id, _) = unsafe { T::raw(base.add(slot_at(start, i, N))) };
            if is_held(id) {
                return Some("held-element-in-window");
            }
            if !is_live(id) {
                return Some("dead-element-in-window");
            }
            for j in 0..i {
                let (id2, _) = unsafe { T::raw(base.add(slot_at(start, j, N))) };
                if id2 == id {
                    return Some("duplicate-element-in-window");
                }
            }
        }
    }
    let r = guard(|| {
        silently(|| {
            if buf.len() != size {
                return Some("len");
            }
            if buf.is_empty() != (size == 0) {
                return Some("is_empty");
            }
            if buf.is_full() != (size == N) {
                return Some("is_full");
            }
            if buf.capacity() != N {
                return Some("capacity");
            }
            let expect = |i: usize| -> *const T { unsafe { base.add(slot_at(start, i, N)) } };
            // iter()
            let mut cnt = 0usize;
            for r in buf.iter() {
                if cnt >= size || r as *const T != expect(cnt) {
                    return Some("iter");
                }
                cnt += 1;
            }
            if cnt != size {
                return Some("iter-len");
            }
            // get(i)
            for i in 0..size {
                match buf.get(i) {
                    Some(r) if r as *const T == expect(i) => {}
                    _ => return Some("get"),
                }
            }
            if buf.get(size).is_some() {
                return Some("get-at-len");
            }
            // as_slices()
            let (a, b) = buf.as_slices();
            if a.len() + b.len() != size {
                return Some("as_slices-len");
            }
            for (i, r) in a.iter().chain(b.iter()).enumerate() {
                if r as *const T != expect(i) {
                    return Some("as_slices");
                }
            }
            None
        })
    });
    match r {
        Ok(x) => x,
        Err(()) => Some("panic"),
    }
}
