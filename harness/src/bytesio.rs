//! Byte I/O operations (`write read fill_buf consume flush`) on `CircularBuffer<N, u8>`, through
//! the trait family selected on the command line.

use crate::cc;
use crate::ledger::*;
use crate::ops::{parse_usize, Cx, Fam, OpRes};
use circular_buffer::CircularBuffer;
use std::fmt::Write as _;

enum Got<R> {
    Ready(R),
    #[allow(dead_code)]
    Pending,
    #[allow(dead_code)]
    Failed,
}

#[cfg(feature = "eioa")]
fn poll_once<F: std::future::Future>(f: F) -> Got<F::Output> {
    use std::task::{Context, Poll, Waker};
    let mut f = std::pin::pin!(f);
    let mut cx = Context::from_waker(Waker::noop());
    match f.as_mut().poll(&mut cx) {
        Poll::Ready(v) => Got::Ready(v),
        Poll::Pending => Got::Pending,
    }
}

#[cfg(feature = "eioa")]
fn flatten<R, E>(g: Got<Result<R, E>>) -> Got<R> {
    match g {
        Got::Ready(Ok(v)) => Got::Ready(v),
        Got::Ready(Err(_)) => Got::Failed,
        Got::Pending => Got::Pending,
        Got::Failed => Got::Failed,
    }
}

fn from_res<R, E>(r: Result<R, E>) -> Got<R> {
    match r {
        Ok(v) => Got::Ready(v),
        Err(_) => Got::Failed,
    }
}

/// is the family compiled in?
fn available(fam: Fam) -> bool {
    match fam {
        Fam::Std => true,
        Fam::Eio => cfg!(feature = "eio"),
        Fam::Eioa => cfg!(feature = "eioa"),
    }
}

fn write<const N: usize>(buf: &mut CircularBuffer<N, u8>, fam: Fam, src: &[u8]) -> Got<usize> {
    match fam {
        Fam::Std => from_res(cc!(std::io::Write::write(buf, src))),
        #[cfg(feature = "eio")]
        Fam::Eio => from_res(cc!(embedded_io::Write::write(buf, src))),
        #[cfg(feature = "eioa")]
        Fam::Eioa => flatten(cc!(poll_once(embedded_io_async::Write::write(buf, src)))),
        #[allow(unreachable_patterns)]
        _ => Got::Failed,
    }
}

fn flush<const N: usize>(buf: &mut CircularBuffer<N, u8>, fam: Fam) -> Got<()> {
    match fam {
        Fam::Std => from_res(cc!(std::io::Write::flush(buf))),
        #[cfg(feature = "eio")]
        Fam::Eio => from_res(cc!(embedded_io::Write::flush(buf))),
        #[cfg(feature = "eioa")]
        Fam::Eioa => flatten(cc!(poll_once(embedded_io_async::Write::flush(buf)))),
        #[allow(unreachable_patterns)]
        _ => Got::Failed,
    }
}

fn read<const N: usize>(buf: &mut CircularBuffer<N, u8>, fam: Fam, dst: &mut [u8]) -> Got<usize> {
    match fam {
        Fam::Std => from_res(cc!(std::io::Read::read(buf, dst))),
        #[cfg(feature = "eio")]
        Fam::Eio => from_res(cc!(embedded_io::Read::read(buf, dst))),
        #[cfg(feature = "eioa")]
        Fam::Eioa => flatten(cc!(poll_once(embedded_io_async::Read::read(buf, dst)))),
        #[allow(unreachable_patterns)]
        _ => Got::Failed,
    }
}

fn fill_buf<const N: usize>(buf: &mut CircularBuffer<N, u8>, fam: Fam) -> Got<(*const u8, usize)> {
    match fam {
        Fam::Std => {
            from_res(cc!(std::io::BufRead::fill_buf(buf)).map(|s| (s.as_ptr(), s.len())))
        }
        #[cfg(feature = "eio")]
        Fam::Eio => {
            from_res(cc!(embedded_io::BufRead::fill_buf(buf)).map(|s| (s.as_ptr(), s.len())))
        }
        #[cfg(feature = "eioa")]
        Fam::Eioa => flatten(cc!(poll_once(async {
            embedded_io_async::BufRead::fill_buf(buf)
                .await
                .map(|s| (s.as_ptr(), s.len()))
        }))),
        #[allow(unreachable_patterns)]
        _ => Got::Failed,
    }
}

fn consume<const N: usize>(buf: &mut CircularBuffer<N, u8>, fam: Fam, amt: usize) {
    match fam {
        Fam::Std => cc!(std::io::BufRead::consume(buf, amt)),
        #[cfg(feature = "eio")]
        Fam::Eio => cc!(embedded_io::BufRead::consume(buf, amt)),
        #[cfg(feature = "eioa")]
        Fam::Eioa => cc!(embedded_io_async::BufRead::consume(buf, amt)),
        #[allow(unreachable_patterns)]
        _ => {}
    }
}

/// print the outcome of a guarded call
fn finish<R>(ret: &mut String, r: Result<Got<R>, ()>, show: impl FnOnce(&mut String, R)) {
    match r {
        Ok(Got::Ready(v)) => show(ret, v),
        Ok(Got::Pending) => {
            ret.clear();
            ret.push_str("PENDING");
        }
        Ok(Got::Failed) => {
            ret.clear();
            ret.push_str("Err");
        }
        Err(()) => panic_ret(ret),
    }
}

pub fn io_u8<const N: usize>(
    buf: &mut CircularBuffer<N, u8>,
    fam: Fam,
    toks: &[&str],
    ret: &mut String,
) -> OpRes {
    if !available(fam) {
        return OpRes::Bare;
    }
    // the arguments have been validated by the caller
    let arg = |i: usize| parse_usize(toks[i]).unwrap_or(0);
    match toks[0] {
        "write" => {
            let m = arg(1);
            let v0 = arg(2);
            let src: Vec<u8> = (0..m).map(|i| ((v0 % 256 + i % 256) % 256) as u8).collect();
            let r = guard(|| write(buf, fam, &src));
            finish(ret, r, |ret, n| {
                let _ = write!(ret, "{}", n);
            });
        }
        "read" => {
            let k = arg(1);
            let mut dst = vec![0u8; k];
            let r = guard(|| read(buf, fam, &mut dst));
            finish(ret, r, |ret, n| {
                let _ = write!(ret, "{}:[", n);
                for (i, b) in dst.iter().take(n).enumerate() {
                    if i > 0 {
                        ret.push(' ');
                    }
                    let _ = write!(ret, "{}", b);
                }
                ret.push(']');
            });
        }
        "fill_buf" => {
            let r = guard(|| fill_buf(buf, fam));
            let cx = Cx::of(buf);
            finish(ret, r, |ret, (p, len)| {
                ret.push('[');
                for k in 0..len {
                    if k > 0 {
                        ret.push(' ');
                    }
                    let q = unsafe { p.add(k) };
                    let _ = write!(ret, "{}:0:{}", cx.slot(q, k), unsafe { q.read_volatile() });
                }
                ret.push(']');
            });
        }
        "consume" => {
            let k = arg(1);
            let r = guard(|| {
                consume(buf, fam, k);
                Got::Ready(())
            });
            finish(ret, r, |ret, ()| ret.push('-'));
        }
        "extend_ref" => {
            // `Extend<&'a T> for T: Copy`
            let m = arg(1);
            let v0 = arg(2);
            let src: Vec<u8> = (0..m).map(|i| ((v0 % 256 + i % 256) % 256) as u8).collect();
            let r = guard(|| {
                cc!(buf.extend(src.iter()));
                Got::Ready(())
            });
            finish(ret, r, |ret, ()| ret.push('-'));
        }
        "flush" => {
            let r = guard(|| flush(buf, fam));
            finish(ret, r, |ret, ()| ret.push('-'));
        }
        _ => {
            ret.push_str("bad-op");
        }
    }
    OpRes::Line
}
