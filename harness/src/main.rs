//! `cbharness`: executes the line protocol of /verif/PROTOCOL.md against the real
//! `circular-buffer` crate, in-process.  One output line per input line.

mod bytesio;
mod elem;
mod ledger;
mod ops;

use circular_buffer::CircularBuffer;
use elem::{Elem, Plain, Tracked, Zst};
use ledger::*;
use ops::{check_views, parse_u64, push_window, run_op, Fam, OpRes};
use std::io::{BufRead, StdinLock, Write};

#[global_allocator]
static ALLOC: CountingAlloc = CountingAlloc;

struct Io {
    inp: StdinLock<'static>,
    fam: Fam,
}

/// why `run_case` returned
enum Next {
    Eof,
    /// a well-formed `case <n> <kind>` line; `n` is `None` when it does not fit in 64 bits
    Case(Option<u64>, u8),
}

fn is_ws(c: char) -> bool {
    c.is_ascii_whitespace() || c == '\x0b'
}

/// `case <n> <kind>` with a numeric `n` and a known kind
fn parse_case(toks: &[&str]) -> Option<Result<(Option<u64>, u8), ()>> {
    if toks.len() != 3 || toks[0] != "case" {
        return None;
    }
    let n = toks[1];
    if n.is_empty() || !n.bytes().all(|b| b.is_ascii_digit()) {
        return Some(Err(()));
    }
    let kind = match toks[2] {
        "t" => b't',
        "b" => b'b',
        "z" => b'z',
        "p" => b'p',
        "u" => b'u',
        _ => return Some(Err(())),
    };
    Some(Ok((parse_u64(n), kind)))
}

fn parse_faults(toks: &[&str]) -> Option<[u64; 5]> {
    let mut f = [0u64; 5];
    for t in toks {
        if !t.starts_with('!') {
            continue;
        }
        let mut parts = t.split('=');
        let name = parts.next()?;
        let k = parts.next()?;
        if parts.next().is_some() {
            return None;
        }
        let k = parse_u64(k)?;
        let idx = match name {
            "!drop" => F_DROP,
            "!clone" => F_CLONE,
            "!call" => F_CALL,
            "!next" => F_NEXT,
            "!eq" => F_EQ,
            _ => return None,
        };
        f[idx] = k;
    }
    Some(f)
}

fn run_case<const N: usize, T: Elem>(io: &mut Io) -> Next {
    let mut buf = CircularBuffer::<N, T>::new();
    let mut held: Vec<T> = Vec::new();
    let mut line = String::new();
    let mut ret = String::new();
    let mut window = String::new();

    let next = loop {
        line.clear();
        match io.inp.read_line(&mut line) {
            Ok(0) | Err(_) => {
                break Next::Eof;
            }
            Ok(_) => {}
        }
        let trimmed = line.trim_matches(is_ws);
        if trimmed.is_empty() {
            continue;
        }
        let all: Vec<&str> = trimmed.split(' ').filter(|t| !t.is_empty()).collect();
        match parse_case(&all) {
            Some(Ok((n, kind))) => {
                break Next::Case(n, kind);
            }
            Some(Err(())) => {
                let _ = out().write_all(b"bad-op\n");
                continue;
            }
            None => {}
        }
        let faults = match parse_faults(&all) {
            Some(f) => f,
            None => {
                let _ = out().write_all(b"bad-op\n");
                continue;
            }
        };
        let op_toks: Vec<&str> = all.iter().copied().filter(|t| !t.starts_with('!')).collect();

        begin_op(faults);
        ret.clear();
        let res = run_op::<N, T>(&mut buf, &mut held, &op_toks, &mut ret, io.fam);
        end_op();
        let nalloc = allocs();

        match res {
            OpRes::Bare => {
                let _ = out().write_all(b"bad-op\n");
            }
            OpRes::Line => {
                let (start, size, base) = buf.verif_raw();
                window.clear();
                push_window(&mut window, base as *const T, N, start, size);
                // the events must be taken before the views check (which is silent anyway)
                let out = out();
                let _ = write!(
                    out,
                    "{}|{}|{} {}|{}|{}|",
                    ret,
                    st().events,
                    start,
                    size,
                    window,
                    nalloc
                );
                match check_views(&buf) {
                    None => {
                        let _ = out.write_all(b"ok\n");
                    }
                    Some(why) => {
                        let _ = writeln!(out, "BAD:{}", why);
                    }
                }
            }
        }
    };

    // everything still held is disposed of silently
    let _ = guard(move || {
        silently(move || {
            drop(held);
            drop(buf);
        })
    });
    next
}

macro_rules! dispatch {
    ($n:expr, $t:ty, $io:expr, [$($N:literal)*]) => {
        match $n {
            $( $N => Some(run_case::<$N, $t>($io)), )*
            _ => None,
        }
    };
}

fn start_case(n: Option<u64>, kind: u8, io: &mut Io, announce: bool) -> Option<Next> {
    let n = n?;
    // a supported capacity?  (checked before anything is printed)
    let supported = match kind {
        b't' | b'p' => matches!(n, 0..=8 | 16 | 64),
        b'b' => matches!(n, 0..=8 | 16 | 64 | 1000),
        _ => matches!(
            n,
            0..=3
                | 4294967295
                | 4294967296
                | 4294967297
                | 9223372036854775807
                | 9223372036854775808
                | 9223372036854775809
                | 18446744073709551614
                | 18446744073709551615
        ),
    };
    if !supported {
        return None;
    }
    reset_case();
    if announce {
        let _ = out().write_all(b"-||0 0||0|ok\n");
    }
    let _ = out().flush();
    match kind {
        b't' => dispatch!(n, Tracked, io, [0 1 2 3 4 5 6 7 8 16 64]),
        b'p' => dispatch!(n, Plain, io, [0 1 2 3 4 5 6 7 8 16 64]),
        b'b' => dispatch!(n, u8, io, [0 1 2 3 4 5 6 7 8 16 64 1000]),
        b'u' => dispatch!(
            n, (), io,
            [0 1 2 3 4294967295 4294967296 4294967297 9223372036854775807 9223372036854775808
             9223372036854775809 18446744073709551614 18446744073709551615]
        ),
        _ => dispatch!(
            n, Zst, io,
            [0 1 2 3 4294967295 4294967296 4294967297 9223372036854775807 9223372036854775808
             9223372036854775809 18446744073709551614 18446744073709551615]
        ),
    }
}

/// an unsupported capacity was requested: every line is `bad-op` until the next `case`
fn dead_zone(io: &mut Io) -> Next {
    let mut line = String::new();
    loop {
        line.clear();
        match io.inp.read_line(&mut line) {
            Ok(0) | Err(_) => return Next::Eof,
            Ok(_) => {}
        }
        let trimmed = line.trim_matches(is_ws);
        if trimmed.is_empty() {
            continue;
        }
        let all: Vec<&str> = trimmed.split(' ').filter(|t| !t.is_empty()).collect();
        if let Some(Ok((n, kind))) = parse_case(&all) {
            return Next::Case(n, kind);
        }
        let _ = out().write_all(b"bad-op\n");
    }
}

fn main() {
    let mut fam = Fam::Std;
    let mut args = std::env::args().skip(1);
    while let Some(a) = args.next() {
        let v = if a == "--io" {
            args.next()
        } else if let Some(v) = a.strip_prefix("--io=") {
            Some(v.to_string())
        } else {
            eprintln!("usage: cbharness [--io std|eio|eioa]");
            std::process::exit(2);
        };
        fam = match v.as_deref() {
            Some("std") => Fam::Std,
            Some("eio") => Fam::Eio,
            Some("eioa") => Fam::Eioa,
            _ => {
                eprintln!("usage: cbharness [--io std|eio|eioa]");
                std::process::exit(2);
            }
        };
    }

    install_panic_hook();
    let mut io = Io {
        inp: std::io::stdin().lock(),
        fam,
    };

    // like the model driver, the harness starts on an empty tracked buffer of capacity 0
    let mut next = start_case(Some(0), b't', &mut io, false).unwrap_or(Next::Eof);
    loop {
        match next {
            Next::Eof => break,
            Next::Case(n, kind) => {
                next = match start_case(n, kind, &mut io, true) {
                    Some(nx) => nx,
                    None => {
                        let _ = out().write_all(b"bad-op\n");
                        let _ = out().flush();
                        dead_zone(&mut io)
                    }
                };
            }
        }
    }
    let _ = out().flush();
}
