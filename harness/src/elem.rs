//! The element kinds of the protocol: `Tracked` (t), `Plain` (p), `u8` (b), `Zst` (z), `()` (u).

use crate::ledger::*;
use crate::ops::{self, Fam, OpRes};
use circular_buffer::CircularBuffer;
use std::cmp::Ordering;
use std::fmt;
use std::hash::{Hash, Hasher};
use std::marker::PhantomData;

pub trait Elem:
    Sized + Clone + PartialEq + Eq + PartialOrd + Ord + Hash + fmt::Debug + 'static
{
    #[allow(dead_code)]
    const KIND: u8;
    /// elements of this kind have an identity (`id` field, live set, zombie detection)
    const HAS_ID: bool = false;
    /// element created by the caller and handed to the crate (`G` event)
    fn given(val: u32) -> Self;
    /// element created by a closure / iterator (val = id)
    fn produced() -> Self;
    /// source element: consumes an id, no event
    fn silent(val: u32) -> Self;
    /// bitwise `(id, val)` of the element behind `p` (no trait impl involved)
    unsafe fn raw(p: *const Self) -> (u32, u32);
    /// `val += 1000`
    fn bump(&mut self);
    /// the crate returned this element by value to the caller
    fn on_return(&self) {}
    /// scribble a decoy over an unoccupied slot
    unsafe fn write_decoy(p: *mut Self, slot: usize);
    /// turn the `Debug` output of a list of elements into the model's notation
    fn fix_debug(s: &str, out: &mut String) {
        out.extend(s.chars().filter(|c| *c != ' ' && *c != '\n'));
    }

    /// `from_array`; `None` = not supported for this kind / these sizes
    fn from_array<const N: usize>(_vals: &[u32]) -> Option<Result<CircularBuffer<N, Self>, ()>> {
        None
    }
    /// `eq M r v…`; `false` = not supported
    fn eq_other<const N: usize>(
        buf: &CircularBuffer<N, Self>,
        m: usize,
        r: usize,
        vals: &[u32],
        ret: &mut String,
    ) -> bool {
        if m == N {
            ops::eq_nm::<N, N, Self>(buf, r, vals, ret);
            true
        } else {
            false
        }
    }
    /// `cmp M r v…`; `false` = not supported
    fn cmp_other<const N: usize>(
        buf: &CircularBuffer<N, Self>,
        m: usize,
        r: usize,
        vals: &[u32],
        ret: &mut String,
    ) -> bool {
        if m == N {
            ops::cmp_nm::<N, N, Self>(
                buf,
                r,
                vals,
                ret,
                Some(|a: &CircularBuffer<N, Self>, b: &CircularBuffer<N, Self>| Ord::cmp(a, b)),
            );
            true
        } else {
            false
        }
    }
    /// `fill_all` (kind u only): a completely full buffer, built in O(1)
    fn full_buffer<const N: usize>() -> Option<CircularBuffer<N, Self>> {
        None
    }
    /// byte I/O (`write read fill_buf consume flush`)
    fn io_op<const N: usize>(
        _buf: &mut CircularBuffer<N, Self>,
        _fam: Fam,
        _toks: &[&str],
        _ret: &mut String,
    ) -> OpRes {
        OpRes::Bare
    }
}

// ---------------------------------------------------------------------------------------------
// Tracked (t) and Plain (p): elements with an identity; only Tracked has a destructor
// ---------------------------------------------------------------------------------------------

#[repr(C)]
pub struct Tracked {
    pub id: u32,
    pub val: u32,
}

/// like `Tracked` but without a `Drop` impl: `mem::needs_drop::<Plain>()` is false
#[repr(C)]
pub struct Plain {
    pub id: u32,
    pub val: u32,
}

impl Drop for Tracked {
    fn drop(&mut self) {
        let prev = count_off();
        let id = self.id;
        if silent() {
            // disposal by the harness itself
            unset_live(id);
            count_restore(prev);
            return;
        }
        if !is_live(id) {
            // zombie: already destroyed, handed out to the caller, a decoy or garbage.
            // Never crash here.
            ev_zombie(id, "drop");
            count_restore(prev);
            return;
        }
        unset_live(id);
        ev_drop(id);
        if tick(F_DROP) {
            panic!("INJECTED:drop");
        }
        count_restore(prev);
    }
}

macro_rules! identity_elem {
    ($T:ident, $kind:literal) => {
        impl $T {
            #[inline]
            fn make(val: Option<u32>) -> $T {
                let id = fresh_id();
                set_live(id);
                $T {
                    id,
                    val: val.unwrap_or(id),
                }
            }

            #[inline]
            fn compare(&self, other: &Self) -> Ordering {
                let prev = count_off();
                if !silent() {
                    if !is_live(self.id) {
                        ev_zombie(self.id, "cmp");
                    }
                    if !is_live(other.id) {
                        ev_zombie(other.id, "cmp");
                    }
                    ev_cmp(self.id, other.id);
                }
                count_restore(prev);
                self.val.cmp(&other.val)
            }
        }

        impl Clone for $T {
            fn clone(&self) -> Self {
                let prev = count_off();
                if silent() {
                    let t = $T::make(Some(self.val));
                    count_restore(prev);
                    return t;
                }
                if !is_live(self.id) {
                    ev_zombie(self.id, "clone");
                }
                if tick(F_CLONE) {
                    panic!("INJECTED:clone");
                }
                let t = $T::make(Some(self.val));
                ev_clone(t.id, self.id);
                count_restore(prev);
                t
            }
        }

        impl PartialEq for $T {
            fn eq(&self, other: &Self) -> bool {
                let prev = count_off();
                if !silent() {
                    if !is_live(self.id) {
                        ev_zombie(self.id, "eq");
                    }
                    if !is_live(other.id) {
                        ev_zombie(other.id, "eq");
                    }
                    ev_cmp(self.id, other.id);
                    if tick(F_EQ) {
                        panic!("INJECTED:eq");
                    }
                }
                count_restore(prev);
                self.val == other.val
            }
        }

        impl Eq for $T {}

        impl PartialOrd for $T {
            fn partial_cmp(&self, other: &Self) -> Option<Ordering> {
                Some(self.compare(other))
            }
        }

        impl Ord for $T {
            fn cmp(&self, other: &Self) -> Ordering {
                self.compare(other)
            }
        }

        impl Hash for $T {
            fn hash<H: Hasher>(&self, state: &mut H) {
                let prev = count_off();
                if !silent() {
                    if !is_live(self.id) {
                        ev_zombie(self.id, "hash");
                    }
                    ev_hash(self.id);
                }
                count_restore(prev);
                state.write_u32(self.val);
            }
        }

        impl fmt::Debug for $T {
            fn fmt(&self, f: &mut fmt::Formatter<'_>) -> fmt::Result {
                let prev = count_off();
                if !silent() {
                    if !is_live(self.id) {
                        ev_zombie(self.id, "fmt");
                    }
                    ev_fmt(self.id);
                }
                let r = write!(f, "T{}:{}", self.id, self.val);
                count_restore(prev);
                r
            }
        }

        impl Elem for $T {
            const KIND: u8 = $kind;
            const HAS_ID: bool = true;

            fn given(val: u32) -> Self {
                let t = $T::make(Some(val));
                ev_given(t.id);
                t
            }
            fn produced() -> Self {
                let t = $T::make(None);
                ev_given(t.id);
                t
            }
            fn silent(val: u32) -> Self {
                $T::make(Some(val))
            }
            #[inline]
            unsafe fn raw(p: *const Self) -> (u32, u32) {
                let q = p as *const u32;
                (q.read_volatile(), q.add(1).read_volatile())
            }
            #[inline]
            fn bump(&mut self) {
                self.val = self.val.wrapping_add(1000);
            }
            fn on_return(&self) {
                if !is_live(self.id) {
                    ev_zombie(self.id, "ret");
                }
                set_held(self.id);
            }
            unsafe fn write_decoy(p: *mut Self, slot: usize) {
                std::ptr::write(
                    p,
                    $T {
                        id: 900000u32.wrapping_add(slot as u32),
                        val: 7,
                    },
                );
            }

            fn from_array<const N: usize>(
                vals: &[u32],
            ) -> Option<Result<CircularBuffer<N, Self>, ()>> {
                ops::from_array_table::<N, Self>(vals)
            }
            fn eq_other<const N: usize>(
                buf: &CircularBuffer<N, Self>,
                m: usize,
                r: usize,
                vals: &[u32],
                ret: &mut String,
            ) -> bool {
                ops::eq_table::<N, Self>(buf, m, r, vals, ret)
            }
            fn cmp_other<const N: usize>(
                buf: &CircularBuffer<N, Self>,
                m: usize,
                r: usize,
                vals: &[u32],
                ret: &mut String,
            ) -> bool {
                ops::cmp_table::<N, Self>(buf, m, r, vals, ret)
            }
        }
    };
}

identity_elem!(Tracked, b't');
identity_elem!(Plain, b'p');

// ---------------------------------------------------------------------------------------------
// u8
// ---------------------------------------------------------------------------------------------

impl Elem for u8 {
    const KIND: u8 = b'b';

    fn given(val: u32) -> Self {
        val as u8
    }
    fn produced() -> Self {
        0
    }
    fn silent(val: u32) -> Self {
        val as u8
    }
    #[inline]
    unsafe fn raw(p: *const Self) -> (u32, u32) {
        (0, p.read_volatile() as u32)
    }
    #[inline]
    fn bump(&mut self) {
        *self = self.wrapping_add((1000u32 % 256) as u8);
    }
    unsafe fn write_decoy(p: *mut Self, _slot: usize) {
        std::ptr::write(p, 7);
    }
    fn fix_debug(s: &str, out: &mut String) {
        // `[1, 2]` -> `[T0:1,T0:2]`
        let t: String = s.chars().filter(|c| *c != ' ' && *c != '\n').collect();
        let inner = t.trim_start_matches('[').trim_end_matches(']');
        out.push('[');
        let mut first = true;
        for part in inner.split(',').filter(|p| !p.is_empty()) {
            if !first {
                out.push(',');
            }
            first = false;
            out.push_str("T0:");
            out.push_str(part);
        }
        out.push(']');
    }
    fn io_op<const N: usize>(
        buf: &mut CircularBuffer<N, Self>,
        fam: Fam,
        toks: &[&str],
        ret: &mut String,
    ) -> OpRes {
        crate::bytesio::io_u8::<N>(buf, fam, toks, ret)
    }
}

// ---------------------------------------------------------------------------------------------
// Zst
// ---------------------------------------------------------------------------------------------

/// zero-sized element with a destructor; every event carries id 0
pub struct Zst;

impl Drop for Zst {
    fn drop(&mut self) {
        let prev = count_off();
        if silent() {
            count_restore(prev);
            return;
        }
        ev_drop(0);
        if tick(F_DROP) {
            panic!("INJECTED:drop");
        }
        count_restore(prev);
    }
}

impl Clone for Zst {
    fn clone(&self) -> Self {
        let prev = count_off();
        if !silent() && tick(F_CLONE) {
            panic!("INJECTED:clone");
        }
        count_restore(prev);
        Zst
    }
}

impl PartialEq for Zst {
    fn eq(&self, _other: &Self) -> bool {
        let prev = count_off();
        if !silent() {
            ev_cmp(0, 0);
            if tick(F_EQ) {
                panic!("INJECTED:eq");
            }
        }
        count_restore(prev);
        true
    }
}
impl Eq for Zst {}

impl PartialOrd for Zst {
    fn partial_cmp(&self, _other: &Self) -> Option<Ordering> {
        let prev = count_off();
        if !silent() {
            ev_cmp(0, 0);
        }
        count_restore(prev);
        Some(Ordering::Equal)
    }
}
impl Ord for Zst {
    fn cmp(&self, _other: &Self) -> Ordering {
        let prev = count_off();
        if !silent() {
            ev_cmp(0, 0);
        }
        count_restore(prev);
        Ordering::Equal
    }
}

impl Hash for Zst {
    fn hash<H: Hasher>(&self, state: &mut H) {
        let prev = count_off();
        if !silent() {
            ev_hash(0);
        }
        count_restore(prev);
        state.write_u32(0);
    }
}

impl fmt::Debug for Zst {
    fn fmt(&self, f: &mut fmt::Formatter<'_>) -> fmt::Result {
        let prev = count_off();
        if !silent() {
            ev_fmt(0);
        }
        let r = f.write_str("T0:0");
        count_restore(prev);
        r
    }
}

impl Elem for Zst {
    const KIND: u8 = b'z';

    fn given(_val: u32) -> Self {
        ev_given(0);
        Zst
    }
    fn produced() -> Self {
        // the model records no event for closure / iterator items of the id-less kinds
        Zst
    }
    fn silent(_val: u32) -> Self {
        Zst
    }
    #[inline]
    unsafe fn raw(_p: *const Self) -> (u32, u32) {
        (0, 0)
    }
    #[inline]
    fn bump(&mut self) {}
    unsafe fn write_decoy(_p: *mut Self, _slot: usize) {}
}

// ---------------------------------------------------------------------------------------------
// () (u): no identity, no destructor, zero-sized, no events
// ---------------------------------------------------------------------------------------------

impl Elem for () {
    const KIND: u8 = b'u';

    fn given(_val: u32) -> Self {}
    fn produced() -> Self {}
    fn silent(_val: u32) -> Self {}
    #[inline]
    unsafe fn raw(_p: *const Self) -> (u32, u32) {
        (0, 0)
    }
    #[inline]
    fn bump(&mut self) {}
    unsafe fn write_decoy(_p: *mut Self, _slot: usize) {}
    fn fix_debug(s: &str, out: &mut String) {
        // `[(), ()]` -> `[T0:0,T0:0]`
        let n = s.matches("()").count();
        out.push('[');
        for i in 0..n {
            if i > 0 {
                out.push(',');
            }
            out.push_str("T0:0");
        }
        out.push(']');
    }
    fn full_buffer<const N: usize>() -> Option<CircularBuffer<N, Self>> {
        Some(CircularBuffer::<N, ()>::from([(); N]))
    }
}

// ---------------------------------------------------------------------------------------------
// user code handed to the crate: closure body and lazy iterator
// ---------------------------------------------------------------------------------------------

/// body of the closure given to `fill_with` / `fill_spare_with`
pub fn closure_call<T: Elem>() -> T {
    let prev = count_off();
    if tick(F_CALL) {
        panic!("INJECTED:call");
    }
    let e = T::produced();
    count_restore(prev);
    e
}

/// lazy iterator creating `left` brand-new elements, one per `next`
pub struct Gen<T> {
    left: usize,
    /// which (always truthful) `size_hint` the source reports: 0 = unknown `(0, None)`, 1 = exact,
    /// 2 = loose `(left / 2, Some(2 * left + 3))`.  Chosen from the length, so a script replays exactly.
    /// A correct consumer behaves the same under all three (seeded change C12-H: `from_iter` taking the
    /// upper bound for the length).
    hint: u8,
    _p: PhantomData<T>,
}

impl<T> Gen<T> {
    pub fn new(m: usize) -> Self {
        Gen {
            left: m,
            hint: (m % 3) as u8,
            _p: PhantomData,
        }
    }
}

impl<T: Elem> Iterator for Gen<T> {
    type Item = T;
    fn next(&mut self) -> Option<T> {
        let prev = count_off();
        if tick(F_NEXT) {
            panic!("INJECTED:next");
        }
        let r = if self.left > 0 {
            self.left -= 1;
            Some(T::produced())
        } else {
            None
        };
        count_restore(prev);
        r
    }
    fn size_hint(&self) -> (usize, Option<usize>) {
        match self.hint {
            0 => (0, None),
            1 => (self.left, Some(self.left)),
            _ => (self.left / 2, Some(2 * self.left + 3)),
        }
    }
}
